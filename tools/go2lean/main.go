// go2lean: tie T1.  Regenerates Lean definitions from /repo's CURRENT source.
//
//   - functions: a deliberately tiny, purely syntactic Go subset (if/else, switch with returns,
//     :=/=/op= on locals, integer/boolean/comparison expressions, integer casts, reads of struct
//     fields of the receiver / pointer params, calls to other translated functions).  Integer
//     arithmetic is emitted with explicit wrap (wrapU64 …) so the model has the machine semantics.
//     float64 values are only ever compared, and are emitted as Rat.
//   - consts: values of const blocks (iota supported)
//   - callorder / facts: ordered list of callee names inside a function body (protocol step order)
//
// Anything outside the subset is reported as "UNSUPPORTED <target>: reason" on stdout and the
// target is emitted as a comment only; the runner then falls back to tie T2 for that kernel.
package main

import (
	"encoding/json"
	"flag"
	"fmt"
	"go/ast"
	"go/parser"
	"go/printer"
	"go/token"
	"math/big"
	"os"
	"path/filepath"
	"reflect"
	"sort"
	"strings"
)

type FuncTarget struct {
	File   string            `json:"file"`
	Recv   string            `json:"recv"`
	Name   string            `json:"name"`
	Module string            `json:"module"`
	As     string            `json:"as"`    // Lean name (default Name or Recv_Name)
	Types  map[string]string `json:"types"` // named type → builtin kind (e.g. "sutils.FilterOperator":"int")
	Consts map[string]string `json:"consts"` // selector constants → Lean names, e.g. "sutils.Equals":"FilterOperator_Equals"
	Calls  map[string]string `json:"calls"`  // calls to other translated kernels: Go callee → "LeanName:resultKind", e.g. "utils.IsTimeInNano":"IsTimeInNano:bool"
	// --- extensions used by the bin/aligntime kernel (C04): all opt-in per target
	Import     string            `json:"import"`     // extra Lean module imported by the generated module (hand-written primitives)
	Methods    map[string]string `json:"methods"`    // method calls recv.M(args): "M" → "LeanName:resultKind"; the receiver is passed as the first argument
	ExactFloat bool              `json:"exactFloat"` // float64 +,-,*,/ , math.Floor, float64(int), int(float) are emitted as EXACT rational arithmetic (Rat); sound only
	// where the caller's theorems/guards keep every intermediate value exactly representable (stated in the property's trusted base)
}
type ConstTarget struct {
	File   string   `json:"file"`
	Type   string   `json:"type"`  // all consts of this named type (iota blocks), emitted as <Type>_<Name>
	Names  []string `json:"names"` // or explicit names
	Module string   `json:"module"`
}
type CallOrderTarget struct {
	File   string   `json:"file"`
	Recv   string   `json:"recv"`
	Func   string   `json:"func"`
	Key    string   `json:"key"`
	Only   []string `json:"only"` // keep only these callee names (in order of appearance)
}
type LitTarget struct { // literal operands compared/assigned in a function: e.g. all integer literals in order
	File string `json:"file"`
	Recv string `json:"recv"`
	Func string `json:"func"`
	Key  string `json:"key"`
}
type StructLitTarget struct { // the key=value elements of every composite literal of a named type inside a function
	File string `json:"file"`
	Recv string `json:"recv"`
	Func string `json:"func"`
	Type string   `json:"type"` // e.g. "structs.SegMeta"
	Key  string   `json:"key"`
	Stop []string `json:"stop"` // callees NOT to look into (protocol functions with a fact of their own)
	// C06 (flag table of the DataProcessor constructors): Values: literals, identifiers and !identifier are kept as written
	// ("false", "\"bin\""; a negated local as "!local") instead of being normalised to "local"; Fields: keep only these keys of the literal
	Values bool     `json:"values"`
	Fields []string `json:"fields"`
}
type Spec struct {
	Functions []FuncTarget      `json:"functions"`
	Consts    []ConstTarget     `json:"consts"`
	CallOrder []CallOrderTarget `json:"callorder"`
	Literals  []LitTarget       `json:"literals"`
	StructLits []StructLitTarget `json:"structlits"`
	PkgVars    []PkgVarTarget    `json:"pkgvars"` // pkgvars.go
}

var fset = token.NewFileSet()
var parsed = map[string]*ast.File{}

func parseFile(repo, rel string) (*ast.File, error) {
	p := filepath.Join(repo, rel)
	if f, ok := parsed[p]; ok {
		return f, nil
	}
	f, err := parser.ParseFile(fset, p, nil, parser.ParseComments)
	if err != nil {
		return nil, err
	}
	parsed[p] = f
	return f, nil
}

type unsupported struct{ msg string }

func fail(format string, a ...interface{}) { panic(unsupported{fmt.Sprintf(format, a...)}) }

var intKinds = map[string]string{
	"uint8": "U8", "byte": "U8", "uint16": "U16", "uint32": "U32", "uint64": "U64", "uint": "U64",
	"int8": "S8", "int16": "S16", "int32": "S32", "int64": "S64", "int": "S64",
}

type tr struct {
	t      *FuncTarget
	file   *ast.File
	vars   map[string]string // local/param → kind ("U64", "S32", "bool", "float", "untyped")
	params []string          // lean params in order "(name : T)"
	fields map[string]map[string]string
	ver    map[string]int
	optRes bool // function returns (T, error): emitted as Option T (nil error → some, anything else → none)
	ptr    map[string]bool // pointer parameters of a scalar type: emitted as (name_nil : Bool) (name : T); `name == nil` reads name_nil
}

func (x *tr) kindOfType(e ast.Expr) string {
	switch v := e.(type) {
	case *ast.Ident:
		if k, ok := intKinds[v.Name]; ok {
			return k
		}
		if v.Name == "bool" {
			return "bool"
		}
		if v.Name == "float64" || v.Name == "float32" {
			return "float"
		}
		if v.Name == "opaque" { // a value that is only handed to the primitives named in "methods"/"calls" (e.g. time.Time)
			return "opaque"
		}
		if k, ok := x.t.Types[v.Name]; ok {
			return x.kindOfType(ast.NewIdent(k))
		}
		if _, ok := x.fields[v.Name]; ok {
			return "struct:" + v.Name
		}
	case *ast.SelectorExpr:
		name := exprStr(v)
		if k, ok := x.t.Types[name]; ok {
			return x.kindOfType(ast.NewIdent(k))
		}
	case *ast.StarExpr:
		return x.kindOfType(v.X)
	}
	fail("type %s not in subset", exprStr(e))
	return ""
}

func exprStr(e ast.Expr) string {
	switch v := e.(type) {
	case *ast.Ident:
		return v.Name
	case *ast.SelectorExpr:
		return exprStr(v.X) + "." + v.Sel.Name
	case *ast.StarExpr:
		return "*" + exprStr(v.X)
	case *ast.BasicLit:
		return v.Value
	}
	return fmt.Sprintf("%T", e)
}

func leanTy(kind string) string {
	switch kind {
	case "bool":
		return "Bool"
	case "float":
		return "Rat"
	}
	return "Int"
}

func litValue(s string) (string, bool) {
	s = strings.ReplaceAll(s, "_", "")
	if i, ok := new(big.Int).SetString(s, 0); ok {
		return i.String(), true
	}
	if f, ok := new(big.Float).SetPrec(200).SetString(s); ok {
		if i, acc := f.Int(nil); acc == big.Exact {
			return i.String(), true
		}
		r, _ := f.Rat(nil)
		return "(" + r.Num().String() + " / " + r.Denom().String() + " : Rat)", false
	}
	fail("literal %s", s)
	return "", false
}

// returns lean expr and kind
func (x *tr) expr(e ast.Expr) (string, string) {
	switch v := e.(type) {
	case *ast.ParenExpr:
		s, k := x.expr(v.X)
		return "(" + s + ")", k
	case *ast.BasicLit:
		if v.Kind == token.INT || v.Kind == token.FLOAT {
			s, isInt := litValue(v.Value)
			if isInt {
				return s, "untyped"
			}
			return s, "float"
		}
		fail("literal kind %v", v.Kind)
	case *ast.Ident:
		if v.Name == "true" || v.Name == "false" {
			return v.Name, "bool"
		}
		if k, ok := x.vars[v.Name]; ok {
			return x.cur(v.Name), k
		}
		if ln, ok := x.t.Consts[v.Name]; ok {
			return ln, "untyped"
		}
		fail("identifier %s unknown", v.Name)
	case *ast.SelectorExpr:
		name := exprStr(v)
		if ln, ok := x.t.Consts[name]; ok {
			return ln, "untyped"
		}
		if id, ok := v.X.(*ast.Ident); ok {
			if k, ok := x.vars[id.Name]; ok && strings.HasPrefix(k, "struct:") {
				fk, ok := x.fields[strings.TrimPrefix(k, "struct:")][v.Sel.Name]
				if !ok {
					fail("field %s", name)
				}
				return id.Name + "_" + v.Sel.Name, fk
			}
		}
		fail("selector %s", name)
	case *ast.StarExpr:
		return x.expr(v.X)
	case *ast.UnaryExpr:
		s, k := x.expr(v.X)
		switch v.Op {
		case token.NOT:
			return "(!" + s + ")", "bool"
		case token.SUB:
			return x.wrap(k, "(-"+s+")"), k
		}
		fail("unary %v", v.Op)
	case *ast.CallExpr:
		// cast?
		if len(v.Args) == 1 {
			fname := exprStr(v.Fun)
			k, isInt := intKinds[fname]
			if !isInt {
				if tk, ok := x.t.Types[fname]; ok {
					k, isInt = intKinds[tk]
				}
			}
			if _, isId := v.Fun.(*ast.Ident); !isId {
				if _, isSel := v.Fun.(*ast.SelectorExpr); !isSel {
					isInt = false
				}
			}
			if isInt {
				s, ak := x.expr(v.Args[0])
				if ak == "float" && x.t.ExactFloat {
					// Go: conversion of a float to an integer type discards the fraction (truncation toward zero)
					return "(wrap" + k + " (SigModel.TimePrims.ratTrunc " + s + "))", k
				}
				if ak == "float" || ak == "bool" || ak == "opaque" {
					fail("cast from %s", ak)
				}
				return "(wrap" + k + " " + s + ")", k
			}
			if (fname == "float64") && x.t.ExactFloat {
				s, ak := x.expr(v.Args[0])
				if ak == "float" {
					return s, "float"
				}
				if ak == "bool" || ak == "opaque" {
					fail("cast from %s", ak)
				}
				return "((" + s + " : Int) : Rat)", "float"
			}
			if fname == "math.Floor" && x.t.ExactFloat {
				s, ak := x.expr(v.Args[0])
				if ak != "float" {
					fail("math.Floor of %s", ak)
				}
				return "((Rat.floor " + s + " : Int) : Rat)", "float"
			}
		}
		if spec, ok := x.t.Calls[exprStr(v.Fun)]; ok {
			parts := strings.SplitN(spec, ":", 2)
			if len(parts) != 2 {
				fail("calls entry %q must be LeanName:kind", spec)
			}
			out := "(" + parts[0]
			for _, a := range v.Args {
				s, k := x.expr(a)
				if (k == "float" && !x.t.ExactFloat) || k == "bool" {
					fail("call argument of kind %s", k)
				}
				out += " " + s
			}
			return out + ")", parts[1]
		}
		if se, ok := v.Fun.(*ast.SelectorExpr); ok {
			if spec, ok := x.t.Methods[se.Sel.Name]; ok {
				parts := strings.SplitN(spec, ":", 2)
				if len(parts) != 2 {
					fail("methods entry %q must be LeanName:kind", spec)
				}
				rs, rk := x.expr(se.X)
				if rk == "bool" || rk == "float" {
					fail("method receiver of kind %s", rk)
				}
				out := "(" + parts[0] + " " + rs
				for _, a := range v.Args {
					s, k := x.expr(a)
					if k == "float" || k == "bool" {
						fail("method argument of kind %s", k)
					}
					out += " " + s
				}
				return out + ")", parts[1]
			}
		}
		fail("call %s", exprStr(v.Fun))
	case *ast.BinaryExpr:
		if yid, ok := v.Y.(*ast.Ident); ok && yid.Name == "nil" && (v.Op == token.EQL || v.Op == token.NEQ) {
			if xid, ok := v.X.(*ast.Ident); ok && x.ptr[xid.Name] {
				if v.Op == token.EQL {
					return xid.Name + "_nil", "bool"
				}
				return "(!" + xid.Name + "_nil)", "bool"
			}
			fail("comparison of %s with nil", exprStr(v.X))
		}
		a, ka := x.expr(v.X)
		b, kb := x.expr(v.Y)
		k := ka
		if ka == "untyped" {
			k = kb
		}
		if ka != kb && ka != "untyped" && kb != "untyped" {
			fail("mixed kinds %s %s in %s", ka, kb, v.Op)
		}
		if k == "opaque" {
			fail("operator %s on an opaque value", v.Op)
		}
		if k == "float" { // untyped integer literal in float context
			if ka == "untyped" {
				a = "(" + a + " : Rat)"
			}
			if kb == "untyped" {
				b = "(" + b + " : Rat)"
			}
		}
		switch v.Op {
		case token.LAND:
			return "(" + a + " && " + b + ")", "bool"
		case token.LOR:
			return "(" + a + " || " + b + ")", "bool"
		case token.EQL, token.NEQ, token.LSS, token.LEQ, token.GTR, token.GEQ:
			if k == "bool" {
				if v.Op == token.EQL {
					return "(" + a + " == " + b + ")", "bool"
				}
				if v.Op == token.NEQ {
					return "(" + a + " != " + b + ")", "bool"
				}
				fail("ordered compare on bool")
			}
			op := map[token.Token]string{token.EQL: "=", token.NEQ: "≠", token.LSS: "<", token.LEQ: "≤", token.GTR: ">", token.GEQ: "≥"}[v.Op]
			return "(decide (" + a + " " + op + " " + b + "))", "bool"
		case token.ADD, token.SUB, token.MUL:
			if k == "float" && x.t.ExactFloat {
				op := map[token.Token]string{token.ADD: "+", token.SUB: "-", token.MUL: "*"}[v.Op]
				return "(" + a + " " + op + " " + b + ")", "float"
			}
			if k == "float" || k == "bool" {
				fail("arithmetic on %s", k)
			}
			op := map[token.Token]string{token.ADD: "+", token.SUB: "-", token.MUL: "*"}[v.Op]
			return x.wrap(k, "("+a+" "+op+" "+b+")"), k
		case token.QUO:
			if k == "float" && x.t.ExactFloat {
				return "(" + a + " / " + b + ")", "float"
			}
			if k == "float" || k == "bool" {
				fail("division on %s", k)
			}
			return x.wrap(k, "(Int.tdiv "+a+" "+b+")"), k
		case token.REM:
			if k == "float" || k == "bool" {
				fail("rem on %s", k)
			}
			return "(Int.tmod " + a + " " + b + ")", k
		}
		fail("binary %v", v.Op)
	}
	fail("expression %T", e)
	return "", ""
}

func (x *tr) wrap(kind, s string) string {
	if kind == "untyped" {
		return s
	}
	return "(wrap" + kind + " " + s + ")"
}

func (x *tr) cur(name string) string {
	if n := x.ver[name]; n > 0 {
		return fmt.Sprintf("%s_%d", name, n)
	}
	return name
}

// does the statement list always return?
func returns(stmts []ast.Stmt) bool {
	if len(stmts) == 0 {
		return false
	}
	switch v := stmts[len(stmts)-1].(type) {
	case *ast.ReturnStmt:
		return true
	case *ast.BlockStmt:
		return returns(v.List)
	case *ast.IfStmt:
		if v.Else == nil {
			return false
		}
		var el []ast.Stmt
		switch e := v.Else.(type) {
		case *ast.BlockStmt:
			el = e.List
		case *ast.IfStmt:
			el = []ast.Stmt{e}
		}
		return returns(v.Body.List) && returns(el)
	case *ast.SwitchStmt:
		hasDefault := false
		for _, c := range v.Body.List {
			cc := c.(*ast.CaseClause)
			if cc.List == nil {
				hasDefault = true
			}
			if !returns(cc.Body) {
				return false
			}
		}
		return hasDefault
	}
	return false
}

// translate statements followed by continuation `rest` (already-translated stmts that follow)
func (x *tr) stmts(list []ast.Stmt, ind string) string {
	if len(list) == 0 {
		fail("function may fall off the end without return")
	}
	s := list[0]
	rest := list[1:]
	switch v := s.(type) {
	case *ast.ReturnStmt:
		if x.optRes {
			if len(v.Results) != 2 {
				fail("return with %d results in a (T, error) function", len(v.Results))
			}
			if id, ok := v.Results[1].(*ast.Ident); ok && id.Name == "nil" {
				e, _ := x.expr(v.Results[0])
				return "(some " + e + ")"
			}
			return "none"
		}
		if len(v.Results) != 1 {
			fail("return with %d results", len(v.Results))
		}
		e, _ := x.expr(v.Results[0])
		return e
	case *ast.BlockStmt:
		return x.stmts(append(append([]ast.Stmt{}, v.List...), rest...), ind)
	case *ast.DeclStmt:
		gd := v.Decl.(*ast.GenDecl)
		if gd.Tok != token.VAR {
			fail("decl %v", gd.Tok)
		}
		out := ""
		for _, sp := range gd.Specs {
			vs := sp.(*ast.ValueSpec)
			for i, n := range vs.Names {
				var val, k string
				if vs.Type != nil {
					k = x.kindOfType(vs.Type)
				}
				if len(vs.Values) > i {
					var kk string
					val, kk = x.expr(vs.Values[i])
					if k == "" {
						k = kk
					}
				} else if k == "bool" {
					val = "false"
				} else {
					val = "0"
				}
				x.vars[n.Name] = k
				x.ver[n.Name] = x.ver[n.Name] + 0
				out += fmt.Sprintf("let %s : %s := %s\n%s", x.cur(n.Name), leanTy(k), val, ind)
			}
		}
		return out + x.stmts(rest, ind)
	case *ast.AssignStmt:
		if len(v.Lhs) != 1 || len(v.Rhs) != 1 {
			fail("multi-assign")
		}
		id, ok := v.Lhs[0].(*ast.Ident)
		if !ok {
			fail("assignment to non-local %s", exprStr(v.Lhs[0]))
		}
		var val, k string
		switch v.Tok {
		case token.DEFINE:
			val, k = x.expr(v.Rhs[0])
			if k == "untyped" {
				k = "S64"
			}
			x.vars[id.Name] = k
		case token.ASSIGN:
			val, _ = x.expr(v.Rhs[0])
			k = x.vars[id.Name]
			if k == "" {
				fail("assign to unknown %s", id.Name)
			}
			if strings.HasPrefix(k, "struct:") {
				fail("assign to struct")
			}
		case token.ADD_ASSIGN, token.SUB_ASSIGN, token.MUL_ASSIGN:
			op := map[token.Token]token.Token{token.ADD_ASSIGN: token.ADD, token.SUB_ASSIGN: token.SUB, token.MUL_ASSIGN: token.MUL}[v.Tok]
			val, _ = x.expr(&ast.BinaryExpr{X: id, Op: op, Y: v.Rhs[0]})
			k = x.vars[id.Name]
		default:
			fail("assign op %v", v.Tok)
		}
		if v.Tok != token.DEFINE {
			x.ver[id.Name]++
		}
		return fmt.Sprintf("let %s : %s := %s\n%s", x.cur(id.Name), leanTy(k), val, ind) + x.stmts(rest, ind)
	case *ast.IfStmt:
		if v.Init != nil {
			fail("if with init")
		}
		c, _ := x.expr(v.Cond)
		var el []ast.Stmt
		switch e := v.Else.(type) {
		case *ast.BlockStmt:
			el = e.List
		case *ast.IfStmt:
			el = []ast.Stmt{e}
		}
		// a branch that does not return falls through to the statements after the if: the
		// continuation is duplicated into that branch
		thList := v.Body.List
		if !returns(thList) {
			thList = append(append([]ast.Stmt{}, thList...), rest...)
		}
		if v.Else != nil && !returns(el) {
			el = append(append([]ast.Stmt{}, el...), rest...)
		}
		saved := x.snapshot()
		th := x.stmts(thList, ind+"  ")
		x.restore(saved)
		var els string
		if v.Else != nil {
			els = x.stmts(el, ind+"  ")
			x.restore(saved)
		} else {
			els = x.stmts(rest, ind+"  ")
		}
		return fmt.Sprintf("if %s then\n%s  %s\n%selse\n%s  %s", c, ind, th, ind, ind, els)
	case *ast.SwitchStmt:
		if v.Init != nil {
			fail("switch with init")
		}
		var tag string
		if v.Tag != nil {
			tag, _ = x.expr(v.Tag)
		}
		var def []ast.Stmt
		hasDef := false
		type cl struct {
			cond string
			body []ast.Stmt
		}
		var cls []cl
		for _, c := range v.Body.List {
			cc := c.(*ast.CaseClause)
			if cc.List == nil {
				def = cc.Body
				hasDef = true
				continue
			}
			var conds []string
			for _, ce := range cc.List {
				s, _ := x.expr(ce)
				if v.Tag != nil {
					conds = append(conds, "(decide ("+tag+" = "+s+"))")
				} else {
					conds = append(conds, s)
				}
			}
			if !returns(cc.Body) {
				fail("switch case that does not return")
			}
			cls = append(cls, cl{strings.Join(conds, " || "), cc.Body})
		}
		if hasDef && !returns(def) {
			fail("switch default that does not return")
		}
		saved := x.snapshot()
		out := ""
		for _, c := range cls {
			b := x.stmts(c.body, ind+"  ")
			x.restore(saved)
			out += fmt.Sprintf("if %s then\n%s  %s\n%selse ", c.cond, ind, b, ind)
		}
		if hasDef {
			out += "\n" + ind + "  " + x.stmts(def, ind+"  ")
		} else {
			out += "\n" + ind + "  " + x.stmts(rest, ind+"  ")
		}
		return out
	}
	fail("statement %T", s)
	return ""
}

func (x *tr) snapshot() [2]map[string]string {
	a := map[string]string{}
	for k, v := range x.vars {
		a[k] = v
	}
	b := map[string]string{}
	for k, v := range x.ver {
		b[k] = fmt.Sprint(v)
	}
	return [2]map[string]string{a, b}
}
func (x *tr) restore(s [2]map[string]string) {
	x.vars = map[string]string{}
	for k, v := range s[0] {
		x.vars[k] = v
	}
	x.ver = map[string]int{}
	for k, v := range s[1] {
		var n int
		fmt.Sscan(v, &n)
		x.ver[k] = n
	}
}

// does the body of fd compare the identifier `name` with nil?  (only then a pointer parameter gets its name_nil flag)
func comparesWithNil(fd *ast.FuncDecl, name string) bool {
	found := false
	ast.Inspect(fd.Body, func(n ast.Node) bool {
		if be, ok := n.(*ast.BinaryExpr); ok && (be.Op == token.EQL || be.Op == token.NEQ) {
			xi, ok1 := be.X.(*ast.Ident)
			yi, ok2 := be.Y.(*ast.Ident)
			if ok1 && ok2 && xi.Name == name && yi.Name == "nil" {
				found = true
			}
		}
		return true
	})
	return found
}

func findFunc(f *ast.File, recv, name string) *ast.FuncDecl {
	for _, d := range f.Decls {
		fd, ok := d.(*ast.FuncDecl)
		if !ok || fd.Name.Name != name {
			continue
		}
		r := ""
		if fd.Recv != nil && len(fd.Recv.List) == 1 {
			r = strings.TrimPrefix(exprStr(fd.Recv.List[0].Type), "*")
		}
		if r == recv {
			return fd
		}
	}
	return nil
}

func structFields(f *ast.File, x *tr) map[string]map[string]string {
	res := map[string]map[string]string{}
	for _, d := range f.Decls {
		gd, ok := d.(*ast.GenDecl)
		if !ok || gd.Tok != token.TYPE {
			continue
		}
		for _, sp := range gd.Specs {
			ts := sp.(*ast.TypeSpec)
			st, ok := ts.Type.(*ast.StructType)
			if !ok {
				continue
			}
			m := map[string]string{}
			for _, fl := range st.Fields.List {
				var k string
				func() {
					defer func() { recover() }()
					k = x.kindOfType(fl.Type)
				}()
				if k == "" {
					continue
				}
				for _, n := range fl.Names {
					m[n.Name] = k
				}
			}
			res[ts.Name.Name] = m
		}
	}
	return res
}

func translate(repo string, t *FuncTarget) (lean string, err error) {
	defer func() {
		if r := recover(); r != nil {
			if u, ok := r.(unsupported); ok {
				err = fmt.Errorf("%s", u.msg)
				return
			}
			panic(r)
		}
	}()
	f, e := parseFile(repo, t.File)
	if e != nil {
		return "", e
	}
	fd := findFunc(f, t.Recv, t.Name)
	if fd == nil {
		return "", fmt.Errorf("function not found")
	}
	x := &tr{t: t, file: f, vars: map[string]string{}, ver: map[string]int{}, ptr: map[string]bool{}}
	x.fields = map[string]map[string]string{}
	x.fields = structFields(f, x)
	var params []string
	addParam := func(name string, ty ast.Expr) {
		k := x.kindOfType(ty)
		x.vars[name] = k
		if strings.HasPrefix(k, "struct:") {
			fm := x.fields[strings.TrimPrefix(k, "struct:")]
			var names []string
			for fn := range fm {
				names = append(names, fn)
			}
			sort.Strings(names)
			for _, fn := range names {
				params = append(params, fmt.Sprintf("(%s_%s : %s)", name, fn, leanTy(fm[fn])))
			}
			return
		}
		if _, isPtr := ty.(*ast.StarExpr); isPtr && comparesWithNil(fd, name) {
			x.ptr[name] = true
			params = append(params, fmt.Sprintf("(%s_nil : Bool)", name))
		}
		params = append(params, fmt.Sprintf("(%s : %s)", name, leanTy(k)))
	}
	if fd.Recv != nil {
		addParam(fd.Recv.List[0].Names[0].Name, fd.Recv.List[0].Type)
	}
	for _, p := range fd.Type.Params.List {
		for _, n := range p.Names {
			addParam(n.Name, p.Type)
		}
	}
	if fd.Type.Results != nil && len(fd.Type.Results.List) == 2 && exprStr(fd.Type.Results.List[1].Type) == "error" {
		x.optRes = true
	} else if fd.Type.Results == nil || len(fd.Type.Results.List) != 1 {
		fail("needs exactly one result (or (T, error))")
	}
	rk := x.kindOfType(fd.Type.Results.List[0].Type)
	body := x.stmts(fd.Body.List, "  ")
	resTy := leanTy(rk)
	if x.optRes {
		resTy = "Option " + resTy
	}
	name := t.As
	if name == "" {
		name = t.Name
		if t.Recv != "" {
			name = t.Recv + "_" + t.Name
		}
	}
	pos := fset.Position(fd.Pos())
	return fmt.Sprintf("/-- generated from %s:%d `%s` -/\ndef %s %s : %s :=\n  %s\n", t.File, pos.Line, t.Name, name, strings.Join(params, " "), resTy, body), nil
}

// ---- constants
func constValues(f *ast.File, typeName string, names []string) map[string]string {
	res := map[string]string{}
	want := map[string]bool{}
	for _, n := range names {
		want[n] = true
	}
	for _, d := range f.Decls {
		gd, ok := d.(*ast.GenDecl)
		if ok && gd.Tok == token.VAR {
			// named package-level vars initialised with an integer literal (`var x uint16 = 501`) or a
			// single-byte slice literal (`var X = []byte{0x02}`); only when asked for by name (C01)
			for _, sp := range gd.Specs {
				vs := sp.(*ast.ValueSpec)
				if len(vs.Names) != 1 || len(vs.Values) != 1 || !want[vs.Names[0].Name] {
					continue
				}
				e := vs.Values[0]
				if cl, ok := e.(*ast.CompositeLit); ok {
					at, isArr := cl.Type.(*ast.ArrayType)
					if !isArr || at.Len != nil || exprStr(at.Elt) != "byte" || len(cl.Elts) != 1 {
						continue
					}
					e = cl.Elts[0]
				}
				if bl, ok := e.(*ast.BasicLit); ok && bl.Kind == token.INT {
					if v, ok := evalConst(bl, 0, res); ok {
						res[vs.Names[0].Name] = v
					}
				}
			}
			continue
		}
		if !ok || gd.Tok != token.CONST {
			continue
		}
		var lastExpr ast.Expr
		lastType := ""
		for iota, sp := range gd.Specs {
			vs := sp.(*ast.ValueSpec)
			if len(vs.Values) > 0 {
				lastExpr = vs.Values[0]
				lastType = ""
				if vs.Type != nil {
					lastType = exprStr(vs.Type)
				}
			} else if vs.Type != nil {
				lastType = exprStr(vs.Type)
			}
			for _, n := range vs.Names {
				if (typeName != "" && lastType == typeName) || want[n.Name] {
					if v, ok := evalConst(lastExpr, iota, res); ok {
						res[n.Name] = v
					}
				}
			}
		}
	}
	return res
}

func evalConst(e ast.Expr, iota int, env map[string]string) (string, bool) {
	switch v := e.(type) {
	case *ast.BasicLit:
		if v.Kind == token.INT || v.Kind == token.FLOAT {
			defer func() { recover() }()
			s, _ := litValue(v.Value)
			return s, true
		}
		if v.Kind == token.STRING || v.Kind == token.CHAR {
			return v.Value, true
		}
	case *ast.Ident:
		if v.Name == "iota" {
			return fmt.Sprint(iota), true
		}
		if s, ok := env[v.Name]; ok {
			return s, true
		}
	case *ast.ParenExpr:
		return evalConst(v.X, iota, env)
	case *ast.CallExpr: // typed const: T(expr)
		if len(v.Args) == 1 {
			return evalConst(v.Args[0], iota, env)
		}
	case *ast.UnaryExpr:
		if s, ok := evalConst(v.X, iota, env); ok && v.Op == token.SUB {
			return "-" + s, true
		}
	case *ast.BinaryExpr:
		a, ok1 := evalConst(v.X, iota, env)
		b, ok2 := evalConst(v.Y, iota, env)
		if ok1 && ok2 {
			x, okx := new(big.Int).SetString(a, 10)
			y, oky := new(big.Int).SetString(b, 10)
			if okx && oky {
				switch v.Op {
				case token.ADD:
					return x.Add(x, y).String(), true
				case token.SUB:
					return x.Sub(x, y).String(), true
				case token.MUL:
					return x.Mul(x, y).String(), true
				case token.SHL:
					return x.Lsh(x, uint(y.Int64())).String(), true
				case token.QUO:
					if y.Sign() != 0 {
						return x.Quo(x, y).String(), true
					}
				}
			}
		}
	}
	return "", false
}

// ---- call order
func callOrder(fd *ast.FuncDecl, only []string) []string {
	keep := map[string]bool{}
	for _, o := range only {
		keep[o] = true
	}
	var res []string
	// optional pseudo-names in `only` (used by C10's recovery facts):
	//   "=field"  an assignment whose left-hand side is a selector ending in .field is recorded as "=field"
	//   "{for"    every for/range statement is bracketed by "{for" … "}" (loop NESTING becomes part of the fact)
	//   "return"  every return statement is recorded as "return" (C18: WHERE the error check sits between a load
	//             attempt and the assignments that record it)
	//   "=:name"  an assignment to the local variable `name` is recorded as "=:name" (C19)
	//   "continue" every continue statement (C19: which calls of a loop body sit behind the membership test)
	//   "[]=name" an assignment  name[…] = …  to the (package-level or local) map/slice `name` (C11: the insert into allSegStores)
	//   "[]name"  a READ  name[…]  (an index expression that is not the left-hand side of an assignment), or the call of a
	//             function of the same file whose body contains such a read and that is not asked for by its own name
	//             (C11: the re-check of allSegStores under the lock, wherever a refactoring puts the look-up)
	idxLhs := map[ast.Node]bool{}
	isIdx := func(n ast.Node, pre string) bool {
		ix, ok := n.(*ast.IndexExpr)
		if !ok {
			return false
		}
		id, ok := ix.X.(*ast.Ident)
		return ok && keep[pre+id.Name]
	}
	var visit func(n ast.Node) bool
	visit = func(n ast.Node) bool {
		if as, ok := n.(*ast.AssignStmt); ok {
			for _, l := range as.Lhs {
				idxLhs[l] = true
				if isIdx(l, "[]=") {
					res = append(res, "[]="+l.(*ast.IndexExpr).X.(*ast.Ident).Name)
				}
			}
		}
		if isIdx(n, "[]") && !idxLhs[n] {
			res = append(res, "[]"+n.(*ast.IndexExpr).X.(*ast.Ident).Name)
		}
		if ce, ok := n.(*ast.CallExpr); ok && callOrderFile != nil {
			if id, ok := ce.Fun.(*ast.Ident); ok && !keep[id.Name] {
				for _, name := range readsInHelper(callOrderFile, id.Name) {
					if keep["[]"+name] {
						res = append(res, "[]"+name)
					}
				}
			}
		}
		if _, ok := n.(*ast.ReturnStmt); ok && keep["return"] {
			res = append(res, "return")
		}
		if bs, ok := n.(*ast.BranchStmt); ok && bs.Tok == token.CONTINUE && keep["continue"] {
			res = append(res, "continue")
		}
		if as, ok := n.(*ast.AssignStmt); ok {
			for _, l := range as.Lhs {
				if se, ok := l.(*ast.SelectorExpr); ok && keep["="+se.Sel.Name] {
					res = append(res, "="+se.Sel.Name)
				}
				// "=:name": every assignment (:=, =, +=, …) to the LOCAL variable `name` (C19: a validated
				// name must not be re-assigned between its validation and its use)
				if id, ok := l.(*ast.Ident); ok && keep["=:"+id.Name] {
					res = append(res, "=:"+id.Name)
				}
			}
		}
		if keep["{for"] {
			var parts []ast.Node
			switch f := n.(type) {
			case *ast.ForStmt:
				parts = []ast.Node{f.Init, f.Cond, f.Post, f.Body}
			case *ast.RangeStmt:
				parts = []ast.Node{f.X, f.Body}
			}
			if parts != nil {
				res = append(res, "{for")
				for _, p := range parts {
					if p != nil && !reflect.ValueOf(p).IsNil() {
						ast.Inspect(p, visit)
					}
				}
				res = append(res, "}")
				return false
			}
		}
		if ce, ok := n.(*ast.CallExpr); ok {
			name := ""
			switch f := ce.Fun.(type) {
			case *ast.Ident:
				name = f.Name
			case *ast.SelectorExpr:
				name = f.Sel.Name
				if id, ok := f.X.(*ast.Ident); ok {
					if keep[id.Name+"."+name] {
						name = id.Name + "." + name
					}
				} else if sx, ok := f.X.(*ast.SelectorExpr); ok {
					// x.field.Method(): qualified by the field name when asked for ("rqsLock.Lock")
					if keep[sx.Sel.Name+"."+name] {
						name = sx.Sel.Name + "." + name
					}
				}
			}
			if name != "" && (len(only) == 0 || keep[name]) {
				res = append(res, name)
			}
		}
		return true
	}
	ast.Inspect(fd.Body, visit)
	return res
}

// the file of the function callOrder is working on (for the "[]name" pseudo-name: reads inside same-file helpers)
var callOrderFile *ast.File

// names of the identifiers that the top-level function `fn` of file f reads by index (x[…] not on the left of an assignment)
func readsInHelper(f *ast.File, fn string) []string {
	var res []string
	for _, d := range f.Decls {
		fd, ok := d.(*ast.FuncDecl)
		if !ok || fd.Recv != nil || fd.Body == nil || fd.Name.Name != fn {
			continue
		}
		lhs := map[ast.Node]bool{}
		seen := map[string]bool{}
		ast.Inspect(fd.Body, func(n ast.Node) bool {
			if as, ok := n.(*ast.AssignStmt); ok {
				for _, l := range as.Lhs {
					lhs[l] = true
				}
			}
			if ix, ok := n.(*ast.IndexExpr); ok && !lhs[n] {
				if id, ok := ix.X.(*ast.Ident); ok && !seen[id.Name] {
					seen[id.Name] = true
					res = append(res, id.Name)
				}
			}
			return true
		})
	}
	return res
}

// "Field=expr" for every keyed element of every composite literal of type typ that fd builds — in fd itself or in a
// function/method of the same file that fd calls (up to `follow` levels, never into the functions named in stop: a
// refactoring may move the literal into a helper) —
// in source order; a literal is preceded by one "{cond" per if/for/switch/func-literal it sits in (under which
// conditions the record is built; for a helper: nesting of the call + nesting inside the helper); literals are
// separated by "|".  Expressions are normalised: a selector on the method receiver becomes "recv.<field>", anything
// else that is not a selector chain (locals, parameters, calls) becomes "local" — the fact says WHICH RUNNING FIELD
// feeds which field of the record, not how the variables are called.
var structLitValues bool
var structLitFields map[string]bool

func structLits(file *ast.File, fd *ast.FuncDecl, typ string, follow int, stop map[string]bool) []string {
	var res []string
	recv := ""
	if fd.Recv != nil && len(fd.Recv.List) > 0 && len(fd.Recv.List[0].Names) > 0 {
		recv = fd.Recv.List[0].Names[0].Name
	}
	norm := func(e ast.Expr) string {
		if se, ok := e.(*ast.SelectorExpr); ok {
			if id, ok := se.X.(*ast.Ident); ok && id.Name == recv && recv != "" {
				return "recv." + se.Sel.Name
			}
			return exprString(e)
		}
		if structLitValues {
			// literals and true / false as written; a negated local as "!local" (the NAME of a local is not part of the fact)
			switch v := e.(type) {
			case *ast.BasicLit:
				return exprString(e)
			case *ast.Ident:
				if v.Name == "true" || v.Name == "false" {
					return v.Name
				}
			case *ast.UnaryExpr:
				if _, ok := v.X.(*ast.Ident); ok && v.Op == token.NOT {
					return "!local"
				}
			}
		}
		return "local"
	}
	var walk func(n ast.Node, depth int)
	walk = func(n ast.Node, depth int) {
		ast.Inspect(n, func(x ast.Node) bool {
			if x == nil || x == n {
				return true
			}
			switch y := x.(type) {
			case *ast.IfStmt, *ast.ForStmt, *ast.RangeStmt, *ast.SwitchStmt, *ast.TypeSwitchStmt, *ast.SelectStmt, *ast.FuncLit:
				walk(y, depth+1)
				return false
			case *ast.CallExpr:
				if follow <= 0 {
					return true
				}
				name := ""
				switch f := y.Fun.(type) {
				case *ast.Ident:
					name = f.Name
				case *ast.SelectorExpr:
					if id, ok := f.X.(*ast.Ident); ok && id.Name == recv {
						name = f.Sel.Name
					}
				}
				if name == "" || name == fd.Name.Name || stop[name] {
					return true
				}
				for _, d := range file.Decls {
					if hd, ok := d.(*ast.FuncDecl); ok && hd.Body != nil && hd.Name.Name == name {
						sub := structLits(file, hd, typ, follow-1, stop)
						if len(sub) > 0 {
							if len(res) > 0 {
								res = append(res, "|")
							}
							for i := 0; i < depth; i++ {
								res = append(res, "{cond")
							}
							res = append(res, sub...)
						}
					}
				}
			case *ast.CompositeLit:
				if y.Type != nil && exprString(y.Type) == typ {
					if len(res) > 0 {
						res = append(res, "|")
					}
					for i := 0; i < depth; i++ {
						res = append(res, "{cond")
					}
					for _, el := range y.Elts {
						if kv, ok := el.(*ast.KeyValueExpr); ok {
							if structLitFields != nil && !structLitFields[exprString(kv.Key)] {
								continue
							}
							res = append(res, exprString(kv.Key)+"="+norm(kv.Value))
						} else {
							res = append(res, "="+norm(el))
						}
					}
				}
			}
			return true
		})
	}
	walk(fd.Body, 0)
	return res
}

func exprString(e ast.Expr) string {
	var sb strings.Builder
	_ = printer.Fprint(&sb, token.NewFileSet(), e)
	return strings.Join(strings.Fields(sb.String()), " ")
}

func literalsOf(fd *ast.FuncDecl) []string {
	var res []string
	ast.Inspect(fd.Body, func(n ast.Node) bool {
		if bl, ok := n.(*ast.BasicLit); ok && (bl.Kind == token.INT || bl.Kind == token.FLOAT) {
			func() {
				defer func() { recover() }()
				s, _ := litValue(bl.Value)
				res = append(res, s)
			}()
		}
		if ce, ok := n.(*ast.CallExpr); ok { // skip log calls' args
			if se, ok := ce.Fun.(*ast.SelectorExpr); ok {
				if id, ok := se.X.(*ast.Ident); ok && (id.Name == "log" || id.Name == "fmt") {
					return false
				}
			}
		}
		return true
	})
	return res
}

func main() {
	repo := flag.String("repo", "/repo", "")
	specPath := flag.String("spec", "targets.json", "")
	out := flag.String("out", "", "")
	flag.Parse()
	var spec Spec
	b, err := os.ReadFile(*specPath)
	if err != nil {
		fmt.Println("ERROR reading spec:", err)
		os.Exit(2)
	}
	if err := json.Unmarshal(b, &spec); err != nil {
		fmt.Println("ERROR parsing spec:", err)
		os.Exit(2)
	}
	mods := map[string]*strings.Builder{}
	mod := func(name string) *strings.Builder {
		if name == "" {
			name = "Kernels"
		}
		if mods[name] == nil {
			mods[name] = &strings.Builder{}
		}
		return mods[name]
	}
	facts := map[string]interface{}{}
	extraImports := map[string][]string{}
	rc := 0
	// constants first (functions may refer to them)
	for _, c := range spec.Consts {
		f, err := parseFile(*repo, c.File)
		if err != nil {
			fmt.Printf("UNSUPPORTED consts %s: %v\n", c.File, err)
			rc = 1
			continue
		}
		vals := constValues(f, c.Type, c.Names)
		var names []string
		for n := range vals {
			names = append(names, n)
		}
		sort.Strings(names)
		w := mod(c.Module)
		for _, n := range names {
			v := vals[n]
			ln := n
			if c.Type != "" {
				ln = c.Type + "_" + n
			}
			facts["const."+ln] = v
			if _, ok := new(big.Int).SetString(v, 10); ok {
				fmt.Fprintf(w, "/-- generated from %s -/\ndef %s : Int := %s\n", c.File, ln, v)
			} else {
				fmt.Fprintf(w, "/-- generated from %s -/\ndef %s : String := %s\n", c.File, ln, v)
			}
		}
		if len(c.Names) > 0 {
			for _, n := range c.Names {
				if _, ok := vals[n]; !ok {
					fmt.Printf("UNSUPPORTED const %s in %s: not found or not evaluable\n", n, c.File)
					rc = 1
				}
			}
		} else if len(vals) == 0 {
			fmt.Printf("UNSUPPORTED consts of type %s in %s: none found\n", c.Type, c.File)
			rc = 1
		}
	}
	for i := range spec.Functions {
		t := &spec.Functions[i]
		lean, err := translate(*repo, t)
		w := mod(t.Module)
		if err != nil {
			fmt.Printf("UNSUPPORTED %s.%s (%s): %v\n", t.Recv, t.Name, t.File, err)
			fmt.Fprintf(w, "-- UNSUPPORTED %s.%s: %v\n", t.Recv, t.Name, err)
			rc = 1
			continue
		}
		w.WriteString(lean + "\n")
		if t.Import != "" {
			mn := t.Module
			if mn == "" {
				mn = "Kernels"
			}
			dup := false
			for _, e := range extraImports[mn] {
				dup = dup || e == t.Import
			}
			if !dup {
				extraImports[mn] = append(extraImports[mn], t.Import)
			}
		}
	}
	for _, c := range spec.CallOrder {
		f, err := parseFile(*repo, c.File)
		if err != nil {
			fmt.Printf("UNSUPPORTED callorder %s: %v\n", c.Key, err)
			rc = 1
			continue
		}
		fd := findFunc(f, c.Recv, c.Func)
		if fd == nil {
			fmt.Printf("UNSUPPORTED callorder %s: function not found\n", c.Key)
			rc = 1
			continue
		}
		callOrderFile = f
		facts[c.Key] = callOrder(fd, c.Only)
		callOrderFile = nil
	}
	for _, c := range spec.Literals {
		f, err := parseFile(*repo, c.File)
		if err != nil {
			fmt.Printf("UNSUPPORTED literals %s: %v\n", c.Key, err)
			rc = 1
			continue
		}
		fd := findFunc(f, c.Recv, c.Func)
		if fd == nil {
			fmt.Printf("UNSUPPORTED literals %s: function not found\n", c.Key)
			rc = 1
			continue
		}
		facts[c.Key] = literalsOf(fd)
	}
	if !pkgVarFacts(*repo, spec.PkgVars, facts) { // package-level variables a set of functions refers to (pkgvars.go)
		rc = 1
	}
	for _, c := range spec.StructLits {
		f, err := parseFile(*repo, c.File)
		if err != nil {
			fmt.Printf("UNSUPPORTED structlits %s: %v\n", c.Key, err)
			rc = 1
			continue
		}
		fd := findFunc(f, c.Recv, c.Func)
		if fd == nil {
			fmt.Printf("UNSUPPORTED structlits %s: function not found\n", c.Key)
			rc = 1
			continue
		}
		stop := map[string]bool{}
		for _, n := range c.Stop {
			stop[n] = true
		}
		structLitValues = c.Values
		structLitFields = nil
		if len(c.Fields) > 0 {
			structLitFields = map[string]bool{}
			for _, n := range c.Fields {
				structLitFields[n] = true
			}
		}
		facts[c.Key] = structLits(f, fd, c.Type, 2, stop)
		structLitValues, structLitFields = false, nil
	}
	var names []string
	for n := range mods {
		names = append(names, n)
	}
	sort.Strings(names)
	for _, n := range names {
		imp := ""
		if n != "Consts" && mods["Consts"] != nil {
			imp = "import SigModel.Gen.Consts\n"
		}
		for _, e := range extraImports[n] {
			imp += "import " + e + "\n"
		}
		src := "/- GENERATED by tools/go2lean from the repository's current source. DO NOT EDIT. -/\nimport SigModel.Model.MachInt\n" + imp + "namespace SigModel.Gen\nopen SigModel.MachInt\n\n" + mods[n].String() + "\nend SigModel.Gen\n"
		if err := os.WriteFile(filepath.Join(*out, n+".lean"), []byte(src), 0o644); err != nil {
			fmt.Println("ERROR", err)
			os.Exit(2)
		}
	}
	fb, _ := json.MarshalIndent(facts, "", " ")
	os.WriteFile(filepath.Join(*out, "facts.json"), fb, 0o644)
	os.Exit(rc)
}
