package main

// Fact kind "pkgvars": the PACKAGE-LEVEL VARIABLES a set of functions refers to.
//
//	{"key": "C11.flush.bsu.pkgvars", "funcs": [{"file": "pkg/…/segstore.go", "recv": "SegStore", "func": "flushBlockSummary"}, …]}
//
// The fact is the list of "<func>:<var>" (functions in the order given, variables in order of first appearance,
// each once) for every identifier in the function body that names a variable declared with `var` at the top level
// of any non-test file of the function's package directory and is not shadowed by a local declaration, a parameter
// or the receiver.  Constants, functions, types, imported packages, struct fields (x.f, the keys of composite
// literals) are not variables.  Used for "this code, which runs under a PER-OBJECT lock, touches no state shared
// between objects" (C11: the flush of a segstore): the expectation lists exactly the variables the argument allows
// (none, or the ones that are protected by a lock of their own), so that a work buffer, cache or counter moved to
// package level changes the fact.

import (
	"fmt"
	"go/ast"
	"go/parser"
	"go/token"
	"os"
	"path/filepath"
	"strings"
)

type PkgVarFunc struct {
	File string `json:"file"`
	Recv string `json:"recv"`
	Func string `json:"func"`
}

type PkgVarTarget struct {
	Key   string       `json:"key"`
	Funcs []PkgVarFunc `json:"funcs"`
}

var pkgVarCache = map[string]map[string]bool{}

// names declared by `var` at the top level of the non-test files of a directory
func pkgVarsOfDir(dir string) (map[string]bool, error) {
	if m, ok := pkgVarCache[dir]; ok {
		return m, nil
	}
	ents, err := os.ReadDir(dir)
	if err != nil {
		return nil, err
	}
	m := map[string]bool{}
	for _, e := range ents {
		n := e.Name()
		if e.IsDir() || !strings.HasSuffix(n, ".go") || strings.HasSuffix(n, "_test.go") {
			continue
		}
		f, err := parser.ParseFile(token.NewFileSet(), filepath.Join(dir, n), nil, 0)
		if err != nil {
			return nil, err
		}
		for _, d := range f.Decls {
			gd, ok := d.(*ast.GenDecl)
			if !ok || gd.Tok != token.VAR {
				continue
			}
			for _, sp := range gd.Specs {
				for _, id := range sp.(*ast.ValueSpec).Names {
					if id.Name != "_" {
						m[id.Name] = true
					}
				}
			}
		}
	}
	pkgVarCache[dir] = m
	return m, nil
}

func pkgVarsUsed(fd *ast.FuncDecl, vars map[string]bool) []string {
	res := []string{}
	seen := map[string]bool{}
	skip := map[*ast.Ident]bool{}
	ast.Inspect(fd.Body, func(n ast.Node) bool {
		switch x := n.(type) {
		case *ast.SelectorExpr:
			skip[x.Sel] = true
		case *ast.KeyValueExpr:
			if id, ok := x.Key.(*ast.Ident); ok {
				skip[id] = true // field name of a struct literal
			}
		case *ast.Ident:
			if skip[x] || !vars[x.Name] || seen[x.Name] {
				return true
			}
			// go/parser resolves identifiers declared in the same FILE: a local variable, parameter or receiver has an
			// Obj whose declaration is not a top-level ValueSpec; a package-level variable of the same file has one whose
			// Decl is its ValueSpec (never inside this function body); a package-level variable of another file is unresolved
			if x.Obj != nil {
				inside := false
				if dn, ok := x.Obj.Decl.(ast.Node); ok {
					inside = dn.Pos() >= fd.Pos() && dn.End() <= fd.End()
				}
				if inside || x.Obj.Kind != ast.Var {
					return true
				}
			}
			seen[x.Name] = true
			res = append(res, fd.Name.Name+":"+x.Name)
		}
		return true
	})
	return res
}

// returns false if a function was not found / a file could not be parsed (reported on stdout like the other kinds)
func pkgVarFacts(repo string, targets []PkgVarTarget, facts map[string]interface{}) bool {
	okAll := true
	for _, t := range targets {
		res := []string{}
		bad := false
		for _, fn := range t.Funcs {
			f, err := parseFile(repo, fn.File)
			if err != nil {
				fmt.Printf("UNSUPPORTED pkgvars %s: %v\n", t.Key, err)
				bad = true
				break
			}
			fd := findFunc(f, fn.Recv, fn.Func)
			if fd == nil || fd.Body == nil {
				fmt.Printf("UNSUPPORTED pkgvars %s: function %s not found\n", t.Key, fn.Func)
				bad = true
				break
			}
			vars, err := pkgVarsOfDir(filepath.Dir(filepath.Join(repo, fn.File)))
			if err != nil {
				fmt.Printf("UNSUPPORTED pkgvars %s: %v\n", t.Key, err)
				bad = true
				break
			}
			res = append(res, pkgVarsUsed(fd, vars)...)
		}
		if bad {
			okAll = false
			continue
		}
		facts[t.Key] = res
	}
	return okAll
}
