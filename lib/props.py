"""Per-property configuration of the check runner.
suites: (corr suite name, cases in quick tier, cases in thorough tier)"""

COMMON_TRUSTED = [
    "Lean 4.33.0 kernel (thorough tier: re-checked by leanchecker); axioms allowed: propext, Classical.choice, Quot.sound",
    "tools/go2lean (syntactic Go→Lean translator for the pure-kernel subset + fact extractor), re-run on every check",
    "harness/cmd/corr (generators, canonicalisation) and lean/Oracle (line-protocol parsing)",
    "Go toolchain incl. `go build -overlay`",
]
COMMON_ASSUMPTIONS = [
    "the theorems are about the Lean model; the model is tied to /repo's working tree by regeneration (Gen/*) and by the correspondence run of this check, on the sampled inputs only",
]

PROPS = {
    "C06": dict(
        suites=[("pipe", 6000, 120000)],
        trusted_base=["the hash of a single value (CValueEnclosure.Hash = xxhash of dtype byte + text) and the digest of the sequence of field hashes (xxhash.Sum64 of the concatenated 8-byte hashes) are parameters of the model; the dedup theorems about the documented meaning assume both collision-free (HashInjective, DigestInjective) or, table-locally and decidably, keyFaithful; the Oracle instantiates them with collision-free stand-ins (position among the distinct values of the case, positional encoding)",
                      "the correspondence harness builds IQRs without RRCs (knownValues), as the package's own tests do; the synthetic upstream is a processor.Streamer replaying the table under the given partition"],
        decided_by_proof="for EVERY table, EVERY partition into batches (empty batches included) and every column layout of the batches, the DataProcessor.Fetch loop over the real state handling of: head <n> (plain limit, early EOF), tail <n> (bottleneck, reversed, result handed out as a copy), the scroll-from processor, rename <old> as <new> (one pair, phrase mode), fields +/- <literal names>, fillnull value=<v> <field list> (streaming), fillnull value=<v> without field list (two passes, also with different partitions in the two passes), dedup <limit> <f1…fk> with consecutive / keepempty / keepevents in any combination (seen-map across batches; key = digest of the SEQUENCE of field hashes; absent column = nulls) yields the documented meaning on the whole ordered input (chunk_invariant; dedup_key_injective at full strength modulo collision-freeness of the two hashes); sequential composition of chunk-invariant stages and every chain by induction; the two-pass fillnull on top of a rewound and re-read head / tail / dedup / row-wise command (two_pass_over + rereadable_*); kept for the record: counterexample theorems for the XOR key of the code before the repair (…_old)",
        partial="NOT modelled / not decided by proof: where, eval, rex, regex, sort, top/rare, bin, streamstats, makemv/mvexpand, stats, timechart, transaction, tojson, inputlookup, gentimes; head with a boolean expression (keeplast/null); dedup sortby; rename with wildcards / several pairs; fields with wildcards; merging of SEVERAL upstream streams (getStreamInput with >1 stream, MergeIQRs, parallel chains) and the searcher; IQRs with RRCs (segment-backed columns, renamed/deleted column shadowing); in-place mutation / aliasing of IQR objects between stages is not modelled (after the repair no modelled processor keeps a reference to an object it hands downstream); chains longer than two stages under a two-pass command are tied by the correspondence run only (the Oracle's Chain.read); the general chain theorem covers single-pass feeding",
        assumptions=["IQR.Append / Discard / DiscardAfter / DiscardRows / ReverseRecords / RenameColumn / AddColumnsToDelete / ReadColumnsWithBackfill / Copy act on a column-major table as modelled (row lists); tied by the correspondence run",
                     "the consumer fetches until EOF and appends (GetFullResult); a CachedStream answers (nil, EOF) after its first EOF"],
    ),
    "C08": dict(
        suites=[("gorilla", 3000, 60000), ("gorilladec", 1500, 30000), ("e2e_metrics", 600, 15000)],
        trusted_base=["xxhash (TSID) treated as an arbitrary function; statements are about the pre-image string",
                      "e2e_metrics: lean/SigModel/Spec/Metrics.lean (the specification a selector/aggregation answer is compared with), lib/e2ecmp.py compare_metrics (comparison + declared latitude), harness overlay hooks VerifRotateBlocks/VerifFlushTagsTrees (bodies of the repo's timer loops)"],
        decided_by_proof="Gorilla codec round trip for every header/series (bit IO, dod buckets, XOR windows, finish marker, clone prefix)",
        partial="Everything outside the codec kernel is NOT decided by proof. TSID/tags tree, TSO/TSG block files, block and segment rotation, series reader, tags search and query path are covered only by the end-to-end differential e2e_metrics (sampled inputs): real engine in a fresh process per case (OTSDB ingest → optional block/segment rotations → PromQL selector through ConvertPromQLToMetricsQuery+ExecuteMetricsQuery, before and after one more forced rotation) against the Lean SPECIFICATION Spec/Metrics.lean (series = name + label set + points; same timestamp, bit-identical value, same labels, no merging). Timestamps/bits are compared only for queries whose points sit on bucket starts of the engine's downsample interval (latitude `unaligned`). Restart is covered only as forced rotation + metadata reload (graceful stop/start); WAL recovery after a crash, prometheus remote-write and OTLP ingest are not exercised. Recorded deviations: known_findings.txt sig=e2em/in-class/*",
        assumptions=["ingest hands the compressor header = first timestamp and non-zero uint32 timestamps"],
    ),
    "C09": dict(
        suites=[("promql", 4000, 60000), ("e2e_metrics", 600, 15000)],
        trusted_base=["e2e_metrics: lean/SigModel/Spec/Metrics.lean (the PromQL specification of selectors and sum/min/max/avg/count by/without that the engine's answer is compared with; regex matchers only in the fragment literal / .* / a|b), lib/e2ecmp.py compare_metrics (comparison + declared latitude)",
                      "float64 arithmetic is not modelled: the correspondence run uses integer samples (|v| < 2^40, sums < 2^53) so sum/min/max/count are exact in float64; the avg quotient is compared after the Oracle's correctly rounded float64 division (f64div), which no theorem is about",
                      "overlay hook VerifGetAggSeriesId (pkg/segment/results/mresults) only exposes getAggSeriesId; series ids are produced by the real tsidtracker.BulkAdd/AddTSID in tag-filter order chosen by the generator (any order), goroutine interleaving inside DownsampleResults/AggregateResults is exercised with parallelism 1..4 and treated as order-insensitive"],
        decided_by_proof="results layer of metric queries (code as of the C09 fix of ExtractGroupByFieldsFromSeriesId), for every metric name, label set, field list, by/without, step and sample list: the group key cut out of the series-id string equals the PromQL group key rendered (and same key <=> same PromQL group) under the guard LabelSafe = no , { in metric name and label values, no , : { in label names (label names may be suffixes of each other, ':' may occur in metric names and values; counterexample theorems for a value containing ',b:'); the value found for a field is List.lookup on the label set; per group and bucket the reported value is sum of sums / min of mins / max of maxes / number of member series / pooled mean over the PromQL members (agg_correct, no further keys: agg_complete) under LabelSafe and CountOK (count with an empty field list: only by ()/no clause over distinct label sets; counterexample theorems for count without () — known finding — and for duplicate ids); min <= avg <= max for all inputs; avg = sum/count when every series has one sample per bucket (counterexample otherwise: the downsampler folds a bucket with the query's own function); grouping by all labels = one group per label set; (ts/step)*step is the floor to the step grid",
        partial="selector/matcher evaluation on the tags tree (=, !=, =~, !~ and the key=* filters of SelectAllSeries), the PromQL parser, the order in which tag filters are concatenated into the id, nested aggregations through ApplyAggregationToResults (agg2 operations: correspondence with the model's results2 only, no theorem; first stage restricted to sum/min/max/count so that the intermediate values stay integers), range/math/time/label functions, topk/bottomk/stddev/stdvar/quantile/group, histogram_quantile, vector arithmetic and label matching between vectors: NOT covered by proof. Selector/matcher evaluation, single-stage sum/min/max/avg/count with by/without/no grouping, open-vs-rotated and block/segment splits are covered only by the end-to-end differential e2e_metrics (sampled inputs, no theorem): real engine in a fresh process per case (OTSDB ingest, 0..2 block and segment rotations, ConvertPromQLToMetricsQuery + ExecuteMetricsQuery, every query answered again after one more forced rotation) against the Lean SPECIFICATION Spec/Metrics.lean (absent label = \"\", anchored regex, group = label subset, aggregate per group and timestamp as exact rationals; sum/avg on non-integers and queries whose points are not on bucket starts only with declared latitude). Nested aggregations, functions, binary operators, instant queries and the HTTP layer are not exercised end to end. Recorded deviations: known_findings.txt sig=e2em/in-class/*; float64 rounding: not modelled",
        assumptions=["label values are non-empty (PromQL treats an empty value as an absent label; the remote-write path stores what it is given) — the property check does not judge inputs with empty values",
                     "one series per label set within a query for count() without grouping fields (TSIDs are hashes of the full label set); duplicate ids are exercised for model correspondence only"],
    ),
    "C10": dict(
        handlers=["C10R"],
        suites=[("wal", 2500, 40000), ("walrecover", 25, 150)],
        trusted_base=["CRC-32 and zstd are parameters of the model (any function / any injective codec); the Oracle instantiates CRC-32 with a Lean implementation that the correspondence run validates against hash/crc32"],
        decided_by_proof="WAL framing: intact replay, truncation at every byte = exact prefix of complete frames, crash at every write boundary, single-byte damage detected modulo an explicit checksum accident, datapoint block codec round trip",
        partial="RecoverWALData's file discovery/ordering and re-flush, metric-name and metrics-meta WALs: correspondence/E2E only",
    ),
    "C12": dict(
        suites=[("trace", 4000, 40000)],
        trusted_base=["harness/cmd/overlaygen: copies the statements of the dependency-graph fold and of the RED fold TEXTUALLY out of MakeTracesDependancyGraph / ProcessRedTracesIngest (go/parser) into exported wrappers, because these kernels are not functions of their own",
                      "float64 arithmetic is modelled exactly (dyadic rationals + round-to-nearest-even); the model's rounding function is validated against the hardware by the correspondence run (bit patterns compared)"],
        decided_by_proof="span-tree builder: every span of a well-formed trace exactly once beneath its parent, for every input no span twice / only real parent links / exact reachable set, parent cycles, missing parents, extra roots are dropped (never a cyclic view), no root = error; quick-select as coded terminates and returns the k-th smallest element; float64 percentile index always in range and percentile = interpolation formula on the sorted array (exact IEEE-754 model); dependency-graph counts = cross-service parent-child pairs; RED rows and percentiles independent of the in-place reordering",
        partial="the SPL queries generated by the four handlers, result paging (from/size loops of 1000, default page of MakeTracesDependancyGraph), trace search, OTLP span ingestion and the red-traces / service-dependency ingestion: NOT covered (kernels only). The percentile theorems hold for arrays of fewer than 2^52/100 elements (float64 index p*(n-1)/100 proved in range there). Which of several empty-parent spans becomes the root depends on Go map order: a parameter of the model",
        assumptions=["quick-select elements < 2^63 (ProcessRedTracesIngest divides uint64 nanosecond durations by 10^6 first), so the averaged pivot (a+b)/2 never wraps",
                     "span ids in one trace are fixed-width hex strings (string order = numeric order), as produced by the OTLP ingest"],
    ),
    "C18": dict(
        handlers=["C08"],
        suites=[("csf", 4000, 60000), ("gorilladec", 1000, 20000)],
        trusted_base=["CRC-32 is a parameter of the model (any function)"],
        decided_by_proof="checksummed chunk reader: intact multi-chunk reads, every single-byte change of a chunk (header or data) and every truncation is detected modulo an explicit checksum accident; guard: not the 4 magic bytes at file offset 0 (known finding, counterexample theorem)",
        partial="length-prefixed decoders (ReadDictEnc, block summaries, segstats, pqmr, TSO/TSG), per-segment error collection and process survival: correspondence / end-to-end only",
    ),
    "C14": dict(
        suites=[("ret", 1200, 6000), ("rete2e", 4, 12)],
        facts={
            "DeleteSegmentData.order": ["blob.DeleteBlob", "blob.DeleteBlob", "RemoveSegBasedirs", "DeleteSegmentKey", "deleteSegmentsFromEmptyPqMetaFiles", "RemoveSegMetas"],
            "DoRetentionBasedDeletion.order": ["GetRetentionTimeMs", "ReadLocalSegmeta", "ReadMetricsMeta", "DeleteSegmentData", "DeleteMetricsSegmentData", "DeleteEmptyIndices"],
            "doVolumeBasedDeletion.order": ["getSystemVolumeBytes", "ReadLocalSegmeta", "ReadMetricsMeta", "DeleteSegmentData", "DeleteMetricsSegmentData"],
            "deleteSegmentsFromEmptyPqMetaFiles.order": ["RemoveSegmentFromEmptyPqmeta"],
            "RemoveSegMetas.order": ["removeSegmetas"],
            "removeSegmetas.order": ["Scan", "Write", "os.Rename"],
            "const.MAXIMUM_WARNINGS_COUNT": "5",
        },
        trusted_base=["the wall clock read by DoRetentionBasedDeletion cannot be injected: the harness plans an instant a few ms ahead, shifts the generated times by (real horizon − model horizon) and verifies with two probe segments (newest event = H and H+1 ms) that the pass read exactly that instant, repeating the case otherwise",
                      "crash points inside DeleteSegmentData: inside the blob phase by a panic from the blob hook of the real function; between later phases by calling its exported callees in the order that the call-order fact DeleteSegmentData.order ties to the source",
                      "the blob store is a map behind hooks.GlobalHooks (GetAllFilesInDirectoryHook / DeleteBlobExtrasHook)"],
        decided_by_proof="time-based victim selection (deleted iff of the pass's org and newest event <= now - retention, for every meta set; uint64 wrap branch characterised: deletes everything), survivors untouched in all five stores at every cut point, interrupted-after-any-prefix + repeated = uninterrupted (segmeta.json last; counterexample for segmeta.json first), nothing of a victim left in blob/files/memory/segmeta.json, volume pass (after the two repairs in /repo): oldest-first at full strength for every input (marked = a prefix of the age-sorted candidates, nothing strictly older than a deleted segment stays; only hypothesis: LatestEpochSec is a uint32), never marks as much as the excess; the pre-repair pass is kept as volPassOld with its two counterexample theorems; empty-PQ meta cleanliness only under a guard (counterexample theorem, known finding)",
        partial="metrics-segment deletion protocol (DeleteMetricsSegmentData: in-memory first, early return when the key is not in memory) and DeleteEmptyIndices: correspondence/E2E only; inode-based pass: modelled (inodeLoop) but not tied (depends on statfs) and not proved; sort.Slice instability for > 12 tied entries and map-ordered ties between metrics segments: excluded by the generator; searchability after the pass: E2E on a handful of real segments only; process restart between interrupt and repeat (in-memory metadata rebuilt from segmeta.json): not modelled",
        assumptions=["segment keys are distinct (they are Go map keys)", "one retention pass at a time"],
    ),
    "C15": dict(
        suites=[("bulk", 4000, 60000), ("bulk_e2e", 120, 3000)],
        facts={"const.MAX_RECORD_SIZE": "63000"},
        decided_by_proof="the HandleBulkBody loop: one item per action in order, item status local to its action, stored = created, errors flag = some item failed, for every body",
        partial="JSON classification of lines (jsonparser), store-level failures after acknowledgement, searchability after flush, HTTP layer, Splunk/Loki entry points: correspondence/E2E only",
    ),
    "C16": dict(
        suites=[("time", 8000, 150000), ("timeproto", 36, 108)],
        facts={
            "ExtractTimeStamp.literals": ["0", "0", "0", "0", "1000", "1000000", "1000", "0"],
            "ConvertTimestampToMillis.literals": ["10", "64", "1000000", "1000", "1000000", "0"],
            "ExtractOTSDBPayload.literals": ["0", "0", "1000", "1000", "10", "64", "1000", "1", "0", "0", "0", "0", "0"],
            "ExtractOTLPPayload.literals": ["0", "0", "1000000000", "1000", "1000000000", "1000", "1", "0", "0", "0", "0", "0"],
        },
        trusted_base=[
            "strconv.ParseFloat is taken to be correctly rounded (its documented contract); float64→uint64/uint32 conversions are modelled as the gc compiler emits them on amd64 (CVTTSD2SQ, integer-indefinite on overflow) — out-of-range conversions are implementation-defined in the Go spec",
            "time.Parse over the layout lists is an input of the model (computed by time.Parse in the harness over its own copy of the two lists; a changed list in /repo shows up as a correspondence mismatch)",
            "jsonparser.Get's tokenisation is exercised, not modelled: the harness builds well-formed documents around the scalar",
        ],
        decided_by_proof="time-unit logic of ingest, at full strength: for every instant of the plausible window (1973-03-03…2286; ns 2001-09-09…2262) in seconds, milliseconds and nanoseconds, as JSON number or digit string, ExtractTimeStamp returns that instant in ms (time_preserved); fractional seconds <s>.<fff> keep their milliseconds (through the binary64 rounding model); exact behaviour for microseconds and early nanoseconds; arrival time (0/now) exactly for absent key, non-scalars and the characterised unparseable/zero shapes; hand-over in ProcessIndexRequestPle (record time wins, handler time kept, arrival only without a record time); the regenerated thresholds separate the unit windows; OTLP/OpenTSDB/remote-write/PromQL-time reduction to uint32 seconds on the regenerated kernels",
        partial="field/attribute/identifier preservation across the protocol decoders: NOT covered. Event TIME per protocol (ES bulk, OTLP logs, Loki JSON push, Splunk HEC): end-to-end correspondence only (suite timeproto: post, flush, search), a few dozen cases per run; OTLP traces, Loki protobuf push, ES single-doc API and the metrics protocols' HTTP layers are not exercised. Date-layout strings: correspondence only (time.Parse abstracted); float-path inputs beyond <s>.<fff>: correspondence only",
        assumptions=["GOARCH=amd64 for the float→integer conversions of out-of-range values"],
    ),
    "C17": dict(
        suites=[("qtable", 4000, 60000), ("parsers", 2500, 60000)],
        facts={"const.MAX_WAITING_QUERIES": "500"},
        decided_by_proof="running/waiting query tables over all operation sequences: waiting-queue bound, admission bound through pull, no qid both waiting-object and running-object twice, cancel of a running or waiting query takes effect, delete frees the entry, sends under table locks never block for fresh objects",
        partial="parser totality/termination/determinism for all byte strings (PEG-generated parsers are not modelled), goroutine leaks, timeout goroutine timing, blocking of CancelQuery on a full StateChan with a stalled consumer: NOT decided by proof",
    ),
    "C20": dict(
        suites=[("alert", 1200, 20000), ("kv", 1500, 30000)],
        handlers=["C20K"],
        facts={"const.AlertState_Inactive": "0", "const.AlertState_Normal": "1", "const.AlertState_Pending": "2", "const.AlertState_Firing": "3"},
        trusted_base=["the webhook transport is a parameter of the model (sendOk); the clock is a parameter (minutes): the harness moves time by shifting notification_details.last_sent_time in whole minutes, sub-minute real time only adds to the elapsed time",
                      "gorm/sqlite (alert, history and notification rows) by correspondence only"],
        decided_by_proof="alert state machine over all operation sequences (evaluations with any outcome/transport result, any time steps, config-change rows): state = window function of the last N = window/interval outcomes (evaluation rows only; counterexample theorem for a config-change row inside the window, and the exact reset effect of that row), no two delivered notifications closer than cool-down/silence, Normal notification only directly after a Firing one and the first notification is Firing, a Firing evaluation is notified exactly when transport, cool-down and silence allow (in particular on first entering Firing)",
        partial="the keyed-store/CRUD half of C20 (dashboards, folders, saved queries, index aliases, lookup files, alerts and contact points as keyed stores, restart persistence, tenant isolation): NOT covered by this slice; evaluateLogsQueryConditions / evaluateMetricsQueryConditions result-shape walking (records with a measure column, grouped measures, metric series): only the regenerated scalar comparison evaluateConditions; e-mail and Slack channels, the gocron scheduling itself, sub-minute timing and the exact >= boundary of the cool-down at nanosecond resolution: not decided",
        assumptions=["notification_details.cooldown_period is set by no product code path (CreateAlert writes 0); the harness sets it with a direct UPDATE to exercise the cool-down logic that the code contains",
                     "one evaluation at a time per alert (the cron job of an alert does not overlap with itself)"],
    ),
    "C01": dict(
        suites=[("e2e_c01", 120, 3000), ("tlv", 6000, 120000)],
        facts={"const.VALTYPE_ENC_BOOL": "1", "const.VALTYPE_ENC_SMALL_STRING": "2", "const.VALTYPE_ENC_UINT8": "3", "const.VALTYPE_ENC_UINT16": "4",
               "const.VALTYPE_ENC_UINT32": "5", "const.VALTYPE_ENC_UINT64": "6", "const.VALTYPE_ENC_INT8": "7", "const.VALTYPE_ENC_INT16": "8",
               "const.VALTYPE_ENC_INT32": "9", "const.VALTYPE_ENC_INT64": "16", "const.VALTYPE_ENC_FLOAT64": "17", "const.VALTYPE_ENC_BACKFILL": "19",
               "const.VALTYPE_DICT_ARRAY": "20", "const.VALTYPE_RAW_JSON": "21", "const.ZSTD_COMLUNAR_BLOCK": "0", "const.ZSTD_DICTIONARY_BLOCK": "1",
               "const.TIMESTAMP_TOPDIFF_VARENC": "2", "const.TS_Type8": "1", "const.TS_Type16": "2", "const.TS_Type32": "3", "const.TS_Type64": "4",
               "const.MAX_RECORD_SIZE": "63000", "const.MAX_RECS_PER_WIP": "65534", "const.wipCardLimit": "501"},
        decided_by_proof="the on-disk value codecs the round trip rests on, for every input: one TLV record (decode∘encode = id for strings < 65536 bytes and every numeric kind; counterexample theorems for the uint16 length wrap at 65536 and for GetCvalFromRec at 65533; guard implied by MAX_RECORD_SIZE), a column block under ANY sequence of ReadRecord calls (forward scan, restart on backward seek), the consistent-length shortcut (sound exactly when the writer reports a consistent size; counterexample for a length that is not every record's), the filling of a column with absent/null/late values composed with the reader (column_roundtrip), the flush-time marking + type consolidation composed with the reader (flush_roundtrip: the length the segment advertises is sound for the STORED records; counterexample theorem for the behaviour before fix 59208af), PackDictEnc/ReadDictEnc/deGetRec, the timestamp block incl. the block-summary low/high fold",
        partial="end-to-end round trip (JSON flattening, the value relation of consolidateColumnTypes (number ↔ decimal text; only record count, well-formedness and the advertised length are proved, and float/bool conversions are not modelled), block/segment layout, zstd, checksummed file chunks, file offsets, record-to-event assembly across columns) is decided by the differential suite e2e_c01 against the layout-free specification, not by proof; RAW_JSON / DICT_ARRAY records (trace ingest) are not modelled; the records of the narrow numeric kinds (int8..int32, uint8..uint32) have no writer in /repo and are built by the harness",
        trusted_base=["zstd and the checksummed chunk file are exercised by the correspondence run (real writeWip / loadBlockUsingBuffer) but are not part of the model; uint32 offsets are modelled as naturals (blocks are far below 4 GiB); reader buffers are clipped to cap = len by an overlay hook so that reads past the end of a malformed block are deterministic panics instead of stale pool bytes"],
        assumptions=["one column at a time: cross-column alignment (duplicate JSON keys, columnsInBlock bookkeeping across blocks) is covered by e2e_c01 only",
                     "a zero timestamp never reaches the writer (GetNewPLE substitutes the current time); ts_zero_counterexample shows what would happen"],
    ),
    "C02": dict(
        handlers=["C02K"],
        suites=[("e2e_c02", 150, 4000), ("cmpk", 24000, 240000)],
        decided_by_proof="query time-range tests (record filter = inclusive membership, block filter = range intersection, pruning sound) on kernels regenerated from the source. Typed comparison kernel (Model/Cmp.lean mirrors filterOpOnDataType / fopOnNumber / compareNumberDte / enclosureFromJsonNumber / checkRangeIndexHelper / the where-stage comparison as they are AFTER the C02 repairs; suite cmpk): for EVERY stored value of the writer's kinds (int64, uint64, float64, string, bool, back-fill), every operator, every number text and every float64 rounding function with RndOk, the search-clause comparison of the record bytes with the literal enclosure equals the comparison BY VALUE under the decidable guard CmpGuard (implCmp_eq_spec_partial); the full statement is refuted by four counterexample theorems, one per excluded class (integer record beyond 2^53 vs float-typed literal; float record vs integer literal beyond 2^53; uint64 record vs negative literal — latent; numeric strings), each replayed on the real code (corpus/cmpk.ops); without any guard: int64 record vs integer literal of any size (int_vs_int_literal_by_value), float64 record vs any float-typed literal incl. = and != (float_vs_decimal_by_value), integer record exactly representable in float64 vs any float-typed literal under all six operators (int_vs_decimal_by_value: the case repaired by ec0bd3f); the block range-index check with the float fallback never skips a range holding a satisfying value under rangeGuard (range_check_sound_partial, on the regenerated does*PassRangeFilter kernels; two counterexample theorems beyond 2^53); search clause and where stage agree on numeric fields under CmpGuard and whereGuard (search_where_agree_partial) and, guard-free, whenever every integer involved is within +-2^53 (search_where_agree_within_2_53; the only remaining counterexample is beyond 2^53); kept for the record under ...Old definitions: counterexample theorems for the repaired tolerance, wrapped-literal and where-x=0 defects; = / != on strings is (ASCII case-folded) byte equality (string_eq_ne)",
        partial="wildcard/term matching, regular-expression literals, the boolean structure (AND/OR/NOT, sparse fields) and whole queries: end-to-end differential against the Lean specification (SigModel/Spec/Logs.lean); Go regexp engine and SPL parser are glue. Kernel slice: non-finite float64 (NaN/Inf cannot be ingested from JSON) and the narrow numeric record kinds (int8..uint32, emitted by no writer) are tied by correspondence only; multi-value range entries are covered by the theorem through `contains`, the writer's folding of values into a range (updateRangeIndex) is exercised for one-value ranges only",
        trusted_base=["float64 rounding is a parameter `rnd` of the comparison model; theorems assume RndOk rnd (rnd 0 = 0, rnd idempotent, rnd fixes binary64 values; Exact53 = exact on integers within +-2^53 where stated) and carry exactness of rnd on each converted integer in the guards; the Oracle instantiates rnd with a Lean round-to-nearest-even (roundF64) that the correspondence run validates against strconv.ParseFloat / float64(int) on every sampled line (op `lit` compares the bit patterns)",
                      "the three strconv parsers applied to a literal's text (ParseUint, ParseInt, ParseFloat) are summarised by the structure NumText (which of them succeed, exact decimal value); the Oracle computes it from the text for the grammar [+-]digits[.digits][e[+-]digits]; hex floats, inf/nan and underscores are outside"],
        assumptions=["int64(f)/uint64(f) of a FLOAT literal outside the target range are implementation-defined in Go; no comparison reads these two fields of a float-typed literal (model and theorems do not depend on them)"],
    ),
    "C03": dict(
        suites=[("e2e_c03", 150, 4000), ("bloom", 4000, 60000)],
        handlers=["C03B"],
        decided_by_proof="range micro-index skip rule is sound for all six operators (signed, unsigned, float) on kernels regenerated from the source; counterexample theorem for != with records lacking the column. Bloom skip rule (model tied to addToBlockBloomBothCases[WithBuf] / writeToBloom / writeDeBloom, ProcessSingleFilter, GetAllBlockBloomKeysToSearch, doCmiChecks, DoCMICheckForUnrotated, IsSubWordPresent, ApplySearchToMatchFilterRawCsg, fopOnString by suite bloom): for every stored value, every bloom-like filter holding the added keys and every column set, a block with a record satisfying an And/Or match filter of single-token words, a one-token or whole-value phrase, or a string equality is kept, case-sensitive and case-insensitive, on rotated and open segments; counterexample theorems for a multi-token phrase strictly inside a longer value, for the empty phrase after a trailing space, for negated free text on open segments, for a case-insensitive needle that is not lower-cased. Dictionary search path: for every dictionary block and predicate the dictionary path selects exactly the records the per-record path selects (match filters with at least one word; counterexample theorem without words)",
        partial="the three bloom counterexample classes are genuine defects (known findings, replayed end to end); MATCH_DICT_ARRAY filters, regular-expression / wildcard record matching, the in-place key insertion used for array-dict columns (modelled and tied, lower-cased full value lost: theorem, not replayed), bool columns (the dictionary bloom holds the byte 0/1, the probe asks for the text true/false; boolean search clauses answer nothing with or without the micro-index), the column-name bloom, PQS, sort index, agile tree, rollups, parallelism: metamorphic end-to-end differential only",
        trusted_base=["suite bloom observes the keys handed to the filter by membership tests against a large real bloom filter (2^20 bits, 16 hashes, at most a few dozen keys) over every substring of the value and of its lower-cased copy; strings.ToLower of the query text (Unicode) travels on the op line as the SPL grammar passes it (value, original value); strings.TrimSpace is modelled for valid UTF-8"],
        assumptions=["case-insensitive soundness is stated for needles without ASCII upper-case bytes: every front-end lower-cases the text of a case-insensitive search (spl.peg CaseInsensitiveString)"],
    ),
    "C04": dict(
        suites=[("e2e_c04", 150, 4000), ("stats", 4000, 60000)],
        handlers=["C04S"],
        decided_by_proof="time buckets partition the range (regenerated FindTimeRangeBucket): containment, grid alignment, clamped branches. Running statistics of a measure field (model SigModel/Model/Stats.lean tied to AddSegStatsNums/AddSegStatsStr, addSegStatsNums/addSegStatsStrIngestion, SegStats.Merge/MergeSegStats, GetSeg*, the group-by bucket and MergeBuckets by the correspondence suite stats), for every value list under exact float arithmetic: folded count / numeric count / sum / min / max equal the mathematical aggregates of the numeric values unless the int64 sum can wrap (wrap branch characterised, counterexample); merge of the statistics of any split in any association and order equals the statistics of the whole list unless a merged part is text-only (counterexample: IsNumeric not merged); avg of the no-group path divides by the numeric count; avg/count(x) of the group-by bucket divide by / report the record count (counterexample, exact characterisation, partial theorem for dense fields); ingest-time and query-time statistics coincide unless a string is a digit-less FastParseFloat form (counterexample); group-by min/max over mixed text/number depend on event order (counterexample)",
        partial="count/sum/min/max/avg by group end to end: differential against the specification; float64 rounding of sums (theorems are for exact arithmetic; the Oracle's IEEE rounding is tied by correspondence only), range, values/list/earliest/latest, the merge algebra of the group-by bucket, uint64 and bool inputs: correspondence / end-to-end only; dc and percentiles (HLL / t-digest sketches) are not modelled",
        trusted_base=["float64 arithmetic of the statistics kernels is a parameter rnd of the model: theorems use exact arithmetic, the Oracle a Lean round-to-nearest-even (roundF64) that the correspondence run validates against Go on dyadic and non-dyadic values; strings that strconv.ParseFloat reads as NaN/Inf/hex/underscore numbers are outside the model (answered unmodelled, checked by the Go-side property checks only)"],
    ),
    "C05": dict(
        suites=[("e2e_c05", 150, 4000), ("c05sched", 3000, 60000), ("c05cmp", 3000, 60000)],
        trusted_base=["float64 rounding (float64(int)) is a parameter of the comparator model; the Oracle instantiates it with a Lean round-to-nearest-even that the correspondence run validates against Go arithmetic; strconv.ParseFloat and fmt.Sprintf(\"%f\") results travel on the op line",
                      "harness/cmd/overlaygen/c05.go copies Searcher.Fetch / fetchRRCs / initializeQSRs textually from the working tree and redirects only getBlocks' metadata look-ups and readSortedRRCs' file reads to synthetic blocks"],
        decided_by_proof="block scheduler of the searcher (sortBlocks, getNextBlocks, getValidRRCs, cut-off handling over segment requests, unsentRRCs bookkeeping): for every well-formed set of overlapping segments/blocks, every maxBlocks and every number of Fetch calls the released stream is sorted (both modes); at EOF it is a permutation of all matches; newest-first always reaches EOF within 2(#segments+#blocks)+4 calls; first n released = n newest. sort comparator (compareValues/less, all ops, asc/desc, multi-key): strict weak order for ALL values (numbers at any distance, ±Inf, NaN, numeric strings, bool, null) and every key list — proved at full strength after the compareFloat fix; the old tolerance comparator is kept as lessOld with its three counterexample theorems. pages partition the result; scroll and head are chunk-invariant",
        partial="the OLDEST-first mode (recentLast, selected by no query path) can leave records in unsentRRCs for ever: counterexample theorem, known finding. sort-index sub-search (fetchColumnSortedRRCs), MergeIQRs/GetTopN/IQR.Sort plumbing, anyOrder mode, head with a condition: correspondence / end-to-end only. newest-first order, limits and paging of whole queries: end-to-end differential against the specification (e2e_c05)",
        assumptions=["segment requests are ordered by sort.Slice in initializeQSRs; the model uses a stable sort, which coincides with sort.Slice below 13 elements (generators stay below); the order among requests with equal keys affects batch boundaries only, not the theorems"],
    ),
    "C13": dict(
        suites=[("tenant", 4000, 60000), ("tenant_e2e", 30, 400)],
        trusted_base=["Go regexp (RE2) is modelled for a fragment (literals, ., * + ? with lazy marker and the nested-repetition error, |, groups, ^ $ as begin/end of text, character classes, backslash + non-alphanumeric) that contains everything the quoted source of a wildcard element can hold; names and expressions are restricted to the alphabet letters, digits and - _ . * + ? ( ) [ ] | ^ $ \\ { } , : space (other characters: both sides answer out-of-fragment, the generator stays inside)",
                      "overlay hooks VerifResetTables (pkg/virtualtable), VerifResetUnrotated/VerifAddUnrotated (pkg/segment/writer) only reset / fill package state between cases; the harness creates the per-org alias directories that the open-source code never creates"],
        decided_by_proof="index-expression expansion for every table/alias state, organisation and expression: a returned name is a table or alias target of the requesting organisation or text of the expression (verbatim element / documented fallback, characterised exactly), and is named by the expression under glob semantics (* = any string, every other character literal; key lemma: the code's quoted, unanchored regexp test compiles for every element and equals the glob match); rotated and unrotated segment selection admits a segment iff table in names and org = requesting org and time overlap; DeleteVirtualTable removes exactly (org, index) from the table list and leaves other organisations' expansions unchanged; metadata.DeleteVirtualTable removes exactly the segments of (org, index) from the rotated-segment view (same-named indexes of other organisations and prefix-related names untouched). Both former defects are kept as ...Old definitions with counterexample theorems; the coded stream-id format <shard>-<org>-<hash(index)> parses uniquely for every hash function (ids equal only if shard, org and hash of the index agree; pre-image injective in (org, index)); record-level composition: a record visible to a search was ingested by the requesting organisation into an index the expansion returned",
        partial="end-to-end isolation is CORRESPONDENCE only (suite tenant_e2e: bulk ingest for 2-4 organisations into the in-process engine, rotation, search * per (org, index expression), record markers compared with the model's prediction; no aliases, no deletes, no aggregations/column listing/metrics there); xxhash itself is a parameter (collision-freeness is assumed, not proved); DeleteSegmentsForIndex / DeleteVirtualTableSegStore (segmeta file, segment directories — by reading they are keyed by the index NAME only, not replayed here), the stale in-memory table map after DeleteVirtualTable (a re-created index is not written to the table file until the next refresh), column listing and metrics queries, the FilteroutUnauthorizedIndexes hook: NOT covered by this slice",
        assumptions=["table and alias names contain no newline (the table list is a line-oriented file), segment keys are unique, a deleted index has a non-empty name (deleteSegmentKeyWithLock uses the empty table name as its not-found marker)",
                     "aliases of organisations other than 0 exist only where the deployment creates aliases/<org>/ (the open-source code does not)"],
    ),
    "C11": dict(
        # conc: deterministic replay of model schedules (and of the two read-path windows) on the real code, one
        # engine process per line; concstress: EXPLORATION (concurrent stress run, GOMAXPROCS 1/4/16; thorough
        # tier also a -race build of the harness)
        suites=[("conc", 300, 6000), ("concstress", 3, 12)],
        facts={
            # order of the rotation steps (checkAndRotateColFiles → CleanupUnrotatedSegment) = Cfg.real.rotOrder
            "C11.rotation.order": ["addSegmeta", "AddSegMetaToMetadata", "CleanupUnrotatedSegment"],
            "C11.cleanup.order": ["removeSegKeyFromUnrotatedInfo", "resetSegStore"],
            # a flush registers its block in the unrotated map before the rotation check of the same lock hold
            "C11.flush.order": ["updateUnrotatedBlockInfo", "checkAndRotateColFiles"],
            # order of the two segment-list snapshots of a query = Cfg.real.qOrder, and what each one reads
            # … followed by the de-duplication of the unrotated request list against the rotated one (Cfg.real.dedupSeg = true)
            "C11.query.order": ["getAllUnrotatedSegments", "getAllRotatedSegmentsInQuery", "removeQSRsAlsoRotated"],
            "C11.aggs.order": ["getAllUnrotatedSegmentsInAggs", "getAllRotatedSegmentsInAggs", "removeQSRsAlsoRotated"],
            "C11.query.dedup": ["getRotatedSegments"],
            "C11.query.unrotated.reads": ["FilterUnrotatedSegmentsInQuery"],
            "C11.query.rotated.reads": ["FilterSegmentsByTime"],
            "C11.aggs.unrotated.reads": ["FilterUnrotatedSegmentsInQuery"],
            "C11.aggs.rotated.reads": ["FilterSegmentsByTime"],
            # which lock each protocol step holds (lock/unlock pairing inside the anchored functions)
            "C11.lock.updateUnrotatedBlockInfo": ["UnrotatedInfoLock.Lock", "UnrotatedInfoLock.Unlock"],
            "C11.lock.removeSegKeyFromUnrotatedInfo": ["UnrotatedInfoLock.Lock", "UnrotatedInfoLock.Unlock"],
            "C11.lock.FilterUnrotatedSegmentsInQuery": ["UnrotatedInfoLock.RLock", "UnrotatedInfoLock.RUnlock"],
            "C11.lock.bulkAddSegmentMicroIndex": ["Lock", "Unlock"],
            "C11.lock.FilterSegmentsByTime": ["RLock", "RUnlock"],
            "C11.lock.AddEntry": ["Lock", "Unlock", "AppendWipToSegfile", "AppendWipToSegfile"],
            "C11.lock.FlushWipBufferToFile": ["allSegStoresLock.RLock", "Lock", "Unlock", "AppendWipToSegfile", "Unlock", "allSegStoresLock.RUnlock"],
            "C11.lock.ForceRotateSegmentsForTest": ["allSegStoresLock.Lock", "Lock", "AppendWipToSegfile", "Unlock", "allSegStoresLock.Unlock"],
            # the read of one request (ReadOne.Reader.real): check, look-up under a second lock acquisition, re-check and
            # fall back to the rotated path; the init error path still closes the readers and the caller closes again (Close is idempotent)
            "C11.read.ssr.order": ["IsSegKeyUnrotated", "ExtractUnrotatedSSRFromSearchNode", "IsSegKeyUnrotated", "ExtractSSRFromSearchNode"],
            "C11.read.ssr.lookup": ["RLock", "RUnlock", "IsRecentlyRotatedSegKey", "DoCMICheckForUnrotated"],
            "C11.read.reader.order": ["IsSegKeyUnrotated", "GetBlockSearchInfoForKey", "IsSegKeyUnrotated", "GetSearchInfoAndSummary"],
            "C11.read.reader.errclose": ["initNewMultiColumnReader", "Close"],
            "C11.read.reader.callerclose": ["InitSharedMultiColumnReaders", "Close"],
            "C11.read.stats.order": ["IsSegKeyUnrotated", "ReadSegStats", "computeSegStatsFromRawRecords", "computeSegStatsFromRawRecords"],
        },
        trusted_base=["the interleaving machines treat each protocol step as atomic: justified by the lock each step takes (facts C11.lock.*), not by the Go memory model",
                      "harness/cmd/overlaygen/c11.go inserts pause points (before the rotation steps in segstore.go, after the two unrotated-checks of the read path in segquery.go and multicolreader.go) into textual copies of the working tree's files, nothing else changed; the two query snapshots are paused through the product hook hooks.GlobalHooks.FilterQsrsHook"],
        decided_by_proof="PROTOCOL LOGIC over all interleavings of flush / the four rotation steps in the extracted order / the two query snapshots in the extracted order / the read, for any number of streams and queries: (1) no loss — at every step a segment is in the unrotated or the rotated map with all its flushed blocks, a query started after a completed flush has the flush's segment in one of its snapshots and (the read of a request taken as one step) reads the block; a schedule losing a block exists as soon as the rotation removes before it adds or the query snapshots rotated before unrotated; at lock granularity the read of one request reads the segment in every interleaving with the rotation of that segment and never skips it or crashes (re-check and fall-back to the rotated path; the two former defects — segment skipped, double release of the FD semaphore — are kept as counterexample theorems about Reader.old); (2) at most once — every finished query, record or count, reads every block at most once (request list de-duplicated by segment key; block-level de-duplication for record queries); the former defect (count doubled when a segment is in both snapshots) is kept as counterexample theorems about Cfg.realOld together with its exact guard; (3) at quiescence the unrotated map, the rotated map and the flush history equal those of the sequential execution of the same schedule",
        partial="data races in the Go memory model, deadlocks, crashes and real scheduling are NOT decided by proof; the stress worker (suite concstress: concurrent ingest + periodic flush + forced rotation + repeated match-all/count queries under GOMAXPROCS 1/4/16) and its -race build (thorough tier) are EXPLORATION only. The composition of the per-request read machine (ReadOne) with the many-request query machine is not proved (requests of one query are read in parallel); group-by queries, persistent-query (PQS) paths, sort-index sub-searches, retention/deletion of rotated segments and distributed query hooks are not modelled",
        assumptions=["one SegStore per index (one stream id per index and node)", "rotated segments are not deleted while the modelled queries run (retention is property C14)",
                     "`* | stats count` over a time range enclosing every segment takes the segment-statistics path that counts the record number captured by the snapshot (segquery.go applyAggOpOnSegments)"],
    ),
    "C19": dict(
        suites=[("path", 4000, 60000)],
        trusted_base=["lexical model: symbolic links inside the data directory are outside the model (the harness sandbox contains none)",
                      "route patterns are read from pkg/server/{query,ingest}/server.go by a regular expression (fallback: the patterns of the reference tree, counted in the evidence as route:fallback) and fed to the real fasthttp/router",
                      "for names whose target would lie outside the harness sandbox the real operation is not executed; only the real validator function it calls is asked (evidence tag gate:validator)"],
        decided_by_proof="filepath.Clean for every string (idempotent, normal form without '.', '' and with '..' only as the leading block of a relative path); filepath.Join against an absolute base for every name (inside the base iff the name's segment walk never climbs above its start); for each of the twelve path builders and EVERY client value passing the validation as coded, the built path is inside the data dir (lookup upload/get/delete, inputlookup, alias file, index mapping file, GetBaseSegDir, GetBaseVTableDir, GetSuffixFile, tags-tree file, dashboard details, scroll results); for the seven builders repaired by fix: commits the pre-fix definitions are kept with their counterexample theorems",
        partial="completeness of the builder list is NOT proved (found by reading and grep for filepath.Join/os.Open/os.Create/os.Remove/os.WriteFile reachable from request values; a listing aid); dashboard update by body id (guarded by membership in the server-side folder structure), default dashboards (defaultDBs/ relative to the working directory), the SPL parser producing the inputlookup file name, index names that were stored before the fix, symlinks and OS path resolution beyond the sandboxed real operations: correspondence/reading only",
        assumptions=["the data path is absolute and made of ordinary segments, the host id is one ordinary segment", "fasthttp/router hands a named parameter to the handler as one raw, non-empty path segment without '/' (exercised with the real router in every run)",
                     "an index name reaches GetBaseSegDir/GetBaseVTableDir/GetSuffixFile only through es/writer.ProcessIndexRequestPle / vtable.AddVirtualTable, a tag key reaches the tags tree only through metrics.EncodeDatapoint (both entry points are exercised for real inside the sandbox)"],
    ),
    "C07": dict(
        # n = number of ingest histories; every history is expanded to ALL its crash points (one op line per
        # number of completed model steps + one line for the step order)
        suites=[("crash", 2, 12)],
        facts={
            # write order inside a buffer flush: column files (parallel) -> Wait -> block summary -> segment stats -> running .sfm
            "AppendWipToSegfile.order": ["writeWip", "flushBloomIndex", "flushBlockRangeIndex", "Wait", "Wait", "flushBlockSummary", "FlushSegStats", "WriteRunningSegMeta", "FlushPqmr", "resetWipBlock", "checkAndRotateColFiles"],
            # rotation: .sfm + segmeta.json line first, in-memory hand-over, then the next segment is opened
            "checkAndRotateColFiles.order": ["flushStarTree", "addSegmeta", "updateRecentlyRotatedSegmentFiles", "AddSegMetaToMetadata", "CleanupUnrotatedSegment"],
            "CleanupUnrotatedSegment.order": ["removeSegKeyFromUnrotatedInfo", "os.RemoveAll", "resetSegStore"],
            # the suffix file is bumped BEFORE the segment directory is created
            "resetSegStore.order": ["GetNextSuffix", "os.MkdirAll", "resetWipBlock"],
            "getAndIncrementSuffixFromFile.order": ["getSuffix", "writeSuffix"],
            "writeSuffix.order": ["os.WriteFile", "os.Rename"],
            "FlushSegStats.order": ["os.OpenFile", "os.Rename"],
            # .sfm.tmp is written and synced, then renamed onto the .sfm (the .sfm is never truncated in place)
            "WriteSfm.order": ["os.OpenFile", "Write", "Sync", "os.Rename"],
            "BulkAddRotatedSegmetas.order": ["WriteSfm", "os.OpenFile", "os.OpenFile", "Write", "Sync"],
            "addSegmeta.order": ["BulkAddRotatedSegmetas"],
            "WriteRunningSegMeta.order": ["WriteSfm"],
        },
        trusted_base=["harness/cmd/overlaygen/crash.go: re-prints segstore.go, segmetarw.go, segwriter.go, suffix.go and checksumfile.go from the repo's current AST with a call utils.VerifCrashPoint(label) before every statement of the flush / rotate / segmeta / suffix / chunk-writer functions (comments dropped, nothing else changed); the call is a no-op unless VERIF_CRASH_AT / VERIF_CRASH_LOG are set",
                      "the mapping crash point -> number of completed model steps is the marker table in harness/cmd/corr/c07_crash.go (function + callee of the statement that just completed); the step ORDER is tied by the `X order` line of every history and by the call-order facts",
                      "the restarted process is the in-process engine initialised in the order of cmd/startup (InitVTable, InitWriterNode, InitQueryNode) on the same directory; the check waits for the startup goroutine initSyncSegMetaForAllIds (log hook) before it queries; crash points that leave byte-identical data directories share one restarted process"],
        decided_by_proof="for EVERY history of buffer flushes (each with any completion order of its column-file appends) and rotations and EVERY number k of completed file-system steps: (1) every flush that had completed (running .sfm renamed into place) is served by a restart, exactly once; (2) no block served by a restart lacks a column chunk and no flush is served twice (the flush in progress is all-or-nothing); (3) everything served is a completed flush or the one flush in progress; (4) the suffix the restarted writer takes is larger than every existing segment directory and segments without a directory have no files. For the write order BEFORE the repair of WriteSfm (truncate the .sfm in place, then write) statement (1) is refuted by a counterexample theorem about the explicitly named Old step lists (two flushes, crash between the O_TRUNC open and the write of the second flush's WriteSfm)",
        partial="process-crash model only (completed calls persist; torn writes, power loss and the missing fsync before the .sst/suffix renames are outside the property and the model). Not modelled: persistent-query result files (pqmr) and the pqid back-fill that rewrites the .sfm of ROTATED segments through WriteSfm concurrently with the writer (two writers of one .sfm.tmp are not modelled), star-tree/sort-index files, time- or size-triggered flushes racing with ingest, segmeta.json rewrites by deletion/retention (removeSegmetas: instrumented, not driven by the histories), a second crash during recovery, blob-store upload, metrics segments. Record CONTENT after restart, filter (bloom/range index) and statistics (.sst) paths, startup without error and freshness of the next segment directory are checked end to end at every crash point but are not objects of the model (flush = opaque id)",
        assumptions=["one index / one stream per node; the writer is the only process writing the data directory",
                     "a flush is 'completed' when the flush/rotate call returned or AppendWipToSegfile reached its rotation check; in the model: when the running .sfm was renamed into place"],
    ),
}

NOT_YET = {}


def handlers_of(pid):
    """Oracle handler modules (lean/Oracle/<name>.lean) needed by the suites of a property"""
    c = PROPS[pid]
    hs = [pid]
    for su in c.get("suites", []):
        if su[0].startswith("e2e_c") and "E2E" not in hs:
            hs.append("E2E")
        if su[0] == "e2e_metrics" and "E2EM" not in hs:
            hs.append("E2EM")
    for h in c.get("handlers", []):
        if h not in hs:
            hs.append(h)
    return hs
