"""Per-property configuration of the check runner.
suites: (corr suite name, cases in quick tier, cases in thorough tier)"""

COMMON_TRUSTED = [
    "Lean 4.33.0 kernel (thorough tier: re-checked by leanchecker); axioms allowed: propext, Classical.choice, Quot.sound",
    "tools/go2lean (syntactic Go→Lean translator for the pure-kernel subset + fact extractor), re-run on every check",
    "harness/cmd/corr (generators, canonicalisation) and lean/Oracle (line-protocol parsing)",
    "Go toolchain incl. `go build -overlay`",
]
COMMON_ASSUMPTIONS = [
    "the theorems are about the Lean model; the model is tied to /repo's working tree by regeneration (Gen/*) and by the correspondence run of this check, on the sampled inputs only",
]

PROPS = {
    "C08": dict(
        suites=[("gorilla", 3000, 60000), ("gorilladec", 1500, 30000)],
        trusted_base=["xxhash (TSID) treated as an arbitrary function; statements are about the pre-image string"],
        decided_by_proof="Gorilla codec round trip for every header/series (bit IO, dod buckets, XOR windows, finish marker, clone prefix)",
        partial="TSO/TSG file framing, tags tree and restart path: correspondence / end-to-end only",
        assumptions=["ingest hands the compressor header = first timestamp and non-zero uint32 timestamps"],
    ),
    "C10": dict(
        suites=[("wal", 2500, 40000)],
        trusted_base=["CRC-32 and zstd are parameters of the model (any function / any injective codec); the Oracle instantiates CRC-32 with a Lean implementation that the correspondence run validates against hash/crc32"],
        decided_by_proof="WAL framing: intact replay, truncation at every byte = exact prefix of complete frames, crash at every write boundary, single-byte damage detected modulo an explicit checksum accident, datapoint block codec round trip",
        partial="RecoverWALData's file discovery/ordering and re-flush, metric-name and metrics-meta WALs: correspondence/E2E only",
    ),
    "C18": dict(
        suites=[("csf", 4000, 60000), ("gorilladec", 1000, 20000)],
        trusted_base=["CRC-32 is a parameter of the model (any function)"],
        decided_by_proof="checksummed chunk reader: intact multi-chunk reads, every single-byte change of a chunk (header or data) and every truncation is detected modulo an explicit checksum accident; guard: not the 4 magic bytes at file offset 0 (known finding, counterexample theorem)",
        partial="length-prefixed decoders (ReadDictEnc, block summaries, segstats, pqmr, TSO/TSG), per-segment error collection and process survival: correspondence / end-to-end only",
    ),
    "C15": dict(
        suites=[("bulk", 4000, 60000)],
        facts={"const.MAX_RECORD_SIZE": "63000"},
        decided_by_proof="the HandleBulkBody loop: one item per action in order, item status local to its action, stored = created, errors flag = some item failed, for every body",
        partial="JSON classification of lines (jsonparser), store-level failures after acknowledgement, searchability after flush, HTTP layer, Splunk/Loki entry points: correspondence/E2E only",
    ),
    "C17": dict(
        suites=[("qtable", 4000, 60000)],
        facts={"const.MAX_WAITING_QUERIES": "500"},
        decided_by_proof="running/waiting query tables over all operation sequences: waiting-queue bound, admission bound through pull, no qid both waiting-object and running-object twice, cancel of a running or waiting query takes effect, delete frees the entry, sends under table locks never block for fresh objects",
        partial="parser totality/termination/determinism for all byte strings (PEG-generated parsers are not modelled), goroutine leaks, timeout goroutine timing, blocking of CancelQuery on a full StateChan with a stalled consumer: NOT decided by proof",
    ),
}

NOT_YET = {}
