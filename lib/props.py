"""Per-property configuration of the check runner.
suites: (corr suite name, cases in quick tier, cases in thorough tier)"""

COMMON_TRUSTED = [
    "Lean 4.33.0 kernel (thorough tier: re-checked by leanchecker); axioms allowed: propext, Classical.choice, Quot.sound",
    "tools/go2lean (syntactic Go→Lean translator for the pure-kernel subset + fact extractor), re-run on every check",
    "harness/cmd/corr (generators, canonicalisation) and lean/Oracle (line-protocol parsing)",
    "Go toolchain incl. `go build -overlay`",
]
COMMON_ASSUMPTIONS = [
    "the theorems are about the Lean model; the model is tied to /repo's working tree by regeneration (Gen/*) and by the correspondence run of this check, on the sampled inputs only",
]

PROPS = {
    "C08": dict(
        suites=[("gorilla", 3000, 60000), ("gorilladec", 1500, 30000)],
        trusted_base=["xxhash (TSID) treated as an arbitrary function; statements are about the pre-image string"],
        decided_by_proof="Gorilla codec round trip for every header/series (bit IO, dod buckets, XOR windows, finish marker, clone prefix)",
        partial="TSO/TSG file framing, tags tree and restart path: correspondence / end-to-end only",
        assumptions=["ingest hands the compressor header = first timestamp and non-zero uint32 timestamps"],
    ),
}

NOT_YET = {}
