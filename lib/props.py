"""Per-property configuration of the check runner.
suites: (corr suite name, cases in quick tier, cases in thorough tier)"""

COMMON_TRUSTED = [
    "Lean 4.33.0 kernel (thorough tier: re-checked by leanchecker); axioms allowed: propext, Classical.choice, Quot.sound",
    "tools/go2lean (syntactic Go→Lean translator for the pure-kernel subset + fact extractor), re-run on every check",
    "harness/cmd/corr (generators, canonicalisation) and lean/Oracle (line-protocol parsing)",
    "Go toolchain incl. `go build -overlay`",
]
COMMON_ASSUMPTIONS = [
    "the theorems are about the Lean model; the model is tied to /repo's working tree by regeneration (Gen/*) and by the correspondence run of this check, on the sampled inputs only",
]

PROPS = {
    "C08": dict(
        suites=[("gorilla", 3000, 60000), ("gorilladec", 1500, 30000)],
        trusted_base=["xxhash (TSID) treated as an arbitrary function; statements are about the pre-image string"],
        decided_by_proof="Gorilla codec round trip for every header/series (bit IO, dod buckets, XOR windows, finish marker, clone prefix)",
        partial="TSO/TSG file framing, tags tree and restart path: correspondence / end-to-end only",
        assumptions=["ingest hands the compressor header = first timestamp and non-zero uint32 timestamps"],
    ),
    "C10": dict(
        suites=[("wal", 2500, 40000)],
        trusted_base=["CRC-32 and zstd are parameters of the model (any function / any injective codec); the Oracle instantiates CRC-32 with a Lean implementation that the correspondence run validates against hash/crc32"],
        decided_by_proof="WAL framing: intact replay, truncation at every byte = exact prefix of complete frames, crash at every write boundary, single-byte damage detected modulo an explicit checksum accident, datapoint block codec round trip",
        partial="RecoverWALData's file discovery/ordering and re-flush, metric-name and metrics-meta WALs: correspondence/E2E only",
    ),
    "C18": dict(
        suites=[("csf", 4000, 60000), ("gorilladec", 1000, 20000)],
        trusted_base=["CRC-32 is a parameter of the model (any function)"],
        decided_by_proof="checksummed chunk reader: intact multi-chunk reads, every single-byte change of a chunk (header or data) and every truncation is detected modulo an explicit checksum accident; guard: not the 4 magic bytes at file offset 0 (known finding, counterexample theorem)",
        partial="length-prefixed decoders (ReadDictEnc, block summaries, segstats, pqmr, TSO/TSG), per-segment error collection and process survival: correspondence / end-to-end only",
    ),
    "C15": dict(
        suites=[("bulk", 4000, 60000)],
        facts={"const.MAX_RECORD_SIZE": "63000"},
        decided_by_proof="the HandleBulkBody loop: one item per action in order, item status local to its action, stored = created, errors flag = some item failed, for every body",
        partial="JSON classification of lines (jsonparser), store-level failures after acknowledgement, searchability after flush, HTTP layer, Splunk/Loki entry points: correspondence/E2E only",
    ),
    "C17": dict(
        suites=[("qtable", 4000, 60000)],
        facts={"const.MAX_WAITING_QUERIES": "500"},
        decided_by_proof="running/waiting query tables over all operation sequences: waiting-queue bound, admission bound through pull, no qid both waiting-object and running-object twice, cancel of a running or waiting query takes effect, delete frees the entry, sends under table locks never block for fresh objects",
        partial="parser totality/termination/determinism for all byte strings (PEG-generated parsers are not modelled), goroutine leaks, timeout goroutine timing, blocking of CancelQuery on a full StateChan with a stalled consumer: NOT decided by proof",
    ),
    "C20": dict(
        suites=[("alert", 1200, 20000)],
        facts={"const.AlertState_Inactive": "0", "const.AlertState_Normal": "1", "const.AlertState_Pending": "2", "const.AlertState_Firing": "3"},
        trusted_base=["the webhook transport is a parameter of the model (sendOk); the clock is a parameter (minutes): the harness moves time by shifting notification_details.last_sent_time in whole minutes, sub-minute real time only adds to the elapsed time",
                      "gorm/sqlite (alert, history and notification rows) by correspondence only"],
        decided_by_proof="alert state machine over all operation sequences (evaluations with any outcome/transport result, any time steps, config-change rows): state = window function of the last N = window/interval outcomes (evaluation rows only; counterexample theorem for a config-change row inside the window, and the exact reset effect of that row), no two delivered notifications closer than cool-down/silence, Normal notification only directly after a Firing one and the first notification is Firing, a Firing evaluation is notified exactly when transport, cool-down and silence allow (in particular on first entering Firing)",
        partial="the keyed-store/CRUD half of C20 (dashboards, folders, saved queries, index aliases, lookup files, alerts and contact points as keyed stores, restart persistence, tenant isolation): NOT covered by this slice; evaluateLogsQueryConditions / evaluateMetricsQueryConditions result-shape walking (records with a measure column, grouped measures, metric series): only the regenerated scalar comparison evaluateConditions; e-mail and Slack channels, the gocron scheduling itself, sub-minute timing and the exact >= boundary of the cool-down at nanosecond resolution: not decided",
        assumptions=["notification_details.cooldown_period is set by no product code path (CreateAlert writes 0); the harness sets it with a direct UPDATE to exercise the cool-down logic that the code contains",
                     "one evaluation at a time per alert (the cron job of an alert does not overlap with itself)"],
    ),
    "C01": dict(
        disabled="kernel theorems (TLV/dictionary/seek codecs) under construction in this round; the end-to-end suite e2e_c01 already runs",
        suites=[("e2e_c01", 120, 3000)],
        decided_by_proof="(kernel theorems for the TLV/dictionary/seek codecs are being added; see Props/C01.lean)",
        partial="end-to-end round trip (flatten, type consolidation, block/segment layout, zstd, file offsets) is decided by the differential against the layout-free specification, not by proof",
    ),
    "C02": dict(
        suites=[("e2e_c02", 150, 4000)],
        decided_by_proof="query time-range tests (record filter = inclusive membership, block filter = range intersection, pruning sound) on kernels regenerated from the source",
        partial="typed comparison, wildcard/term matching and boolean structure: end-to-end differential against the Lean specification (SigModel/Spec/Logs.lean); Go regexp engine and SPL parser are glue",
    ),
    "C03": dict(
        suites=[("e2e_c03", 150, 4000)],
        decided_by_proof="range micro-index skip rule is sound for all six operators (signed, unsigned, float) on kernels regenerated from the source; counterexample theorem for != with records lacking the column",
        partial="bloom keys, dictionary search, PQS, sort index, agile tree, rollups, parallelism: metamorphic end-to-end differential only",
    ),
    "C04": dict(
        suites=[("e2e_c04", 150, 4000)],
        decided_by_proof="time buckets partition the range (regenerated FindTimeRangeBucket): containment, grid alignment, clamped branches",
        partial="count/sum/min/max/avg by group: end-to-end differential against the specification; dc and percentiles (HLL / t-digest sketches) are not modelled",
    ),
    "C05": dict(
        disabled="kernel theorems (block scheduler, sort comparator) under construction in this round; the end-to-end suite e2e_c05 already runs",
        suites=[("e2e_c05", 150, 4000)],
        decided_by_proof="(scheduler/comparator kernel theorems are being added; see Props/C05.lean)",
        partial="newest-first order, limits and paging: end-to-end differential against the specification",
    ),
}

NOT_YET = {}
