#!/usr/bin/env python3
"""Confirm a seeded change and run our checks against it.
usage: lib/seedtest.py <mutation dir (patch.diff, run.sh, meta.json, demo*)> <Cxx>[,Cyy] [--keep-as <name>] [--nosuite]
Creates a scratch worktree of /repo HEAD under /tmp, applies the patch, confirms: builds, (existing suite
passes), demo fails with / passes without; then runs `VERIF_REPO=<wt> ./check Cxx` and reports.
With --keep-as the change is stored as /verif/seeded/<name>/ with meta.json extended by what we ran."""
import sys, os, subprocess, json, shutil, time, re
V = os.path.dirname(os.path.dirname(os.path.abspath(__file__)))
env = dict(os.environ, GOFLAGS="-mod=mod", GOPROXY="off", GOSUMDB="off", GOTOOLCHAIN="local")

def sh(cmd, cwd=None, timeout=3600, e=None):
    p = subprocess.run(cmd, cwd=cwd, env=e or env, shell=isinstance(cmd, str), stdout=subprocess.PIPE, stderr=subprocess.STDOUT, timeout=timeout)
    return p.returncode, p.stdout.decode("utf-8", "replace")

def main():
    mdir, props = sys.argv[1], sys.argv[2].split(",")
    keep = sys.argv[sys.argv.index("--keep-as") + 1] if "--keep-as" in sys.argv else None
    nosuite = "--nosuite" in sys.argv
    wt = "/tmp/seedwt-%d" % os.getpid()
    sh(["git", "-C", "/repo", "worktree", "add", "-q", "--detach", wt, "HEAD"])
    res = dict(dir=mdir, props=props)
    try:
        runsh = open(os.path.join(mdir, "run.sh")).read()
        def run_demo():
            script = runsh.replace(mdir, "@@MDIR@@")
            script = re.sub(r"/tmp/mut2?-C\d+-out/\d+", "@@MDIR@@", script)
            script = re.sub(r"/tmp/mut2?-C\d+(?![\d-])", wt, script).replace("@@MDIR@@", mdir)
            tmp = os.path.join(mdir, ".seed_run.sh")  # next to the demo: scripts may use $(dirname "$0")
            open(tmp, "w").write(script)
            rc, out = sh(["bash", tmp], cwd=wt, timeout=1800)
            os.remove(tmp)
            if "no tests to run" in out or "cannot stat" in out or "No such file" in out:
                rc = 99  # the demo did not run at all: inconclusive, reported as such
                res["demo_inconclusive"] = out[-300:]
            return rc, out
        rc0, out0 = run_demo()
        res["demo_without_patch_passes"] = rc0 == 0
        rc, out = sh(["git", "apply", os.path.join(mdir, "patch.diff")], cwd=wt)
        res["patch_applies"] = rc == 0
        if rc != 0:
            res["apply_err"] = out[-500:]
            return res
        rc, out = sh("go build ./... ", cwd=wt, timeout=1800)
        res["builds"] = rc == 0
        rc1, out1 = run_demo()
        res["demo_with_patch_fails"] = rc1 != 0
        sh("git status --short | grep -v '^ M' | awk '{print $2}' | xargs -r rm -rf", cwd=wt)
        if not nosuite:
            rc, out = sh("go test -vet=off -count=1 ./... 2>&1 | grep -v 'no test files' | grep -v '^ok' ", cwd=wt, timeout=3600)
            fails = [l for l in out.splitlines() if l.startswith("FAIL") or l.startswith("--- FAIL")]
            # timing-dependent tests flake on a loaded machine: re-run failing packages alone (twice) before concluding
            pkgs = sorted({l.split()[1] for l in fails if l.startswith("FAIL\t") and len(l.split()) > 1})
            still = []
            for pk in pkgs:
                okk = False
                for _ in range(2):
                    rc2, out2 = sh("go test -vet=off -count=1 " + pk.replace("github.com/siglens/siglens", "."), cwd=wt, timeout=1800)
                    if rc2 == 0:
                        okk = True
                        break
                if not okk:
                    still.append(pk)
            res["suite_passes"] = not still
            res["suite_fail_lines"] = fails[:5]
            res["suite_flaky_retried"] = pkgs
        checks = {}
        for p in props:
            t0 = time.time()
            rc, out = sh([os.path.join(V, "check"), p], cwd=V, timeout=7200, e=dict(env, VERIF_REPO=wt))
            vio = [l for l in out.splitlines() if l.startswith("VIOLATION")]
            summ = [l for l in out.splitlines() if l.startswith("[" + p + "]")]
            det = []
            for v in vio:
                m = re.search(r"replay=(\S+)", v)
                if m and os.path.exists(m.group(1)):
                    d = json.load(open(m.group(1)))
                    det.append(dict(kind=d.get("kind"), sig=d.get("sig"), what=(d.get("msg") or d.get("what") or "")[:200], theorems=d.get("theorems"), fact=d.get("fact"), suffix="no-failing-input-found" if v.endswith("no-failing-input-found") else "failing-input"))
            checks[p] = dict(exit=rc, violations=len(vio), details=det, summary=summ[-1] if summ else out[-300:], wall_s=round(time.time() - t0))
        res["checks"] = checks
        res["detected"] = any(c["violations"] > 0 for c in checks.values())
        if keep:
            kd = os.path.join(V, "seeded", keep)
            os.makedirs(kd, exist_ok=True)
            for fn in ([] if os.path.abspath(kd) == os.path.abspath(mdir) else os.listdir(mdir)):
                if fn.endswith(".log"):
                    continue
                src = os.path.join(mdir, fn)
                if os.path.isdir(src):
                    shutil.copytree(src, os.path.join(kd, fn), dirs_exist_ok=True)
                else:
                    shutil.copyfile(src, os.path.join(kd, fn))
            meta = {}
            try:
                meta = json.load(open(os.path.join(mdir, "meta.json")))
            except Exception:
                pass
            old = meta.get("confirmed_by_owner") or {}
            meta["confirmed_by_owner"] = {k: res.get(k) for k in ("patch_applies", "builds", "suite_passes", "demo_with_patch_fails", "demo_without_patch_passes")}
            if nosuite and old.get("suite_passes") is not None:
                # re-run against a newer HEAD without repeating the whole existing suite: keep the earlier confirmation
                meta["confirmed_by_owner"]["suite_passes"] = old["suite_passes"]
                meta["suite_confirmed_at_commit"] = meta.get("suite_confirmed_at_commit") or meta.get("base_commit")
            meta["base_commit"] = sh(["git", "-C", "/repo", "rev-parse", "--short", "HEAD"])[1].strip()
            meta["our_checks"] = checks
            meta["detected"] = res["detected"]
            meta["what_we_ran"] = ["git worktree add <tmp> HEAD; git apply patch.diff; go build ./...; run.sh (with and without patch); go test -vet=off -count=1 ./...; VERIF_REPO=<tmp> ./check " + " / ".join(props)]
            json.dump(meta, open(os.path.join(kd, "meta.json"), "w"), indent=1)
        return res
    finally:
        sh(["git", "-C", "/repo", "worktree", "remove", "--force", wt])
        shutil.rmtree(wt, ignore_errors=True)

if __name__ == "__main__":
    r = main()
    print(json.dumps(r, indent=1))
