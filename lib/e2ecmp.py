"""comparison of the engine's canonical answer with the Lean specification's answer for e2e suites.
Returns a list of (sig, msg); empty = the answer satisfies the specification (with the latitude the
property statements grant)."""
import binascii
from fractions import Fraction


def seg_parse(seg):
    d = {}
    for tok in seg.strip().split(" "):
        if "=" in tok:
            k, v = tok.split("=", 1)
            d[k] = v
    return d


def ints(s):
    return [int(x) for x in s.split(",") if x != ""]


def unhex(h):
    try:
        return binascii.unhexlify(h).decode("utf-8", "replace")
    except Exception:
        return "?" + h


def num_of(tv):
    """numeric value of a canonical typed value, or None"""
    try:
        if tv[0] in "id":
            return Fraction(tv[1:])
        if tv[0] == "s":
            t = unhex(tv[1:])
            if t.strip() != t or t == "":
                return None
            return Fraction(t)
    except Exception:
        return None
    return None


def parse_recs(s):
    recs = []
    if s == "":
        return recs
    for r in s.split(";"):
        head, _, body = r.partition("{")
        vid, _, ts = head.partition("@")
        body = body.rstrip("}")
        fields = {}
        if body:
            for kvp in body.split(","):
                k, _, v = kvp.partition("=")
                fields[k] = v
        recs.append((vid, ts, fields))
    return recs


def close(e, g):
    """floating sums/averages: equal up to rounding error (C04 grants it)"""
    try:
        a, b = Fraction(e), Fraction(g)
    except Exception:
        return e == g
    if a == b:
        return True
    return abs(a - b) <= Fraction(1, 10 ** 9) * max(abs(a), abs(b), 1)


# class labels of REPAIRED log-search deviations (known_findings.txt `fixed:` lines; the specification no longer emits
# them).  Like M_FIXED on the metrics side they never excuse anything: should one reappear, a disagreement that a still
# recorded class of the query can explain is reported under that class alone, and one that only repaired classes could
# explain is reported as e2e/<what>/<repaired class> — a sig no `known:` line lists, i.e. a VIOLATION under the name the
# defect had.
L_FIXED = {"free-text-negation", "negation-over-sparse-field", "numeric-string-value-numeric-literal",
           "number-and-text-share-column", "int-value-decimal-literal", "by-field-sparse", "measure-field-sparse",
           "measure-field-absent-from-dataset", "pq-ingest-negated-term", "pq-ingest-record-without-query-columns",
           "negated-numeric-term", "where-quoted-number-not-canonical", "dc-over-numeric-text"}


def cls_sig(kind, cls):
    # labels "grant:…" only switch on a latitude of the comparison; they are not deviation classes
    cs = set(c for c in cls.split(",") if c and not c.startswith("grant:"))
    if cs - L_FIXED:
        cs -= L_FIXED
    return "e2e/%s/%s" % (kind, "+".join(sorted(cs)) or "plain")


def agg_ok(name, e, g):
    """one aggregate: expected (exact rational of the specification, or none) vs got.  count / min / max are exact;
    distinct-count is exact while the sketch still holds the values themselves (the engine's HLL keeps an explicit set up
    to several thousand values), beyond that within 3 %; sums and averages up to floating-point rounding."""
    if e == "none":
        return True  # an aggregate over no numeric input is undefined: whatever the engine prints is accepted
    fn = name.split(".")[0]
    if fn in ("count", "min", "max", "dc", "cnt"):
        try:
            a, b = Fraction(e), Fraction(g)
        except Exception:
            return e == g
        if fn == "dc" and a > 1000:
            return abs(a - b) * 100 <= 3 * a
        return a == b
    return close(e, g)


def tc_cells(s):
    d = {}
    for r in s.split(","):
        if r:
            k, _, v = r.partition("=")
            d[k] = v.split(";")
    return d


ZEROISH = ("0", "none", "missing")


def tc_fold_null(got, aggs):
    """put the nameless series (_) next to the NULL series (~), cell by cell: the value becomes pair:<x>|<y>; whether the
    pair can be the two halves of the expected NULL series is decided per aggregate by tc_val_ok."""
    out = {k: v for k, v in got.items() if not k.endswith(":_")}
    for k, v in got.items():
        if not k.endswith(":_"):
            continue
        nk = k[:-1] + "~"
        w = out.get(nk)
        if w is None or len(w) != len(v):
            out[nk] = v
        elif all(y in ZEROISH for y in v) and all(y in ZEROISH for y in w):
            pass  # both halves report nothing in this cell
        else:
            out[nk] = ["pair:%s|%s" % (x, y) for x, y in zip(v, w)]
    return out


def tc_val_ok(a, e, g):
    """a reported value against the expected one.  pair:x|y = the two halves of a split NULL series: a half that prints 0
    may be empty or may hold events whose aggregate is 0 (the engine prints 0 for both), so: count/sum — the halves add up;
    min/max — the expected value is the min/max of both, or one half alone when the other prints 0; avg — one half alone
    when the other prints 0, else a weighted mean, i.e. between the halves; dc — between the larger half and their sum."""
    if not g.startswith("pair:"):
        return agg_ok(a, e, g)
    if e == "none":
        return True
    x, _, y = g[5:].partition("|")
    try:
        fx = Fraction(0) if x in ZEROISH else Fraction(x)
        fy = Fraction(0) if y in ZEROISH else Fraction(y)
        fe = Fraction(e)
    except Exception:
        return False
    fn = a.split(".")[0]
    if fn in ("count", "sum"):
        return agg_ok(a, e, str(fx + fy))
    cands = []
    if x in ZEROISH:
        cands.append(fy)
    if y in ZEROISH:
        cands.append(fx)
    if fn in ("min", "max"):
        cands.append(min(fx, fy) if fn == "min" else max(fx, fy))
        return any(agg_ok(a, e, str(c)) for c in cands)
    if any(agg_ok(a, e, str(c)) for c in cands):
        return True
    if fn == "avg":
        lo, hi = min(fx, fy), max(fx, fy)
        return lo <= fe <= hi or close(e, str(lo)) or close(e, str(hi))
    if fn == "dc":
        return max(fx, fy) <= fe <= fx + fy
    return False


def tc_diff(exp, got, aggs):
    """cells of a timechart.  The engine lists every series of the answer in every cell it reports; a cell the
    specification does not have holds no event and must say so (0 / nothing).  The NULL series (events lacking the
    by-field) is optional as a whole: reported → it must be right."""
    diff = []
    null_reported = any(k.endswith(":~") for k in got)
    for k in sorted(set(exp) | set(got)):
        if k.endswith(":~") and not null_reported:
            continue
        ev, gv = exp.get(k), got.get(k)
        if ev is None:
            if any(x not in ZEROISH for x in gv):
                diff.append((k, ";".join(gv), "no event in this cell"))
        elif gv is None:
            # a series none of whose aggregates is defined in this cell (e.g. avg(m) over events that all lack m) carries
            # no answer: the engine need not list it
            if all(x == "none" for x in ev):
                continue
            diff.append((k, None, ";".join(ev)))
        elif len(ev) != len(gv) or len(ev) != len(aggs) or not all(tc_val_ok(a, e, g) for a, e, g in zip(aggs, ev, gv)):
            diff.append((k, ";".join(gv), ";".join(ev)))
    return diff


# ---------------------------------------------------------------- metrics (suite e2e_metrics; spec lean/SigModel/Spec/Metrics.lean)
# which recorded deviation classes (cls= of the specification's answer, see Spec/Metrics.lean `classes`) can explain which
# kind of disagreement; a disagreement that none of the query's classes can explain is reported without class
M_SELECT = {"absent-label-matcher", "same-label-twice", "no-tags", "tsid-preimage-collision", "tag-value-over-64k",
            "numeric-tag-value", "remote-write-escape", "tsids-per-value-over-64k", "crash-before-tags-flush", "escaped-metric-name",
            "escaped-tag-value-tsid"}
M_LABELS = {"value-has-comma", "json-escaped-tag-value", "tsid-preimage-collision", "tag-value-over-64k",
            "numeric-tag-value", "remote-write-escape", "tsids-per-value-over-64k"}
M_RELEVANT = {
    "series-missing": M_SELECT,
    "series-extra": {"absent-label-matcher", "matcher-on-missing-key", "same-label-twice", "tsid-preimage-collision", "regex-on-empty-value", "tag-value-over-64k",
                     "numeric-tag-value", "remote-write-escape", "tsids-per-value-over-64k", "star-literal-matcher", "tag-value-not-a-string",
                     "escaped-metric-name"},
    "series-merged": {"name-regex-same-tagset", "tsid-preimage-collision"},
    "series-duplicated": set(),
    "labels-changed": M_LABELS,
    "point-missing": {"tsid-preimage-collision", "absent-label-matcher", "tag-value-over-64k", "tsids-per-value-over-64k", "remote-write-escape", "numeric-tag-value",
                      "crash-before-tags-flush", "escaped-metric-name", "tag-value-not-a-string", "escaped-tag-value-tsid"},
    "point-extra": {"tsid-preimage-collision", "tag-value-not-a-string"},
    "label-values": {"tag-value-not-a-string", "crash-before-tags-flush", "label-values-first-metric-only", "label-values-of-all-keys"},
    "value-bits-changed": {"negative-zero", "tsid-preimage-collision", "name-regex-same-tagset", "tag-value-not-a-string"},
    # (repaired) "unknown value type" of the rotated exact-match reader; a tags tree holder that was never flushed before a crash
    "query-error": {"numeric-tag-value", "crash-before-tags-flush"},
}
M_AGG = M_SELECT | M_LABELS | {"name-regex-same-tagset", "regex-on-empty-value", "empty-group-key", "matcher-on-missing-key",
                               "agg-value-has-brace", "binop-label-order", "binop-trailing-comma", "star-literal-matcher", "tag-value-not-a-string"}
# binary operators between vectors: the classes that can keep an element from finding its partner / change an operand
M_BIN = {"value-has-comma", "absent-label-matcher", "matcher-on-missing-key", "same-label-twice", "regex-on-empty-value", "empty-group-key",
         "name-regex-same-tagset", "agg-value-has-brace", "binop-label-order", "binop-trailing-comma", "tsid-preimage-collision", "no-tags",
         "tag-value-over-64k", "crash-before-tags-flush", "star-literal-matcher", "tag-value-not-a-string",
         "binop-one-sided-timestamp", "binop-division-by-zero", "vector-matching-label-chars", "set-operator-with-on", "unary-minus",
         "comparison-scalar-on-the-left", "empty-intermediate-vector", "escaped-metric-name", "mixed-name-vector-operand",
         "vector-matching-value-ends-with-brace", "escaped-tag-value-tsid"}
# classes of REPAIRED deviations (known_findings.txt `fixed:` lines).  They never excuse anything: a disagreement that a
# still recorded class of the query can explain is reported under that class alone; one that only repaired classes could
# explain is reported as e2em/in-class/<repaired class>, which no `known:` line lists any more — i.e. as a VIOLATION
# under the name the defect had.
M_FIXED = {"tsid-preimage-collision", "no-tags", "negative-zero", "json-escaped-tag-value",
           "same-label-twice", "regex-on-empty-value", "tag-value-over-64k", "matcher-on-missing-key",
           "numeric-tag-value", "remote-write-escape", "tsids-per-value-over-64k",
           "agg-value-has-brace", "binop-label-order", "binop-trailing-comma",
           # second metrics round (patches c08-1, c09-16 … c09-23)
           "star-literal-matcher", "tag-value-not-a-string", "binop-one-sided-timestamp", "binop-division-by-zero",
           "vector-matching-label-chars", "set-operator-with-on", "unary-minus", "comparison-scalar-on-the-left",
           "empty-intermediate-vector", "label-values-first-metric-only", "label-values-of-all-keys", "escaped-metric-name",
           "mixed-name-vector-operand",
           # patch c08-3: the TSID is hashed over tag values, not over their JSON spelling
           "escaped-tag-value-tsid",
           # patch c09-26: count over series that share one group id
           "name-regex-same-tagset",
           # patch c09-27: series whose group has no labels
           "empty-group-key"}


def m_sig(what, cls):
    """e2em/<what> (series-missing, value-bits-changed, agg/<fn>, …) for inputs outside every recorded deviation class that
    could explain <what>; else e2em/in-class/<class+class>: the witness class is the input class, what went wrong is in the message"""
    rel = M_BIN if what.startswith("agg/binop") else M_AGG if what.startswith("agg") else M_RELEVANT.get(what, set())
    cs = set(c for c in cls if c and c in rel)
    if cs - M_FIXED:
        cs -= M_FIXED
    c = "+".join(sorted(cs))
    if not c:
        return "e2em/" + what
    return "e2em/in-class/" + c


def m_parse_series(s):
    """'<hexname>{k=hexv,…}@ts:val,…;…' → list of (namehex, labels, {ts: val})"""
    out = []
    for item in s.split(";"):
        if not item:
            continue
        head, _, pts = item.partition("}@")
        name, _, labels = head.partition("{")
        d = {}
        for p in pts.split(","):
            if p:
                t, _, v = p.partition(":")
                d[int(t)] = v
        out.append((name, "{" + labels + "}", d))
    return out


def m_show(key):
    name, labels = key
    inner = ",".join(k + "=" + unhex(v) for k, _, v in (x.partition("=") for x in labels.strip("{}").split(",") if x))
    return (unhex(name) if name else "") + "{" + inner + "}"


def m_same_points(ep, gp):
    nz = lambda v: "0000000000000000" if v == "8000000000000000" else v
    return set(ep) == set(gp) and all(nz(ep[t]) == nz(gp[t]) for t in ep)


def compare_mbin(ia, mb, qi):
    """binary operator between two vectors (Spec/Metrics.lean evalBin): the specification lists, per result label set, the
    JUDGED samples (ts:value) and the samples it leaves open (ts:?).  Required: every judged sample is returned with that
    value; every returned sample belongs to a listed label set and to a listed timestamp (judged → same value, open →
    anything).  A label set all of whose samples are open need not be returned.  Names are not compared.  Latitude
    `unaligned` (either operand): nothing but errors is compared."""
    cls = [c for c in mb.get("cls", "").split(",") if c]
    lat = set(c for c in mb.get("lat", "").split(",") if c)
    if ia.get("kind") == "error":
        return [(m_sig("agg/binop-query-error", cls), "binary-operator query %d answered with an error: %s" % (qi, unhex(ia.get("err", ""))[:200]))]
    if ia.get("kind") != "mbin":
        return [("e2em/protocol/kind", "query %d: impl kind %s model kind mbin" % (qi, ia.get("kind")))]
    if "unaligned" in lat:
        return []
    fails = []
    E, G = {}, {}
    for _, labels, pts in m_parse_series(mb.get("ser", "")):
        E.setdefault(labels, {}).update(pts)
    dup = []
    for _, labels, pts in m_parse_series(ia.get("ser", "")):
        if not pts:
            continue
        # (`or` may report the samples of one label set under two series — the left one and the right one — at
        # different timestamps; two samples of one label set at ONE timestamp are a duplicate)
        if labels in G and set(G[labels]) & set(pts):
            dup.append(labels)
        G.setdefault(labels, {}).update(pts)
    def sig(what):
        return m_sig("agg/binop-" + what, cls)
    if dup:
        fails.append((sig("duplicate"), "query %d: the label set %s is reported by more than one result series" % (qi, [m_show(("", k)) for k in dup][:3])))
    missing = sorted(k for k in E if k not in G and any(v != "?" for v in E[k].values()))
    extra = sorted(k for k in G if k not in E)
    if missing:
        fails.append((sig("missing"), "query %d: result series %s missing (label sets that occur on both sides resp. that the set operator keeps)" % (qi, [m_show(("", k)) for k in missing][:4])))
    if extra:
        fails.append((sig("extra"), "query %d: result series %s not expected (their label set has no partner resp. the set operator drops them)" % (qi, [m_show(("", k)) for k in extra][:4])))
    for k in sorted(E):
        if k not in G:
            continue
        ep, gp = E[k], G[k]
        bad = []
        for t in sorted(set(ep) | set(gp)):
            e, g = ep.get(t), gp.get(t)
            if e == "?":
                continue
            if e is None or g is None or not (e == g or (e not in ("inf", "-inf", "nan") and g not in ("inf", "-inf", "nan") and close(e, g))):
                bad.append((t, e, g))
        if bad:
            fails.append((sig("value"), "query %d result %s: (ts, expected, got) %s" % (qi, m_show(("", k)), bad[:6])))
    return fails


def compare_metrics(ia, mb, qi):
    """selectors: exact equality of the series set, label sets, timestamps and value BITS; aggregations: exact
    rationals (avg: up to rounding).  Declared latitude (never silent):
      * lat=unaligned   : some selected point is not on the start of its downsample bucket for this query range; the engine
                          reports bucket starts and merges points of one bucket, so only series and label sets are compared;
      * lat=inexact-sum : sum/avg over values that are not small integers: compared up to floating-point rounding;
      * namere=1        : the selector matches __name__ by regex: no latitude any more — every series is reported under
                          its own metric name (before the repair the engine reported "*" and merged equal tag sets of different metrics:
                          e2em/name-regex-selector-reports-star; under an aggregation the merge is still recorded, class name-regex-same-tagset);
      * aggregation results: PromQL drops the metric name, the engine keeps it (or "*"); names are not compared;
      * a result series without any point (e.g. count() over an empty selection) is the same as no series;
      * EMPTY label values are ordinary values for identity and grouping (what the unchanged engine does, and what the
        specification therefore states): m{a="x",z=""} and m{a="x"} are two series, reported with exactly the ingested
        labels, and fall into the groups {z=""} and {} of `by (z)`.  PromQL would identify an empty value with an absent
        label; the engine's ingest paths do not, the property statements do not say — no merging is granted either way,
        because two series that the unchanged engine keeps apart must stay apart.  Matchers read absent and empty both as ""."""
    fails = []
    kind = mb.get("kind")
    cls = [c for c in mb.get("cls", "").split(",") if c]
    lat = set(c for c in mb.get("lat", "").split(",") if c)
    if kind in ("bad-range", "magg-undefined", "mbin-undefined"):
        return fails  # the specification does not define an answer
    if kind == "mlv":
        # label-values API: exactly the values of the label over the accepted, ingested series
        if ia.get("kind") == "error":
            return [(m_sig("query-error", cls), "label-values query %d answered with an error: %s" % (qi, unhex(ia.get("err", ""))[:200]))]
        if ia.get("kind") != "mlv":
            return [("e2em/protocol/kind", "query %d: impl kind %s model kind mlv" % (qi, ia.get("kind")))]
        ev = set(x for x in mb.get("vals", "").split(",") if x)
        gv = set(x for x in ia.get("vals", "").split(",") if x)
        if ev != gv:
            sh = lambda l: [unhex(x[1:]) for x in sorted(l)][:6]
            return [(m_sig("label-values", cls), "query %d (label values): missing %s, not expected %s (values of other labels, or of datapoints that were rejected)" % (qi, sh(ev - gv), sh(gv - ev)))]
        return fails
    if ia.get("kind") == "error":
        return [(m_sig("query-error", cls), "%s query %d answered with an error: %s" % (kind, qi, unhex(ia.get("err", ""))[:200]))]
    if ia.get("kind") != kind:
        return [("e2em/protocol/kind", "query %d: impl kind %s model kind %s" % (qi, ia.get("kind"), kind))]
    agg = kind == "magg"
    strip_name = agg
    exp, got = m_parse_series(mb.get("ser", "")), m_parse_series(ia.get("ser", ""))
    got = [g for g in got if g[2]]  # latitude: a result series without a single point carries no answer
    if not agg and mb.get("namere") == "1" and any(g[0] == "2a" for g in got):
        # (repaired) the engine used to report every series of a selector with a regex on __name__ under the name "*"
        return [("e2em/name-regex-selector-reports-star", "query %d: a selector with a regex on __name__ reports series under the name \"*\" instead of their metric names (series of different metrics with equal tag sets are then merged into one)" % qi)]

    def keyed(lst):
        d = {}
        for name, labels, pts in lst:
            d.setdefault(("" if strip_name else name, labels), []).append(pts)
        return d
    E, G = keyed(exp), keyed(got)
    what_groups = "agg-groups" if agg else None
    missing = sorted(k for k in E if k not in G)
    extra = sorted(k for k in G if k not in E)
    dup_exp = sorted(k for k in E if len(E[k]) > 1)
    dup_got = sorted(k for k in G if len(G[k]) > 1)
    if dup_got:
        fails.append((m_sig(what_groups or "series-duplicated", cls), "query %d: the same series is reported more than once: %s" % (qi, [m_show(k) for k in dup_got][:4])))
    if dup_exp:
        # distinct series (different names) with equal tag sets under a name regex: they must stay distinct
        fails.append((m_sig("series-merged", cls), "query %d: %d distinct series with tag set %s (different names) are reported as one" % (qi, len(E[dup_exp[0]]), m_show(dup_exp[0]))))
    if missing or extra:
        if agg:
            fails.append((m_sig("agg-groups", cls), "query %d: groups missing %s, groups not expected %s" % (qi, [m_show(k) for k in missing][:4], [m_show(k) for k in extra][:4])))
        elif missing and extra and ((any(m_same_points(E[m][0], G[x][0]) for m in missing for x in extra)
                                     and (set(cls) & M_LABELS or not set(cls) & (M_RELEVANT["series-missing"] | M_RELEVANT["series-extra"])))
                                    or ("unaligned" in lat and len(missing) == len(extra) and set(cls) & M_LABELS)):
            # (equal points can be a coincidence: with a recorded SELECTION class and no label class it is read as selection)
            # the same points (up to the recorded -0 → +0 deviation) under other labels
            fails.append((m_sig("labels-changed", cls), "query %d: series %s not returned, series %s (same points) returned but never ingested under these labels" % (qi, [m_show(k) for k in missing][:4], [m_show(k) for k in extra][:4])))
        elif missing and extra:
            fails.append((m_sig("series-missing", cls), "query %d: series %s not returned" % (qi, [m_show(k) for k in missing][:4])))
            fails.append((m_sig("series-extra", cls), "query %d: series %s returned but not expected (not selected by the matchers, or never ingested under these labels)" % (qi, [m_show(k) for k in extra][:4])))
        elif extra:
            fails.append((m_sig("series-extra", cls), "query %d: series %s returned but not expected (not selected by the matchers, or never ingested under these labels)" % (qi, [m_show(k) for k in extra][:4])))
        else:
            # are the points of the missing series found inside another returned series?
            merged = False
            for k in missing:
                for pts in E[k]:
                    for gk, gl in G.items():
                        own = set(t for ep in E.get(gk, []) for t in ep)
                        if any(all(gp.get(t) == v and t not in own for t, v in pts.items()) for gp in gl):
                            merged = True
            fails.append((m_sig("series-merged" if merged else "series-missing", cls), "query %d: series %s not returned%s" % (qi, [m_show(k) for k in missing][:4], " (their points appear inside another series)" if merged else "")))
    if "unaligned" in lat:
        return fails
    for k in sorted(E):
        if k not in G or len(E[k]) != 1 or len(G[k]) != 1:
            continue
        ep, gp = E[k][0], G[k][0]
        ets, gts = set(ep), set(gp)
        if ets != gts:
            what = "point-missing" if ets - gts else "point-extra"
            if agg:
                what = "agg/" + mb.get("fn", "?")
            fails.append((m_sig(what, cls), "query %d series %s: timestamps missing %s, not expected %s" % (qi, m_show(k), sorted(ets - gts)[:6], sorted(gts - ets)[:6])))
        bad = [(t, ep[t], gp[t]) for t in sorted(ets & gts) if ep[t] != gp[t]]
        if not bad:
            continue
        if agg:
            fn = mb.get("fn", "?")
            if fn == "avg" or "inexact-sum" in lat:
                bad = [(t, e, g) for t, e, g in bad if g in ("nan", "inf") or not close(e, g)]
            if bad:
                fails.append((m_sig("agg/" + fn, cls), "query %d group %s: (ts, expected, got) %s" % (qi, m_show(k), bad[:6])))
        else:
            negz = all(e == "8000000000000000" and g == "0000000000000000" for _, e, g in bad)
            fails.append((m_sig("value-bits-changed", cls + (["negative-zero"] if negz else [])), "query %d series %s: (ts, ingested bits, returned bits) %s" % (qi, m_show(k), bad[:6])))
    return fails


def compare(impl, model):
    fails = []
    if impl.startswith("worker-") or impl == "panic":
        return fails  # already reported by the harness as a PropFail
    if impl == model == "bad-op":
        return fails
    isegs, msegs = impl.split(" | "), model.split(" | ")
    if isegs and isegs[-1].startswith("kind=layoutdiff"):
        # C03: the same events under two layouts must give the same answers (whatever the spec says)
        ld = seg_parse(isegs[-1]).get("q", "")
        isegs = isegs[:-1]
        for q in [x for x in ld.split(",") if x]:
            cls = ""
            if q.isdigit() and int(q) < len(msegs):
                mq = seg_parse(msegs[int(q)])
                cls = mq.get("cls", "")
                # a stats row made of nothing but distinct counts over columns mixing numbers and numeric text (labels
                # grant:dcmixed:<f>): the recorded class e2e/stats/dc-over-numbers-and-numeric-text is a layout dependence by itself
                dcnum = set("dc." + c[len("grant:dcmixed:"):] for c in cls.split(",") if c.startswith("grant:dcmixed:"))
                qaggs = [a for a in mq.get("aggs", "").split(",") if a]
                if mq.get("kind") == "stats" and qaggs and all(a in dcnum for a in qaggs):
                    fails.append(("e2e/layout-differs/dc-over-numbers-and-numeric-text", "query %s (%s): the two layouts of the same events give different distinct counts" % (q, ",".join(qaggs))))
                    continue
            fails.append((cls_sig("layout-differs", cls), "query %s: the two layouts of the same events give different answers" % q))
    if len(isegs) != len(msegs):
        return [("e2e/protocol/segment-count", "impl %d segments, model %d" % (len(isegs), len(msegs)))]
    for qi, (a, b) in enumerate(zip(isegs, msegs)):
        ia, mb = seg_parse(a), seg_parse(b)
        kind = mb.get("kind")
        if kind == "mbin":
            fails += compare_mbin(ia, mb, qi)
            continue
        if kind in ("mseries", "magg", "magg-undefined", "mbin-undefined", "bad-range", "mlv"):
            fails += compare_metrics(ia, mb, qi)
            continue
        cls = mb.get("cls", "")
        if ia.get("kind") == "error":
            if "by-field-sparse" in cls.split(","):
                cls = "by-field-sparse"  # the error message names the group-by bucket: the other classes are incidental
            fails.append((cls_sig("query-error", cls), "%s query %d answered with an error: %s" % (kind, qi, unhex(ia.get("err", ""))[:200])))
            continue
        if ia.get("kind") != kind:
            fails.append(("e2e/protocol/kind", "query %d: impl kind %s model kind %s" % (qi, ia.get("kind"), kind)))
            continue
        frm, size = int(mb.get("from", 0)), int(mb.get("size", 1000))
        if kind == "ids":
            got = []
            for x in ia.get("ids", "").split(","):
                if x:
                    v, _, t = x.partition("@")
                    got.append((int(v) if v.isdigit() else -1, int(t) if t.isdigit() else -1))
            tss = [t for _, t in got]
            if any(tss[i] < tss[i + 1] for i in range(len(tss) - 1)):
                fails.append(("e2e/order/not-newest-first", "query %d: timestamps not non-increasing: %s" % (qi, tss[:20])))
            vids = [v for v, _ in got]
            if len(set(vids)) != len(vids):
                fails.append(("e2e/ids/duplicate-event", "query %d: an event is returned twice: %s" % (qi, vids[:30])))
            must, may, order = ints(mb.get("must", "")), ints(mb.get("may", "")), ints(mb.get("order", ""))
            ots = ints(mb.get("ots", ""))
            if not may and (frm > 0 or len(order) > size):
                # a page / limit: the timestamps of a valid page are determined, ties may be cut anywhere
                exp_ts = ots[frm:frm + size]
                tsof = dict(zip(order, ots))
                if sorted(tss, reverse=True) != exp_ts:
                    fails.append((cls_sig("paging", cls), "query %d: page [%d,+%d) has timestamps %s expected %s" % (qi, frm, size, tss[:20], exp_ts[:20])))
                elif any(tsof.get(v) != t for v, t in got):
                    fails.append((cls_sig("paging", cls), "query %d: page holds events that are not matches: %s" % (qi, got[:20])))
            elif not may:
                exp = order[frm:frm + size]
                # canonical tie order on the impl side
                canon = [v for v, t in sorted(got, key=lambda p: (-p[1], p[0]))]
                if canon != exp:
                    what = "filter" if set(canon) != set(exp) else "order"
                    if frm > 0 or len(order) > size:
                        what = "paging" if set(canon) != set(exp) else "order"
                    fails.append((cls_sig(what, cls), "query %d: got %s expected %s" % (qi, canon[:40], exp[:40])))
            elif frm == 0 and len(order) <= size:
                s = set(vids)
                if not (set(must) <= s <= set(must) | set(may)):
                    fails.append((cls_sig("filter", cls), "query %d: got %s; must contain %s, may contain %s" % (qi, sorted(s)[:40], must[:40], may[:40])))
        elif kind == "pages":
            if int(mb.get("nmay", 0)) > 0:
                continue
            order, ots = ints(mb.get("order", "")), ints(mb.get("ots", ""))
            k = int(mb.get("k", 1))
            pages = ia.get("pages", "").split(";")
            allgot = []
            for pi, pg in enumerate(pages):
                items = []
                for x in pg.split(","):
                    if x:
                        v, _, t = x.partition("@")
                        items.append((int(v) if v.isdigit() else -1, int(t) if t.isdigit() else -1))
                if pg in ("error", "undecodable"):
                    fails.append(("e2e/paging/query-error", "query %d page %d failed" % (qi, pi)))
                if len(items) > k:
                    fails.append(("e2e/paging/page-too-long", "query %d page %d has %d > %d records" % (qi, pi, len(items), k)))
                allgot += items
            tss = [t for _, t in allgot]
            vids = [v for v, _ in allgot]
            if len(set(vids)) != len(vids):
                dup = sorted(v for v in set(vids) if vids.count(v) > 1)
                tsof = dict(zip(order, ots))
                tied = all(ots.count(tsof.get(v, -1)) > 1 for v in dup)
                fails.append(("e2e/paging/event-on-two-pages" + ("-among-equal-timestamps" if tied else ""), "query %d: events %s returned on more than one page (pages of %d)" % (qi, dup[:10], k)))
            elif sorted(vids) != sorted(order):
                fails.append(("e2e/paging/event-on-no-page", "query %d: paging returned %d of %d matches; missing %s extra %s" % (qi, len(vids), len(order), sorted(set(order) - set(vids))[:10], sorted(set(vids) - set(order))[:10])))
            elif any(tss[i] < tss[i + 1] for i in range(len(tss) - 1)):
                fails.append(("e2e/order/not-newest-first", "query %d: concatenated pages not newest first" % qi))
        elif kind == "tail":
            # `| tail n`: the n oldest matches (ties on the cut: any), handed out oldest first
            if int(mb.get("nmay", 0)) > 0:
                continue
            order, ots = ints(mb.get("order", "")), ints(mb.get("ots", ""))
            n = int(mb.get("n", 1))
            got = []
            for x in ia.get("ids", "").split(","):
                if x:
                    v, _, t = x.partition("@")
                    got.append((int(v) if v.isdigit() else -1, int(t) if t.isdigit() else -1))
            tsof = dict(zip(order, ots))
            exp_ts = sorted(ots)[:n]
            gts = [t for _, t in got]
            if len(set(v for v, _ in got)) != len(got):
                fails.append(("e2e/tail/duplicate-event", "query %d: an event is returned twice: %s" % (qi, got[:20])))
            elif sorted(gts) != exp_ts or any(tsof.get(v) != t for v, t in got):
                fails.append((cls_sig("tail", cls), "query %d: tail %d returned %s; expected the %d oldest matches, timestamps %s" % (qi, n, got[:20], n, exp_ts[:20])))
            elif any(gts[i] > gts[i + 1] for i in range(len(gts) - 1)):
                fails.append(("e2e/tail/not-oldest-first", "query %d: tail hands out the last events of the stream in reverse order (oldest first); got timestamps %s" % (qi, gts[:20])))
        elif kind == "dedup":
            # `| dedup f`: one event per value of f, the newest one (among equal timestamps: any of them)
            if int(mb.get("nmay", 0)) > 0:
                continue
            groups = {}
            for g in mb.get("groups", "").split(","):
                if g:
                    head, _, cands = g.partition(":")
                    groups[head] = set(cands.split("+"))
            got = [x.partition("@")[0] for x in ia.get("ids", "").split(",") if x]
            used, bad = {}, []
            for v in got:
                hit = [h for h, c in groups.items() if v in c]
                if len(hit) != 1 or hit[0] in used:
                    bad.append(v)
                else:
                    used[hit[0]] = v
            missing = sorted(set(groups) - set(used))
            if bad or missing:
                fails.append((cls_sig("dedup", cls), "query %d: dedup returned events %s; events that are not the newest of their value (or a second one of a value): %s; values without an event: %s" % (qi, got[:30], bad[:10], [unhex(m.partition("@")[0]) for m in missing][:10])))
        elif kind == "top":
            # `| top f` / `| rare f`: value -> number of matched events holding it, most / least common first, 10 rows (or
            # all of them) unless a limit is given.  An extra row with the empty key (the events lacking f) is granted; the
            # percentages are judged only when every matched event has f.
            if int(mb.get("nmay", 0)) > 0:
                continue
            exp = {}
            for r in mb.get("rows", "").split(","):
                if r:
                    k, _, v = r.partition("=")
                    exp[k] = int(v)
            rare = mb.get("rare") == "1"
            limit = 10 if mb.get("limit", "-") == "-" else int(mb["limit"])
            total, withf = int(mb.get("total", 0)), int(mb.get("withf", 0))
            got = []
            for r in ia.get("rows", "").split(","):
                if r:
                    k, _, v = r.partition("=")
                    c, _, pc = v.partition(";")
                    got.append((k, c, pc))
            if total > withf:
                got = [g for g in got if g[0] != ""]
            problems = []
            gk = [g[0] for g in got]
            if len(set(gk)) != len(gk):
                problems.append("a value is listed twice")
            for k, c, pc in got:
                if k not in exp:
                    problems.append("value %r does not occur" % unhex(k))
                elif str(exp[k]) != c:
                    problems.append("value %r: count %s expected %d" % (unhex(k), c, exp[k]))
                elif pc not in ("none", "missing") and total == withf:
                    try:
                        f = Fraction(pc)
                        if not any(d and abs(f - Fraction(100 * exp[k], d)) <= Fraction(1, 10 ** 5) for d in (total, withf)):
                            problems.append("value %r: percent %s of count %d in %d (%d with the field)" % (unhex(k), pc, exp[k], total, withf))
                    except Exception:
                        problems.append("value %r: percent %s" % (unhex(k), pc))
            want = min(limit, len(exp))
            # no limit given: Splunk lists 10 values, the engine all of them — either is accepted
            if len(got) != want and not (mb.get("limit", "-") == "-" and len(got) == len(exp)):
                problems.append("%d rows, expected %d" % (len(got), want))
            elif not problems:
                # the rows kept are the most (least) common ones, in that order; ties in any order
                cs = [exp[k] for k in gk]
                ordered = all((cs[i] <= cs[i + 1]) if rare else (cs[i] >= cs[i + 1]) for i in range(len(cs) - 1))
                rest = [c for k, c in exp.items() if k not in gk]
                cut_ok = not rest or not cs or ((max(cs) <= min(rest)) if rare else (min(cs) >= max(rest)))
                if not ordered:
                    problems.append("rows not ordered by count: %s" % cs)
                if not cut_ok:
                    problems.append("the rows kept (counts %s) are not the %s common ones (counts left out: %s)" % (cs, "least" if rare else "most", sorted(rest)))
            if problems:
                fails.append((cls_sig("top", cls), "query %d: %s %s; got %s expected %s" % (qi, "rare" if rare else "top", "; ".join(problems[:4]), [(unhex(k), c) for k, c, _ in got][:12], sorted((unhex(k), v) for k, v in exp.items())[:12])))
        elif kind == "recs":
            exp = parse_recs(mb.get("recs", ""))[frm:frm + size]
            got = parse_recs(ia.get("recs", ""))
            got = sorted(got, key=lambda r: (-int(r[1]) if r[1].isdigit() else 0, int(r[0]) if r[0].isdigit() else -1))
            # events the specification leaves to the engine (sent but not flushed when the query ran): may be there
            mayv = set(x for x in mb.get("may", "").split(",") if x)
            expv = set(r[0] for r in exp)
            got = [r for r in got if r[0] in expv or r[0] not in mayv]
            gv, ev = [r[0] for r in got], [r[0] for r in exp]
            if len(set(gv)) != len(gv):
                fails.append(("e2e/recs/duplicate-event", "query %d: duplicate events %s" % (qi, gv[:30])))
            if sorted(gv) != sorted(ev):
                miss = sorted(set(ev) - set(gv))
                extra = sorted(set(gv) - set(ev))
                fails.append(("e2e/recs/" + ("missing-event" if miss else "extra-event"), "query %d: missing %s extra %s" % (qi, miss[:20], extra[:20])))
                continue
            # columns that hold non-numeric text somewhere in the answer (latitude: numbers there may be text)
            texty = set(x for x in mb.get("texty", "").split(",") if x)
            # (vid:column) of the numeric strings whose OWN block holds a JSON number in that column (absent: an answer
            # of an older format, every pair granted)
            nsgrant = set(x for x in mb["nsgrant"].split(",") if x) if "nsgrant" in mb else None
            gmap = {r[0]: r for r in got}
            for vid, ts, fs in exp:
                g = gmap[vid]
                if g[1] != ts:
                    fails.append(("e2e/recs/timestamp-changed", "query %d event %s: ts %s expected %s" % (qi, vid, g[1], ts)))
                gf = g[2]
                for k, v in fs.items():
                    if k not in gf and v == "s":
                        fails.append(("e2e/recs/empty-string-returned-as-absent", "query %d event %s: field %s was sent as the empty string and is not returned" % (qi, vid, k)))
                        continue
                    if k not in gf:
                        fails.append(("e2e/recs/missing-field", "query %d event %s: field %s=%s not returned" % (qi, vid, k, v)))
                        continue
                    w = gf[k]
                    if w == v:
                        continue
                    nv, nw = num_of(v), num_of(w)
                    if v[0] in "id" and w[0] in "id" and nv == nw:
                        continue
                    if v[0] in "id" and w[0] == "s" and nv is not None and nv == nw:
                        if k in texty:
                            continue  # granted by C01: numbers sharing a column with non-numeric strings
                        fails.append(("e2e/recs/number-returned-as-text", "query %d event %s: %s sent %s returned %s" % (qi, vid, k, v, w)))
                        continue
                    if v[0] == "s" and w[0] in "id" and nv is not None and nv == nw:
                        if nsgrant is None or "%s:%s" % (vid, k) in nsgrant:
                            # recorded class: one type per BLOCK column, a numeric string next to numbers becomes a number
                            fails.append(("e2e/recs/numeric-string-returned-as-number", "query %d event %s: %s sent %s returned %s" % (qi, vid, k, v, w)))
                        else:
                            fails.append(("e2e/recs/numeric-string-returned-as-number/no-number-in-its-block", "query %d event %s: %s sent %s (text) returned %s (number) although no event of its block holds a number in %s" % (qi, vid, k, unhex(v[1:]), w[1:], k)))
                        continue
                    if v[0] == "b" and w[0] == "s" and unhex(w[1:]) == ("true" if v == "b1" else "false") and k in texty | {k}:
                        # a bool sharing a column with other types may come back as its text (same latitude class)
                        if any(x[2].get(k, "b")[0] != "b" for x in exp) or k in set(x for x in mb.get("boolmix", "").split(",") if x):
                            continue
                    fails.append(("e2e/recs/value-changed", "query %d event %s: %s sent %s returned %s" % (qi, vid, k, v, w)))
                for k in gf:
                    if k not in fs:
                        fails.append(("e2e/recs/extra-field", "query %d event %s: field %s=%s was never sent" % (qi, vid, k, gf[k])))
        elif kind == "tc":
            # timechart span=<n>s count (suite segfault): bucket start -> number of events, exact
            def tcrows(s):
                return dict(r.split("=", 1) for r in s.split(",") if "=" in r)
            er, gr = tcrows(mb.get("rows", "")), tcrows(ia.get("rows", ""))
            if er != gr:
                keys = sorted(set(er) | set(gr))
                fails.append(("e2e/timechart/plain", "query %d: (bucket, got, expected) %s" % (qi, [(k, gr.get(k), er.get(k)) for k in keys if gr.get(k) != er.get(k)][:6])))
        elif kind == "tchart":
            # first-stage timechart: every matched event in exactly the cell [start + k·span, +span) that contains its
            # timestamp; an event exactly ON the end bound belongs to the last cell of the grid (rows).  Other reading accepted
            # when the bound lies on the grid: the end point opens a cell of its own (rows2).  (Repaired, patch c04-8: the
            # engine used to report such an event in a cell starting at end − span, off the grid; that answer is no longer
            # accepted under any name.)
            if int(mb.get("nmay", 0)) > 0:
                continue
            aggs = [a for a in mb.get("aggs", "").split(",") if a]
            got = tc_cells(ia.get("rows", ""))
            split = any(k.endswith(":_") for k in got)
            if split:
                # repaired deviation (patch c04-9; e2e/timechart/null-series-split is no longer a known finding, so this is a
                # VIOLATION): the events lacking the by-field are reported as TWO series, "<nil>" and a nameless one.  The
                # two are put side by side as the halves of one NULL series (tc_val_ok) so that the rest of the answer is
                # still compared; the split itself is reported.
                got = tc_fold_null(got, aggs)
                fails.append(("e2e/timechart/null-series-split", "query %d: the events lacking the by-field are reported as two series (\"<nil>\" and a series without a name) instead of one" % qi))
            d0 = tc_diff(tc_cells(mb.get("rows", "")), got, aggs)
            if not d0 or ("rows2" in mb and not tc_diff(tc_cells(mb["rows2"]), got, aggs)):
                continue
            fails.append((cls_sig("timechart", cls), "query %d (span %s): (cell:series, got, expected) %s" % (qi, mb.get("span"), [(c.split(":")[0] + ":" + (unhex(c.split(":")[1]) if c.split(":")[1] not in "-~" else c.split(":")[1]), g, e) for c, g, e in d0][:6])))
        elif kind == "stats":
            if int(mb.get("nmay", 0)) > 0:
                continue
            def rows(s):
                d = {}
                for r in s.split(","):
                    if r:
                        k, _, v = r.partition("=")
                        d[k] = v
                return d
            er, gr = rows(mb.get("rows", "")), rows(ia.get("rows", ""))
            aggs = [a for a in mb.get("aggs", "").split(",") if a]
            # an aggregate over no numeric input is undefined: whatever the engine prints is accepted
            # dc(f) over a column in which the matched events hold numeric text AND JSON numbers (label grant:dcmixed:<f> of
            # the specification): recorded class e2e/stats/dc-over-numbers-and-numeric-text — the statement does not say whether
            # 5 and "5" are one value, and the distinct count of such a column depends on the path (a numeric string that
            # shares a block column with numbers is stored as a number: its records hand the statistics another key than the
            # ingest-time statistics saw).  Only that aggregate is attributed to the class, and only an answer between 1 and
            # three times the expected count (a value can enter the sketch under three keys: its text, a float64, an int64);
            # the rest of the row is compared as always.  (A column of numeric text WITHOUT numbers: class
            # dc-over-numeric-text, repaired by patch c04-16 — L_FIXED, no latitude.)
            dcnum = set("dc." + c[len("grant:dcmixed:"):] for c in cls.split(",") if c.startswith("grant:dcmixed:"))
            dcnum_hit = []
            for k in list(er):
                if k in gr:
                    ev_, gv_ = er[k].split(";"), gr[k].split(";")
                    if len(ev_) == len(gv_):
                        names = aggs if len(aggs) == len(ev_) else ["sum"] * len(ev_)
                        cells = []
                        for a, e, g in zip(names, ev_, gv_):
                            if agg_ok(a, e, g):
                                cells.append(e)
                            elif a in dcnum and e.isdigit() and g.isdigit() and 1 <= int(g) <= 3 * int(e):
                                dcnum_hit.append((a, g, e))
                                cells.append(e)
                            else:
                                cells.append(g)
                        gr[k] = ";".join(cells)
            if dcnum_hit:
                fails.append(("e2e/stats/dc-over-numbers-and-numeric-text", "query %d: (aggregate, got, expected distinct key texts) %s" % (qi, dcnum_hit[:4])))
            # events lacking a by-field: the statement does not say whether they form a group; an extra
            # group with the empty key is accepted
            if "grant:empty-by-key" in cls.split(","):
                for k in list(gr):
                    if k not in er and "" in unhex(k).split("\x1f"):
                        del gr[k]
            if not gr and set(er) == {""} and mb.get("nmust") == "0":
                # stats without by over NO matching event has one row (count 0), whichever stage computes it (C06).
                # (Repaired, patch c06-10: the engine's stats PROCESSOR answered with no row at all when the time range
                # holds no block, while the search stage answered count 0.)
                fails.append(("e2e/stats/no-row-over-no-event", "query %d: stats without by over no matching event returns no row at all; expected one row %s (aggs %s)" % (qi, er[""], mb.get("aggs"))))
                continue
            if er != gr:
                keys = sorted(set(er) | set(gr))
                diff = [(unhex(k), gr.get(k), er.get(k)) for k in keys if gr.get(k) != er.get(k)]
                what = "stats"
                if set(er) != set(gr):
                    what = "stats-groups"
                fails.append((cls_sig(what, cls), "query %d: (group, got, expected) %s" % (qi, diff[:6])))
    return fails
