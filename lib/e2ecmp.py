"""comparison of the engine's canonical answer with the Lean specification's answer for e2e suites.
Returns a list of (sig, msg); empty = the answer satisfies the specification (with the latitude the
property statements grant)."""
import binascii
from fractions import Fraction


def seg_parse(seg):
    d = {}
    for tok in seg.strip().split(" "):
        if "=" in tok:
            k, v = tok.split("=", 1)
            d[k] = v
    return d


def ints(s):
    return [int(x) for x in s.split(",") if x != ""]


def unhex(h):
    try:
        return binascii.unhexlify(h).decode("utf-8", "replace")
    except Exception:
        return "?" + h


def num_of(tv):
    """numeric value of a canonical typed value, or None"""
    try:
        if tv[0] in "id":
            return Fraction(tv[1:])
        if tv[0] == "s":
            t = unhex(tv[1:])
            if t.strip() != t or t == "":
                return None
            return Fraction(t)
    except Exception:
        return None
    return None


def parse_recs(s):
    recs = []
    if s == "":
        return recs
    for r in s.split(";"):
        head, _, body = r.partition("{")
        vid, _, ts = head.partition("@")
        body = body.rstrip("}")
        fields = {}
        if body:
            for kvp in body.split(","):
                k, _, v = kvp.partition("=")
                fields[k] = v
        recs.append((vid, ts, fields))
    return recs


def close(e, g):
    """floating sums/averages: equal up to rounding error (C04 grants it)"""
    try:
        a, b = Fraction(e), Fraction(g)
    except Exception:
        return e == g
    if a == b:
        return True
    return abs(a - b) <= Fraction(1, 10 ** 9) * max(abs(a), abs(b), 1)


def cls_sig(kind, cls):
    return "e2e/%s/%s" % (kind, "+".join(sorted(set(c for c in cls.split(",") if c))) or "plain")


def compare(impl, model):
    fails = []
    if impl.startswith("worker-") or impl == "panic":
        return fails  # already reported by the harness as a PropFail
    if impl == model == "bad-op":
        return fails
    isegs, msegs = impl.split(" | "), model.split(" | ")
    if isegs and isegs[-1].startswith("kind=layoutdiff"):
        # C03: the same events under two layouts must give the same answers (whatever the spec says)
        ld = seg_parse(isegs[-1]).get("q", "")
        isegs = isegs[:-1]
        for q in [x for x in ld.split(",") if x]:
            cls = ""
            if q.isdigit() and int(q) < len(msegs):
                cls = seg_parse(msegs[int(q)]).get("cls", "")
            fails.append((cls_sig("layout-differs", cls), "query %s: the two layouts of the same events give different answers" % q))
    if len(isegs) != len(msegs):
        return [("e2e/protocol/segment-count", "impl %d segments, model %d" % (len(isegs), len(msegs)))]
    for qi, (a, b) in enumerate(zip(isegs, msegs)):
        ia, mb = seg_parse(a), seg_parse(b)
        kind = mb.get("kind")
        cls = mb.get("cls", "")
        if ia.get("kind") == "error":
            if "by-field-sparse" in cls.split(","):
                cls = "by-field-sparse"  # the error message names the group-by bucket: the other classes are incidental
            fails.append((cls_sig("query-error", cls), "%s query %d answered with an error: %s" % (kind, qi, unhex(ia.get("err", ""))[:200])))
            continue
        if ia.get("kind") != kind:
            fails.append(("e2e/protocol/kind", "query %d: impl kind %s model kind %s" % (qi, ia.get("kind"), kind)))
            continue
        frm, size = int(mb.get("from", 0)), int(mb.get("size", 1000))
        if kind == "ids":
            got = []
            for x in ia.get("ids", "").split(","):
                if x:
                    v, _, t = x.partition("@")
                    got.append((int(v) if v.isdigit() else -1, int(t) if t.isdigit() else -1))
            tss = [t for _, t in got]
            if any(tss[i] < tss[i + 1] for i in range(len(tss) - 1)):
                fails.append(("e2e/order/not-newest-first", "query %d: timestamps not non-increasing: %s" % (qi, tss[:20])))
            vids = [v for v, _ in got]
            if len(set(vids)) != len(vids):
                fails.append(("e2e/ids/duplicate-event", "query %d: an event is returned twice: %s" % (qi, vids[:30])))
            must, may, order = ints(mb.get("must", "")), ints(mb.get("may", "")), ints(mb.get("order", ""))
            ots = ints(mb.get("ots", ""))
            if not may and (frm > 0 or len(order) > size):
                # a page / limit: the timestamps of a valid page are determined, ties may be cut anywhere
                exp_ts = ots[frm:frm + size]
                tsof = dict(zip(order, ots))
                if sorted(tss, reverse=True) != exp_ts:
                    fails.append((cls_sig("paging", cls), "query %d: page [%d,+%d) has timestamps %s expected %s" % (qi, frm, size, tss[:20], exp_ts[:20])))
                elif any(tsof.get(v) != t for v, t in got):
                    fails.append((cls_sig("paging", cls), "query %d: page holds events that are not matches: %s" % (qi, got[:20])))
            elif not may:
                exp = order[frm:frm + size]
                # canonical tie order on the impl side
                canon = [v for v, t in sorted(got, key=lambda p: (-p[1], p[0]))]
                if canon != exp:
                    what = "filter" if set(canon) != set(exp) else "order"
                    if frm > 0 or len(order) > size:
                        what = "paging" if set(canon) != set(exp) else "order"
                    fails.append((cls_sig(what, cls), "query %d: got %s expected %s" % (qi, canon[:40], exp[:40])))
            elif frm == 0 and len(order) <= size:
                s = set(vids)
                if not (set(must) <= s <= set(must) | set(may)):
                    fails.append((cls_sig("filter", cls), "query %d: got %s; must contain %s, may contain %s" % (qi, sorted(s)[:40], must[:40], may[:40])))
        elif kind == "pages":
            if int(mb.get("nmay", 0)) > 0:
                continue
            order, ots = ints(mb.get("order", "")), ints(mb.get("ots", ""))
            k = int(mb.get("k", 1))
            pages = ia.get("pages", "").split(";")
            allgot = []
            for pi, pg in enumerate(pages):
                items = []
                for x in pg.split(","):
                    if x:
                        v, _, t = x.partition("@")
                        items.append((int(v) if v.isdigit() else -1, int(t) if t.isdigit() else -1))
                if pg in ("error", "undecodable"):
                    fails.append(("e2e/paging/query-error", "query %d page %d failed" % (qi, pi)))
                if len(items) > k:
                    fails.append(("e2e/paging/page-too-long", "query %d page %d has %d > %d records" % (qi, pi, len(items), k)))
                allgot += items
            tss = [t for _, t in allgot]
            vids = [v for v, _ in allgot]
            if len(set(vids)) != len(vids):
                dup = sorted(v for v in set(vids) if vids.count(v) > 1)
                tsof = dict(zip(order, ots))
                tied = all(ots.count(tsof.get(v, -1)) > 1 for v in dup)
                fails.append(("e2e/paging/event-on-two-pages" + ("-among-equal-timestamps" if tied else ""), "query %d: events %s returned on more than one page (pages of %d)" % (qi, dup[:10], k)))
            elif sorted(vids) != sorted(order):
                fails.append(("e2e/paging/event-on-no-page", "query %d: paging returned %d of %d matches; missing %s extra %s" % (qi, len(vids), len(order), sorted(set(order) - set(vids))[:10], sorted(set(vids) - set(order))[:10])))
            elif any(tss[i] < tss[i + 1] for i in range(len(tss) - 1)):
                fails.append(("e2e/order/not-newest-first", "query %d: concatenated pages not newest first" % qi))
        elif kind == "recs":
            exp = parse_recs(mb.get("recs", ""))[frm:frm + size]
            got = parse_recs(ia.get("recs", ""))
            got = sorted(got, key=lambda r: (-int(r[1]) if r[1].isdigit() else 0, int(r[0]) if r[0].isdigit() else -1))
            gv, ev = [r[0] for r in got], [r[0] for r in exp]
            if len(set(gv)) != len(gv):
                fails.append(("e2e/recs/duplicate-event", "query %d: duplicate events %s" % (qi, gv[:30])))
            if sorted(gv) != sorted(ev):
                miss = sorted(set(ev) - set(gv))
                extra = sorted(set(gv) - set(ev))
                fails.append(("e2e/recs/" + ("missing-event" if miss else "extra-event"), "query %d: missing %s extra %s" % (qi, miss[:20], extra[:20])))
                continue
            # columns that hold non-numeric text somewhere in the answer (latitude: numbers there may be text)
            texty = set(x for x in mb.get("texty", "").split(",") if x)
            gmap = {r[0]: r for r in got}
            for vid, ts, fs in exp:
                g = gmap[vid]
                if g[1] != ts:
                    fails.append(("e2e/recs/timestamp-changed", "query %d event %s: ts %s expected %s" % (qi, vid, g[1], ts)))
                gf = g[2]
                for k, v in fs.items():
                    if k not in gf and v == "s":
                        fails.append(("e2e/recs/empty-string-returned-as-absent", "query %d event %s: field %s was sent as the empty string and is not returned" % (qi, vid, k)))
                        continue
                    if k not in gf:
                        fails.append(("e2e/recs/missing-field", "query %d event %s: field %s=%s not returned" % (qi, vid, k, v)))
                        continue
                    w = gf[k]
                    if w == v:
                        continue
                    nv, nw = num_of(v), num_of(w)
                    if v[0] in "id" and w[0] in "id" and nv == nw:
                        continue
                    if v[0] in "id" and w[0] == "s" and nv is not None and nv == nw:
                        if k in texty:
                            continue  # granted by C01: numbers sharing a column with non-numeric strings
                        fails.append(("e2e/recs/number-returned-as-text", "query %d event %s: %s sent %s returned %s" % (qi, vid, k, v, w)))
                        continue
                    if v[0] == "s" and w[0] in "id" and nv is not None and nv == nw:
                        fails.append(("e2e/recs/numeric-string-returned-as-number", "query %d event %s: %s sent %s returned %s" % (qi, vid, k, v, w)))
                        continue
                    if v[0] == "b" and w[0] == "s" and unhex(w[1:]) == ("true" if v == "b1" else "false") and k in texty | {k}:
                        # a bool sharing a column with other types may come back as its text (same latitude class)
                        if any(x[2].get(k, "b")[0] != "b" for x in exp):
                            continue
                    fails.append(("e2e/recs/value-changed", "query %d event %s: %s sent %s returned %s" % (qi, vid, k, v, w)))
                for k in gf:
                    if k not in fs:
                        fails.append(("e2e/recs/extra-field", "query %d event %s: field %s=%s was never sent" % (qi, vid, k, gf[k])))
        elif kind == "stats":
            if int(mb.get("nmay", 0)) > 0:
                continue
            def rows(s):
                d = {}
                for r in s.split(","):
                    if r:
                        k, _, v = r.partition("=")
                        d[k] = v
                return d
            er, gr = rows(mb.get("rows", "")), rows(ia.get("rows", ""))
            # an aggregate over no numeric input is undefined: whatever the engine prints is accepted
            for k in list(er):
                if k in gr:
                    ev_, gv_ = er[k].split(";"), gr[k].split(";")
                    if len(ev_) == len(gv_):
                        gr[k] = ";".join(e if (e == "none" or close(e, g)) else g for e, g in zip(ev_, gv_))
            # events lacking a by-field: the statement does not say whether they form a group; an extra
            # group with the empty key is accepted
            if "by-field-sparse" in cls:
                for k in list(gr):
                    if k not in er and "" in unhex(k).split("\x1f"):
                        del gr[k]
            if er != gr:
                keys = sorted(set(er) | set(gr))
                diff = [(unhex(k), gr.get(k), er.get(k)) for k in keys if gr.get(k) != er.get(k)]
                what = "stats"
                if set(er) != set(gr):
                    what = "stats-groups"
                fails.append((cls_sig(what, cls), "query %d: (group, got, expected) %s" % (qi, diff[:6])))
    return fails
