"""check runner — see DESIGN.md §2.3/2.4.  python3 stdlib only."""
import os, sys, json, re, time, subprocess, shutil, fcntl, hashlib, glob

VERIF = os.path.dirname(os.path.dirname(os.path.abspath(__file__)))
LEAN = os.path.join(VERIF, "lean")
BUILD = os.path.join(VERIF, "build")
HARNESS = os.path.join(VERIF, "harness")
REPO = os.environ.get("VERIF_REPO", "/repo")
ORACLE = os.path.join(LEAN, ".lake", "build", "bin", "oracle")
CORR = os.path.join(BUILD, "corr")
ALLOWED_AXIOMS = {"propext", "Classical.choice", "Quot.sound"}
FORBIDDEN = re.compile(r"\bsorry\b|\badmit\b|^\s*axiom\s|native_decide|bv_decide|implemented_by|\bunsafe\s|maxHeartbeats\s+0\b")

sys.path.insert(0, os.path.dirname(os.path.abspath(__file__)))
import props as P


RUN_TMP = None  # set by run_check: scratch directory of this run; data dirs of engine workers live below it


def goenv():
    e = dict(os.environ)
    e.update(GOFLAGS="-mod=mod", GOPROXY="off", GOSUMDB="off", GOTOOLCHAIN="local", CGO_ENABLED=e.get("CGO_ENABLED", "1"))
    if RUN_TMP:
        # everything the harness and its worker processes create with os.MkdirTemp lands in the run directory and is
        # removed with it, also when a worker was killed (watchdog) before it could clean up; nothing is left in /tmp
        e["TMPDIR"] = RUN_TMP
    return e


def sh(cmd, cwd=None, env=None, timeout=3600, stdin=None):
    t0 = time.time()
    try:
        p = subprocess.run(cmd, cwd=cwd, env=env, timeout=timeout, stdin=stdin, stdout=subprocess.PIPE, stderr=subprocess.STDOUT)
        return p.returncode, p.stdout.decode("utf-8", "replace"), time.time() - t0
    except subprocess.TimeoutExpired as ex:
        return 124, (ex.stdout or b"").decode("utf-8", "replace") + "\n[timeout]", time.time() - t0


class NoLock:
    def __enter__(self):
        return self

    def __exit__(self, *a):
        return False


class Lock:
    def __init__(self, name):
        os.makedirs(BUILD, exist_ok=True)
        self.path = os.path.join(BUILD, name + ".lock")

    def __enter__(self):
        self.f = open(self.path, "w")
        fcntl.flock(self.f, fcntl.LOCK_EX)

    def __exit__(self, *a):
        fcntl.flock(self.f, fcntl.LOCK_UN)
        self.f.close()


# ---------------------------------------------------------------- T1: regenerate Gen/*.lean from /repo
def regenerate(locked=False):
    """Runs tools/go2lean against REPO. Returns (ok, notes, facts) ; never raises an alarm itself."""
    gen_dir = os.path.join(LEAN, "SigModel", "Gen")
    os.makedirs(gen_dir, exist_ok=True)
    tool = os.path.join(BUILD, "go2lean")
    with Lock("go"), GoCacheShared():
        rc, out, _ = sh(["go", "build", "-o", tool, "."], cwd=os.path.join(VERIF, "tools", "go2lean"), env=goenv(), timeout=600)
    if rc != 0:
        return False, ["go2lean build failed: " + out[-2000:]], {}
    tmp = os.path.join(BUILD, "gen.%d" % os.getpid())
    shutil.rmtree(tmp, ignore_errors=True)
    os.makedirs(tmp)
    rc, out, _ = sh([tool, "-repo", REPO, "-spec", os.path.join(VERIF, "tools", "go2lean", "targets.json"), "-out", tmp], timeout=300)
    notes = [l for l in out.splitlines() if l.strip()]
    facts = {}
    fp = os.path.join(tmp, "facts.json")
    if os.path.exists(fp):
        facts = json.load(open(fp))
    # install only changed files (keeps lake incremental); remove stale ones
    with (NoLock() if locked else Lock("lake")):
        new = {os.path.basename(p) for p in glob.glob(os.path.join(tmp, "*.lean"))}
        for old in glob.glob(os.path.join(gen_dir, "*.lean")):
            if os.path.basename(old) not in new:
                os.remove(old)
        for name in new:
            src, dst = os.path.join(tmp, name), os.path.join(gen_dir, name)
            if not os.path.exists(dst) or open(src).read() != open(dst).read():
                shutil.copyfile(src, dst)
    shutil.rmtree(tmp, ignore_errors=True)
    return rc == 0, notes, facts


# ---------------------------------------------------------------- Lean side
def theorems_of(path):
    """[(name, line)] of theorems declared in a Props file (top-level `theorem name`)."""
    res = []
    ns = []
    for i, l in enumerate(open(path), 1):
        m = re.match(r"\s*namespace\s+(\S+)", l)
        if m:
            ns.append(m.group(1))
        m = re.match(r"\s*end\s+(\S+)", l)
        if m and ns and ns[-1] == m.group(1):
            ns.pop()
        m = re.match(r"\s*(?:@\[[^\]]*\]\s*)?(?:private\s+|protected\s+)?theorem\s+([^\s:({\[]+)", l)
        if m:
            res.append((".".join(ns + [m.group(1)]), i))
    return res


def strip_comments(src):
    src = re.sub(r"/-.*?-/", lambda m: "\n" * m.group(0).count("\n"), src, flags=re.S)
    return re.sub(r"--.*", "", src)


def hygiene(files):
    bad = []
    for f in files:
        if not os.path.exists(f):
            continue
        for i, l in enumerate(strip_comments(open(f).read()).splitlines(), 1):
            if FORBIDDEN.search(l):
                bad.append("%s:%d: %s" % (os.path.relpath(f, VERIF), i, l.strip()[:120]))
    return bad


def lean_deps(mod, seen=None):
    """transitive SigModel.* imports of a module → list of file paths"""
    seen = seen if seen is not None else {}
    path = os.path.join(LEAN, *mod.split(".")) + ".lean"
    if mod in seen or not os.path.exists(path):
        return seen
    seen[mod] = path
    for m in re.findall(r"^\s*import\s+(SigModel\.\S+)", open(path).read(), flags=re.M):
        lean_deps(m, seen)
    return seen


def lean_check(prop, thorough, locked=False):
    """Build Props module, audit axioms. Returns dict(obligations, discharged, failed:[names], axioms, log)."""
    mod = "SigModel.Props." + prop
    path = os.path.join(LEAN, "SigModel", "Props", prop + ".lean")
    thms = theorems_of(path)
    res = dict(obligations=len(thms), discharged=0, failed=[], axioms={}, log="", theorems=[t for t, _ in thms], hygiene=[])
    with (NoLock() if locked else Lock("lake")):
        rc, out, dt = sh(["lake", "build", mod, "oracle_" + prop], cwd=LEAN, timeout=3000)
    res["log"] = out[-6000:]
    res["build_s"] = round(dt, 1)
    if rc != 0:
        # map error lines to theorems; errors elsewhere (Gen/Model/Lemmas) break every obligation that depends on them
        failed = set()
        errs = re.findall(r"error: (\S+?\.lean):(\d+):\d+", out)
        props_err_lines = [int(l) for f, l in errs if f.endswith(os.path.join("Props", prop + ".lean"))]
        other = [f for f, l in errs if not f.endswith(os.path.join("Props", prop + ".lean"))]
        if other or not errs:
            failed = {t for t, _ in thms}
            res["broken_in"] = sorted(set(other)) or ["(build failure without located error)"]
        else:
            starts = [l for _, l in thms]
            for el in props_err_lines:
                owner = None
                for (t, l) in thms:
                    if l <= el:
                        owner = t
                failed.add(owner or "(before first theorem)")
            # a hard error stops the olean from being produced: the rest are unchecked, but they are not *broken*;
            # we re-check them individually below by elaborating the file and looking at messages only.
        res["failed"] = sorted(failed)
        res["discharged"] = len(thms) - len([t for t, _ in thms if t in failed])
        return res
    # audit
    audit = os.path.join(BUILD, "audit_%s_%d.lean" % (prop, os.getpid()))
    with open(audit, "w") as f:
        f.write("import %s\n" % mod)
        for t, _ in thms:
            f.write("#print axioms %s\n" % t)
    rc, out, _ = sh(["lake", "env", "lean", audit], cwd=LEAN, timeout=1200)
    os.remove(audit)
    cur = None
    axioms = {}
    for m in re.finditer(r"'([^']+)' (depends on axioms: \[([^\]]*)\]|does not depend on any axioms)", out.replace("\n", " ")):
        axioms[m.group(1)] = [a.strip() for a in (m.group(3) or "").split(",") if a.strip()]
    res["axioms"] = axioms
    bad = []
    for t, _ in thms:
        if t not in axioms:
            bad.append(t)
        elif not set(axioms[t]) <= ALLOWED_AXIOMS:
            bad.append(t)
    res["failed"] = bad
    res["discharged"] = len(thms) - len(bad)
    res["hygiene"] = hygiene(list(lean_deps(mod).values()))
    if thorough:
        rc, out, dt = sh(["lake", "env", "leanchecker", mod], cwd=LEAN, timeout=3000)
        res["leanchecker"] = "ok" if rc == 0 else ("FAILED: " + out[-500:])
        if rc != 0:
            res["failed"] = [t for t, _ in thms]
            res["discharged"] = 0
    return res


# ---------------------------------------------------------------- Go side
def build_corr(outdir=None):
    """Builds the correspondence driver against REPO with the verif overlay.
    outdir=None: shared binary build/corr (manual use).  outdir=<dir>: everything (go.mod, go.sum,
    overlay.json, generated overlay files, binary) is private to that directory, so concurrent check
    runs against different checkouts (VERIF_REPO) cannot disturb each other."""
    global CORR
    os.makedirs(BUILD, exist_ok=True)
    priv = outdir is not None
    work = outdir if priv else os.path.join(BUILD, "manual")
    os.makedirs(work, exist_ok=True)
    lock = Lock("go") if not priv else None
    if lock:
        lock.__enter__()
    try:
        modfile = os.path.join(work, "go.mod")
        shutil.copyfile(os.path.join(REPO, "go.sum"), os.path.join(work, "go.sum"))
        open(modfile, "w").write(open(os.path.join(HARNESS, "go.mod.tmpl")).read().replace("@REPO@", REPO))
        # overlay: every file under harness/overlay/<rel> is injected at REPO/<rel>
        ov = {}
        root = os.path.join(HARNESS, "overlay")
        for dp, _, fns in os.walk(root):
            for fn in fns:
                if fn.endswith(".go"):
                    rel = os.path.relpath(os.path.join(dp, fn), root)
                    ov[os.path.join(REPO, rel)] = os.path.join(dp, fn)
        # generated overlay files (kernels that are not functions of their own in REPO, copied textually from
        # REPO's working tree into exported wrappers): harness/cmd/overlaygen <REPO> <dir>, same layout as overlay/
        gen_root = os.path.join(work, "overlay_gen")
        shutil.rmtree(gen_root, ignore_errors=True)
        if os.path.isdir(os.path.join(HARNESS, "cmd", "overlaygen")):
            with GoCacheShared():
                rc, out, dt = sh(["go", "run", "-modfile", modfile, "./cmd/overlaygen", REPO, gen_root], cwd=HARNESS, env=goenv(), timeout=600)
            if rc != 0:
                return False, "overlaygen failed:\n" + out, dt
            for dp, _, fns in os.walk(gen_root):
                for fn in fns:
                    if fn.endswith(".go"):
                        rel = os.path.relpath(os.path.join(dp, fn), gen_root)
                        ov[os.path.join(REPO, rel)] = os.path.join(dp, fn)
        ovp = os.path.join(work, "overlay.json")
        json.dump({"Replace": ov}, open(ovp, "w"), indent=1)
        target = os.path.join(work, "corr") if priv else os.path.join(BUILD, "corr")
        with GoCacheShared():
            rc, out, dt = sh(["go", "build", "-modfile", modfile, "-tags", "verif", "-overlay", ovp, "-o", target, "./cmd/corr"], cwd=HARNESS, env=goenv(), timeout=1800)
        if rc == 0 and priv:
            CORR = target
    finally:
        if lock:
            lock.__exit__()
    return rc == 0, out, dt


def build_corr_min(prop, work, full_log):
    """Property-minimal harness build, tried when the full harness does not build: only the Go files of
    harness/cmd/corr (and only the overlay files) that the suites of `prop` need, found by closing over the
    compiler's "undefined" errors.  A harness file or overlay hook of ANOTHER property that no longer compiles
    against REPO (a changed signature, a sliced function that changed shape) then does not stop this property's
    check.  Returns (ok, log)."""
    global CORR
    cfg = P.PROPS[prop]
    src_dir = os.path.join(HARNESS, "cmd", "corr")
    files = {fn: open(os.path.join(src_dir, fn)).read() for fn in os.listdir(src_dir) if fn.endswith(".go") and not fn.endswith("_test.go")}
    ov_all = json.load(open(os.path.join(work, "overlay.json")))["Replace"]
    ov_src = {k: open(v).read() for k, v in ov_all.items()}
    num = prop[1:]
    sel = {"main.go"} | {fn for fn in files if fn.startswith("c%s_" % num)}
    for s_ in cfg["suites"]:
        for fn, t in files.items():
            if re.search(r'Name:\s*"%s"' % re.escape(s_[0]), t):
                sel.add(fn)
    ovsel = {}
    mind = os.path.join(work, "minh")
    log = ["full harness build failed; trying the property-minimal build for %s" % prop]

    def defines(text, ident):
        return re.search(r'^(func|type|var|const)\s+%s\b|^func\s+\([^)]*\)\s+%s\b|^\s+%s\s*(=|,|\s+[\w\[\*\.])' % (ident, ident, ident), text, re.M) is not None

    out = ""
    for it in range(60):
        shutil.rmtree(mind, ignore_errors=True)
        os.makedirs(os.path.join(mind, "cmd", "corr"))
        for fn in sel:
            shutil.copyfile(os.path.join(src_dir, fn), os.path.join(mind, "cmd", "corr", fn))
        shutil.copyfile(os.path.join(work, "go.mod"), os.path.join(mind, "go.mod"))
        shutil.copyfile(os.path.join(work, "go.sum"), os.path.join(mind, "go.sum"))
        ovp = os.path.join(mind, "overlay.json")
        json.dump({"Replace": ovsel}, open(ovp, "w"), indent=1)
        target = os.path.join(work, "corr")
        with GoCacheShared():
            rc, out, dt = sh(["go", "build", "-modfile", os.path.join(mind, "go.mod"), "-tags", "verif", "-overlay", ovp, "-o", target, "./cmd/corr"], cwd=mind, env=goenv(), timeout=1800)
        if rc == 0:
            # worker subcommands are reached through a child process ("corr <name>"), not through a symbol:
            # a selected file that names a registered worker needs the file that implements it
            wadded = False
            for fn, t in files.items():
                if fn in sel:
                    continue
                for w in re.findall(r'registerWorker\("(\w+)"', t):
                    if any(('"%s"' % w) in files[g] for g in sel):
                        sel.add(fn)
                        wadded = True
            if wadded:
                continue
            CORR = target
            log.append("minimal build ok after %d round(s): %d of %d harness files, %d of %d overlay files" % (it + 1, len(sel), len(files), len(ovsel), len(ov_all)))
            return True, "\n".join(log)
        added = False
        idents = set(re.findall(r'undefined: (?:\w+\.)?(\w+)', out)) | set(re.findall(r'has no field or method (\w+)\)', out))
        for ident in idents:
            for fn, t in files.items():
                if fn not in sel and defines(t, ident):
                    sel.add(fn)
                    added = True
            for k, t in ov_src.items():
                if k not in ovsel and defines(t, ident):
                    ovsel[k] = ov_all[k]
                    added = True
        if not added:
            break
    log.append("minimal build failed too (%d harness files, %d overlay files selected):" % (len(sel), len(ovsel)))
    return False, "\n".join(log) + "\n" + out[-3000:] + "\n--- full build log ---\n" + full_log[-2000:]


def run_suite(suite, seed, n, tier, rundir):
    """returns dict(evaluations, distinct_nontrivial, tags, samples, rule, mismatches:[...], propfails:[...], error)"""
    os.makedirs(rundir, exist_ok=True)
    ops = os.path.join(rundir, suite + ".ops")
    r = dict(suite=suite, seed=seed, n=n, mismatches=[], propfails=[], error=None)
    rc, out, _ = sh([CORR, "gen", suite, str(seed), str(n), tier, rundir], timeout=1800, env=goenv())
    if rc != 0:
        r["error"] = "gen failed: " + out[-1500:]
        return r
    # corpus first
    corp = os.path.join(VERIF, "corpus", suite + ".ops")
    gen_lines = open(ops).read()
    with open(ops, "w") as f:
        if os.path.exists(corp):
            c = [l for l in open(corp).read().splitlines() if l.strip() and not l.startswith("#")]
            r["corpus"] = len(c)
            if c:
                f.write("\n".join(c) + "\n")
        f.write(gen_lines)
    return exec_ops(suite, ops, rundir, r)


def exec_ops(suite, ops, rundir, r=None):
    r = r if r is not None else dict(suite=suite, mismatches=[], propfails=[], error=None)
    rc, out, dt = sh([CORR, "exec", suite, ops, rundir], timeout=7200, env=goenv())
    r["impl_s"] = round(dt, 1)
    if rc != 0:
        r["error"] = "impl exec failed (rc=%d): %s" % (rc, out[-1500:])
        return r
    model = os.path.join(rundir, suite + ".model")
    with open(ops, "rb") as fin, open(model, "wb") as fout:
        t0 = time.time()
        p = subprocess.run([ORACLE], stdin=fin, stdout=fout, stderr=subprocess.PIPE, timeout=7200)
        r["model_s"] = round(time.time() - t0, 1)
    if p.returncode != 0:
        r["error"] = "oracle failed: " + p.stderr.decode()[-1500:]
        return r
    st = json.load(open(os.path.join(rundir, suite + ".stats")))
    r.update(evaluations=st["evaluations"], distinct_nontrivial=st["distinct_nontrivial"], tags=st["tags"], samples=st["samples"], rule=st["rule"])
    il = open(os.path.join(rundir, suite + ".impl"), errors="replace").read().splitlines()
    ml = open(model, errors="replace").read().splitlines()
    ol = open(ops, errors="replace").read().splitlines()
    if len(il) != len(ml):
        r["error"] = "line count differs impl=%d model=%d" % (len(il), len(ml))
    if suite.startswith("e2e") or suite.startswith("segfault"):
        # the model side is the SPECIFICATION's answer: compare with the latitude the property grants
        # (segfault*: the answers on the UNDAMAGED files; the fault property itself arrives as PropFails)
        import e2ecmp
        agreed = 0
        for i, (a, b) in enumerate(zip(il, ml)):
            fs = e2ecmp.compare(a, b)
            if not fs:
                agreed += 1
            for sig, msg in fs:
                r["propfails"].append(dict(line=i + 1, sig=sig, msg=msg, op=ol[i] if i < len(ol) else "?"))
        r["agreed"] = agreed
    else:
        for i, (a, b) in enumerate(zip(il, ml)):
            if a != b:
                r["mismatches"].append(dict(line=i + 1, op=ol[i] if i < len(ol) else "?", impl=a, model=b))
                if len(r["mismatches"]) >= 50:
                    break
        r["agreed"] = sum(1 for a, b in zip(il, ml) if a == b)
    pf = os.path.join(rundir, suite + ".prop")
    if os.path.exists(pf):
        for l in open(pf):
            if l.strip():
                r["propfails"].append(json.loads(l))
    return r


# ---------------------------------------------------------------- known findings
def load_known(prop):
    known, fixed = [], []
    p = os.path.join(VERIF, "known_findings.txt")
    if os.path.exists(p):
        for l in open(p):
            l = l.strip()
            m = re.match(r"known:\s+property=(\S+)\s+sig=(\S+)\s+(.*)", l)
            if m and prop in m.group(1).split(","):
                known.append((m.group(2), m.group(3)))
            m = re.match(r"fixed:\s+property=(\S+)\s+(\S+)\s+(.*)", l)
            if m and prop in m.group(1).split(","):
                fixed.append((m.group(2), m.group(3)))
    return known, fixed


# ---------------------------------------------------------------- main
def write_replay(prop, kind, payload):
    d = os.path.join(VERIF, "replays")
    os.makedirs(d, exist_ok=True)
    h = hashlib.sha1(json.dumps(payload, sort_keys=True).encode()).hexdigest()[:10]
    path = os.path.join(d, "%s-%s-%s.json" % (prop, kind, h))
    payload = dict(payload, property=prop, kind=kind)
    json.dump(payload, open(path, "w"), indent=1)
    return path


def do_setup():
    t0 = time.time()
    ok, notes, _ = regenerate()
    print("[setup] go2lean:", "ok" if ok else "PROBLEM", "; ".join(notes[:5]))
    mods = ["SigModel.Props." + p for p in sorted(P.PROPS) if os.path.exists(os.path.join(LEAN, "SigModel", "Props", p + ".lean"))]
    with Lock("lake"):
        exes = ["oracle_" + p for p in sorted(P.PROPS)]
        rc, out, dt = sh(["lake", "build", "oracle"] + exes + mods, cwd=LEAN, timeout=7200)
    print("[setup] lake build rc=%d %.0fs" % (rc, dt))
    if rc != 0:
        print(out[-3000:])
    ok2, out2, dt2 = build_corr()
    print("[setup] harness build %s %.0fs" % ("ok" if ok2 else "FAILED", dt2))
    if not ok2:
        print(out2[-3000:])
    print("[setup] done in %.0fs" % (time.time() - t0))
    return 0 if (rc == 0 and ok2) else 1


def do_replay(prop, path):
    rp = json.load(open(path))
    ok, out, _ = build_corr()
    if not ok:
        print("harness build failed\n" + out[-2000:])
        return 2
    global ORACLE
    with Lock("lake"):
        sh(["lake", "build", "oracle_" + prop], cwd=LEAN, timeout=3000)
    ORACLE = os.path.join(LEAN, ".lake", "build", "bin", "oracle_" + prop)
    if "op" not in rp or "suite" not in rp:
        print("replay names a broken obligation/correspondence, no concrete input:", json.dumps(rp, indent=1)[:3000])
        return 1
    rundir = os.path.join(BUILD, "run", "replay-%d" % os.getpid())
    os.makedirs(rundir, exist_ok=True)
    ops = os.path.join(rundir, rp["suite"] + ".ops")
    open(ops, "w").write(rp["op"] + "\n")
    r = exec_ops(rp["suite"], ops, rundir)
    print(json.dumps(dict(mismatches=r["mismatches"], propfails=r["propfails"], error=r["error"]), indent=1))
    bad = bool(r["mismatches"] or r["propfails"] or r["error"])
    if bad:
        print("VIOLATION property=%s replay=%s" % (prop, path))
    shutil.rmtree(rundir, ignore_errors=True)
    return 1 if bad else 0


def main(argv):
    if not argv:
        print(__doc__)
        return 2
    if argv[0] == "--setup":
        return do_setup()
    prop = argv[0]
    tier = os.environ.get("VERIF_TIER", "quick")
    replay = None
    i = 1
    while i < len(argv):
        if argv[i] == "--tier":
            tier = argv[i + 1]; i += 2
        elif argv[i] == "--replay":
            replay = argv[i + 1]; i += 2
        else:
            i += 1
    if prop not in P.PROPS:
        print("unknown property", prop)
        return 2
    if replay:
        return do_replay(prop, replay)
    seed = int(os.environ.get("VERIF_SEED", "1") or "1")
    return run_check(prop, tier, seed)


class GoCacheShared:
    """held (shared) around every go build / go run of the runner; trim_go_cache takes the same lock exclusively and
    without waiting, so the cache is never emptied under a build of another check run"""
    def __enter__(self):
        os.makedirs(BUILD, exist_ok=True)
        self.f = open(os.path.join(BUILD, "gocache.lock"), "w")
        fcntl.flock(self.f, fcntl.LOCK_SH)

    def __exit__(self, *a):
        fcntl.flock(self.f, fcntl.LOCK_UN)
        self.f.close()


def trim_go_cache(limit_gb=40):
    """disk space is limited: the Go build cache grows with every distinct checkout path a check is run against
    (scratch worktrees of seeded changes); empty it when it has grown beyond limit_gb (builds then start cold)"""
    try:
        rc, out, _ = sh(["go", "env", "GOCACHE"], env=goenv(), timeout=60)
        d = out.strip().splitlines()[-1] if rc == 0 and out.strip() else ""
        if not d or not os.path.isdir(d):
            return
        rc, out, _ = sh(["du", "-s", "-BG", d], timeout=300)
        gb = int(out.split()[0].rstrip("G")) if rc == 0 and out.split() else 0
        if gb > limit_gb:
            f = open(os.path.join(BUILD, "gocache.lock"), "w")
            try:
                fcntl.flock(f, fcntl.LOCK_EX | fcntl.LOCK_NB)  # nobody of us is building right now
            except OSError:
                f.close()
                return
            try:
                sh(["go", "clean", "-cache"], env=goenv(), timeout=1800)
            finally:
                fcntl.flock(f, fcntl.LOCK_UN)
                f.close()
    except Exception:
        pass


def run_check(prop, tier, seed):
    t0 = time.time()
    cfg = P.PROPS[prop]
    thorough = tier == "thorough"
    violations = []  # (replay_path, suffix)
    known, fixed = load_known(prop)
    notes = []

    rundir = os.path.join(BUILD, "run", "%s-%d" % (prop, os.getpid()))
    shutil.rmtree(rundir, ignore_errors=True)
    os.makedirs(rundir)
    trim_go_cache()
    global ORACLE, RUN_TMP
    RUN_TMP = os.path.join(rundir, "tmp")
    os.makedirs(RUN_TMP, exist_ok=True)
    # 1+2. ONE critical section: regenerate Gen/* from REPO, build + audit the theorems against exactly
    # that Gen, and take a private copy of the oracle built from it (other runs may target other checkouts)
    with Lock("lake"):
        gen_ok, gen_notes, facts = regenerate(locked=True)
        lc = lean_check(prop, thorough, locked=True)
        shared_oracle = os.path.join(LEAN, ".lake", "build", "bin", "oracle_" + prop)
        if os.path.exists(shared_oracle):
            shutil.copyfile(shared_oracle, os.path.join(rundir, "oracle"))
            os.chmod(os.path.join(rundir, "oracle"), 0o755)
            ORACLE = os.path.join(rundir, "oracle")
    notes += ["go2lean: " + n for n in gen_notes]

    # 1b. fact expectations (ordered callee lists, constants) — hand-written expectations vs regenerated facts
    fact_fail = []
    for key, expect in cfg.get("facts", {}).items():
        got = facts.get(key)
        if got != expect:
            fact_fail.append(dict(fact=key, expected=expect, got=got))
    lean_broken = bool(lc["failed"]) or bool(lc["hygiene"])

    # 3. harness (private build for this run)
    ok, out, dt = build_corr(os.path.join(rundir, "gobuild"))
    if not ok and os.path.exists(os.path.join(rundir, "gobuild", "overlay.json")):
        ok, out = build_corr_min(prop, os.path.join(rundir, "gobuild"), out)
        notes.append("harness: " + out.splitlines()[-1 if ok else 0][:300])
    suites_res = []
    if not ok:
        path = write_replay(prop, "harness-build", dict(what="correspondence harness no longer builds against /repo", log=out[-4000:]))
        violations.append((path, " no-failing-input-found"))
    else:
        boost = thorough or lean_broken or bool(fact_fail)
        for s in cfg["suites"]:
            name, nq, nt = s[0], s[1], s[2]
            # a broken obligation / fact / tie widens the search for a concrete failing input; in the quick tier the
            # widening is bounded (5x the quick budget) so that a run against a changed tree stays within minutes
            n = nt if thorough else (min(nt, nq * 5) if boost else nq)
            seeds = [seed] if not thorough else [seed, seed * 7919 + 1, seed * 104729 + 2]
            for sd in seeds:
                r = run_suite(name, sd, n if not thorough else max(1, n // len(seeds)), tier, os.path.join(rundir, "%s-%d" % (name, sd)))
                suites_res.append(r)
    shutil.rmtree(rundir, ignore_errors=True)

    # 4. verdict
    known_sigs = {k for k, _ in known}

    def sig_known(sig):
        """exact match, or a composite e2e sig  prefix/a+b  all of whose classes prefix/a, prefix/b are listed"""
        if sig in known_sigs:
            return [sig]
        if "+" in sig and "/" in sig:
            pre, _, last = sig.rpartition("/")
            parts = [pre + "/" + c for c in last.split("+")]
            if all(p in known_sigs for p in parts):
                return parts
        return None
    seen_known = {}
    unlisted_pf = []
    mism = []
    errors = []
    for r in suites_res:
        if r.get("error"):
            errors.append((r["suite"], r["error"]))
        for pf in r["propfails"]:
            ks = sig_known(pf["sig"])
            if ks:
                for k in ks:
                    seen_known[k] = seen_known.get(k, 0) + 1
            else:
                unlisted_pf.append((r["suite"], pf))
        for m in r["mismatches"]:
            mism.append((r["suite"], m))
    for sig, text in known:
        print("KNOWN-FINDING: property=%s %s [sig=%s; reproduced %d time(s) in this run]" % (prop, text, sig, seen_known.get(sig, 0)))

    # property violated on the real code (concrete input)
    by_sig = {}
    for suite, pf in unlisted_pf:
        by_sig.setdefault(pf["sig"], []).append((suite, pf))
    for sig, lst in by_sig.items():
        suite, pf = min(lst, key=lambda x: len(x[1]["op"]))
        path = write_replay(prop, "propfail", dict(suite=suite, op=pf["op"], sig=sig, msg=pf["msg"], count=len(lst)))
        violations.append((path, ""))
    # model/impl disagreement
    pf_ops = {pf["op"] for _, pf in unlisted_pf}
    mm = [(s, m) for s, m in mism if m["op"] not in pf_ops]
    if mm:
        suite, m = min(mm, key=lambda x: len(x[1]["op"]))
        path = write_replay(prop, "correspondence", dict(suite=suite, op=m["op"], impl=m["impl"], model=m["model"], count=len(mm),
                                                          what="correspondence %s: real code and Lean model differ on this operation" % suite))
        violations.append((path, "" if unlisted_pf else " no-failing-input-found"))
    for suite, e in errors:
        path = write_replay(prop, "suite-error", dict(suite=suite, what="correspondence suite could not run", log=e))
        violations.append((path, " no-failing-input-found"))
    if lean_broken:
        path = write_replay(prop, "obligation", dict(what="Lean proof obligations no longer check against the regenerated model",
                                                     theorems=lc["failed"], hygiene=lc["hygiene"], broken_in=lc.get("broken_in"), log=lc["log"][-3000:]))
        violations.append((path, "" if unlisted_pf else " no-failing-input-found"))
    for ff in fact_fail:
        path = write_replay(prop, "fact", dict(what="source fact extracted by go2lean differs from the expectation the model/proofs rest on", **ff))
        violations.append((path, "" if unlisted_pf else " no-failing-input-found"))

    # 5. evidence
    evals = sum(r.get("evaluations", 0) for r in suites_res)
    dn = sum(r.get("distinct_nontrivial", 0) for r in suites_res)
    samples = []
    for r in suites_res:
        samples += (r.get("samples") or [])[:2]
    samples = samples[:8] + [dict(obligation=t, axioms=lc["axioms"].get(t)) for t in lc["theorems"][:6]]
    cov = dict(
        obligations=lc["obligations"], discharged=lc["discharged"],
        checker_cmd="cd /verif/lean && lake build SigModel.Props.%s && lake env lean <#print axioms of every theorem>%s" % (prop, " && lake env leanchecker SigModel.Props." + prop if thorough else ""),
        trusted_base=cfg.get("trusted_base", []) + P.COMMON_TRUSTED,
        theorems=lc["theorems"], failed_theorems=lc["failed"], axioms_seen=sorted({a for v in lc["axioms"].values() for a in v}),
        lean_build_s=lc.get("build_s"), leanchecker=lc.get("leanchecker"),
        evaluations=evals, distinct_nontrivial=dn,
        traces_validated_against_impl=sum(r.get("agreed", 0) for r in suites_res),
        rule="; ".join("%s: %s" % (r["suite"], r.get("rule", "")) for r in suites_res[:len(cfg["suites"])]),
        samples=samples or ["(no correspondence cases ran)"],
        suites=[dict(suite=r["suite"], seed=r.get("seed"), evaluations=r.get("evaluations"), distinct_nontrivial=r.get("distinct_nontrivial"),
                     agreed_with_model=r.get("agreed"), mismatches=len(r["mismatches"]), propfails=len(r["propfails"]), corpus=r.get("corpus", 0),
                     input_distribution=r.get("tags"), impl_s=r.get("impl_s"), model_s=r.get("model_s")) for r in suites_res],
        regenerated=dict(ok=gen_ok, notes=gen_notes[:20], facts_checked=sorted(cfg.get("facts", {}).keys()), fact_failures=fact_fail),
        known_findings=[dict(sig=s, text=t, reproduced=seen_known.get(s, 0)) for s, t in known],
        fixed_findings=[dict(commit=c, text=t) for c, t in fixed],
        decided_by_proof=cfg.get("decided_by_proof", ""), not_decided_by_proof=cfg.get("partial", ""),
        exhaustive=False,
    )
    ev = dict(property_id=prop, tier=tier, seed=seed, level="proof", coverage=cov, assumptions=cfg.get("assumptions", []) + P.COMMON_ASSUMPTIONS,
              wall_s=round(time.time() - t0, 1), violations=len(violations))
    os.makedirs(os.path.join(VERIF, "evidence"), exist_ok=True)
    json.dump(ev, open(os.path.join(VERIF, "evidence", prop + ".json"), "w"), indent=1)

    print("[%s] tier=%s seed=%d obligations=%d discharged=%d correspondence=%d cases (%d distinct non-trivial) mismatches=%d propfails=%d (known %d) wall=%.0fs" % (
        prop, tier, seed, lc["obligations"], lc["discharged"], evals, dn, len(mism), len(unlisted_pf) + sum(seen_known.values()), sum(seen_known.values()), time.time() - t0))
    for path, suffix in violations:
        print("VIOLATION property=%s replay=%s%s" % (prop, path, suffix))
    return 1 if violations else 0
