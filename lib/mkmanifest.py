#!/usr/bin/env python3
"""regenerates MANIFEST.json from lib/props.py (single source of truth)"""
import json, os, sys
sys.path.insert(0, os.path.dirname(os.path.abspath(__file__)))
import props as P
V = os.path.dirname(os.path.dirname(os.path.abspath(__file__)))
ALL = ["C%02d" % i for i in range(1, 21)]
baseline = json.load(open("/root/.vp/BASELINE.json"))["cmd"] if os.path.exists("/root/.vp/BASELINE.json") else "go test ./..."
m = dict(
    version=1,
    setup_cmd="./check --setup",
    hooks=dict(guard="verif", enable="go build -tags verif -overlay /verif/build/overlay.json (overlay generated from /verif/harness/overlay; no file is added to /repo)",
               baseline_off_cmd=baseline, source_commits=[], add_only=True),
    engines=[
        dict(name="lean-model", path="lean/SigModel", serves_properties=sorted(P.PROPS), kind_free_text="Lean 4 executable model + property theorems (Props/Cxx.lean), kernel-checked"),
        dict(name="go2lean", path="tools/go2lean", serves_properties=sorted(P.PROPS), kind_free_text="regenerates Lean kernels/constants/facts from /repo source on every run (tie T1)"),
        dict(name="corr-harness", path="harness/cmd/corr", serves_properties=sorted(P.PROPS), kind_free_text="in-process differential of real Go code vs compiled Lean Oracle over a line protocol (tie T2) + direct property check on the real code"),
    ],
    checks=[], not_applicable=[],
    notes="Technique family: machine-checked proof in Lean 4 + checked model/code tie. fix: commits in /repo are listed in known_findings.txt (fixed: lines). See DESIGN.md.",
)
for pid in ALL:
    c = P.PROPS.get(pid)
    if not c or c.get("disabled"):
        m["not_applicable"].append(dict(property_id=pid, reason=(c or {}).get("disabled") or P.NOT_YET.get(pid, "check not built yet in this round (planned, see DESIGN.md §5)")))
        continue
    m["checks"].append(dict(
        property_id=pid, quick_cmd="./check %s --tier quick" % pid, thorough_cmd="./check %s --tier thorough" % pid,
        evidence_file="/verif/evidence/%s.json" % pid, replay_cmd_template="./check %s --replay {path}" % pid, engine="lean-model",
        level_claimed=dict(category="proof", text=c.get("level_text") or ("Lean theorems (unbounded) about the model: %s. Not decided by proof (correspondence/exploration only): %s" % (c.get("decided_by_proof", ""), c.get("partial", "-"))), design_ref="DESIGN.md §5 " + pid),
        level_note="Trusted: Lean kernel, go2lean translator, correspondence harness + Oracle parsing, Go toolchain; model tied to /repo by regeneration and by differential run on sampled inputs. " + "; ".join(c.get("assumptions", [])),
        technique=c.get("technique", "Lean 4 theorems over an executable model + regenerated kernels (go2lean) + model/implementation correspondence check"),
    ))
json.dump(m, open(os.path.join(V, "MANIFEST.json"), "w"), indent=1)
print("checks:", [c["property_id"] for c in m["checks"]])
