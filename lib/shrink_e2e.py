#!/usr/bin/env python3
"""delta-debugging shrinker for e2e op lines: ./lib/shrink_e2e.py <suite> <sig> < opline"""
import sys, os, subprocess, tempfile
sys.path.insert(0, os.path.dirname(os.path.abspath(__file__)))
import e2ecmp
V = os.path.dirname(os.path.dirname(os.path.abspath(__file__)))

def run(suite, line):
    d = tempfile.mkdtemp(prefix="shr", dir=os.path.join(V, "build", "run"))
    ops = os.path.join(d, suite + ".ops")
    open(ops, "w").write(line + "\n")
    subprocess.run([os.environ.get("SHRINK_CORR", os.path.join(V, "build", "corr")), "exec", suite, ops, d], stdout=subprocess.DEVNULL, stderr=subprocess.DEVNULL)
    m = subprocess.run([os.environ.get("SHRINK_ORACLE", os.path.join(V, "lean/.lake/build/bin/oracle"))], stdin=open(ops), stdout=subprocess.PIPE).stdout.decode().splitlines()
    i = open(os.path.join(d, suite + ".impl")).read().splitlines()
    subprocess.run(["rm", "-rf", d])
    return e2ecmp.compare(i[0], m[0]) if i and m else []

def fails(suite, line, sig):
    return any(s == sig for s, _ in run(suite, line))

def shrink(suite, line, sig):
    toks = line.split()
    qi = toks.index("Q")
    head, qs = toks[:qi], toks[qi + 1:]
    # one query; else (multi-step witnesses: the same filter over several windows, `w` = wait for the persistent-query
    # write) drop query-section tokens greedily
    for q in qs:
        if q != "w" and fails(suite, " ".join(head + ["Q", q]), sig):
            qs = [q]
            break
    else:
        i = 0
        while i < len(qs) and len(qs) > 1:
            cand = qs[:i] + qs[i + 1:]
            if any(t != "w" for t in cand) and fails(suite, " ".join(head + ["Q"] + cand), sig):
                qs = cand
            else:
                i += 1
    # a second layout (H2 …) that is not needed
    if "H2" in head:
        h2 = head.index("H2")
        if fails(suite, " ".join(head[:h2] + ["Q"] + qs), sig):
            head = head[:h2]
    def flushed(part):
        """the events a history part has flushed (sent before its last fl/ro), as the specification reads it"""
        batch, pending, out = [], [], []
        for t in part:
            if t == "send":
                pending += batch
                batch = []
            elif t in ("fl", "ro"):
                out += pending
                pending = []
            elif t.startswith("ev/"):
                batch.append(t)
        return sorted(out)

    def ok(h):
        # two layouts (… H2 …) must keep holding the SAME flushed events, else they differ for a trivial reason
        if "H2" in h:
            k = h.index("H2")
            if flushed(h[:k]) != flushed(h[k + 1:]):
                # drop the events that only one side still has, once; give up if that does not make them equal
                a, b = set(flushed(h[:k])), set(flushed(h[k + 1:]))
                h = [t for i, t in enumerate(h) if not t.startswith("ev/") or (t in a and t in b)]
                k = h.index("H2")
                if flushed(h[:k]) != flushed(h[k + 1:]) or not flushed(h[:k]):
                    return False
                ok.last = h
        else:
            ok.last = h
        if "H2" in h:
            ok.last = h
        return fails(suite, " ".join(h + ["Q"] + qs), sig)
    ok.last = None
    # remove history tokens greedily, in chunks
    hi = head.index("H")
    pre, hist = head[:hi + 1], head[hi + 1:]
    # (with a second layout the tail H2 … stays in hist and is shrunk token by token like the rest; `rq/…` tokens too)
    n = max(1, len(hist) // 2)
    while n >= 1:
        i = 0
        while i < len(hist):
            cand = hist[:i] + hist[i + n:]
            if cand and ok(pre + cand):
                hist = ok.last[len(pre):]
            else:
                i += n
        n //= 2
    # drop fields of remaining events
    for idx in range(len(hist)):
        t = hist[idx]
        if t.startswith("ev/"):
            p = t.split("/", 3)
            fs = p[3].split(",") if p[3] != "-" else []
            j = 0
            while j < len(fs):
                cand = fs[:j] + fs[j + 1:]
                t2 = "/".join(p[:3] + [",".join(cand) if cand else "-"])
                h2 = [t2 if x == hist[idx] else x for x in hist]
                if ok(pre + h2):
                    fs = cand
                    hist = h2
                else:
                    j += 1
    return " ".join(pre + hist + ["Q"] + qs)

if __name__ == "__main__":
    suite, sig = sys.argv[1], sys.argv[2]
    line = sys.stdin.read().strip()
    out = shrink(suite, line, sig)
    print(out)
    for s, m in run(suite, out):
        print("  ", s, m)
