#!/usr/bin/env python3
"""delta-debugging shrinker for e2e op lines: ./lib/shrink_e2e.py <suite> <sig> < opline"""
import sys, os, subprocess, tempfile
sys.path.insert(0, os.path.dirname(os.path.abspath(__file__)))
import e2ecmp
V = os.path.dirname(os.path.dirname(os.path.abspath(__file__)))

def run(suite, line):
    d = tempfile.mkdtemp(prefix="shr", dir=os.path.join(V, "build", "run"))
    ops = os.path.join(d, suite + ".ops")
    open(ops, "w").write(line + "\n")
    subprocess.run([os.environ.get("SHRINK_CORR", os.path.join(V, "build", "corr")), "exec", suite, ops, d], stdout=subprocess.DEVNULL, stderr=subprocess.DEVNULL)
    m = subprocess.run([os.environ.get("SHRINK_ORACLE", os.path.join(V, "lean/.lake/build/bin/oracle"))], stdin=open(ops), stdout=subprocess.PIPE).stdout.decode().splitlines()
    i = open(os.path.join(d, suite + ".impl")).read().splitlines()
    subprocess.run(["rm", "-rf", d])
    return e2ecmp.compare(i[0], m[0]) if i and m else []

def fails(suite, line, sig):
    return any(s == sig for s, _ in run(suite, line))

def shrink(suite, line, sig):
    toks = line.split()
    qi = toks.index("Q")
    head, qs = toks[:qi], toks[qi + 1:]
    # one query
    for q in qs:
        if fails(suite, " ".join(head + ["Q", q]), sig):
            qs = [q]
            break
    def ok(h):
        return fails(suite, " ".join(h + ["Q"] + qs), sig)
    # remove history tokens greedily, in chunks
    hi = head.index("H")
    pre, hist = head[:hi + 1], head[hi + 1:]
    n = max(1, len(hist) // 2)
    while n >= 1:
        i = 0
        while i < len(hist):
            cand = hist[:i] + hist[i + n:]
            if cand and ok(pre + cand):
                hist = cand
            else:
                i += n
        n //= 2
    # drop fields of remaining events
    for idx, t in enumerate(hist):
        if t.startswith("ev/"):
            p = t.split("/", 3)
            fs = p[3].split(",") if p[3] != "-" else []
            j = 0
            while j < len(fs):
                cand = fs[:j] + fs[j + 1:]
                t2 = "/".join(p[:3] + [",".join(cand) if cand else "-"])
                if ok(pre + hist[:idx] + [t2] + hist[idx + 1:]):
                    fs = cand
                    hist[idx] = t2
                else:
                    j += 1
    return " ".join(pre + hist + ["Q"] + qs)

if __name__ == "__main__":
    suite, sig = sys.argv[1], sys.argv[2]
    line = sys.stdin.read().strip()
    out = shrink(suite, line, sig)
    print(out)
    for s, m in run(suite, out):
        print("  ", s, m)
