module verifharness

go 1.21.0

require (
	github.com/bits-and-blooms/bloom/v3 v3.0.1
	github.com/buger/jsonparser v1.1.1
	github.com/cespare/xxhash v1.1.0
	github.com/fasthttp/router v1.4.1
	github.com/klauspost/compress v1.17.11
	github.com/siglens/siglens v0.0.0
	github.com/sirupsen/logrus v1.9.3
	github.com/valyala/bytebufferpool v1.0.0
	github.com/valyala/fasthttp v1.58.0
	google.golang.org/protobuf v1.33.0
)

require (
	github.com/andybalholm/brotli v1.1.1 // indirect
	github.com/beevik/etree v1.5.1 // indirect
	github.com/beorn7/perks v1.0.1 // indirect
	github.com/bits-and-blooms/bitset v1.2.0 // indirect
	github.com/caio/go-tdigest/v4 v4.0.1 // indirect
	github.com/cespare/xxhash/v2 v2.2.0 // indirect
	github.com/dennwc/varint v1.0.0 // indirect
	github.com/dustin/go-humanize v1.0.0 // indirect
	github.com/fasthttp/websocket v1.5.12 // indirect
	github.com/go-co-op/gocron v1.31.1 // indirect
	github.com/go-kit/log v0.2.1 // indirect
	github.com/go-logfmt/logfmt v0.6.0 // indirect
	github.com/go-logr/logr v1.4.1 // indirect
	github.com/go-logr/stdr v1.2.2 // indirect
	github.com/gogo/protobuf v1.3.2 // indirect
	github.com/golang/snappy v0.0.4 // indirect
	github.com/google/uuid v1.6.0 // indirect
	github.com/gorilla/websocket v1.5.0 // indirect
	github.com/grafana/regexp v0.0.0-20221122212121-6b5c0a4cb7fd // indirect
	github.com/imdario/mergo v0.3.16 // indirect
	github.com/jinzhu/inflection v1.0.0 // indirect
	github.com/jinzhu/now v1.1.5 // indirect
	github.com/json-iterator/go v1.1.12 // indirect
	github.com/mattn/go-sqlite3 v1.14.17 // indirect
	github.com/modern-go/concurrent v0.0.0-20180306012644-bacd9c7ef1dd // indirect
	github.com/modern-go/reflect2 v1.0.2 // indirect
	github.com/nethruster/go-fraction v0.0.0-20221224165113-1b5f693330ad // indirect
	github.com/nqd/flat v0.1.1 // indirect
	github.com/pbnjay/memory v0.0.0-20210728143218-7b4eea64cf58 // indirect
	github.com/pkg/errors v0.9.1 // indirect
	github.com/prometheus/client_golang v1.18.0 // indirect
	github.com/prometheus/client_model v0.5.0 // indirect
	github.com/prometheus/common v0.46.0 // indirect
	github.com/prometheus/procfs v0.12.0 // indirect
	github.com/prometheus/prometheus v0.50.1 // indirect
	github.com/robfig/cron/v3 v3.0.1 // indirect
	github.com/rogpeppe/fastuuid v1.2.0 // indirect
	github.com/savsgio/gotils v0.0.0-20240704082632-aef3928b8a38 // indirect
	github.com/siglens/go-hll v0.0.0-20250702141534-039cd711c944 // indirect
	github.com/slack-go/slack v0.12.2 // indirect
	github.com/xwb1989/sqlparser v0.0.0-20180606152119-120387863bf2 // indirect
	go.opentelemetry.io/otel v1.24.0 // indirect
	go.opentelemetry.io/otel/exporters/prometheus v0.39.0 // indirect
	go.opentelemetry.io/otel/metric v1.24.0 // indirect
	go.opentelemetry.io/otel/sdk v1.24.0 // indirect
	go.opentelemetry.io/otel/sdk/metric v0.39.0 // indirect
	go.opentelemetry.io/otel/trace v1.24.0 // indirect
	go.uber.org/atomic v1.11.0 // indirect
	golang.org/x/exp v0.0.0-20240119083558-1b970713d09a // indirect
	golang.org/x/net v0.33.0 // indirect
	golang.org/x/sync v0.10.0 // indirect
	golang.org/x/sys v0.28.0 // indirect
	golang.org/x/text v0.21.0 // indirect
	gopkg.in/yaml.v3 v3.0.1 // indirect
	gorm.io/driver/sqlite v1.5.4 // indirect
	gorm.io/gorm v1.25.5 // indirect
)

replace github.com/siglens/siglens => /tmp/c12-wt
