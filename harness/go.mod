module verifharness

go 1.21.0

require (
	github.com/siglens/siglens v0.0.0
	github.com/sirupsen/logrus v1.9.3
)

require golang.org/x/sys v0.28.0 // indirect

replace github.com/siglens/siglens => /repo
