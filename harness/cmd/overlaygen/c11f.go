package main

// Property C11, concurrent flushes of DIFFERENT segstores (suite conc, op `c11f`; harness/cmd/corr/c11_flush.go,
// lean/SigModel/Model/ConcFlush.lean).
//
// A flush (AppendWipToSegfile) runs with the lock of ITS store only; the flush timers hold allSegStoresLock for
// reading, ingest-triggered flushes do not hold it at all.  Two stores may therefore be inside flushBlockSummary at
// the same instant.  To replay such an overlap deterministically, two pause lines
//
//	verifC11FPause("flushBlockSummary:<callee>", <store>.SegmentKey)
//
// are inserted into the (already instrumented) copy of pkg/segment/writer/segstore.go, into the one function of that
// file that calls EncodeBlocksum (flushBlockSummary, or the helper a refactoring moves the encoding to): immediately
// before the statement that contains the call of EncodeBlocksum (the block summary is about to be encoded into the work
// buffer) and immediately before the statement that contains the first `.Write(` call after it (the encoded bytes
// are about to be appended to the segment's .bsu file) — wherever those statements are.  verifC11FPause is defined
// in harness/overlay/pkg/segment/writer/export_verif_c11f.go and does nothing unless the replay worker set the hook.
//
// Runs at the end of genC11 (after genCrash and the other C11 instrumentations: all hook sets live in the one copy
// of segstore.go that the overlay can name).  If the shape is not recognised the copy is left as it is and
// VerifC11FInstrumented = false: everything builds, only the `c11f` lines report that their replay is impossible.

import (
	"fmt"
	"go/ast"
	"go/parser"
	"go/token"
	"os"
	"path/filepath"
	"strings"
)

const c11fFunc = "flushBlockSummary"

func genC11Flush(repo, out string) {
	rel := "pkg/segment/writer"
	dir := filepath.Join(out, rel)
	if err := os.MkdirAll(dir, 0o755); err != nil {
		die("%v", err)
	}
	path := filepath.Join(repo, rel, "segstore.go")
	if _, err := os.Stat(filepath.Join(dir, "segstore.go")); err == nil {
		path = filepath.Join(dir, "segstore.go")
	}
	problem := ""
	fnName := c11fFunc
	var res []byte
	var points []string
	func() {
		src, err := os.ReadFile(path)
		if err != nil {
			problem = err.Error()
			return
		}
		fset := token.NewFileSet()
		f, err := parser.ParseFile(fset, path, src, parser.ParseComments)
		if err != nil {
			problem = err.Error()
			return
		}
		// the function of this file that calls EncodeBlocksum (flushBlockSummary, or the helper a refactoring moved
		// the encoding into)
		var fd *ast.FuncDecl
		nFuncs := 0
		for _, d := range f.Decls {
			x, ok := d.(*ast.FuncDecl)
			if !ok || x.Body == nil {
				continue
			}
			calls := false
			ast.Inspect(x.Body, func(n ast.Node) bool {
				if ce, ok := n.(*ast.CallExpr); ok && c11CalleeName(ce) == "EncodeBlocksum" {
					calls = true
				}
				return true
			})
			if calls {
				fd = x
				nFuncs++
			}
		}
		if fd == nil || nFuncs != 1 {
			problem = fmt.Sprintf("expected exactly one function calling EncodeBlocksum in segstore.go, found %d", nFuncs)
			return
		}
		fnName = fd.Name.Name
		// the expression through which the function refers to the store: a receiver or parameter of type *SegStore
		store := ""
		var fields []*ast.Field
		if fd.Recv != nil {
			fields = append(fields, fd.Recv.List...)
		}
		if fd.Type.Params != nil {
			fields = append(fields, fd.Type.Params.List...)
		}
		for _, fl := range fields {
			if st, ok := fl.Type.(*ast.StarExpr); ok {
				if id, ok := st.X.(*ast.Ident); ok && id.Name == "SegStore" && len(fl.Names) > 0 && store == "" {
					store = fl.Names[0].Name
				}
			}
		}
		if store == "" {
			problem = "no *SegStore receiver or parameter in " + fnName
			return
		}
		// offsets of the statements (members of a statement list) that contain the calls, in source order
		type hit struct {
			off  int
			name string
		}
		var hits []hit
		var stack []ast.Node
		ast.Inspect(fd.Body, func(n ast.Node) bool {
			if n == nil {
				stack = stack[:len(stack)-1]
				return true
			}
			stack = append(stack, n)
			if _, isLit := n.(*ast.FuncLit); isLit {
				stack = stack[:len(stack)-1]
				return false
			}
			ce, ok := n.(*ast.CallExpr)
			if !ok {
				return true
			}
			name := c11CalleeName(ce)
			if name != "EncodeBlocksum" && name != "Write" {
				return true
			}
			for i := len(stack) - 1; i >= 1; i-- {
				st, isStmt := stack[i].(ast.Stmt)
				if !isStmt {
					continue
				}
				switch stack[i-1].(type) {
				case *ast.BlockStmt, *ast.CaseClause, *ast.CommClause:
					hits = append(hits, hit{fset.Position(st.Pos()).Offset, name})
					return true
				}
			}
			return true
		})
		enc, wr := -1, -1
		nEnc := 0
		for _, h := range hits {
			if h.name == "EncodeBlocksum" {
				nEnc++
				if enc < 0 {
					enc = h.off
				}
			}
		}
		for _, h := range hits {
			if h.name == "Write" && enc >= 0 && h.off > enc && wr < 0 {
				wr = h.off
			}
		}
		if nEnc != 1 || wr < 0 {
			problem = fmt.Sprintf("%s: expected one call of EncodeBlocksum followed by a .Write( call in a later statement (found %d EncodeBlocksum, write after it: %v)", fnName, nEnc, wr >= 0)
			return
		}
		var b strings.Builder
		b.WriteString("// INSTRUMENTED COPY: pause points of /verif/harness/cmd/overlaygen (c11f.go) added to " + rel + "/segstore.go — do not edit.\n")
		b.Write(src[:enc])
		fmt.Fprintf(&b, "verifC11FPause(%q, %s.SegmentKey)\n", fnName+":EncodeBlocksum", store)
		b.Write(src[enc:wr])
		fmt.Fprintf(&b, "verifC11FPause(%q, %s.SegmentKey)\n", fnName+":Write", store)
		b.Write(src[wr:])
		res = []byte(b.String())
		if _, err := parser.ParseFile(token.NewFileSet(), path, res, 0); err != nil {
			problem = "instrumented copy does not parse: " + err.Error()
			res = nil
			return
		}
		points = []string{fnName + ":EncodeBlocksum", fnName + ":Write"}
	}()
	var g strings.Builder
	g.WriteString("//go:build verif\n\n// GENERATED by /verif/harness/cmd/overlaygen (c11f.go) — do not edit.\n\npackage writer\n\n")
	if problem == "" {
		if err := os.WriteFile(filepath.Join(dir, "segstore.go"), res, 0o644); err != nil {
			die("%v", err)
		}
		var q []string
		for _, p := range points {
			q = append(q, fmt.Sprintf("%q", p))
		}
		g.WriteString("// VerifC11FInstrumented: the copy of segstore.go has pause points before the encoding and before the write of a block summary.\n")
		g.WriteString("const VerifC11FInstrumented = true\n\nvar VerifC11FPoints = []string{" + strings.Join(q, ", ") + "}\n\nconst VerifC11FProblem = \"\"\n")
	} else {
		fmt.Fprintf(os.Stderr, "overlaygen: C11 block-summary flush steps not recognised, no pause points: %s\n", problem)
		fmt.Fprintf(&g, "const VerifC11FInstrumented = false\n\nvar VerifC11FPoints = []string{}\n\nconst VerifC11FProblem = %q\n\nvar _ = verifC11FPause\n", problem)
	}
	if err := os.WriteFile(filepath.Join(dir, "export_verif_c11f_gen.go"), []byte(g.String()), 0o644); err != nil {
		die("%v", err)
	}
}
