package main

// Property C11: an INSTRUMENTED COPY of pkg/segment/writer/segstore.go.
//
// The rotation of a segment (checkAndRotateColFiles → CleanupUnrotatedSegment) is one function call made
// with the store lock held; its protocol steps are not callable one by one.  To replay a schedule of the
// Lean interleaving machine (lean/SigModel/Model/Conc.lean) on the real code, the harness must be able to
// stop the rotating goroutine between two steps.  This generator copies segstore.go TEXTUALLY from the
// repository's working tree and inserts one line
//
//	verifC11Pause("<function>:<callee>", <store>.SegmentKey)
//
// immediately before the statement that contains the call of each step (wherever that statement is: a
// reordered or mutated kernel is instrumented in ITS order).  verifC11Pause is defined in
// harness/overlay/pkg/segment/writer/export_verif_c11.go and does nothing unless the C11 worker set the hook.
// The copy replaces the file through `go build -overlay`; /repo is not touched.
//
// Output: <out>/pkg/segment/writer/segstore.go (the instrumented copy) and
// <out>/pkg/segment/writer/export_verif_c11_gen.go (VerifC11Instrumented, VerifC11Points in source order).
// If a step call is not found the copy is NOT produced and VerifC11Instrumented = false: everything still
// builds, and only the C11 suite reports that its replay is impossible.

import (
	"fmt"
	"go/ast"
	"go/parser"
	"go/token"
	"os"
	"path/filepath"
	"sort"
	"strings"
)

type c11Target struct {
	fn      string   // function or method name
	callees []string // step calls inside it
}

var c11Targets = []c11Target{
	{"checkAndRotateColFiles", []string{"addSegmeta", "AddSegMetaToMetadata", "CleanupUnrotatedSegment"}},
	{"CleanupUnrotatedSegment", []string{"removeSegKeyFromUnrotatedInfo", "resetSegStore"}},
}

func c11CalleeName(ce *ast.CallExpr) string {
	switch f := ce.Fun.(type) {
	case *ast.Ident:
		return f.Name
	case *ast.SelectorExpr:
		return f.Sel.Name
	}
	return ""
}

// the name through which the function refers to the store: receiver, else first parameter
func c11StoreName(fd *ast.FuncDecl) string {
	if fd.Recv != nil && len(fd.Recv.List) > 0 && len(fd.Recv.List[0].Names) > 0 {
		return fd.Recv.List[0].Names[0].Name
	}
	if fd.Type.Params != nil && len(fd.Type.Params.List) > 0 && len(fd.Type.Params.List[0].Names) > 0 {
		return fd.Type.Params.List[0].Names[0].Name
	}
	return ""
}

type c11Insert struct {
	off   int
	text  string
	point string
}

func genC11(repo, out string) {
	rel := "pkg/segment/writer"
	path := filepath.Join(repo, rel, "segstore.go")
	dir := filepath.Join(out, rel)
	// another generator of this program (crash.go, property C07) may already have produced a replacement copy
	// of the same file: instrument THAT copy, so that both sets of hooks end up in the one file the overlay can
	// name.  genC11 must therefore run after genCrash (see main).
	if _, err := os.Stat(filepath.Join(dir, "segstore.go")); err == nil {
		path = filepath.Join(dir, "segstore.go")
	}
	if err := os.MkdirAll(dir, 0o755); err != nil {
		die("%v", err)
	}
	var problems []string
	var inserts []c11Insert
	src, err := os.ReadFile(path)
	if err != nil {
		problems = append(problems, err.Error())
	}
	fset := token.NewFileSet()
	var f *ast.File
	if err == nil {
		f, err = parser.ParseFile(fset, path, src, parser.ParseComments)
		if err != nil {
			problems = append(problems, err.Error())
		}
	}
	if f != nil {
		for _, t := range c11Targets {
			var fd *ast.FuncDecl
			for _, d := range f.Decls {
				if x, ok := d.(*ast.FuncDecl); ok && x.Name.Name == t.fn && x.Body != nil {
					fd = x
				}
			}
			if fd == nil {
				problems = append(problems, "function "+t.fn+" not found")
				continue
			}
			store := c11StoreName(fd)
			if store == "" {
				problems = append(problems, "no store variable in "+t.fn)
				continue
			}
			want := map[string]bool{}
			for _, c := range t.callees {
				want[c] = true
			}
			found := map[string]int{}
			// walk with an explicit stack of ancestors
			var stack []ast.Node
			ast.Inspect(fd.Body, func(n ast.Node) bool {
				if n == nil {
					stack = stack[:len(stack)-1]
					return true
				}
				stack = append(stack, n)
				if _, isLit := n.(*ast.FuncLit); isLit {
					// a step started in a closure / goroutine is not a step of this thread
					stack = stack[:len(stack)-1]
					return false
				}
				ce, ok := n.(*ast.CallExpr)
				if !ok || !want[c11CalleeName(ce)] {
					return true
				}
				// nearest ancestor statement that sits directly in a statement list
				for i := len(stack) - 1; i >= 1; i-- {
					st, isStmt := stack[i].(ast.Stmt)
					if !isStmt {
						continue
					}
					switch stack[i-1].(type) {
					case *ast.BlockStmt, *ast.CaseClause, *ast.CommClause:
						name := c11CalleeName(ce)
						found[name]++
						point := t.fn + ":" + name
						inserts = append(inserts, c11Insert{
							off:   fset.Position(st.Pos()).Offset,
							text:  fmt.Sprintf("verifC11Pause(%q, %s.SegmentKey)\n", point, store),
							point: point,
						})
						return true
					}
				}
				problems = append(problems, "call of "+c11CalleeName(ce)+" in "+t.fn+" is not inside a statement list")
				return true
			})
			for _, c := range t.callees {
				if found[c] != 1 {
					problems = append(problems, fmt.Sprintf("%s: expected exactly one call of %s, found %d", t.fn, c, found[c]))
				}
			}
		}
	}
	var g strings.Builder
	g.WriteString("//go:build verif\n\n// GENERATED by /verif/harness/cmd/overlaygen (c11.go) — do not edit.\n\npackage writer\n\n")
	if len(problems) == 0 {
		sort.Slice(inserts, func(i, j int) bool { return inserts[i].off < inserts[j].off })
		var b strings.Builder
		last := 0
		var pts []string
		for _, in := range inserts {
			b.Write(src[last:in.off])
			b.WriteString(in.text)
			last = in.off
			pts = append(pts, fmt.Sprintf("%q", in.point))
		}
		b.Write(src[last:])
		res := "// INSTRUMENTED COPY generated by /verif/harness/cmd/overlaygen (c11.go) from " + rel + "/segstore.go — do not edit.\n" + b.String()
		if err := os.WriteFile(filepath.Join(dir, "segstore.go"), []byte(res), 0o644); err != nil {
			die("%v", err)
		}
		g.WriteString("// VerifC11Instrumented: segstore.go was replaced by a copy with pause points before each rotation step.\n")
		g.WriteString("const VerifC11Instrumented = true\n\n// pause points in source order\nvar VerifC11Points = []string{" + strings.Join(pts, ", ") + "}\n\nvar VerifC11Problems = []string{}\n")
	} else {
		fmt.Fprintf(os.Stderr, "overlaygen: C11 rotation steps not recognised, no instrumented copy: %s\n", strings.Join(problems, "; "))
		g.WriteString("const VerifC11Instrumented = false\n\nvar VerifC11Points = []string{}\n\nvar VerifC11Problems = []string{")
		for i, p := range problems {
			if i > 0 {
				g.WriteString(", ")
			}
			fmt.Fprintf(&g, "%q", p)
		}
		g.WriteString("}\n")
	}
	if err := os.WriteFile(filepath.Join(dir, "export_verif_c11_gen.go"), []byte(g.String()), 0o644); err != nil {
		die("%v", err)
	}
	genC11Read(repo, out)
	genC11Create(repo, out) // get-or-create of the segstore table: pause points in segwriter.go (c11c.go)
	genC11Flush(repo, out)  // concurrent flushes of different stores: pause points in flushBlockSummary (c11f.go)
}

// ---------------------------------------------------------------- read side (check-then-look-up windows)
//
// Two places in the read path decide "is this segment still unrotated?" under one RLock and look the segment
// up under a second one.  To replay a rotation completing in between, one pause line
//
//	verifC11Pause("<function>:<callee>", <key>, <qid>)
//
// is inserted immediately before the statement containing the look-up call (i.e. after the check):
//
//	pkg/segment/query/segquery.go               GetSSRsFromQSR            before …ExtractUnrotatedSSRFromSearchNode(…)
//	pkg/segment/reader/segread/multicolreader.go initNewMultiColumnReader  before …GetBlockSearchInfoForKey(…)
//
// The hook variable, its caller and the flags live in <pkg>/export_verif_c11_gen.go (always generated, so the
// harness builds either way).

type c11ReadTarget struct {
	rel, file, pkg string
	fn, callee     string
	keyExpr        string // $0 = first parameter / receiver, $arg0 = text of the callee's first argument
	qidExpr        string
}

var c11ReadTargets = []c11ReadTarget{
	{"pkg/segment/query", "segquery.go", "query", "GetSSRsFromQSR", "ExtractUnrotatedSSRFromSearchNode", "$0.segKey", "$0.qid"},
	{"pkg/segment/reader/segread", "multicolreader.go", "segread", "initNewMultiColumnReader", "GetBlockSearchInfoForKey", "$arg0", "qid"},
}

func genC11Read(repo, out string) {
	for _, t := range c11ReadTargets {
		dir := filepath.Join(out, t.rel)
		if err := os.MkdirAll(dir, 0o755); err != nil {
			die("%v", err)
		}
		path := filepath.Join(repo, t.rel, t.file)
		if _, err := os.Stat(filepath.Join(dir, t.file)); err == nil {
			path = filepath.Join(dir, t.file)
		}
		problem := ""
		var res []byte
		point := t.fn + ":" + t.callee
		func() {
			src, err := os.ReadFile(path)
			if err != nil {
				problem = err.Error()
				return
			}
			fset := token.NewFileSet()
			f, err := parser.ParseFile(fset, path, src, parser.ParseComments)
			if err != nil {
				problem = err.Error()
				return
			}
			var fd *ast.FuncDecl
			for _, d := range f.Decls {
				if x, ok := d.(*ast.FuncDecl); ok && x.Name.Name == t.fn && x.Body != nil {
					fd = x
				}
			}
			if fd == nil {
				problem = "function " + t.fn + " not found"
				return
			}
			p0 := c11StoreName(fd)
			body := string(src[fset.Position(fd.Body.Pos()).Offset:fset.Position(fd.Body.End()).Offset])
			params := map[string]bool{}
			for _, p := range fd.Type.Params.List {
				for _, n := range p.Names {
					params[n.Name] = true
				}
			}
			var stack []ast.Node
			off := -1
			n := 0
			arg0 := ""
			ast.Inspect(fd.Body, func(x ast.Node) bool {
				if x == nil {
					stack = stack[:len(stack)-1]
					return true
				}
				stack = append(stack, x)
				if _, isLit := x.(*ast.FuncLit); isLit {
					stack = stack[:len(stack)-1]
					return false
				}
				ce, ok := x.(*ast.CallExpr)
				if !ok || c11CalleeName(ce) != t.callee {
					return true
				}
				n++
				if len(ce.Args) > 0 {
					arg0 = string(src[fset.Position(ce.Args[0].Pos()).Offset:fset.Position(ce.Args[0].End()).Offset])
				}
				for i := len(stack) - 1; i >= 1; i-- {
					st, isStmt := stack[i].(ast.Stmt)
					if !isStmt {
						continue
					}
					switch stack[i-1].(type) {
					case *ast.BlockStmt, *ast.CaseClause, *ast.CommClause:
						off = fset.Position(st.Pos()).Offset
						return true
					}
				}
				return true
			})
			if n != 1 || off < 0 {
				problem = fmt.Sprintf("%s: expected exactly one call of %s in a statement list, found %d", t.fn, t.callee, n)
				return
			}
			expr := func(tmpl string) string {
				e := strings.ReplaceAll(strings.ReplaceAll(tmpl, "$arg0", arg0), "$0", p0)
				return e
			}
			key, qid := expr(t.keyExpr), expr(t.qidExpr)
			// every identifier the inserted line uses must already be used by / be a parameter of the function
			for _, e := range []string{key, qid} {
				if e == "" || !(params[e] || strings.Contains(body, e)) {
					problem = fmt.Sprintf("%s: expression %q is not available in the function", t.fn, e)
					return
				}
			}
			var b strings.Builder
			b.WriteString("// INSTRUMENTED COPY generated by /verif/harness/cmd/overlaygen (c11.go) from " + t.rel + "/" + t.file + " — do not edit.\n")
			b.Write(src[:off])
			fmt.Fprintf(&b, "verifC11Pause(%q, %s, uint64(%s))\n", point, key, qid)
			b.Write(src[off:])
			res = []byte(b.String())
			if _, err := parser.ParseFile(token.NewFileSet(), path, res, 0); err != nil {
				problem = "instrumented copy does not parse: " + err.Error()
				res = nil
			}
		}()
		var g strings.Builder
		g.WriteString("//go:build verif\n\n// GENERATED by /verif/harness/cmd/overlaygen (c11.go) — do not edit.\n\npackage " + t.pkg + "\n\n")
		g.WriteString("// VerifC11Pause is nil except in the C11 replay worker; called after the \"still unrotated?\" check and before the look-up.\n")
		g.WriteString("var VerifC11Pause func(point string, segkey string, qid uint64)\n\n")
		g.WriteString("func verifC11Pause(point string, segkey string, qid uint64) {\n\tif h := VerifC11Pause; h != nil {\n\t\th(point, segkey, qid)\n\t}\n}\n\n")
		if problem == "" {
			if err := os.WriteFile(filepath.Join(dir, t.file), res, 0o644); err != nil {
				die("%v", err)
			}
			fmt.Fprintf(&g, "const VerifC11Instrumented = true\n\nconst VerifC11Point = %q\n\nconst VerifC11Problem = \"\"\n", point)
		} else {
			fmt.Fprintf(os.Stderr, "overlaygen: C11 read-side window in %s not recognised, no instrumented copy: %s\n", t.file, problem)
			fmt.Fprintf(&g, "const VerifC11Instrumented = false\n\nconst VerifC11Point = %q\n\nconst VerifC11Problem = %q\n\nvar _ = verifC11Pause\n", point, problem)
		}
		if err := os.WriteFile(filepath.Join(dir, "export_verif_c11_gen.go"), []byte(g.String()), 0o644); err != nil {
			die("%v", err)
		}
	}
}
