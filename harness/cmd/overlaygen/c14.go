package main

// Property C14, metricmeta.json under concurrency: an INSTRUMENTED COPY of
// pkg/segment/writer/metrics/meta/metricsmeta.go.
//
// To replay a schedule of the Lean machine (lean/SigModel/Model/Retention.lean, section "metricmeta.json: a
// retention pass against rotations") on the real code, the harness must be able to stop the goroutine of a
// retention pass (RemoveMetricsSegments → removeMetricsSegmentsByList), of a rotation (AddMetricsMetaEntry) and of a
// reader (ReadMetricsMeta) between two statements.  This generator copies metricsmeta.go TEXTUALLY from the
// repository's working tree and inserts `verifC14Pause("<point>")` (defined in
// harness/overlay/pkg/segment/writer/metrics/meta/export_verif_c14.go, does nothing unless the replay suite set the
// hook) immediately before the statement (sitting directly in a statement list; defer / go statements and function
// literals are not entered) that contains
//
//	in all four functions  every call  mMetaLock.Lock()      point "lock"
//	                       every call  mMetaLock.RLock()     point "rlock"
//	                       every NON-deferred call  mMetaLock.Unlock() / RUnlock()   point "unlock" / "runlock"
//	                         (the replay driver does not stop there, it only learns that the lock is released; a
//	                          deferred unlock is learnt from the return of the call: defer ↔ explicit is the same replay)
//	AddMetricsMetaEntry          the call  <fd>.Write(…)                      point "write"
//	ReadMetricsMeta              the loop whose condition calls  .Scan()      point "read"
//	removeMetricsSegmentsByList  (statements of the function body itself)
//	                             the loop whose condition calls  .Scan()      point "scan"
//	                             the statement that contains  os.Rename(…)    point "rewrite"
//	                             every loop BEFORE it whose body calls os.RemoveAll: first thing in the loop body,
//	                               i.e. once per directory                    point "rmdir"
//
// wherever those statements are: a reordered or mutated kernel is instrumented in ITS order.
// Output: <out>/pkg/segment/writer/metrics/meta/metricsmeta.go and …/export_verif_c14_gen.go
// (VerifC14Instrumented, VerifC14Points in source order, VerifC14Problems).  If a required statement is not found the
// copy is NOT produced and VerifC14Instrumented = false: everything still builds, only the replay suite reports that
// its replay is impossible.

import (
	"fmt"
	"go/ast"
	"go/parser"
	"go/token"
	"os"
	"path/filepath"
	"sort"
	"strings"
)

const c14Lock = "mMetaLock"

func c14LockMethod(n ast.Node) string {
	ce, ok := n.(*ast.CallExpr)
	if !ok {
		return ""
	}
	se, ok := ce.Fun.(*ast.SelectorExpr)
	if !ok {
		return ""
	}
	if id, ok := se.X.(*ast.Ident); ok && id.Name == c14Lock {
		return se.Sel.Name
	}
	return ""
}

// does the subtree (defer / go / function literals not entered) contain a call  <pkg>.<fn>(…)  /  <x>.<fn>(…) ?
func c14Calls(n ast.Node, pkg, fn string) bool {
	found := false
	ast.Inspect(n, func(m ast.Node) bool {
		switch m.(type) {
		case *ast.FuncLit, *ast.DeferStmt, *ast.GoStmt:
			return false
		}
		if ce, ok := m.(*ast.CallExpr); ok {
			if se, ok := ce.Fun.(*ast.SelectorExpr); ok && se.Sel.Name == fn {
				if pkg == "" {
					found = true
				} else if id, ok := se.X.(*ast.Ident); ok && id.Name == pkg {
					found = true
				}
			}
		}
		return true
	})
	return found
}

type c14Hit struct {
	off   int
	text  string
	point string
}

func genC14(repo, out string) {
	rel := "pkg/segment/writer/metrics/meta"
	dir := filepath.Join(out, rel)
	path := filepath.Join(repo, rel, "metricsmeta.go")
	if err := os.MkdirAll(dir, 0o755); err != nil {
		die("%v", err)
	}
	var problems []string
	var hits []c14Hit
	src, err := os.ReadFile(path)
	fset := token.NewFileSet()
	var f *ast.File
	if err != nil {
		problems = append(problems, err.Error())
	} else if f, err = parser.ParseFile(fset, path, src, parser.ParseComments); err != nil {
		problems = append(problems, err.Error())
		f = nil
	}
	off := func(p token.Pos) int { return fset.Position(p).Offset }
	before := func(st ast.Node, point string) {
		hits = append(hits, c14Hit{off: off(st.Pos()), text: fmt.Sprintf("verifC14Pause(%q)\n", point), point: point})
	}
	fn := func(name string) *ast.FuncDecl {
		for _, d := range f.Decls {
			if x, ok := d.(*ast.FuncDecl); ok && x.Recv == nil && x.Name.Name == name && x.Body != nil {
				return x
			}
		}
		problems = append(problems, "function "+name+" not found")
		return nil
	}
	// the innermost statement sitting directly in a statement list around every node the classifier names
	scan := func(fd *ast.FuncDecl, classify func(n ast.Node) string) map[string]int {
		cnt := map[string]int{}
		var stack []ast.Node
		ast.Inspect(fd.Body, func(n ast.Node) bool {
			if n == nil {
				stack = stack[:len(stack)-1]
				return true
			}
			switch n.(type) {
			case *ast.FuncLit, *ast.DeferStmt, *ast.GoStmt:
				return false
			}
			stack = append(stack, n)
			point := classify(n)
			if point == "" {
				return true
			}
			for i := len(stack) - 1; i >= 1; i-- {
				st, isStmt := stack[i].(ast.Stmt)
				if !isStmt {
					continue
				}
				switch stack[i-1].(type) {
				case *ast.BlockStmt, *ast.CaseClause, *ast.CommClause:
					before(st, point)
					cnt[point]++
					return true
				}
			}
			return true
		})
		return cnt
	}
	lockPoints := func(n ast.Node) string {
		switch c14LockMethod(n) {
		case "Lock":
			return "lock"
		case "RLock":
			return "rlock"
		case "Unlock":
			return "unlock"
		case "RUnlock":
			return "runlock"
		}
		return ""
	}
	isScanLoop := func(n ast.Node) bool {
		fs, ok := n.(*ast.ForStmt)
		return ok && fs.Cond != nil && c14Calls(fs.Cond, "", "Scan")
	}
	if f != nil {
		if fd := fn("AddMetricsMetaEntry"); fd != nil {
			c := scan(fd, func(n ast.Node) string {
				if p := lockPoints(n); p != "" {
					return p
				}
				if ce, ok := n.(*ast.CallExpr); ok {
					if se, ok := ce.Fun.(*ast.SelectorExpr); ok && se.Sel.Name == "Write" {
						return "write"
					}
				}
				return ""
			})
			if c["write"] != 1 {
				problems = append(problems, fmt.Sprintf("AddMetricsMetaEntry: expected exactly one call <fd>.Write(…), found %d", c["write"]))
			}
		}
		if fd := fn("ReadMetricsMeta"); fd != nil {
			c := scan(fd, func(n ast.Node) string {
				if p := lockPoints(n); p != "" {
					return p
				}
				if isScanLoop(n) {
					return "read"
				}
				return ""
			})
			if c["read"] != 1 {
				problems = append(problems, fmt.Sprintf("ReadMetricsMeta: expected exactly one loop over .Scan(), found %d", c["read"]))
			}
		}
		if fd := fn("RemoveMetricsSegments"); fd != nil {
			scan(fd, lockPoints)
		}
		if fd := fn("removeMetricsSegmentsByList"); fd != nil {
			scan(fd, lockPoints)
			scanAt, renameAt := -1, -1
			for i, st := range fd.Body.List {
				if isScanLoop(st) && scanAt < 0 {
					scanAt = i
				}
				if c14Calls(st, "os", "Rename") && renameAt < 0 {
					renameAt = i
				}
			}
			if scanAt < 0 {
				problems = append(problems, "removeMetricsSegmentsByList: no loop over .Scan() directly in the function body")
			}
			if renameAt < 0 {
				problems = append(problems, "removeMetricsSegmentsByList: no statement with os.Rename directly in the function body")
			}
			if scanAt >= 0 && renameAt >= 0 {
				before(fd.Body.List[scanAt], "scan")
				before(fd.Body.List[renameAt], "rewrite")
				for i, st := range fd.Body.List {
					if i == scanAt || i >= renameAt {
						continue
					}
					var body *ast.BlockStmt
					switch l := st.(type) {
					case *ast.RangeStmt:
						body = l.Body
					case *ast.ForStmt:
						body = l.Body
					}
					if body != nil && c14Calls(body, "os", "RemoveAll") {
						hits = append(hits, c14Hit{off: off(body.Lbrace) + 1, text: "verifC14Pause(\"rmdir\");", point: "rmdir"})
					}
				}
			}
		}
	}
	var g strings.Builder
	g.WriteString("//go:build verif\n\n// GENERATED by /verif/harness/cmd/overlaygen (c14.go) — do not edit.\n\npackage meta\n\n")
	if len(problems) == 0 {
		sort.SliceStable(hits, func(i, j int) bool { return hits[i].off < hits[j].off })
		var b strings.Builder
		last := 0
		var pts []string
		for _, h := range hits {
			b.Write(src[last:h.off])
			b.WriteString(h.text)
			last = h.off
			pts = append(pts, fmt.Sprintf("%q", h.point))
		}
		b.Write(src[last:])
		res := "// INSTRUMENTED COPY generated by /verif/harness/cmd/overlaygen (c14.go) from " + rel + "/metricsmeta.go — do not edit.\n" + b.String()
		if _, err := parser.ParseFile(token.NewFileSet(), path, res, 0); err != nil {
			problems = append(problems, "instrumented copy does not parse: "+err.Error())
		} else {
			if err := os.WriteFile(filepath.Join(dir, "metricsmeta.go"), []byte(res), 0o644); err != nil {
				die("%v", err)
			}
			g.WriteString("// VerifC14Instrumented: metricsmeta.go was replaced by a copy with pause points.\n")
			g.WriteString("const VerifC14Instrumented = true\n\n// pause points in source order\nvar VerifC14Points = []string{" + strings.Join(pts, ", ") + "}\n\nvar VerifC14Problems = []string{}\n")
		}
	}
	if len(problems) > 0 {
		fmt.Fprintf(os.Stderr, "overlaygen: C14 metricsmeta.go statements not recognised, no instrumented copy: %s\n", strings.Join(problems, "; "))
		g.WriteString("const VerifC14Instrumented = false\n\nvar VerifC14Points = []string{}\n\nvar VerifC14Problems = []string{")
		for i, p := range problems {
			if i > 0 {
				g.WriteString(", ")
			}
			fmt.Fprintf(&g, "%q", p)
		}
		g.WriteString("}\n")
	}
	if err := os.WriteFile(filepath.Join(dir, "export_verif_c14_gen.go"), []byte(g.String()), 0o644); err != nil {
		die("%v", err)
	}
}
