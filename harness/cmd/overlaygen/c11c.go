package main

// Property C11, get-or-create of the segstore table: an INSTRUMENTED COPY of pkg/segment/writer/segwriter.go.
//
// To replay a schedule of the Lean machine lean/SigModel/Model/ConcCreate.lean on the real code, the harness
// must be able to stop an ingest call between two statements of getOrCreateSegStore / createSegStore.  This
// generator copies segwriter.go TEXTUALLY (from the copy that crash.go — property C07 — has already produced
// in the output directory, so that both sets of hooks live in the one file the overlay can name; genC11 runs
// after genCrash) and inserts one line
//
//	verifC11CPause("<point>", <streamid parameter>, <store expression or nil>)
//
// immediately before the statement (sitting directly in a statement list) that contains
//
//	AddEntryToInMemBuf   the call  <store>.AddEntry(…)                       point "append"  (store = the receiver)
//	getOrCreateSegStore  the call  getSegStore(…)                            point "get"
//	createSegStore       every call  allSegStoresLock.Lock()                 point "lock"    (1..n)
//	                     the first read  allSegStores[…]  (or the call of a function of this file whose body
//	                       reads allSegStores[…] without taking allSegStoresLock itself)   point "recheck"  (0 or 1)
//	                     the call  NewSegStore(…)                            point "build"
//	                     the assignment  allSegStores[…] = <store>           point "insert"  (store = the right-hand side)
//	                     every NON-deferred call  allSegStoresLock.Unlock()  point "unlock"  (0..n; a deferred
//	                       Unlock runs when createSegStore returns: the replay driver sees it as the arrival at "append")
//
// wherever those statements are: a reordered or mutated kernel is instrumented in ITS order.  The point between
// the read and the write of the suffix file needs no instrumentation: suffix.getAndIncrementSuffixFromFile calls
// the product hook hooks.GlobalHooks.GetNextSuffixHook exactly there.
//
// verifC11CPause is defined in harness/overlay/pkg/segment/writer/export_verif_c11c.go and does nothing unless
// the C11 replay worker set the hook.  Output: <out>/pkg/segment/writer/segwriter.go and
// <out>/pkg/segment/writer/export_verif_c11c_gen.go (VerifC11CInstrumented, VerifC11CPoints in source order,
// VerifC11CProblems).  If a required statement is not found the copy is NOT touched and
// VerifC11CInstrumented = false: everything still builds, only the c11c op lines report that their replay is
// impossible.

import (
	"fmt"
	"go/ast"
	"go/parser"
	"go/token"
	"os"
	"path/filepath"
	"sort"
	"strings"
)

const c11cTable = "allSegStores"
const c11cLock = "allSegStoresLock"

// x is `allSegStoresLock.<method>()`
func c11cIsLockCall(n ast.Node, method string) bool {
	ce, ok := n.(*ast.CallExpr)
	if !ok {
		return false
	}
	se, ok := ce.Fun.(*ast.SelectorExpr)
	if !ok || se.Sel.Name != method {
		return false
	}
	id, ok := se.X.(*ast.Ident)
	return ok && id.Name == c11cLock
}

func c11cIsTableIndex(n ast.Node) bool {
	ix, ok := n.(*ast.IndexExpr)
	if !ok {
		return false
	}
	id, ok := ix.X.(*ast.Ident)
	return ok && id.Name == c11cTable
}

// functions of the file whose body reads allSegStores[…] and never touches allSegStoresLock ("look-up helpers")
func c11cLookupHelpers(f *ast.File) map[string]bool {
	res := map[string]bool{}
	for _, d := range f.Decls {
		fd, ok := d.(*ast.FuncDecl)
		if !ok || fd.Body == nil || fd.Recv != nil {
			continue
		}
		reads, locks := false, false
		lhs := map[ast.Node]bool{}
		ast.Inspect(fd.Body, func(n ast.Node) bool {
			if as, ok := n.(*ast.AssignStmt); ok {
				for _, l := range as.Lhs {
					lhs[l] = true
				}
			}
			if c11cIsTableIndex(n) && !lhs[n] {
				reads = true
			}
			if se, ok := n.(*ast.SelectorExpr); ok {
				if id, ok := se.X.(*ast.Ident); ok && id.Name == c11cLock {
					locks = true
				}
			}
			return true
		})
		if reads && !locks {
			res[fd.Name.Name] = true
		}
	}
	return res
}

type c11cHit struct {
	off   int
	point string
	store string
}

// the statements of fd (function literals and defer/go statements not entered) that sit directly in a statement
// list, with a classifier deciding which pause point a node inside them stands for
func c11cScan(fset *token.FileSet, src []byte, fd *ast.FuncDecl, classify func(n ast.Node, inAssignLhs bool) (point, store string)) []c11cHit {
	var hits []c11cHit
	var stack []ast.Node
	lhs := map[ast.Node]bool{}
	ast.Inspect(fd.Body, func(n ast.Node) bool {
		if n == nil {
			stack = stack[:len(stack)-1]
			return true
		}
		stack = append(stack, n)
		switch t := n.(type) {
		case *ast.FuncLit, *ast.DeferStmt, *ast.GoStmt:
			stack = stack[:len(stack)-1]
			return false
		case *ast.AssignStmt:
			for _, l := range t.Lhs {
				lhs[l] = true
			}
		}
		point, store := classify(n, lhs[n])
		if point == "" {
			return true
		}
		for i := len(stack) - 1; i >= 1; i-- {
			st, isStmt := stack[i].(ast.Stmt)
			if !isStmt {
				continue
			}
			switch stack[i-1].(type) {
			case *ast.BlockStmt, *ast.CaseClause, *ast.CommClause:
				hits = append(hits, c11cHit{off: fset.Position(st.Pos()).Offset, point: point, store: store})
				return true
			}
		}
		return true
	})
	return hits
}

func genC11Create(repo, out string) {
	rel := "pkg/segment/writer"
	dir := filepath.Join(out, rel)
	path := filepath.Join(repo, rel, "segwriter.go")
	if _, err := os.Stat(filepath.Join(dir, "segwriter.go")); err == nil {
		path = filepath.Join(dir, "segwriter.go")
	}
	if err := os.MkdirAll(dir, 0o755); err != nil {
		die("%v", err)
	}
	var problems []string
	var hits []c11cHit
	src, err := os.ReadFile(path)
	if err != nil {
		problems = append(problems, err.Error())
	}
	fset := token.NewFileSet()
	var f *ast.File
	if err == nil {
		f, err = parser.ParseFile(fset, path, src, parser.ParseComments)
		if err != nil {
			problems = append(problems, err.Error())
		}
	}
	text := func(n ast.Node) string {
		return string(src[fset.Position(n.Pos()).Offset:fset.Position(n.End()).Offset])
	}
	fn := func(name string) *ast.FuncDecl {
		for _, d := range f.Decls {
			if x, ok := d.(*ast.FuncDecl); ok && x.Recv == nil && x.Name.Name == name && x.Body != nil {
				return x
			}
		}
		problems = append(problems, "function "+name+" not found")
		return nil
	}
	param0 := map[string]string{}
	if f != nil {
		helpers := c11cLookupHelpers(f)
		count := func(hs []c11cHit, p string) int {
			n := 0
			for _, h := range hs {
				if h.point == p {
					n++
				}
			}
			return n
		}
		// AddEntryToInMemBuf: append
		if fd := fn("AddEntryToInMemBuf"); fd != nil {
			param0[fd.Name.Name] = c11StoreName(fd)
			hs := c11cScan(fset, src, fd, func(n ast.Node, _ bool) (string, string) {
				if ce, ok := n.(*ast.CallExpr); ok {
					if se, ok := ce.Fun.(*ast.SelectorExpr); ok && se.Sel.Name == "AddEntry" {
						if id, ok := se.X.(*ast.Ident); ok {
							return "append", id.Name
						}
						return "append", ""
					}
				}
				return "", ""
			})
			if count(hs, "append") != 1 || hs[0].store == "" {
				problems = append(problems, fmt.Sprintf("AddEntryToInMemBuf: expected exactly one call <store>.AddEntry(…), found %d", count(hs, "append")))
			}
			for i := range hs {
				hs[i].store = hs[i].store + "\x00" + param0[fd.Name.Name]
			}
			hits = append(hits, hs...)
		}
		// getOrCreateSegStore: get
		if fd := fn("getOrCreateSegStore"); fd != nil {
			param0[fd.Name.Name] = c11StoreName(fd)
			hs := c11cScan(fset, src, fd, func(n ast.Node, _ bool) (string, string) {
				if ce, ok := n.(*ast.CallExpr); ok && c11CalleeName(ce) == "getSegStore" {
					return "get", "nil"
				}
				return "", ""
			})
			if count(hs, "get") != 1 {
				problems = append(problems, fmt.Sprintf("getOrCreateSegStore: expected exactly one call of getSegStore, found %d", count(hs, "get")))
			}
			for i := range hs {
				hs[i].store = hs[i].store + "\x00" + param0[fd.Name.Name]
			}
			hits = append(hits, hs...)
		}
		// createSegStore: lock, recheck, build, insert, unlock
		if fd := fn("createSegStore"); fd != nil {
			param0[fd.Name.Name] = c11StoreName(fd)
			seenRecheck := false
			hs := c11cScan(fset, src, fd, func(n ast.Node, inLhs bool) (string, string) {
				switch {
				case c11cIsLockCall(n, "Lock"):
					return "lock", "nil"
				case c11cIsLockCall(n, "Unlock"):
					return "unlock", "nil"
				}
				if as, ok := n.(*ast.AssignStmt); ok && len(as.Lhs) == 1 && len(as.Rhs) == 1 && c11cIsTableIndex(as.Lhs[0]) {
					if id, ok := as.Rhs[0].(*ast.Ident); ok {
						return "insert", id.Name
					}
					return "insert", ""
				}
				if ce, ok := n.(*ast.CallExpr); ok {
					if c11CalleeName(ce) == "NewSegStore" {
						return "build", "nil"
					}
					if id, ok := ce.Fun.(*ast.Ident); ok && helpers[id.Name] && !seenRecheck {
						seenRecheck = true
						return "recheck", "nil"
					}
				}
				if c11cIsTableIndex(n) && !inLhs && !seenRecheck {
					seenRecheck = true
					return "recheck", "nil"
				}
				return "", ""
			})
			if count(hs, "lock") < 1 {
				problems = append(problems, "createSegStore: no call allSegStoresLock.Lock() found")
			}
			if count(hs, "build") != 1 {
				problems = append(problems, fmt.Sprintf("createSegStore: expected exactly one call of NewSegStore, found %d", count(hs, "build")))
			}
			if count(hs, "insert") != 1 {
				problems = append(problems, fmt.Sprintf("createSegStore: expected exactly one assignment allSegStores[…] = <store>, found %d", count(hs, "insert")))
			}
			for i := range hs {
				if hs[i].point == "insert" && hs[i].store == "" {
					problems = append(problems, "createSegStore: the inserted value is not a plain variable")
				}
				hs[i].store = hs[i].store + "\x00" + param0[fd.Name.Name]
			}
			hits = append(hits, hs...)
		}
		for name, p := range param0 {
			if p == "" {
				problems = append(problems, "no first parameter in "+name)
			}
		}
	}
	_ = text
	var g strings.Builder
	g.WriteString("//go:build verif\n\n// GENERATED by /verif/harness/cmd/overlaygen (c11c.go) — do not edit.\n\npackage writer\n\n")
	if len(problems) == 0 {
		sort.SliceStable(hits, func(i, j int) bool { return hits[i].off < hits[j].off })
		var b strings.Builder
		last := 0
		var pts []string
		for _, h := range hits {
			p := strings.SplitN(h.store, "\x00", 2)
			b.Write(src[last:h.off])
			fmt.Fprintf(&b, "verifC11CPause(%q, %s, %s)\n", h.point, p[1], p[0])
			last = h.off
			pts = append(pts, fmt.Sprintf("%q", h.point))
		}
		b.Write(src[last:])
		res := "// INSTRUMENTED COPY generated by /verif/harness/cmd/overlaygen (c11c.go) from " + rel + "/segwriter.go — do not edit.\n" + b.String()
		if _, err := parser.ParseFile(token.NewFileSet(), path, res, 0); err != nil {
			problems = append(problems, "instrumented copy does not parse: "+err.Error())
		} else {
			if err := os.WriteFile(filepath.Join(dir, "segwriter.go"), []byte(res), 0o644); err != nil {
				die("%v", err)
			}
			g.WriteString("// VerifC11CInstrumented: segwriter.go was replaced by a copy with pause points around getSegStore / createSegStore / AddEntry.\n")
			g.WriteString("const VerifC11CInstrumented = true\n\n// pause points in source order\nvar VerifC11CPoints = []string{" + strings.Join(pts, ", ") + "}\n\nvar VerifC11CProblems = []string{}\n")
		}
	}
	if len(problems) > 0 {
		fmt.Fprintf(os.Stderr, "overlaygen: C11 get-or-create statements not recognised, no instrumented copy: %s\n", strings.Join(problems, "; "))
		g.WriteString("const VerifC11CInstrumented = false\n\nvar VerifC11CPoints = []string{}\n\nvar VerifC11CProblems = []string{")
		for i, p := range problems {
			if i > 0 {
				g.WriteString(", ")
			}
			fmt.Fprintf(&g, "%q", p)
		}
		g.WriteString("}\n")
	}
	if err := os.WriteFile(filepath.Join(dir, "export_verif_c11c_gen.go"), []byte(g.String()), 0o644); err != nil {
		die("%v", err)
	}
}
