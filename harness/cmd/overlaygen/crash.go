// Crash-point injection for property C07 (flushed log data survives a process crash at any instant).
//
// From the repo's CURRENT source (go/parser → AST edit → go/printer) this produces replacement copies of
//
//	pkg/segment/writer/segstore.go    AppendWipToSegfile, checkAndRotateColFiles, CleanupUnrotatedSegment,
//	                                  resetSegStore, flushBlockSummary, FlushSegStats, flushBloomIndex, flushBlockRangeIndex
//	pkg/segment/writer/segmetarw.go   WriteSfm, BulkAddRotatedSegmetas, addSegmeta, removeSegmetas, writeOverSegMeta
//	pkg/segment/writer/segwriter.go   writeWip, WriteRunningSegMeta
//	pkg/segment/writer/suffix/suffix.go  writeSuffix, getAndIncrementSuffixFromFile
//	pkg/utils/checksumfile.go         AppendPartialChunk, Flush
//
// in which the call  utils.VerifCrashPoint("<func>:<n>|<calls of the previous statement>")  is inserted before
// every statement of those functions (nested blocks and function literals included) and after the last
// statement of every block that does not end in a return/branch.  Nothing else is changed: the files are
// re-printed from the same AST.  The added file pkg/utils/verif_crashpoint.go (build tag verif) defines
// VerifCrashPoint: a no-op unless env VERIF_CRASH_AT / VERIF_CRASH_LOG are set.
//
// The label suffix after '|' lists the functions CALLED by the statement that has just completed when the
// point is reached (header expressions only for if/for/range/switch; defer/go statements excluded), so the
// parent process can tell from the crash log which file-system step was the last to complete.
//
// Additionally a point  VerifCrashPointOpen("<func>:<n>|~open", name, perm)  precedes every statement that calls
// os.WriteFile(name, …, perm): the crash between the open(O_TRUNC) and the write of that call (see writeFileTargets).
package main

import (
	"bytes"
	"fmt"
	"go/ast"
	"go/parser"
	"go/printer"
	"go/token"
	"os"
	"path/filepath"
	"strconv"
	"strings"
)

type crashTarget struct {
	rel      string   // file, relative to the repo
	required []string // functions that must exist (the generator fails otherwise)
	optional []string
	utilsPkg bool // file is itself in package utils: call VerifCrashPoint unqualified
}

var crashTargets = []crashTarget{
	{rel: "pkg/segment/writer/segstore.go",
		required: []string{"AppendWipToSegfile", "checkAndRotateColFiles"},
		optional: []string{"CleanupUnrotatedSegment", "resetSegStore", "flushBlockSummary", "FlushSegStats", "flushBloomIndex", "flushBlockRangeIndex"}},
	{rel: "pkg/segment/writer/segmetarw.go",
		required: []string{"WriteSfm", "BulkAddRotatedSegmetas"},
		optional: []string{"addSegmeta", "removeSegmetas", "writeOverSegMeta"}},
	{rel: "pkg/segment/writer/segwriter.go",
		optional: []string{"writeWip", "WriteRunningSegMeta"}},
	{rel: "pkg/segment/writer/suffix/suffix.go",
		optional: []string{"writeSuffix", "getAndIncrementSuffixFromFile"}},
	{rel: "pkg/utils/checksumfile.go", utilsPkg: true,
		optional: []string{"AppendPartialChunk", "Flush"}},
}

const utilsImport = "github.com/siglens/siglens/pkg/utils"

type crashInjector struct {
	fn      string
	n       int
	callee  ast.Expr
	utilsID string
}

// names of the functions called in an expression, outermost last, function literals not entered
func callNames(n ast.Node, out *[]string) {
	if n == nil {
		return
	}
	ast.Inspect(n, func(x ast.Node) bool {
		switch t := x.(type) {
		case *ast.FuncLit:
			return false
		case *ast.CallExpr:
			for _, a := range t.Args {
				callNames(a, out)
			}
			switch f := t.Fun.(type) {
			case *ast.Ident:
				*out = append(*out, f.Name)
			case *ast.SelectorExpr:
				callNames(f.X, out)
				*out = append(*out, f.Sel.Name)
			default:
				callNames(t.Fun, out)
			}
			return false
		}
		return true
	})
}

// the calls that HAVE completed once control reaches the statement after s
func completedCalls(s ast.Stmt) []string {
	var out []string
	switch t := s.(type) {
	case nil:
	case *ast.DeferStmt, *ast.GoStmt:
	case *ast.IfStmt:
		out = append(out, completedCalls(t.Init)...)
		callNames(t.Cond, &out)
	case *ast.ForStmt:
		out = append(out, completedCalls(t.Init)...)
		callNames(t.Cond, &out)
	case *ast.RangeStmt:
		callNames(t.X, &out)
	case *ast.SwitchStmt:
		out = append(out, completedCalls(t.Init)...)
		callNames(t.Tag, &out)
	case *ast.TypeSwitchStmt:
		out = append(out, completedCalls(t.Init)...)
	case *ast.BlockStmt, *ast.SelectStmt, *ast.LabeledStmt:
	default:
		callNames(s, &out)
	}
	return out
}

func (ci *crashInjector) point(prev ast.Stmt) ast.Stmt {
	ci.n++
	label := fmt.Sprintf("%s:%d|%s", ci.fn, ci.n, strings.Join(completedCalls(prev), "+"))
	var fun ast.Expr = ast.NewIdent("VerifCrashPoint")
	if ci.utilsID != "" {
		fun = &ast.SelectorExpr{X: ast.NewIdent(ci.utilsID), Sel: ast.NewIdent("VerifCrashPoint")}
	}
	return &ast.ExprStmt{X: &ast.CallExpr{Fun: fun, Args: []ast.Expr{&ast.BasicLit{Kind: token.STRING, Value: strconv.Quote(label)}}}}
}

func terminates(s ast.Stmt) bool {
	switch t := s.(type) {
	case *ast.ReturnStmt, *ast.BranchStmt:
		return true
	case *ast.ExprStmt:
		if c, ok := t.X.(*ast.CallExpr); ok {
			if id, ok := c.Fun.(*ast.Ident); ok && id.Name == "panic" {
				return true
			}
		}
	case *ast.LabeledStmt:
		return terminates(t.Stmt)
	}
	return false
}

// A statement that calls os.WriteFile(name, data, perm) makes TWO system calls on `name`: open(O_WRONLY|O_CREATE|
// O_TRUNC) and write.  The state between them (file exists, zero bytes) is a crash state of its own that no statement
// boundary shows.  For every such statement an extra point  VerifCrashPointOpen("<func>:<n>|~open", name, perm)  is
// inserted directly before it: when it is the point to die at, it performs exactly that open on the file the code is
// ABOUT to write and exits.  Harmless when the target is a temp file that is renamed afterwards, fatal for a file
// that is rewritten in place — the check decides "the file is replaced atomically", it does not know the site.
// (os.OpenFile(…O_TRUNC…)/os.Create + Write need nothing: the boundary after the open statement is that state.)
func writeFileTargets(s ast.Stmt) (targets [][2]ast.Expr) {
	var hdr []ast.Node
	switch t := s.(type) {
	case *ast.IfStmt:
		if t.Init != nil {
			hdr = append(hdr, t.Init)
		}
		if t.Cond != nil {
			hdr = append(hdr, t.Cond)
		}
	case *ast.ForStmt, *ast.RangeStmt, *ast.SwitchStmt, *ast.TypeSwitchStmt, *ast.SelectStmt, *ast.BlockStmt, *ast.LabeledStmt,
		*ast.DeferStmt, *ast.GoStmt:
		return nil
	default:
		hdr = []ast.Node{s}
	}
	for _, h := range hdr {
		ast.Inspect(h, func(x ast.Node) bool {
			switch c := x.(type) {
			case *ast.FuncLit:
				return false
			case *ast.CallExpr:
				sel, ok := c.Fun.(*ast.SelectorExpr)
				if !ok || sel.Sel.Name != "WriteFile" || len(c.Args) != 3 {
					return true
				}
				if id, ok := sel.X.(*ast.Ident); !ok || (id.Name != "os" && id.Name != "ioutil") {
					return true
				}
				// the file name is evaluated a second time by the inserted call: it must be free of calls
				var calls []string
				callNames(c.Args[0], &calls)
				callNames(c.Args[2], &calls)
				if len(calls) == 0 {
					targets = append(targets, [2]ast.Expr{c.Args[0], c.Args[2]})
				}
			}
			return true
		})
	}
	return targets
}

func (ci *crashInjector) openPoint(name, perm ast.Expr) ast.Stmt {
	ci.n++
	label := fmt.Sprintf("%s:%d|~open", ci.fn, ci.n)
	var fun ast.Expr = ast.NewIdent("VerifCrashPointOpen")
	if ci.utilsID != "" {
		fun = &ast.SelectorExpr{X: ast.NewIdent(ci.utilsID), Sel: ast.NewIdent("VerifCrashPointOpen")}
	}
	return &ast.ExprStmt{X: &ast.CallExpr{Fun: fun, Args: []ast.Expr{&ast.BasicLit{Kind: token.STRING, Value: strconv.Quote(label)}, name, perm}}}
}

func (ci *crashInjector) list(L []ast.Stmt) []ast.Stmt {
	var out []ast.Stmt
	var prev ast.Stmt
	for _, s := range L {
		out = append(out, ci.point(prev))
		for _, t := range writeFileTargets(s) {
			out = append(out, ci.openPoint(t[0], t[1]))
		}
		ci.stmt(s)
		out = append(out, s)
		prev = s
	}
	if len(L) == 0 || !terminates(L[len(L)-1]) {
		out = append(out, ci.point(prev))
	}
	return out
}

// descend into the nested statement lists (and function literals) of one statement
func (ci *crashInjector) stmt(s ast.Stmt) {
	switch t := s.(type) {
	case *ast.BlockStmt:
		t.List = ci.list(t.List)
	case *ast.IfStmt:
		ci.lits(t.Init)
		ci.lits(t.Cond)
		t.Body.List = ci.list(t.Body.List)
		if t.Else != nil {
			ci.stmt(t.Else)
		}
	case *ast.ForStmt:
		ci.lits(t.Init)
		ci.lits(t.Cond)
		ci.lits(t.Post)
		t.Body.List = ci.list(t.Body.List)
	case *ast.RangeStmt:
		ci.lits(t.X)
		t.Body.List = ci.list(t.Body.List)
	case *ast.SwitchStmt:
		ci.lits(t.Init)
		ci.lits(t.Tag)
		for _, c := range t.Body.List {
			cc := c.(*ast.CaseClause)
			cc.Body = ci.caseList(cc.Body)
		}
	case *ast.TypeSwitchStmt:
		for _, c := range t.Body.List {
			cc := c.(*ast.CaseClause)
			cc.Body = ci.caseList(cc.Body)
		}
	case *ast.SelectStmt:
		for _, c := range t.Body.List {
			cc := c.(*ast.CommClause)
			cc.Body = ci.caseList(cc.Body)
		}
	case *ast.LabeledStmt:
		ci.stmt(t.Stmt)
	default:
		ci.lits(s)
	}
}

// case bodies: `fallthrough` must stay last, handled by terminates(BranchStmt)
func (ci *crashInjector) caseList(L []ast.Stmt) []ast.Stmt { return ci.list(L) }

// function literals inside an expression / simple statement
func (ci *crashInjector) lits(n ast.Node) {
	if n == nil {
		return
	}
	// a nil interface holding a typed nil pointer
	switch v := n.(type) {
	case ast.Stmt:
		if v == nil {
			return
		}
	case ast.Expr:
		if v == nil {
			return
		}
	}
	ast.Inspect(n, func(x ast.Node) bool {
		if fl, ok := x.(*ast.FuncLit); ok {
			fl.Body.List = ci.list(fl.Body.List)
			return false
		}
		return true
	})
}

func genCrash(repo, out string) {
	total := 0
	for _, tg := range crashTargets {
		path := filepath.Join(repo, tg.rel)
		src, err := os.ReadFile(path)
		if err != nil {
			die("crash: %v", err)
		}
		fset := token.NewFileSet()
		f, err := parser.ParseFile(fset, path, src, parser.ParseComments)
		if err != nil {
			die("crash: %v", err)
		}
		// comments inside declarations are dropped (the inserted nodes have no positions, so go/printer would
		// place them arbitrarily); comments before the package clause (licence, build constraints) are kept
		var keep []*ast.CommentGroup
		for _, cg := range f.Comments {
			if cg.End() < f.Package {
				keep = append(keep, cg)
			}
			for _, c := range cg.List {
				if cg.Pos() > f.Package && (strings.HasPrefix(c.Text, "//go:") || strings.HasPrefix(c.Text, "// +build") || strings.HasPrefix(c.Text, "//export")) {
					die("crash: %s contains the directive %q; comment stripping would change the build", tg.rel, c.Text)
				}
			}
		}
		f.Comments = keep
		for _, d := range f.Decls {
			switch t := d.(type) {
			case *ast.FuncDecl:
				t.Doc = nil
			case *ast.GenDecl:
				t.Doc = nil
			}
		}
		utilsID := ""
		if !tg.utilsPkg {
			for _, im := range f.Imports {
				p, _ := strconv.Unquote(im.Path.Value)
				if p == utilsImport {
					utilsID = "utils"
					if im.Name != nil {
						utilsID = im.Name.Name
					}
				}
			}
			if utilsID == "" {
				// add the import to the first import declaration
				utilsID = "verifutils"
				spec := &ast.ImportSpec{Name: ast.NewIdent(utilsID), Path: &ast.BasicLit{Kind: token.STRING, Value: strconv.Quote(utilsImport)}}
				done := false
				for _, d := range f.Decls {
					if gd, ok := d.(*ast.GenDecl); ok && gd.Tok == token.IMPORT {
						if !gd.Lparen.IsValid() {
							gd.Lparen = gd.Pos()
							gd.Rparen = gd.End()
						}
						gd.Specs = append(gd.Specs, spec)
						done = true
						break
					}
				}
				if !done {
					die("crash: %s has no import declaration", tg.rel)
				}
				f.Imports = append(f.Imports, spec)
			}
		}
		want := map[string]bool{}
		for _, n := range tg.required {
			want[n] = true
		}
		for _, n := range tg.optional {
			want[n] = false
		}
		found := map[string]bool{}
		for _, d := range f.Decls {
			fd, ok := d.(*ast.FuncDecl)
			if !ok || fd.Body == nil {
				continue
			}
			if _, ok := want[fd.Name.Name]; !ok {
				continue
			}
			ci := &crashInjector{fn: fd.Name.Name, utilsID: utilsID}
			fd.Body.List = ci.list(fd.Body.List)
			found[fd.Name.Name] = true
			total += ci.n
		}
		for n, req := range want {
			if req && !found[n] {
				die("crash: function %s not found in %s", n, tg.rel)
			}
		}
		if len(found) == 0 {
			continue
		}
		var buf bytes.Buffer
		cfg := printer.Config{Mode: printer.UseSpaces | printer.TabIndent, Tabwidth: 8}
		if err := cfg.Fprint(&buf, fset, f); err != nil {
			die("crash: printing %s: %v", tg.rel, err)
		}
		// must still parse
		if _, err := parser.ParseFile(token.NewFileSet(), path, buf.Bytes(), 0); err != nil {
			die("crash: generated %s does not parse: %v", tg.rel, err)
		}
		dst := filepath.Join(out, tg.rel)
		if err := os.MkdirAll(filepath.Dir(dst), 0o755); err != nil {
			die("%v", err)
		}
		hdr := "// GENERATED by /verif/harness/cmd/overlaygen (crash.go) from " + tg.rel + " — crash points inserted, nothing else changed.\n"
		if err := os.WriteFile(dst, append([]byte(hdr), buf.Bytes()...), 0o644); err != nil {
			die("%v", err)
		}
	}
	dst := filepath.Join(out, "pkg/utils/verif_crashpoint.go")
	if err := os.MkdirAll(filepath.Dir(dst), 0o755); err != nil {
		die("%v", err)
	}
	if err := os.WriteFile(dst, []byte(crashPointSrc), 0o644); err != nil {
		die("%v", err)
	}
	_ = total
}

const crashPointSrc = `//go:build verif

// GENERATED by /verif/harness/cmd/overlaygen (crash.go) — do not edit.

package utils

import (
	"os"
	"strconv"
	"sync"
)

var verifCrashOn bool
var verifCrashAt int64
var verifCrashN int64
var verifCrashLog *os.File
var verifCrashMu sync.Mutex

func init() {
	at := os.Getenv("VERIF_CRASH_AT")
	lg := os.Getenv("VERIF_CRASH_LOG")
	if at == "" && lg == "" {
		return
	}
	verifCrashAt, _ = strconv.ParseInt(at, 10, 64)
	if lg != "" {
		f, err := os.OpenFile(lg, os.O_APPEND|os.O_WRONLY|os.O_CREATE, 0o644)
		if err == nil {
			verifCrashLog = f
		}
	}
	verifCrashOn = true
}

// VerifCrashNote appends a line to the crash log (flush/command boundaries written by the worker).
func VerifCrashNote(s string) {
	if !verifCrashOn || verifCrashLog == nil {
		return
	}
	verifCrashMu.Lock()
	_, _ = verifCrashLog.WriteString(s + "\n")
	verifCrashMu.Unlock()
}

// VerifCrashPoint counts the instrumented statement boundaries that were reached and terminates the
// process (no deferred functions, no flushing: os.Exit) when the count equals VERIF_CRASH_AT.
func VerifCrashPoint(label string) {
	if !verifCrashOn {
		return
	}
	verifCrashMu.Lock()
	verifCrashN++
	n := verifCrashN
	if verifCrashLog != nil {
		_, _ = verifCrashLog.WriteString(strconv.FormatInt(n, 10) + " " + label + "\n")
	}
	if verifCrashAt > 0 && n == verifCrashAt {
		os.Exit(77)
	}
	verifCrashMu.Unlock()
}

// VerifCrashPointOpen is the crash point BETWEEN THE TWO SYSTEM CALLS of an os.WriteFile(name, data, perm) that the
// code is about to make: when it is the point to die at, the open(O_WRONLY|O_CREATE|O_TRUNC) of that call is
// performed (the file exists and is empty, as it is before the write call) and the process terminates.
func VerifCrashPointOpen(label string, name string, perm os.FileMode) {
	if !verifCrashOn {
		return
	}
	verifCrashMu.Lock()
	verifCrashN++
	n := verifCrashN
	if verifCrashLog != nil {
		_, _ = verifCrashLog.WriteString(strconv.FormatInt(n, 10) + " " + label + "\n")
	}
	if verifCrashAt > 0 && n == verifCrashAt {
		f, err := os.OpenFile(name, os.O_WRONLY|os.O_CREATE|os.O_TRUNC, perm)
		if err == nil {
			_ = f.Close()
		}
		os.Exit(77)
	}
	verifCrashMu.Unlock()
}
`
