// overlaygen: generates overlay files that cannot be written by hand because the code they expose is
// not a function of its own in /repo.  Run by lib/runner.py (build_corr) before the harness is built:
//
//	go run ./cmd/overlaygen <repo> <outdir>
//
// Currently one product (property C12): <outdir>/pkg/segment/tracing/handler/export_verif_c12.go with
//
//	VerifDepFold(spans)  = the statements of MakeTracesDependancyGraph AFTER the search response was parsed
//	VerifRedFold(spans)  = the statements of ProcessRedTracesIngest with the paging loop replaced by
//	                       "all spans are <spans>" and cut after the per-service loop (nothing is ingested);
//	                       the metrics are captured where the code hands them to redMetricsToJson.
//
// The statements are copied TEXTUALLY from the repo's working tree (go/parser positions), so a changed or
// mutated kernel is what gets compiled.  Names this slicer relies on: the two function names and
// redMetricsToJson.  If the shape is not recognised the program fails and the harness build fails (reported
// as "harness no longer builds", never as a property violation).
package main

import (
	"fmt"
	"go/ast"
	"go/parser"
	"go/token"
	"os"
	"path/filepath"
	"regexp"
	"strconv"
	"strings"
)

// genFail: a generator does not recognise the shape of the source it slices.  Only THAT generator's product is
// missing then (reported on stderr and in <outdir>/FAILED.txt); the harness files that need it no longer compile,
// which lib/runner.py reports for the properties that use them only (property-minimal builds).
type genFail struct{ msg string }

func die(format string, a ...interface{}) {
	panic(genFail{fmt.Sprintf(format, a...)})
}

var failedGens []string

// run one generator; false if it gave up
func run(name string, f func()) (ok bool) {
	defer func() {
		if r := recover(); r != nil {
			gf, isFail := r.(genFail)
			if !isFail {
				panic(r)
			}
			fmt.Fprintf(os.Stderr, "overlaygen: generator %s failed: %s\n", name, gf.msg)
			failedGens = append(failedGens, name+": "+gf.msg)
			ok = false
		}
	}()
	f()
	return true
}

type file struct {
	src  []byte
	fset *token.FileSet
	f    *ast.File
}

func (x *file) text(n ast.Node) string {
	return string(x.src[x.fset.Position(n.Pos()).Offset:x.fset.Position(n.End()).Offset])
}

func (x *file) fn(name string) *ast.FuncDecl {
	for _, d := range x.f.Decls {
		if fd, ok := d.(*ast.FuncDecl); ok && fd.Recv == nil && fd.Name.Name == name && fd.Body != nil {
			return fd
		}
	}
	die("function %s not found", name)
	return nil
}

// names defined at the top level of a statement list (x := …, var x …)
func definedNames(stmts []ast.Stmt) []string {
	var out []string
	for _, s := range stmts {
		switch t := s.(type) {
		case *ast.AssignStmt:
			if t.Tok == token.DEFINE {
				for _, l := range t.Lhs {
					if id, ok := l.(*ast.Ident); ok && id.Name != "_" {
						out = append(out, id.Name)
					}
				}
			}
		case *ast.DeclStmt:
			if gd, ok := t.Decl.(*ast.GenDecl); ok && gd.Tok == token.VAR {
				for _, sp := range gd.Specs {
					for _, id := range sp.(*ast.ValueSpec).Names {
						if id.Name != "_" {
							out = append(out, id.Name)
						}
					}
				}
			}
		}
	}
	return out
}

func useAll(names []string) string {
	var b strings.Builder
	seen := map[string]bool{}
	for _, n := range names {
		if !seen[n] {
			seen[n] = true
			fmt.Fprintf(&b, "\t_ = %s\n", n)
		}
	}
	return b.String()
}

func paramDecls(fd *ast.FuncDecl, x *file) (string, []string) {
	var b strings.Builder
	var names []string
	for _, p := range fd.Type.Params.List {
		for _, n := range p.Names {
			fmt.Fprintf(&b, "\tvar %s %s\n", n.Name, x.text(p.Type))
			names = append(names, n.Name)
		}
	}
	return b.String(), names
}

// depFoldPaged: MakeTracesDependancyGraph with a paging loop `for { … acc = append(acc, <resp>.Hits.Spans...) … }`
// or, since the records are decoded one by one (repair c12-7), `for { … acc = append(acc, <pageSpans>...) … }`
// (the shape of ProcessRedTracesIngest): the loop is replaced by "all spans are <spans>", every other statement is
// copied.  Returns "" when the function has no such loop (the older one-request shape, handled by depFold itself).
func depFoldPaged(x *file, fd *ast.FuncDecl) string {
	L := fd.Body.List
	loop, acc := -1, ""
	re := regexp.MustCompile(`^(\w+)\s*=\s*append\((\w+),\s*(?:\w+\.Hits\.Spans|\w+)\.\.\.\)$`)
	for i, s := range L {
		fs, ok := s.(*ast.ForStmt)
		if !ok || fs.Cond != nil || fs.Init != nil || fs.Post != nil {
			continue
		}
		for _, b := range fs.Body.List {
			if m := re.FindStringSubmatch(strings.TrimSpace(x.text(b))); m != nil && m[1] == m[2] {
				loop, acc = i, m[1]
			}
		}
		if loop >= 0 {
			break
		}
	}
	if loop < 0 {
		return ""
	}
	if len(fd.Type.Results.List) != 1 {
		die("MakeTracesDependancyGraph: expected one result")
	}
	pd, pn := paramDecls(fd, x)
	var b strings.Builder
	fmt.Fprintf(&b, "func VerifDepFold(verifIn []*structs.Span) %s {\n", x.text(fd.Type.Results.List[0].Type))
	b.WriteString(pd)
	b.WriteString(useAll(pn))
	for i, s := range L {
		if i == loop {
			fmt.Fprintf(&b, "\t%s = append(%s, verifIn...)\n", acc, acc)
			continue
		}
		b.WriteString("\t" + x.text(s) + "\n")
		b.WriteString(useAll(definedNames([]ast.Stmt{s})))
	}
	b.WriteString("}\n")
	return b.String()
}

func depFold(x *file) string {
	fd := x.fn("MakeTracesDependancyGraph")
	if paged := depFoldPaged(x, fd); paged != "" {
		return paged
	}
	L := fd.Body.List
	u := -1
	for i, s := range L {
		if is, ok := s.(*ast.IfStmt); ok && strings.Contains(x.text(is), "json.Unmarshal(") {
			u = i
			break
		}
	}
	if u < 0 {
		die("MakeTracesDependancyGraph: no `if … json.Unmarshal(…)` statement")
	}
	m := regexp.MustCompile(`json\.Unmarshal\([^,]*,\s*&(\w+)\)`).FindStringSubmatch(x.text(L[u]))
	if m == nil {
		die("MakeTracesDependancyGraph: cannot find the variable the response is unmarshalled into")
	}
	target := m[1]
	d := -1
	for i := u - 1; i >= 0; i-- {
		for _, n := range definedNames(L[i : i+1]) {
			if n == target {
				d = i
			}
		}
		if d >= 0 {
			break
		}
	}
	if d < 0 {
		die("MakeTracesDependancyGraph: declaration of %s not found", target)
	}
	if len(fd.Type.Results.List) != 1 {
		die("MakeTracesDependancyGraph: expected one result")
	}
	pd, pn := paramDecls(fd, x)
	var b strings.Builder
	fmt.Fprintf(&b, "func VerifDepFold(verifIn []*structs.Span) %s {\n", x.text(fd.Type.Results.List[0].Type))
	b.WriteString(pd)
	b.WriteString(useAll(pn))
	b.WriteString("\t" + x.text(L[d]) + "\n")
	fmt.Fprintf(&b, "\t%s.Hits.Spans = verifIn\n", target)
	for _, s := range L[u+1:] {
		b.WriteString("\t" + x.text(s) + "\n")
	}
	b.WriteString("}\n")
	return b.String()
}

func redFold(x *file) string {
	fd := x.fn("ProcessRedTracesIngest")
	L := fd.Body.List
	loop := -1
	for i, s := range L {
		if fs, ok := s.(*ast.ForStmt); ok && fs.Cond == nil && fs.Init == nil && fs.Post == nil {
			loop = i
			break
		}
	}
	if loop < 0 {
		die("ProcessRedTracesIngest: paging loop `for { … }` not found")
	}
	// accumulator: `acc = append(acc, <resp>.Hits.Spans...)` / `acc = append(acc, <pageSpans>...)` at the top level of the loop body
	acc := ""
	re := regexp.MustCompile(`^(\w+)\s*=\s*append\((\w+),\s*(?:\w+\.Hits\.Spans|\w+)\.\.\.\)$`)
	for _, s := range L[loop].(*ast.ForStmt).Body.List {
		if m := re.FindStringSubmatch(strings.TrimSpace(x.text(s))); m != nil && m[1] == m[2] {
			acc = m[1]
		}
	}
	if acc == "" {
		die("ProcessRedTracesIngest: span accumulator not found in the paging loop")
	}
	last := -1
	for i, s := range L {
		if _, ok := s.(*ast.RangeStmt); ok {
			last = i
		}
	}
	if last <= loop {
		die("ProcessRedTracesIngest: per-service loop not found")
	}
	if !strings.Contains(x.text(L[last]), "redMetricsToJson(") {
		die("ProcessRedTracesIngest: the last range loop does not hand the metrics to redMetricsToJson")
	}
	if fd.Type.Results != nil && len(fd.Type.Results.List) != 0 {
		die("ProcessRedTracesIngest: expected no result")
	}
	pd, pn := paramDecls(fd, x)
	var kept []ast.Stmt
	var b strings.Builder
	b.WriteString("var verifRedOut map[string]structs.RedMetrics\n\n")
	b.WriteString("func verifRedCapture(m structs.RedMetrics, service string) ([]byte, error) {\n\tverifRedOut[service] = m\n\treturn redMetricsToJson(m, service)\n}\n\n")
	b.WriteString("func VerifRedFold(verifIn []*structs.Span) map[string]structs.RedMetrics {\n")
	b.WriteString("\tverifRedOut = map[string]structs.RedMetrics{}\n\tfunc() {\n")
	b.WriteString(pd)
	b.WriteString(useAll(pn))
	for i, s := range L[:last+1] {
		if i == loop {
			fmt.Fprintf(&b, "\t%s = append(%s, verifIn...)\n", acc, acc)
			continue
		}
		kept = append(kept, s)
		b.WriteString("\t" + strings.ReplaceAll(x.text(s), "redMetricsToJson(", "verifRedCapture(") + "\n")
	}
	b.WriteString(useAll(definedNames(kept)))
	b.WriteString("\t}()\n\treturn verifRedOut\n}\n")
	return b.String()
}

func main() {
	if len(os.Args) != 3 {
		die("usage: overlaygen <repo> <outdir>")
	}
	repo, out := os.Args[1], os.Args[2]
	var x *file
	rel := "pkg/segment/tracing/handler"
	run("c12-fold", func() {
		path := filepath.Join(repo, rel, "tracehandler.go")
		src, err := os.ReadFile(path)
		if err != nil {
			die("%v", err)
		}
		x = &file{src: src, fset: token.NewFileSet()}
		x.f, err = parser.ParseFile(x.fset, path, src, parser.ParseComments)
		if err != nil {
			die("%v", err)
		}
		body := depFold(x) + "\n" + redFold(x)
		// imports of the original file that the copied text refers to
		var imps []string
		for _, im := range x.f.Imports {
			p, _ := strconv.Unquote(im.Path.Value)
			name := filepath.Base(p)
			if im.Name != nil {
				name = im.Name.Name
			}
			used := regexp.MustCompile(`(^|[^\w.])` + regexp.QuoteMeta(name) + `\.\w`).MatchString(body)
			if used {
				if im.Name != nil {
					imps = append(imps, fmt.Sprintf("\t%s %s", im.Name.Name, im.Path.Value))
				} else {
					imps = append(imps, "\t"+im.Path.Value)
				}
			}
		}
		var b strings.Builder
		b.WriteString("//go:build verif\n\n// GENERATED by /verif/harness/cmd/overlaygen from " + rel + "/tracehandler.go — do not edit.\n\npackage handler\n\nimport (\n")
		b.WriteString(strings.Join(imps, "\n"))
		b.WriteString("\n)\n\n")
		b.WriteString(body)
		dir := filepath.Join(out, rel)
		if err := os.MkdirAll(dir, 0o755); err != nil {
			die("%v", err)
		}
		if err := os.WriteFile(filepath.Join(dir, "export_verif_c12.go"), []byte(b.String()), 0o644); err != nil {
			die("%v", err)
		}
	})
	run("c12-page", func() {
		if x == nil || x.f == nil {
			die("tracehandler.go not parsed")
		}
		genC12Page(x, out, rel)
	}) // property C12, end-to-end slice: page-size hook for the two paging loops (c12.go)
	run("c01", func() { genC01(repo, out) })   // property C01 (c01.go)
	run("c05", func() { genC05(repo, out) })   // property C05 (c05.go)
	run("c10r", func() { genC10R(repo, out) }) // property C10, recovery slice: one pass of the metrics WAL timer loops (c10r.go)
	run("c14", func() { genC14(repo, out) }) // property C14: pause points in metricsmeta.go for the replay of pass-vs-rotation schedules (c14.go)
	// property C07: crash-point injection into the segment writer (crash.go)
	crashOK := run("crash", func() { genCrash(repo, out) })
	// property C11: pause points before the rotation steps (c11.go). MUST run after genCrash: it instruments the
	// copy of pkg/segment/writer/segstore.go that genCrash has produced (both hook sets live in one file).
	if crashOK {
		run("c11", func() { genC11(repo, out) })
	} else {
		failedGens = append(failedGens, "c11: skipped, needs the product of crash")
	}
	if len(failedGens) > 0 {
		_ = os.MkdirAll(out, 0o755)
		_ = os.WriteFile(filepath.Join(out, "FAILED.txt"), []byte(strings.Join(failedGens, "\n")+"\n"), 0o644)
	}
}
