package main

// suite "stats" (property C04, kernel slice): the running statistics behind `stats` / `stats … by`
// and their merge, driven on the REAL siglens functions.
//
//	stats foldq <vals>                 query-time adders stats.AddSegStatsNums / AddSegStatsStr over one list,
//	                                   then the derivation SearchResults.UpdateSegmentStats (GetSegCount/Sum/Min/Max/Avg/Range)
//	stats foldi <vals>                 ingest-time adders addSegStatsNums / addSegStatsStrIngestion (packer.go),
//	                                   then writeSstToBuf → readSingleSst (what the .sst fast path hands to the query)
//	stats merge <q|i> <rpn> <p0>|<p1>… one SegStats map per part (q: query-time adders, i: ingest adders + .sst round trip),
//	                                   merged with stats.MergeSegStats in the association/commutation order <rpn>
//	                                   (e.g. 0.1.m.2.m = (p0+p1)+p2, 2.0.1.m.m = p2+(p0+p1)), then the derivation
//	stats rb <vals>                    group-by bucket: BlockResults.AddMeasureResultsToKey per value
//	                                   (sum,min,max,avg,count,range of x), GetGroupByBuckets
//	stats rbmerge <rpn> <p0>|<p1>…     one BlockResults per part, BlockResults.MergeBuckets in <rpn> order
//
// The checks and the Lean model follow the code WITH the repairs build/patches/c04-1..4 and c04-7 (IsNumeric merged, FastParseFloat
// wants a digit, Reduce lets a number beat a running string, AddSegStatsStr uses FastParseFloat, group-by avg divides by the number
// of numeric values) and c04-15 (an int64 sum / range that does not fit becomes a float64); the detectors of the repaired classes stay
// and now report a VIOLATION when one of them reproduces.
//
// <vals> = "-" (empty) or comma separated: i<int64> | d<decimal> (float64) | s<hex> (string) | z (field absent)
// Answers are exact: ints as ints, floats as exact rationals (big.Rat.SetFloat64).

import (
	"encoding/hex"
	"fmt"
	"math"
	"math/big"
	"math/rand"
	"regexp"
	"sort"
	"strconv"
	"strings"

	"github.com/siglens/siglens/pkg/segment/reader/segread"
	"github.com/siglens/siglens/pkg/segment/results/blockresults"
	"github.com/siglens/siglens/pkg/segment/results/segresults"
	"github.com/siglens/siglens/pkg/segment/structs"
	sutils "github.com/siglens/siglens/pkg/segment/utils"
	"github.com/siglens/siglens/pkg/segment/writer"
	wstats "github.com/siglens/siglens/pkg/segment/writer/stats"
	bbp "github.com/valyala/bytebufferpool"
)

func init() {
	register(&Suite{Name: "stats", Gen: st4Gen, Exec: st4Exec,
		Rule: "value lists of 0..10 (ints incl. ±2^62/±2^63 neighbours, dyadic floats, non-dyadic decimals, numeric strings, " +
			"non-numeric strings, absent) folded by the query-time, ingest-time and group-by statistics, split into 1..4 parts " +
			"merged in every association/commutation order; non-trivial = at least one numeric and one non-numeric/absent value or >1 part"})
}

const st4Col = "x"

type st4Val struct {
	kind byte // 'i','d','s','z'
	i    int64
	f    float64
	s    []byte
}

func st4ParseVals(tok string) ([]st4Val, bool) {
	if tok == "-" {
		return nil, true
	}
	var out []st4Val
	for _, t := range strings.Split(tok, ",") {
		if t == "" {
			return nil, false
		}
		switch t[0] {
		case 'z':
			if len(t) != 1 {
				return nil, false
			}
			out = append(out, st4Val{kind: 'z'})
		case 'i':
			n, err := strconv.ParseInt(t[1:], 10, 64)
			if err != nil || strings.HasPrefix(t[1:], "+") {
				return nil, false
			}
			out = append(out, st4Val{kind: 'i', i: n})
		case 'd':
			if !st4DecRe.MatchString(t[1:]) {
				return nil, false
			}
			f, err := strconv.ParseFloat(t[1:], 64)
			if err != nil {
				return nil, false
			}
			out = append(out, st4Val{kind: 'd', f: f})
		case 's':
			b, err := hex.DecodeString(t[1:])
			if err != nil {
				return nil, false
			}
			out = append(out, st4Val{kind: 's', s: b})
		default:
			return nil, false
		}
	}
	return out, true
}

// op-line decimals: -?digits[.digits]   (no exponent, so that both sides parse them the same trivial way)
var st4DecRe = regexp.MustCompile(`^-?[0-9]+(\.[0-9]+)?$`)

// ---------------------------------------------------------------- canonical printing

func st4Rat(f float64) string {
	if math.IsNaN(f) {
		return "nan"
	}
	if math.IsInf(f, 1) {
		return "+inf"
	}
	if math.IsInf(f, -1) {
		return "-inf"
	}
	return new(big.Rat).SetFloat64(f).RatString()
}

func st4CV(e sutils.CValueEnclosure) string {
	switch e.Dtype {
	case sutils.SS_INVALID:
		return "_"
	case sutils.SS_DT_BACKFILL:
		return "b"
	case sutils.SS_DT_SIGNED_NUM:
		if v, ok := e.CVal.(int64); ok {
			return fmt.Sprintf("i%d", v)
		}
	case sutils.SS_DT_UNSIGNED_NUM:
		if v, ok := e.CVal.(uint64); ok {
			return fmt.Sprintf("u%d", v)
		}
	case sutils.SS_DT_FLOAT:
		if v, ok := e.CVal.(float64); ok {
			return "f" + st4Rat(v)
		}
	case sutils.SS_DT_STRING:
		if v, ok := e.CVal.(string); ok {
			return "s" + hex.EncodeToString([]byte(v))
		}
	}
	return fmt.Sprintf("?%d:%T", e.Dtype, e.CVal)
}

func st4Num(n sutils.NumTypeEnclosure) string {
	if n.Ntype == sutils.SS_DT_FLOAT {
		return "f" + st4Rat(n.FloatVal)
	}
	if n.Ntype == sutils.SS_DT_SIGNED_NUM {
		return fmt.Sprintf("i%d", n.IntgrVal)
	}
	return fmt.Sprintf("?%d", n.Ntype)
}

func st4B(b bool) int {
	if b {
		return 1
	}
	return 0
}

// state of one column's SegStats: isNumeric, Count, NumStats (nil = "-"), Min, Max
func st4State(m map[string]*structs.SegStats) string {
	s, ok := m[st4Col]
	if !ok || s == nil {
		return "none"
	}
	ns := "-"
	if s.NumStats != nil {
		ns = fmt.Sprintf("%d:%s", s.NumStats.NumericCount, st4Num(s.NumStats.Sum))
	}
	return fmt.Sprintf("num=%d cnt=%d ns=%s min=%s max=%s", st4B(s.IsNumeric), s.Count, ns, st4CV(s.Min), st4CV(s.Max))
}

var st4Funcs = []sutils.AggregateFunctions{sutils.Count, sutils.Sum, sutils.Avg, sutils.Min, sutils.Max, sutils.Range}
var st4FuncNames = []string{"count", "sum", "avg", "min", "max", "range"}

func st4Mops() []*structs.MeasureAggregator {
	var mops []*structs.MeasureAggregator
	for _, f := range st4Funcs {
		mops = append(mops, &structs.MeasureAggregator{MeasureCol: st4Col, MeasureFunc: f})
	}
	return mops
}

var st4Qid uint64 = 7_400_000

// the production derivation: statsProcessor.extractSegmentStatsResults → IQR.CreateSegmentStatsResults →
// SearchResults.UpdateSegmentStats(finalMap, measureOps) (one call, running stats nil) → measureResults
func st4Derive(m map[string]*structs.SegStats) (string, map[string]sutils.CValueEnclosure) {
	mops := st4Mops()
	st4Qid++
	sr, err := segresults.InitSearchResults(0, &structs.QueryAggregators{MeasureOperations: mops}, structs.SegmentStatsCmd, st4Qid)
	if err != nil {
		return "init-err", nil
	}
	sr.InitSegmentStatsResults(mops)
	if err := sr.UpdateSegmentStats(m, mops); err != nil {
		return "update-err", nil
	}
	res := sr.GetSegmentStatsMeasureResults()
	var parts []string
	for i, mo := range mops {
		v, ok := res[mo.String()]
		if !ok {
			parts = append(parts, st4FuncNames[i]+"=-")
		} else {
			parts = append(parts, st4FuncNames[i]+"="+st4CV(v))
		}
	}
	out := map[string]sutils.CValueEnclosure{}
	for i, mo := range mops {
		if v, ok := res[mo.String()]; ok {
			out[st4FuncNames[i]] = v
		}
	}
	return strings.Join(parts, " "), out
}

// ---------------------------------------------------------------- drivers of the real adders

func st4FoldQ(vals []st4Val) map[string]*structs.SegStats {
	m := map[string]*structs.SegStats{}
	bb := bbp.Get()
	defer bbp.Put(bb)
	for _, v := range vals {
		switch v.kind {
		case 'i':
			wstats.AddSegStatsNums(m, st4Col, sutils.SS_INT64, v.i, 0, 0, bb, nil, false, false, false)
		case 'd':
			wstats.AddSegStatsNums(m, st4Col, sutils.SS_FLOAT64, 0, 0, v.f, bb, nil, false, false, false)
		case 's':
			wstats.AddSegStatsStr(m, st4Col, string(v.s), bb, nil, false, false, false)
		case 'z': // statsProcessor.processMeasureOperations skips values that are neither string nor numeric
		}
	}
	return m
}

func st4FoldI(vals []st4Val) map[string]*structs.SegStats {
	m := map[string]*structs.SegStats{}
	for _, v := range vals {
		var b [8]byte
		switch v.kind {
		case 'i':
			writer.VerifC04AddNumIngest(m, st4Col, false, v.i, 0, b[:])
		case 'd':
			writer.VerifC04AddNumIngest(m, st4Col, true, 0, v.f, b[:])
		case 's':
			writer.VerifC04AddStrIngest(m, st4Col, append([]byte{}, v.s...))
		case 'z': // an absent field reaches no adder
		}
	}
	return m
}

// .sst record round trip of the column (what segread.ReadSegStats gives the query for a rotated segment)
func st4SstRT(m map[string]*structs.SegStats) (map[string]*structs.SegStats, string) {
	s, ok := m[st4Col]
	if !ok {
		return map[string]*structs.SegStats{}, ""
	}
	buf := make([]byte, 1<<20)
	n, err := writer.VerifC04WriteSst(s, buf)
	if err != nil {
		return nil, "write-err"
	}
	r, err := segread.VerifC04ReadSingleSst(buf[:n])
	if err != nil {
		return nil, "read-err"
	}
	return map[string]*structs.SegStats{st4Col: r}, ""
}

// ---------------------------------------------------------------- group-by bucket driver

type st4RB struct {
	br   *blockresults.BlockResults
	aggs *structs.QueryAggregators
}

func st4NewRB() *st4RB {
	aggs := &structs.QueryAggregators{GroupByRequest: &structs.GroupByRequest{
		MeasureOperations: st4MopsRB(), GroupByColumns: []string{"g"}, BucketCount: 100, IsBucketKeySeparatedByDelim: true}}
	st4Qid++
	br, err := blockresults.InitBlockResults(0, aggs, st4Qid)
	if err != nil {
		panic(err)
	}
	return &st4RB{br: br, aggs: aggs}
}

var st4FuncsRB = []sutils.AggregateFunctions{sutils.Sum, sutils.Min, sutils.Max, sutils.Avg, sutils.Count, sutils.Range}
var st4FuncNamesRB = []string{"sum", "min", "max", "avg", "count", "range"}

func st4MopsRB() []*structs.MeasureAggregator {
	var mops []*structs.MeasureAggregator
	for _, f := range st4FuncsRB {
		mops = append(mops, &structs.MeasureAggregator{MeasureCol: st4Col, MeasureFunc: f})
	}
	return mops
}

var st4Key = func() []byte {
	g := sutils.CValueEnclosure{Dtype: sutils.SS_DT_STRING, CVal: "k"}
	buf := make([]byte, 64)
	buf, n := g.WriteToBytesWithType(buf, 0)
	return buf[:n]
}()

// as statsProcessor.processGroupByRequest feeds one record
func (rb *st4RB) add(v st4Val) {
	measureInfo, internalMops := rb.br.GetConvertedMeasureInfo()
	mr := make([]sutils.CValueEnclosure, len(internalMops))
	var cv sutils.CValueEnclosure
	switch v.kind {
	case 'i':
		cv = sutils.CValueEnclosure{Dtype: sutils.SS_DT_SIGNED_NUM, CVal: v.i}
	case 'd':
		cv = sutils.CValueEnclosure{Dtype: sutils.SS_DT_FLOAT, CVal: v.f}
	case 's':
		cv = sutils.CValueEnclosure{Dtype: sutils.SS_DT_STRING, CVal: string(v.s)}
	case 'z':
		cv = sutils.CValueEnclosure{Dtype: sutils.SS_DT_BACKFILL, CVal: nil}
	}
	for _, idxs := range measureInfo {
		for _, idx := range idxs {
			mr[idx] = cv
		}
	}
	rb.br.AddMeasureResultsToKey(st4Key, mr, "", false, st4Qid, map[string]sutils.CValueEnclosure{})
}

func st4FoldRB(vals []st4Val) *st4RB {
	rb := st4NewRB()
	for _, v := range vals {
		rb.add(v)
	}
	return rb
}

func (rb *st4RB) result() (string, uint64, map[string]sutils.CValueEnclosure) {
	ar := rb.br.GetGroupByBuckets()
	if ar == nil || len(ar.Results) == 0 {
		return "none", 0, nil
	}
	if len(ar.Results) != 1 {
		return fmt.Sprintf("buckets=%d", len(ar.Results)), 0, nil
	}
	b := ar.Results[0]
	mops := st4MopsRB()
	parts := []string{fmt.Sprintf("n=%d", b.ElemCount)}
	out := map[string]sutils.CValueEnclosure{}
	for i, mo := range mops {
		v, ok := b.StatRes[mo.String()]
		if !ok {
			parts = append(parts, st4FuncNamesRB[i]+"=-")
		} else {
			parts = append(parts, st4FuncNamesRB[i]+"="+st4CV(v))
			out[st4FuncNamesRB[i]] = v
		}
	}
	return strings.Join(parts, " "), b.ElemCount, out
}

// ---------------------------------------------------------------- rpn merge orders

// evaluates "0.1.m.2.m" over n leaves; every leaf must be used exactly once
func st4RPN(rpn string, n int, leaf func(int) interface{}, merge func(a, b interface{}) interface{}) (interface{}, bool) {
	var stack []interface{}
	used := map[int]bool{}
	for _, t := range strings.Split(rpn, ".") {
		if t == "m" {
			if len(stack) < 2 {
				return nil, false
			}
			a, b := stack[len(stack)-2], stack[len(stack)-1]
			stack = append(stack[:len(stack)-2], merge(a, b))
			continue
		}
		k, err := strconv.Atoi(t)
		if err != nil || k < 0 || k >= n || used[k] || (len(t) > 1 && t[0] == '0') || strings.HasPrefix(t, "+") || strings.HasPrefix(t, "-") {
			return nil, false
		}
		used[k] = true
		stack = append(stack, leaf(k))
	}
	if len(stack) != 1 || len(used) != n {
		return nil, false
	}
	return stack[0], true
}

// leaves of the rpn in the order they are pushed = order of the concatenation the merge tree denotes
func st4RPNOrder(rpn string) []int {
	var o []int
	for _, t := range strings.Split(rpn, ".") {
		if t != "m" {
			k, _ := strconv.Atoi(t)
			o = append(o, k)
		}
	}
	return o
}

// ---------------------------------------------------------------- reference (independent of the Lean model)

var st4StrictNum = regexp.MustCompile(`^[+-]?([0-9]+\.?[0-9]*|\.[0-9]+)([eE][+-]?[0-9]+)?$`)

// exact value of a strict decimal numeral
func st4DecRat(s string) *big.Rat {
	neg := false
	if s[0] == '+' || s[0] == '-' {
		neg = s[0] == '-'
		s = s[1:]
	}
	exp := 0
	if k := strings.IndexAny(s, "eE"); k >= 0 {
		exp, _ = strconv.Atoi(s[k+1:])
		s = s[:k]
	}
	frac := ""
	if k := strings.IndexByte(s, '.'); k >= 0 {
		frac = s[k+1:]
		s = s[:k]
	}
	digits := s + frac
	if digits == "" {
		digits = "0"
	}
	n, _ := new(big.Int).SetString(digits, 10)
	r := new(big.Rat).SetInt(n)
	e := exp - len(frac)
	p := new(big.Int).Exp(big.NewInt(10), big.NewInt(int64(st4Abs(e))), nil)
	if e >= 0 {
		r.Mul(r, new(big.Rat).SetInt(p))
	} else {
		r.Quo(r, new(big.Rat).SetInt(p))
	}
	if neg {
		r.Neg(r)
	}
	return r
}

func st4Abs(x int) int {
	if x < 0 {
		return -x
	}
	return x
}

// syntactic string classes (the Lean handler uses the same test for "special": Oracle/C04S.lean `isSpecial`)
//
//	dec      strict decimal numeral: a number for both parsers and for the specification
//	fastonly only decimal-alphabet characters, accepted by FastParseFloat but not a numeral: "-", "+", ".", "e5", "-.e1" …
//	special  optional sign + inf|infinity|nan (case-insensitive), or contains '_' / 'x' / 'X' (hex floats, digit separators):
//	         strconv.ParseFloat may accept them (the query path used it before patch c04-4); text for the fixed code
//	text     everything else: both parsers reject
func st4StrClass(s []byte) string {
	str := string(s)
	if st4StrictNum.MatchString(str) {
		return "dec"
	}
	t := strings.ToLower(str)
	if len(t) > 0 && (t[0] == '+' || t[0] == '-') {
		t = t[1:]
	}
	if t == "inf" || t == "infinity" || t == "nan" || strings.ContainsAny(str, "_xX") {
		return "special"
	}
	if st4FastOnly.MatchString(str) && str != "" {
		return "fastonly"
	}
	return "text"
}

// what FastParseFloat accepts beyond strict numerals: no mantissa digit at all
var st4FastOnly = regexp.MustCompile(`^[+-]?\.?([eE][+-]?[0-9]+)?$`)

type st4Ref struct {
	total    int
	present  int
	nums     []*big.Rat // numeric values by the SPECIFICATION: ints, floats, strict-decimal strings (exact)
	anyFloat bool       // a float or a numeric string among them
	strs     [][]byte   // all other strings
	absInts  *big.Int   // Σ |int values|  (an int64 sum can only wrap if this reaches 2^63)
	exact    bool       // float64 arithmetic on these values is exact in every order (dyadic class)
	bigMixed bool       // ints beyond 2^53 together with floats: the int→float conversion rounds
	classes  map[string]bool
	// input classes of the recorded defects
	hasAbsent        bool
	hasNoDigit       bool // "-", ".", "e5": FastParseFloat says number (ingest), strconv.ParseFloat says text (query)
	hasNanInf        bool // strconv.ParseFloat gives NaN / ±Inf (query), FastParseFloat says text (ingest)
	hasHexUnd        bool // strconv.ParseFloat gives a finite number for a non-decimal numeral ("0x10", "1_000")
	textBeforeNumber bool // some string precedes some int/float value (a group-by min/max cell holding a string rejects numbers)
	nStr, nIntFloat  int  // strings of any kind / int and float values
	repr             bool // every numeric value is exactly a float64 (min/max can be exact)
}

var st4Two63 = new(big.Int).Lsh(big.NewInt(1), 63)

func st4IsSmallDyadic(r *big.Rat) bool {
	// k/2^j, |k| < 2^40, j ≤ 12
	d := r.Denom()
	if d.BitLen() > 13 || new(big.Int).And(d, new(big.Int).Sub(d, big.NewInt(1))).Sign() != 0 {
		return false
	}
	return r.Num().BitLen() <= 40
}

func st4Reference(vals []st4Val) *st4Ref {
	ref := &st4Ref{absInts: new(big.Int), exact: true, repr: true, classes: map[string]bool{}, total: len(vals)}
	maxAbsInt := new(big.Int)
	for _, v := range vals {
		if (v.kind == 'i' || v.kind == 'd') && ref.nStr > 0 {
			ref.textBeforeNumber = true
		}
		switch v.kind {
		case 'z':
			ref.classes["absent"] = true
			ref.hasAbsent = true
		case 'i':
			ref.present++
			ref.nIntFloat++
			r := new(big.Rat).SetInt64(v.i)
			ref.nums = append(ref.nums, r)
			a := new(big.Int).Abs(big.NewInt(v.i))
			ref.absInts.Add(ref.absInts, a)
			if a.Cmp(maxAbsInt) > 0 {
				maxAbsInt = a
			}
			if !st4IsSmallDyadic(r) {
				ref.classes["int-big"] = true
			}
		case 'd':
			ref.present++
			ref.nIntFloat++
			r := new(big.Rat).SetFloat64(v.f)
			ref.nums = append(ref.nums, r)
			ref.anyFloat = true
			if !st4IsSmallDyadic(r) {
				ref.exact = false
				ref.classes["float-nondyadic"] = true
			}
		case 's':
			ref.present++
			ref.nStr++
			c := st4StrClass(v.s)
			ref.classes["str-"+c] = true
			switch c {
			case "dec":
				r := st4DecRat(string(v.s))
				ref.nums = append(ref.nums, r)
				ref.anyFloat = true
				if !st4IsSmallDyadic(r) {
					ref.exact = false
				}
				if f, err := strconv.ParseFloat(string(v.s), 64); err != nil || new(big.Rat).SetFloat64(f).Cmp(r) != 0 {
					ref.repr = false
				}
				continue
			case "fastonly":
				ref.hasNoDigit = true
			case "special":
				if f, err := strconv.ParseFloat(string(v.s), 64); err == nil {
					if math.IsNaN(f) || math.IsInf(f, 0) {
						ref.hasNanInf = true
					} else {
						ref.hasHexUnd = true
					}
				}
			}
			ref.strs = append(ref.strs, v.s)
		}
	}
	if (ref.anyFloat || ref.hasNoDigit || ref.hasNanInf || ref.hasHexUnd) && maxAbsInt.BitLen() > 40 {
		ref.exact = false
		if maxAbsInt.BitLen() > 53 {
			ref.bigMixed = true
		}
	}
	if len(vals) > 64 {
		ref.exact = false
	}
	return ref
}

// the arithmetic of every path is exact on this input: integers only (no string that some path reads as a float) whose
// sums cannot leave int64 (a sum that does is continued as a float64, patch c04-15: rounding granted), or the small dyadic class
func (r *st4Ref) exactArith() bool {
	if r.absInts.Cmp(st4Two63) >= 0 {
		return false
	}
	return r.exact || !(r.anyFloat || r.hasNoDigit || r.hasNanInf || r.hasHexUnd)
}

func (r *st4Ref) sum() *big.Rat {
	s := new(big.Rat)
	for _, x := range r.nums {
		s.Add(s, x)
	}
	return s
}

func (r *st4Ref) minmax(isMin bool) *big.Rat {
	var m *big.Rat
	for _, x := range r.nums {
		if m == nil || (isMin && x.Cmp(m) < 0) || (!isMin && x.Cmp(m) > 0) {
			m = x
		}
	}
	return m
}

func (r *st4Ref) strMinMax(isMin bool) []byte {
	var m []byte
	first := true
	for _, x := range r.strs {
		if first || (isMin && string(x) < string(m)) || (!isMin && string(x) > string(m)) {
			m = x
			first = false
		}
	}
	return m
}

// value of a result cell as exact rational (nil: not a finite number)
func st4CVRat(e sutils.CValueEnclosure) *big.Rat {
	switch e.Dtype {
	case sutils.SS_DT_SIGNED_NUM:
		if v, ok := e.CVal.(int64); ok {
			return new(big.Rat).SetInt64(v)
		}
	case sutils.SS_DT_UNSIGNED_NUM:
		if v, ok := e.CVal.(uint64); ok {
			return new(big.Rat).SetInt(new(big.Int).SetUint64(v))
		}
	case sutils.SS_DT_FLOAT:
		if v, ok := e.CVal.(float64); ok && !math.IsNaN(v) && !math.IsInf(v, 0) {
			return new(big.Rat).SetFloat64(v)
		}
	}
	return nil
}

// a = b, or (rounding granted) |a-b| ≤ 2^-40·scale
func st4Close(a, b *big.Rat, exact bool, scale *big.Rat) bool {
	if a.Cmp(b) == 0 {
		return true
	}
	if exact {
		return false
	}
	d := new(big.Rat).Sub(a, b)
	d.Abs(d)
	tol := new(big.Rat).Mul(new(big.Rat).SetFrac64(1, 1<<40), scale)
	return d.Cmp(tol) <= 0
}

func (r *st4Ref) scale() *big.Rat {
	s := big.NewRat(1, 1)
	for _, x := range r.nums {
		s.Add(s, new(big.Rat).Abs(x))
	}
	return s
}

// a recorded defect class: sig, whether the INPUT is in the class, and which checks it can explain
type st4Cand struct {
	sig string
	on  bool
	fns string
}

// witness class of a failed check: the first recorded class the input belongs to that can explain this check,
// otherwise "<site>-<fn>/unexplained"
func st4Sig(site, fn string, cands []st4Cand) string {
	for _, c := range cands {
		if !c.on {
			continue
		}
		for _, f := range strings.Fields(c.fns) {
			if f == fn {
				return c.sig
			}
		}
	}
	return "stats/" + site + "-" + fn + "/unexplained"
}

const (
	st4SigMergeIsNum = "stats/MergeSegStats/first-part-text-only"
	st4SigNoDigit    = "stats/addSegStatsStrIngestion/no-digit-string"
	st4SigNanInf     = "stats/AddSegStatsStr/nan-inf-string"
	st4SigHexUnd     = "stats/AddSegStatsStr/hex-or-underscore-string"
	st4SigRecCount   = "stats/groupby-avg-count/record-count" // count(x) of a group = its records: repaired (c04-11)
	st4SigNumStr     = "stats/groupby-numeric-string/ignored" // numeric text ignored by sum/avg, compared as text by min/max: repaired (c04-13)
	st4SigAvgRecs    = "stats/groupby-avg/record-count"       // avg divided by the records of the group: repaired (c04-7)
	st4SigTextFirst  = "stats/groupby-minmax/text-before-number"
	st4SigSumOvf     = "stats/int64-sum-overflow"
	st4SigRangeOvf   = "stats/int64-range-overflow"
)

func st4CandsSeg(site string, ref *st4Ref, mergeIsNumLost bool) []st4Cand {
	rangeOvf := false
	if len(ref.nums) > 0 && !ref.anyFloat {
		rw := new(big.Rat).Sub(ref.minmax(false), ref.minmax(true))
		rangeOvf = rw.Cmp(new(big.Rat).SetInt(st4Two63)) >= 0
	}
	ingest := site == "foldi" || site == "mergei"
	return []st4Cand{
		// detectors of repaired classes: a VIOLATION when one of them reproduces
		{st4SigSumOvf, ref.absInts.Cmp(st4Two63) >= 0, "sum avg"},
		{st4SigRangeOvf, rangeOvf, "range"},
		{st4SigMergeIsNum, mergeIsNumLost, "sum avg split"},
		{st4SigNoDigit, ingest && ref.hasNoDigit, "sum avg min max range"},
		{st4SigNanInf, !ingest && ref.hasNanInf, "sum avg min max range"},
	}
}

// the property statement on the derived values of the SegStats path (site = foldq / foldi / mergeq / mergei)
func st4CheckSeg(site string, ref *st4Ref, der map[string]sutils.CValueEnclosure, cands []st4Cand) []PropFail {
	var fails []PropFail
	fail := func(fn, msg string) {
		fails = append(fails, PropFail{Sig: st4Sig(site, fn, cands), Msg: site + ": " + msg})
	}
	sc := ref.scale()
	// count(x) = number of events that have the field
	if c, ok := der["count"]; ref.present > 0 && (!ok || st4CVRat(c) == nil || st4CVRat(c).Cmp(new(big.Rat).SetInt64(int64(ref.present))) != 0) {
		fail("count", fmt.Sprintf("count=%s, %d values present", st4CVOr(der, "count"), ref.present))
	}
	if len(ref.nums) > 0 {
		want := ref.sum()
		got, ok := der["sum"]
		switch {
		case !ok || st4CVRat(got) == nil:
			fail("sum", fmt.Sprintf("sum missing (%s) although %d numeric values exist (Σ=%s)", st4CVOr(der, "sum"), len(ref.nums), want.RatString()))
		case !st4Close(st4CVRat(got), want, ref.exactArith(), sc):
			fail("sum", fmt.Sprintf("sum=%s, Σ=%s", st4CV(got), want.RatString()))
		}
		avgWant := new(big.Rat).Quo(want, new(big.Rat).SetInt64(int64(len(ref.nums))))
		ga, ok := der["avg"]
		switch {
		case !ok || st4CVRat(ga) == nil:
			fail("avg", fmt.Sprintf("avg missing (%s) although %d numeric values exist", st4CVOr(der, "avg"), len(ref.nums)))
		case !st4Close(st4CVRat(ga), avgWant, false, sc):
			fail("avg", fmt.Sprintf("avg=%s, Σ/n=%s (n=%d numeric values of %d present)", st4CV(ga), avgWant.RatString(), len(ref.nums), ref.present))
		}
		for _, isMin := range []bool{true, false} {
			name := "max"
			if isMin {
				name = "min"
			}
			w := ref.minmax(isMin)
			g, ok := der[name]
			if !ok || st4CVRat(g) == nil || !st4Close(st4CVRat(g), w, !ref.bigMixed && ref.repr, sc) {
				fail(name, fmt.Sprintf("%s=%s, mathematical %s of the numeric values=%s", name, st4CVOr(der, name), name, w.RatString()))
			}
		}
		rw := new(big.Rat).Sub(ref.minmax(false), ref.minmax(true))
		g, ok := der["range"]
		if !ok || st4CVRat(g) == nil || !st4Close(st4CVRat(g), rw, ref.exactArith(), sc) {
			fail("range", fmt.Sprintf("range=%s, max-min=%s", st4CVOr(der, "range"), rw.RatString()))
		}
	} else {
		// no numeric value: avg / range must not invent a number
		for _, name := range []string{"avg", "range"} {
			if g, ok := der[name]; ok && g.Dtype != sutils.SS_INVALID {
				fail(name, fmt.Sprintf("%s=%s although no value is numeric", name, st4CV(g)))
			}
		}
		if len(ref.strs) > 0 {
			for _, isMin := range []bool{true, false} {
				name := "max"
				if isMin {
					name = "min"
				}
				w := ref.strMinMax(isMin)
				g, ok := der[name]
				if !ok || g.Dtype != sutils.SS_DT_STRING || g.CVal.(string) != string(w) {
					fail(name, fmt.Sprintf("%s=%s, lexicographic %s of the strings=s%s", name, st4CVOr(der, name), name, hex.EncodeToString(w)))
				}
			}
		}
	}
	return fails
}

func st4CVOr(der map[string]sutils.CValueEnclosure, k string) string {
	if v, ok := der[k]; ok {
		return st4CV(v)
	}
	return "-"
}

// the property statement on the group-by bucket results.  Numeric values = ints, floats and strings in decimal number
// syntax, as for the statistics without a by clause (C04: "numeric-string fields"; before patch c04-13 the bucket took
// every string for text: class stats/groupby-numeric-string/ignored).
func st4CheckRB(site string, ref *st4Ref, n uint64, der map[string]sutils.CValueEnclosure, cands []st4Cand) []PropFail {
	var fails []PropFail
	if ref.total == 0 {
		return nil
	}
	if ref.classes["str-special"] || ref.classes["str-fastonly"] {
		return nil
	}
	fail := func(fn, msg string) {
		fails = append(fails, PropFail{Sig: st4Sig(site, fn, cands), Msg: site + ": " + msg})
	}
	sc := ref.scale()
	if n != uint64(ref.total) {
		fail("bucket", fmt.Sprintf("bucket holds %d records, %d were added", n, ref.total))
	}
	if c, ok := der["count"]; !ok || st4CVRat(c) == nil || st4CVRat(c).Cmp(new(big.Rat).SetInt64(int64(ref.present))) != 0 {
		fail("count", fmt.Sprintf("count(x)=%s, %d of %d records have x", st4CVOr(der, "count"), ref.present, ref.total))
	}
	if len(ref.nums) > 0 {
		want := ref.sum()
		got, ok := der["sum"]
		switch {
		case !ok || st4CVRat(got) == nil:
			fail("sum", fmt.Sprintf("sum missing (%s), Σ=%s", st4CVOr(der, "sum"), want.RatString()))
		case !st4Close(st4CVRat(got), want, ref.exactArith(), sc):
			fail("sum", fmt.Sprintf("sum=%s, Σ=%s", st4CV(got), want.RatString()))
		}
		avgWant := new(big.Rat).Quo(want, new(big.Rat).SetInt64(int64(len(ref.nums))))
		ga, ok := der["avg"]
		if !ok || st4CVRat(ga) == nil || !st4Close(st4CVRat(ga), avgWant, false, sc) {
			fail("avg", fmt.Sprintf("avg=%s, Σ/n=%s (Σ=%s over n=%d numeric values; the bucket holds %d records)", st4CVOr(der, "avg"), avgWant.RatString(), want.RatString(), len(ref.nums), ref.total))
		}
		for _, isMin := range []bool{true, false} {
			name := "max"
			if isMin {
				name = "min"
			}
			w := ref.minmax(isMin)
			g, ok := der[name]
			if !ok || st4CVRat(g) == nil || !st4Close(st4CVRat(g), w, !ref.bigMixed && ref.repr, sc) {
				fail(name, fmt.Sprintf("%s=%s, mathematical %s of the numeric values=%s", name, st4CVOr(der, name), name, w.RatString()))
			}
		}
		rw := new(big.Rat).Sub(ref.minmax(false), ref.minmax(true))
		g, ok := der["range"]
		if !ok || st4CVRat(g) == nil || !st4Close(st4CVRat(g), rw, false, sc) {
			fail("range", fmt.Sprintf("range=%s, max-min=%s", st4CVOr(der, "range"), rw.RatString()))
		}
	}
	return fails
}

func st4CandsRB(ref *st4Ref) []st4Cand {
	return []st4Cand{
		{st4SigSumOvf, ref.absInts.Cmp(st4Two63) >= 0, "sum avg"},
		{st4SigRecCount, ref.hasAbsent, "count"},
		{st4SigNumStr, ref.classes["str-dec"], "sum avg min max range split"},
		{st4SigAvgRecs, (ref.hasAbsent || len(ref.strs) > 0) && len(ref.nums) > 0, "avg"},
		{st4SigTextFirst, ref.textBeforeNumber, "min max range"},
		{st4SigTextFirst, ref.nStr > 0 && ref.nIntFloat > 0, "split"},
	}
}

// ---------------------------------------------------------------- Exec

func st4ParseParts(tok string) ([][]st4Val, bool) {
	var parts [][]st4Val
	for _, p := range strings.Split(tok, "|") {
		vs, ok := st4ParseVals(p)
		if !ok {
			return nil, false
		}
		parts = append(parts, vs)
	}
	return parts, true
}

func st4Tags(ref *st4Ref, extra ...string) []string {
	t := append([]string{}, extra...)
	for c := range ref.classes {
		t = append(t, "in:"+c)
	}
	if ref.exactArith() {
		t = append(t, "arith:exact")
	} else {
		t = append(t, "arith:rounding")
	}
	if ref.absInts.Cmp(st4Two63) >= 0 {
		t = append(t, "in:int64-overflow-possible")
	}
	sort.Strings(t)
	return t
}

func st4Nontrivial(ref *st4Ref, parts int) bool {
	return parts > 1 || (len(ref.nums) > 0 && (len(ref.strs) > 0 || ref.hasAbsent))
}

// which values the statistics take for numbers (both paths, fixed code: decimal numerals only)
func st4PathNumeric(v st4Val, ingest bool) bool {
	switch v.kind {
	case 'i', 'd':
		return true
	case 's':
		return st4StrClass(v.s) == "dec"
	}
	return false
}

// ingest-time statistics must equal query-time statistics on the same values (the .sst fast path and the raw
// recomputation answer the same query)
func st4IngestVsQuery(ref *st4Ref, dq, di string) []PropFail {
	if dq == di || !ref.exactArith() {
		return nil
	}
	sig := "stats/ingest-vs-query/unexplained"
	switch {
	case ref.hasNoDigit:
		sig = st4SigNoDigit
	case ref.hasNanInf:
		sig = st4SigNanInf
	case ref.hasHexUnd:
		sig = st4SigHexUnd
	}
	return []PropFail{{Sig: sig, Msg: fmt.Sprintf("same values: ingest-time statistics (.sst) give {%s}, query-time statistics give {%s}", di, dq)}}
}

func st4Exec(line string) Result {
	f := strings.Fields(line)
	if len(f) < 3 || f[0] != "stats" {
		return Result{Out: "bad-op"}
	}
	switch f[1] {
	case "foldq", "foldi", "rb":
		if len(f) != 3 {
			return Result{Out: "bad-op"}
		}
		vals, ok := st4ParseVals(f[2])
		if !ok {
			return Result{Out: "bad-op"}
		}
		ref := st4Reference(vals)
		res := Result{Nontrivial: st4Nontrivial(ref, 1), Tags: st4Tags(ref, "op:"+f[1])}
		switch f[1] {
		case "foldq":
			m := st4FoldQ(vals)
			state := st4State(m)
			d, der := st4Derive(m)
			res.Out = "Q{" + state + "} D{" + d + "}"
			res.Fails = append(res.Fails, st4CheckSeg("foldq", ref, der, st4CandsSeg("foldq", ref, false))...)
			if mi, e := st4SstRT(st4FoldI(vals)); e == "" {
				di, _ := st4Derive(mi)
				res.Fails = append(res.Fails, st4IngestVsQuery(ref, d, di)...)
			}
		case "foldi":
			m := st4FoldI(vals)
			state := st4State(m)
			rt, e := st4SstRT(m)
			if e != "" {
				res.Out = "I{" + state + "} S{" + e + "}"
			} else {
				d, der := st4Derive(rt)
				res.Out = "I{" + state + "} S{" + st4State(rt) + "} D{" + d + "}"
				res.Fails = append(res.Fails, st4CheckSeg("foldi", ref, der, st4CandsSeg("foldi", ref, false))...)
			}
		case "rb":
			rb := st4FoldRB(vals)
			out, n, der := rb.result()
			res.Out = "R{" + out + "}"
			res.Fails = append(res.Fails, st4CheckRB("rb", ref, n, der, st4CandsRB(ref))...)
		}
		return res
	case "merge":
		if len(f) != 5 || (f[2] != "q" && f[2] != "i") {
			return Result{Out: "bad-op"}
		}
		parts, ok := st4ParseParts(f[4])
		if !ok {
			return Result{Out: "bad-op"}
		}
		ingest := f[2] == "i"
		fold := func(vs []st4Val) map[string]*structs.SegStats {
			if !ingest {
				return st4FoldQ(vs)
			}
			m, e := st4SstRT(st4FoldI(vs))
			if e != "" {
				panic("sst round trip: " + e)
			}
			return m
		}
		r, ok := st4RPN(f[3], len(parts), func(k int) interface{} { return fold(parts[k]) },
			func(a, b interface{}) interface{} {
				return wstats.MergeSegStats(a.(map[string]*structs.SegStats), b.(map[string]*structs.SegStats))
			})
		if !ok {
			return Result{Out: "bad-op"}
		}
		m := r.(map[string]*structs.SegStats)
		var all, whole []st4Val
		isNumLost, decided, pathNums := false, false, 0
		for _, k := range st4RPNOrder(f[3]) {
			all = append(all, parts[k]...)
			// the merged IsNumeric is that of the first part (in merge order) that has the column at all
			present, numeric := 0, 0
			for _, v := range parts[k] {
				if v.kind != 'z' {
					present++
				}
				if st4PathNumeric(v, ingest) {
					numeric++
					pathNums++
				}
			}
			if !decided && present > 0 {
				decided = true
				isNumLost = numeric == 0
			}
		}
		for _, p := range parts {
			whole = append(whole, p...)
		}
		ref := st4Reference(all)
		state := st4State(m)
		d, der := st4Derive(m)
		res := Result{Out: "M{" + state + "} D{" + d + "}", Nontrivial: st4Nontrivial(ref, len(parts)),
			Tags: st4Tags(ref, "op:merge-"+f[2], fmt.Sprintf("parts=%d", len(parts)))}
		site := "merge" + f[2]
		cands := st4CandsSeg(site, ref, isNumLost && pathNums > 0)
		res.Fails = append(res.Fails, st4CheckSeg(site, ref, der, cands)...)
		// segmentation independence: merge of the folds of ANY split = fold of the whole list (same adders)
		dw, _ := st4Derive(fold(whole))
		if dw != d && ref.exactArith() && ref.absInts.Cmp(st4Two63) < 0 {
			res.Fails = append(res.Fails, PropFail{Sig: st4Sig(site, "split", cands),
				Msg: fmt.Sprintf("%s: split %s merged in order %s gives {%s}, the unsplit list gives {%s}", site, f[4], f[3], d, dw)})
		}
		return res
	case "rbmerge":
		if len(f) != 4 {
			return Result{Out: "bad-op"}
		}
		parts, ok := st4ParseParts(f[3])
		if !ok {
			return Result{Out: "bad-op"}
		}
		r, ok := st4RPN(f[2], len(parts), func(k int) interface{} { return st4FoldRB(parts[k]) },
			func(a, b interface{}) interface{} {
				a.(*st4RB).br.MergeBuckets(b.(*st4RB).br)
				return a
			})
		if !ok {
			return Result{Out: "bad-op"}
		}
		var all, whole []st4Val
		for _, k := range st4RPNOrder(f[2]) {
			all = append(all, parts[k]...)
		}
		for _, p := range parts {
			whole = append(whole, p...)
		}
		ref := st4Reference(all)
		out, n, der := r.(*st4RB).result()
		res := Result{Out: "R{" + out + "}", Nontrivial: st4Nontrivial(ref, len(parts)),
			Tags: st4Tags(ref, "op:rbmerge", fmt.Sprintf("parts=%d", len(parts)))}
		cands := st4CandsRB(ref)
		res.Fails = append(res.Fails, st4CheckRB("rbmerge", ref, n, der, cands)...)
		ow, _, _ := st4FoldRB(whole).result()
		if ow != out && ref.exactArith() && ref.absInts.Cmp(st4Two63) < 0 {
			res.Fails = append(res.Fails, PropFail{Sig: st4Sig("rbmerge", "split", cands),
				Msg: fmt.Sprintf("rbmerge: split %s merged in order %s gives {%s}, the unsplit list gives {%s}", f[3], f[2], out, ow)})
		}
		return res
	}
	return Result{Out: "bad-op"}
}

// ---------------------------------------------------------------- generator

func st4GenVal(r *rand.Rand, mode int) string {
	pick := func(xs []string) string { return xs[r.Intn(len(xs))] }
	switch mode {
	case 0: // small int
		return fmt.Sprintf("i%d", r.Intn(41)-20)
	case 1: // int64 boundary neighbours (wrap!)
		return "i" + pick([]string{"4611686018427387904", "4611686018427387903", "4611686018427387905", "-4611686018427387904", "-4611686018427387905",
			"9223372036854775807", "9223372036854775806", "-9223372036854775808", "-9223372036854775807", "9007199254740993", "9007199254740992", "-9007199254740993",
			"1099511627776", "3074457345618258603"})
	case 2: // dyadic float
		k := r.Intn(4001) - 2000
		j := r.Intn(5)
		return "d" + st4Rat2Dec(int64(k), j)
	case 3: // non-dyadic decimals (float rounding granted)
		return "d" + pick([]string{"0.1", "0.2", "0.3", "3.7", "-1.1", "2.675", "1000000.01", "0.000001", "123456789.123456789", "-0.7"})
	case 4: // numeric strings
		return "s" + hex.EncodeToString([]byte(pick([]string{"12", "3.5", "007", "1e3", "-4", "+8", "0.25", ".5", "5.", "-0.125", "1E2", "2e-1", "25e-2", "0", "-0", "10.75", "3.7", "0.1", "1e22", "00.50"})))
	case 5: // not numerals: text, decimal-alphabet junk, whitespace
		return "s" + hex.EncodeToString([]byte(pick([]string{"abc", "", " 5", "5 ", "12a", "N/A", "null", "true", "1,5", "١٢", "Zed", "zed", "1.2.3", "--5", "1e", "1e+", "e", "5e5e5", "+-1", "."})))
	case 6: // accepted by FastParseFloat only
		return "s" + hex.EncodeToString([]byte(pick([]string{"-", "+", ".", "e5", "-.", "E2", "+.e1", "-e0", ".e-3"})))
	case 7: // special forms of strconv.ParseFloat
		return "s" + hex.EncodeToString([]byte(pick([]string{"NaN", "nan", "inf", "-Inf", "Infinity", "+infinity", "0x10", "0x1p-2", "1_000", "infx", "nanny"})))
	case 8:
		return "z"
	default: // medium ints
		return fmt.Sprintf("i%d", r.Int63n(2_000_000_000_000)-1_000_000_000_000)
	}
}

// k/2^j as a finite decimal
func st4Rat2Dec(k int64, j int) string {
	r := new(big.Rat).SetFrac64(k, 1<<uint(j))
	return r.FloatString(j)
}

func st4GenList(r *rand.Rand, n int, profile int) []string {
	var out []string
	for i := 0; i < n; i++ {
		var mode int
		switch profile {
		case 0: // ints only (with wrap candidates)
			mode = []int{0, 0, 1, 1, 9}[r.Intn(5)]
		case 1: // dyadic numbers, exact arithmetic
			mode = []int{0, 0, 2, 2, 9}[r.Intn(5)]
		case 2: // sparse numeric field
			mode = []int{0, 2, 8, 8, 0}[r.Intn(5)]
		case 3: // mixed types
			mode = []int{0, 2, 4, 5, 8, 5, 4}[r.Intn(7)]
		case 4: // parser corner cases
			mode = []int{4, 4, 5, 6, 6, 0, 2}[r.Intn(7)]
		case 5: // rounding
			mode = []int{3, 3, 0, 2, 4, 1}[r.Intn(6)]
		case 6: // big ints mixed with floats
			mode = []int{1, 1, 2, 0}[r.Intn(4)]
		case 7: // special
			mode = []int{7, 0, 2, 5}[r.Intn(4)]
		default:
			mode = r.Intn(10)
		}
		out = append(out, st4GenVal(r, mode))
	}
	return out
}

func st4Join(vs []string) string {
	if len(vs) == 0 {
		return "-"
	}
	return strings.Join(vs, ",")
}

// all merge orders of k leaves as rpn: every binary tree shape × a permutation of the leaves
func st4AllRPN(k int) []string {
	var perms [][]int
	var perm func(cur []int, used int)
	perm = func(cur []int, used int) {
		if len(cur) == k {
			perms = append(perms, append([]int{}, cur...))
			return
		}
		for i := 0; i < k; i++ {
			if used&(1<<uint(i)) == 0 {
				perm(append(cur, i), used|1<<uint(i))
			}
		}
	}
	perm(nil, 0)
	// tree shapes over a sequence of leaves
	var shapes func(ls []string) []string
	shapes = func(ls []string) []string {
		if len(ls) == 1 {
			return []string{ls[0]}
		}
		var out []string
		for cut := 1; cut < len(ls); cut++ {
			for _, a := range shapes(ls[:cut]) {
				for _, b := range shapes(ls[cut:]) {
					out = append(out, a+"."+b+".m")
				}
			}
		}
		return out
	}
	var out []string
	for _, p := range perms {
		ls := make([]string, k)
		for i, x := range p {
			ls[i] = strconv.Itoa(x)
		}
		out = append(out, shapes(ls)...)
	}
	return out
}

var st4RPNCache = map[int][]string{}

func st4Gen(r *rand.Rand, n int, tier string) []string {
	var out []string
	for k := 1; k <= 4; k++ {
		st4RPNCache[k] = st4AllRPN(k)
	}
	for len(out) < n {
		profile := r.Intn(9)
		ln := r.Intn(9)
		if r.Intn(8) == 0 {
			ln = 9 + r.Intn(4)
		}
		vs := st4GenList(r, ln, profile)
		switch r.Intn(12) {
		case 0, 1:
			out = append(out, "stats foldq "+st4Join(vs))
		case 2, 3:
			out = append(out, "stats foldi "+st4Join(vs))
		case 4, 5:
			out = append(out, "stats rb "+st4Join(vs))
		case 6: // malformed
			out = append(out, []string{"stats foldq", "stats foldq i1,,i2", "stats foldq i1.5", "stats merge q 0.1 i1|i2", "stats merge q 0.0.m i1|i2",
				"stats merge x 0 i1", "stats foldq d1e3", "stats rb sZZ", "stats rbmerge 0.1.m i1", "stats foldi i99999999999999999999", "stats fold i1"}[r.Intn(11)])
		default:
			// split into 1..4 parts, one random merge order per line; every order of a split is produced over the run
			k := 1 + r.Intn(4)
			cuts := make([]int, k-1)
			for i := range cuts {
				cuts[i] = r.Intn(len(vs) + 1)
			}
			sort.Ints(cuts)
			var parts []string
			prev := 0
			for _, c := range cuts {
				parts = append(parts, st4Join(vs[prev:c]))
				prev = c
			}
			parts = append(parts, st4Join(vs[prev:]))
			orders := st4RPNCache[k]
			nOrd := 1
			if r.Intn(4) == 0 { // all orders of this split
				nOrd = len(orders)
				if nOrd > 12 && tier != "thorough" {
					nOrd = 12
				}
			}
			start := r.Intn(len(orders))
			for j := 0; j < nOrd && len(out) < n; j++ {
				o := orders[(start+j)%len(orders)]
				switch r.Intn(5) {
				case 0, 1:
					out = append(out, "stats merge q "+o+" "+strings.Join(parts, "|"))
				case 2:
					out = append(out, "stats merge i "+o+" "+strings.Join(parts, "|"))
				default:
					out = append(out, "stats rbmerge "+o+" "+strings.Join(parts, "|"))
				}
			}
		}
	}
	return out[:n]
}
