package main

import (
	"fmt"
	"math/rand"
	"strconv"
	"strings"

	"github.com/siglens/siglens/pkg/segment/query"
)

// suite "qtable": qt <maxRunning> <op> ...   op ::= s<qid>f | s<qid>w | p | c<qid> | d<qid> | r<qid>

func init() {
	register(&Suite{Name: "qtable", Gen: genQt, Exec: execQt,
		Rule: "operation sequences (≤ 30 ops, ≤ 6 qids, MAX_RUNNING 1..4) over StartQuery/pull/CancelQuery/DeleteQuery/drain against the real tables; non-trivial = ≥ 4 ops incl. a cancel or delete"})
}

func genQt(r *rand.Rand, n int, tier string) []string {
	var out []string
	for i := 0; i < n; i++ {
		m := 1 + r.Intn(4)
		nops := 1 + r.Intn(30)
		nq := 1 + r.Intn(6)
		cancels := map[int]int{}
		var ops []string
		if r.Intn(60) == 0 { // exercise the waiting-queue limit
			for q := 0; q < 505; q++ {
				ops = append(ops, fmt.Sprintf("s%dw", 100+q))
			}
		}
		for j := 0; j < nops; j++ {
			q := 1 + r.Intn(nq)
			switch r.Intn(10) {
			case 0, 1, 2:
				ops = append(ops, fmt.Sprintf("s%dw", q))
			case 3:
				ops = append(ops, fmt.Sprintf("s%df", q))
			case 4, 5, 6:
				ops = append(ops, "p")
			case 7:
				if cancels[q] < 6 {
					cancels[q]++
					ops = append(ops, fmt.Sprintf("c%d", q))
				}
			case 8:
				ops = append(ops, fmt.Sprintf("d%d", q))
				cancels[q] = 0
			default:
				ops = append(ops, fmt.Sprintf("r%d", q))
				cancels[q] = 0
			}
		}
		out = append(out, fmt.Sprintf("qt %d %s", m, strings.Join(ops, " ")))
	}
	return out
}

func execQt(line string) Result {
	f := strings.Fields(line)
	if len(f) < 2 || f[0] != "qt" {
		return Result{Out: "bad-op"}
	}
	m, err := strconv.Atoi(f[1])
	if err != nil {
		return Result{Out: "bad-op"}
	}
	query.VerifResetTables()
	saved := query.MAX_RUNNING_QUERIES
	query.MAX_RUNNING_QUERIES = uint64(m)
	defer func() { query.MAX_RUNNING_QUERIES = saved }()
	var toks []string
	var res Result
	started := map[uint64]bool{}
	interesting := false
	cancelledWhileWaiting := map[uint64]bool{}
	// the cancel property is checked only for qids started exactly once in the sequence (the engine hands
	// out unique qids; re-used qids are exercised for model correspondence only)
	startCount := map[uint64]int{}
	forced := 0 // forced starts bypass canRunQuery; everything else must respect MAX_RUNNING_QUERIES
	for _, op := range f[2:] {
		if strings.HasPrefix(op, "s") && len(op) > 2 {
			if q, e := strconv.ParseUint(op[1:len(op)-1], 10, 64); e == nil {
				startCount[q]++
			}
		}
	}
	for _, op := range f[2:] {
		var qid uint64
		hasQ := false
		out := "noop"
		switch {
		case op == "p":
			before := query.VerifWaitingLen()
			query.VerifPullOnce()
			if query.VerifWaitingLen() < before {
				out = "ok"
			}
		case strings.HasPrefix(op, "s"):
			q, e := strconv.ParseUint(op[1:len(op)-1], 10, 64)
			if e != nil {
				return Result{Out: "bad-op"}
			}
			qid, hasQ = q, true
			_, err := query.StartQuery(qid, false, nil, op[len(op)-1] == 'f')
			if err != nil {
				out = "rej"
			} else {
				out = "ok"
				started[qid] = true
				if op[len(op)-1] == 'f' {
					forced++
				}
			}
		case strings.HasPrefix(op, "c"), strings.HasPrefix(op, "d"), strings.HasPrefix(op, "r"):
			q, e := strconv.ParseUint(op[1:], 10, 64)
			if e != nil {
				return Result{Out: "bad-op"}
			}
			qid, hasQ = q, true
			obj := query.VerifRunningObj(qid)
			if obj != nil {
				out = "ok"
			}
			if op[0] == 'c' && obj == nil && query.VerifIsWaiting(qid) {
				out = "ok"
			}
			switch op[0] {
			case 'c':
				interesting = true
				if obj != nil && len(obj.StateChan) >= query.VerifChanCap() {
					return Result{Out: "would-block"}
				}
				if obj == nil && started[qid] {
					// is it waiting? then the cancel request is about a live query
					if query.VerifIsWaiting(qid) && startCount[qid] == 1 {
						cancelledWhileWaiting[qid] = true
					}
				}
				query.CancelQuery(qid)
			case 'd':
				interesting = true
				query.DeleteQuery(qid)
			case 'r':
				if obj != nil {
					for len(obj.StateChan) > 0 {
						<-obj.StateChan
					}
				}
			}
		default:
			return Result{Out: "bad-op"}
		}
		info := "-:-"
		if hasQ {
			if obj := query.VerifRunningObj(qid); obj != nil {
				c := 0
				if obj.VerifIsCancelled() {
					c = 1
				}
				info = fmt.Sprintf("%d:%d", len(obj.StateChan), c)
				// property: a query whose cancellation was requested must never be (or become) RUNNING un-cancelled
				if cancelledWhileWaiting[qid] && c == 0 {
					res.Fails = append(res.Fails, PropFail{Sig: "query-cancel-ignored/while-waiting", Msg: fmt.Sprintf("qid %d was cancelled while WAITING, yet it was admitted and runs un-cancelled", qid)})
					cancelledWhileWaiting[qid] = false
				}
			}
		} else {
			for q := range cancelledWhileWaiting {
				if obj := query.VerifRunningObj(q); obj != nil && cancelledWhileWaiting[q] && !obj.VerifIsCancelled() {
					res.Fails = append(res.Fails, PropFail{Sig: "query-cancel-ignored/while-waiting", Msg: fmt.Sprintf("qid %d was cancelled while WAITING, yet it was admitted and runs un-cancelled", q)})
					cancelledWhileWaiting[q] = false
				}
			}
		}
		nrun := query.GetActiveQueryCount()
		toks = append(toks, fmt.Sprintf("%s:%d:%d:%s", out, nrun, query.VerifWaitingLen(), info))
		if nrun > m+forced {
			res.Fails = append(res.Fails, PropFail{Sig: "query-lifecycle/admission-limit-exceeded",
				Msg: fmt.Sprintf("after op %d (%s) the running table holds %d queries; MAX_RUNNING_QUERIES=%d, forced starts so far %d", len(toks), op, nrun, m, forced)})
		}
		if query.VerifWaitingLen() > query.MAX_WAITING_QUERIES {
			res.Fails = append(res.Fails, PropFail{Sig: "query-waiting-limit-exceeded", Msg: "waiting queue above MAX_WAITING_QUERIES"})
		}
	}
	// cleanup: stop the timeout goroutines of everything still running
	for q := range started {
		if query.VerifRunningObj(q) != nil {
			query.DeleteQuery(q)
		}
	}
	query.VerifResetTables()
	res.Out = strings.Join(toks, " ") + " blocked=0"
	res.Nontrivial = len(f) >= 6 && interesting
	res.Tags = []string{fmt.Sprintf("ops<=%d", ((len(f)-2)/10+1)*10), fmt.Sprintf("maxrun=%d", m)}
	return res
}
