package main

// mworker: ONE metrics dataset per process (the engine keeps global in-memory metrics segments, tags
// trees and rotated-segment metadata).  Bootstrap = /repo/pkg/e2etests/metrics_e2e_test.go initTestConfig.
// stdin: line protocol
//   dp <hex of OTSDB json>          writer.AddTimeSeriesEntryToInMemBuf(json, SIGNAL_METRICS_OTSDB, 0)
//   rw <hexname> <ts> <16 hex digits> <k=hexv,…>   Prometheus remote write of ONE sample: prompb.WriteRequest → protobuf →
//                                   snappy → promingest.HandlePutMetrics (the body of the /api/v1/write handler); counts as a dp
//   blockrotate                     one iteration of the engine's timeBasedMetricsFlush: the open block of every
//                                   metrics segment is written to its TSO/TSG files, the segment stays open
//   rotate                          forced block+segment rotation of every metrics segment (CheckAndRotate(true)),
//                                   the in-memory store is dropped (ResetMetricsSegStore_TestOnly) and the rotated
//                                   segments are made queryable (PopulateMetricsMetadataForTheFile_TestOnly):
//                                   the recipe of the repo's own e2e test = graceful stop + start
//   q <start> <end> <hex promql>    ConvertPromQLToMetricsQuery + ExecuteMetricsQuery (a binary operator between vectors:
//                                   ExecuteMultipleMetricsQuery, as the PromQL HTTP handlers do); prints one JSON line
// stdout: one JSON line per q: {"results":{"<hex series id>":{"<ts>":"<16 hex digits of the float64>"}},"errs":[…],"err":"…"}
//         and one line {"ingesterr":"…","dp":<index of the dp command>} per rejected dp, {"roterr":"…"} per failed rotation.
// Data still in the open (unrotated) block is found by the same query entry point: query.ApplyMetricsQuery
// merges metrics.GetUnrotatedMetricsSegmentRequests (in-memory tags tree + SearchUnrotatedMetricsBlock) with
// the rotated segments' requests; nothing special is needed here.
import (
	"bufio"
	"context"
	"encoding/hex"
	"encoding/json"
	"fmt"
	"math"
	"os"
	"strconv"
	"strings"

	"github.com/golang/snappy"
	dtu "github.com/siglens/siglens/pkg/common/dtypeutils"
	"github.com/siglens/siglens/pkg/config"
	promingest "github.com/siglens/siglens/pkg/integrations/prometheus/ingest"
	"github.com/siglens/siglens/pkg/integrations/prometheus/promql"
	"github.com/siglens/siglens/pkg/segment"
	"github.com/siglens/siglens/pkg/segment/memory/limit"
	"github.com/siglens/siglens/pkg/segment/query"
	"github.com/siglens/siglens/pkg/segment/results/mresults"
	"github.com/siglens/siglens/pkg/segment/structs"
	sutils "github.com/siglens/siglens/pkg/segment/utils"
	"github.com/siglens/siglens/pkg/segment/writer"
	"github.com/siglens/siglens/pkg/segment/writer/metrics"
	"github.com/siglens/siglens/pkg/segment/writer/metrics/meta"
)

func mWorkerMain() {
	dir, err := os.MkdirTemp("", "verifmet")
	if err != nil {
		fmt.Fprintln(os.Stderr, "mkdtemp:", err)
		os.Exit(3)
	}
	defer os.RemoveAll(dir)
	cfg := config.GetTestConfig(dir + "/")
	cfg.SSInstanceName = "test"
	config.SetConfig(cfg)
	if err := config.InitDerivedConfig("test"); err != nil {
		fmt.Fprintln(os.Stderr, "InitDerivedConfig:", err)
		os.RemoveAll(dir)
		os.Exit(3)
	}
	limit.InitMemoryLimiter()
	metrics.InitTestingConfig()
	if err := meta.InitMetricsMeta(); err != nil {
		fmt.Fprintln(os.Stderr, "InitMetricsMeta:", err)
		os.RemoveAll(dir)
		os.Exit(3)
	}
	ctx, cancel := context.WithCancel(context.Background())
	defer cancel()
	go query.PullQueriesToRun(ctx)

	in := bufio.NewScanner(os.Stdin)
	in.Buffer(make([]byte, 1<<20), 1<<28)
	out := bufio.NewWriter(os.Stdout)
	defer out.Flush()
	emit := func(m map[string]interface{}) {
		b, _ := json.Marshal(m)
		out.Write(b)
		out.WriteByte('\n')
		out.Flush()
	}
	qid := uint64(1000)
	ndp := 0 // index of the dp command (0-based), reported with a rejection
	for in.Scan() {
		f := strings.Fields(in.Text())
		if len(f) == 0 {
			continue
		}
		switch f[0] {
		case "dp":
			raw, err := hex.DecodeString(f[1])
			if err != nil {
				fmt.Fprintln(os.Stderr, "bad hex")
				os.RemoveAll(dir)
				os.Exit(4)
			}
			if err := writer.AddTimeSeriesEntryToInMemBuf(raw, sutils.SIGNAL_METRICS_OTSDB, 0); err != nil {
				msg := err.Error()
				if len(msg) > 300 {
					msg = msg[:300]
				}
				emit(map[string]interface{}{"ingesterr": msg, "dp": ndp})
			}
			ndp++
		case "rw":
			if len(f) != 5 {
				fmt.Fprintln(os.Stderr, "bad rw")
				os.RemoveAll(dir)
				os.Exit(4)
			}
			nb, e1 := hex.DecodeString(f[1])
			ts, e2 := strconv.ParseInt(f[2], 10, 64)
			bits, e3 := strconv.ParseUint(f[3], 16, 64)
			if e1 != nil || e2 != nil || e3 != nil {
				fmt.Fprintln(os.Stderr, "bad rw")
				os.RemoveAll(dir)
				os.Exit(4)
			}
			lbls := [][2]string{{"__name__", string(nb)}}
			if f[4] != "-" {
				for _, kv := range strings.Split(f[4], ",") {
					p := strings.SplitN(kv, "=", 2)
					vb, err := hex.DecodeString(p[len(p)-1])
					if len(p) != 2 || err != nil {
						fmt.Fprintln(os.Stderr, "bad rw label")
						os.RemoveAll(dir)
						os.Exit(4)
					}
					lbls = append(lbls, [2]string{p[0], string(vb)})
				}
			}
			okN, failN, err := promingest.HandlePutMetrics(snappy.Encode(nil, mRemoteWriteBytes(lbls, bits, ts*1000)), 0)
			if err != nil || okN != 1 || failN != 0 {
				emit(map[string]interface{}{"ingesterr": fmt.Sprintf("remote write: success=%d failed=%d err=%v", okN, failN, err), "dp": ndp})
			}
			ndp++
		case "blockrotate":
			if _, err := metrics.VerifRotateBlocks(); err != nil {
				emit(map[string]interface{}{"roterr": err.Error()})
			}
		case "rotate":
			var rerr error
			for _, mSeg := range metrics.GetAllMetricsSegments() {
				if err := mSeg.CheckAndRotate(true); err != nil {
					rerr = err
				}
			}
			metrics.ResetMetricsSegStore_TestOnly()
			if err := query.PopulateMetricsMetadataForTheFile_TestOnly(meta.GetLocalMetricsMetaFName()); err != nil {
				rerr = err
			}
			if rerr != nil {
				emit(map[string]interface{}{"roterr": rerr.Error()})
			}
		case "q":
			start, _ := strconv.ParseUint(f[1], 10, 32)
			end, _ := strconv.ParseUint(f[2], 10, 32)
			pq, _ := hex.DecodeString(f[3])
			res := map[string]interface{}{}
			reqs, _, ops, err := promql.ConvertPromQLToMetricsQuery(string(pq), uint32(start), uint32(end), 0)
			if err != nil {
				res["err"] = "parse: " + err.Error()
			} else if len(reqs) == 0 || (len(reqs) != 1 && len(ops) == 0) {
				res["err"] = fmt.Sprintf("parse: %d metric query requests, %d operations", len(reqs), len(ops))
			} else {
				qid += 10
				var mres *mresults.MetricsResult
				if len(ops) == 0 {
					mres = segment.ExecuteMetricsQuery(&reqs[0].MetricsQuery, &reqs[0].TimeRange, qid)
				} else {
					// a binary operator between vectors: the way the PromQL HTTP handlers run it (metricsSearchHandler.go)
					hashList := make([]uint64, 0, len(reqs))
					mQueries := make([]*structs.MetricsQuery, 0, len(reqs))
					var timeRange *dtu.MetricsTimeRange
					for i := range reqs {
						hashList = append(hashList, reqs[i].MetricsQuery.QueryHash)
						mQueries = append(mQueries, &reqs[i].MetricsQuery)
						timeRange = &reqs[i].TimeRange
					}
					mres = segment.ExecuteMultipleMetricsQuery(hashList, mQueries, ops, timeRange, qid, false)
				}
				if mres == nil {
					res["err"] = "nil result"
				} else {
					series := map[string]map[string]string{}
					for sid, pts := range mres.Results {
						m := map[string]string{}
						for ts, v := range pts {
							m[strconv.FormatUint(uint64(ts), 10)] = fmt.Sprintf("%016x", math.Float64bits(v))
						}
						series[hex.EncodeToString([]byte(sid))] = m
					}
					res["results"] = series
					var errs []string
					for _, e := range mres.ErrList {
						errs = append(errs, e.Error())
					}
					if len(errs) > 0 {
						res["errs"] = errs
					}
				}
			}
			emit(res)
		}
	}
}

// prometheus.WriteRequest{timeseries: [TimeSeries{labels: [Label{name, value}…], samples: [Sample{value, timestamp}]}]} in
// protobuf wire format, every field written explicitly (the generated gogo marshaller drops a sample value of -0 as
// "default"; a conforming proto3 encoder sends it)
func mRemoteWriteBytes(labels [][2]string, valueBits uint64, tsMillis int64) []byte {
	varint := func(b []byte, v uint64) []byte {
		for v >= 0x80 {
			b = append(b, byte(v)|0x80)
			v >>= 7
		}
		return append(b, byte(v))
	}
	lenField := func(b []byte, field int, payload []byte) []byte {
		b = varint(b, uint64(field<<3|2))
		b = varint(b, uint64(len(payload)))
		return append(b, payload...)
	}
	var ts []byte
	for _, l := range labels {
		var lb []byte
		lb = lenField(lb, 1, []byte(l[0]))
		lb = lenField(lb, 2, []byte(l[1]))
		ts = lenField(ts, 1, lb)
	}
	var sm []byte
	sm = varint(sm, 1<<3|1) // value: fixed64
	for i := 0; i < 8; i++ {
		sm = append(sm, byte(valueBits>>(8*i)))
	}
	sm = varint(sm, 2<<3|0) // timestamp: varint
	sm = varint(sm, uint64(tsMillis))
	ts = lenField(ts, 2, sm)
	return lenField(nil, 1, ts)
}

func init() { registerWorker("mworker", mWorkerMain) }
