package main

// suite "qmux" (C17, clause "every query ends in exactly one terminal state, after which … no goroutine of it
// remains"): the per-query state multiplexer goroutine of pkg/ast/pipesearch/multiplexer
// (NewQueryStateMultiplexer(...).Multiplex(), one per query in RunQueryForNewPipeline) against Model/QMux.lean.
//
//	mux <tc 0|1> <ev>,<ev>,…        (or `-` for no event)
//	ev ::= <m|t>:<code>             m = main channel, t = timechart channel (needs tc = 1)
//	code ::= W R N S U CW CH CN X T E Z   (WAITING READY RUNNING QUERY_RESTART QUERY_UPDATE COMPLETE with CompleteWSResp /
//	         with HttpResponse only / with neither, CANCELLED TIMEOUT ERROR, Z = the channel is closed)
//
// The REAL goroutine is driven over two UNBUFFERED input channels (a nil timechart channel when tc = 0) by ONE driver
// goroutine that either completes the send of the next event or receives an output, whichever is possible: a completed
// send means that every earlier message was fully handled and all of its outputs were received.  Out = the outputs in
// order, then ended / read (events consumed before the close was seen).
//
// Checked on the real code, independent of the model, once the first CANCELLED / TIMEOUT / ERROR event was delivered:
//   - the goroutine must not accept another message and its output must be closed within 2 s
//     (query-lifecycle/multiplexer/not-ended-after/<message>);
//   - no envelope other than that message itself may arrive afterwards (…/sends-after-terminal/<message>);
//   - at the end of the line the number of goroutines inside (*QueryStateMultiplexer).Multiplex is back to its value
//     before the line within 2 s (…/goroutine-remains/<message>).
// A second close(output) panics inside the goroutine and ends the process: the driver reports that by itself.

import (
	"errors"
	"fmt"
	"math/rand"
	"runtime"
	"strings"
	"time"

	"github.com/siglens/siglens/pkg/ast/pipesearch/multiplexer"
	"github.com/siglens/siglens/pkg/segment/query"
	"github.com/siglens/siglens/pkg/segment/structs"
)

func init() {
	register(&Suite{Name: "qmux", Gen: c17mxGen, Exec: c17mxExec,
		Rule: "message sequences (0..10 events on the main / timechart input channel, timechart channel present in half of the lines: realistic lifecycles W? R N U* then CH | CW(+t:CW) | X | T X | E | Z, followed by further messages in half of them; COMPLETE on one channel then abort / close on the other; double COMPLETE; random sequences; a malformed share) delivered one by one to the real multiplexer goroutine; non-trivial = at least one event"})
}

const c17mxQid = 7

var c17mxCodes = []string{"W", "R", "N", "S", "U", "CW", "CH", "CN", "X", "T", "E", "Z"}

// drops every event on a channel behind that channel's Z (a closed channel carries nothing)
func c17mxSanitize(evs []string) []string {
	closed := map[byte]bool{}
	var out []string
	for _, e := range evs {
		if closed[e[0]] {
			continue
		}
		if strings.HasSuffix(e, ":Z") {
			closed[e[0]] = true
		}
		out = append(out, e)
	}
	return out
}

func c17mxGen(r *rand.Rand, n int, tier string) []string {
	var out []string
	for i := 0; i < n; i++ {
		tc := r.Intn(2) == 1
		ch := func() string {
			if tc && r.Intn(3) == 0 {
				return "t"
			}
			return "m"
		}
		other := func(c string) string {
			if !tc {
				return "m"
			}
			if c == "m" {
				return "t"
			}
			return "m"
		}
		rnd := func() string { return ch() + ":" + c17mxCodes[r.Intn(len(c17mxCodes))] }
		var evs []string
		malformed := false
		switch k := r.Intn(20); {
		case k < 11: // a realistic lifecycle
			if r.Intn(3) == 0 {
				evs = append(evs, "m:W")
			}
			evs = append(evs, "m:R", "m:N")
			if tc && r.Intn(2) == 0 {
				evs = append(evs, "t:R", "t:N")
			}
			for u := r.Intn(3); u > 0; u-- {
				evs = append(evs, ch()+":U")
			}
			switch r.Intn(9) {
			case 0:
				evs = append(evs, "m:CH")
			case 1, 2:
				switch {
				case !tc:
					evs = append(evs, "m:CW")
				case r.Intn(2) == 0:
					evs = append(evs, "m:CW", "t:CW")
				default:
					evs = append(evs, "t:CW", "m:CW")
				}
			case 3:
				evs = append(evs, ch()+":X")
			case 4, 5, 6:
				c := ch()
				evs = append(evs, c+":T", c+":X")
			case 7:
				evs = append(evs, ch()+":E")
			default:
				evs = append(evs, ch()+":Z")
			}
			if r.Intn(2) == 0 {
				for u := 1 + r.Intn(3); u > 0; u-- {
					evs = append(evs, rnd())
				}
			}
		case k < 15: // COMPLETE on one channel, then something on the other / on the same
			c := ch()
			evs = append(evs, "m:R")
			evs = append(evs, c+":"+[]string{"CW", "CW", "CH", "CN"}[r.Intn(4)])
			switch r.Intn(6) {
			case 0:
				evs = append(evs, other(c)+":"+[]string{"X", "T", "E"}[r.Intn(3)])
			case 1:
				evs = append(evs, other(c)+":Z")
			case 2:
				evs = append(evs, c+":Z", other(c)+":"+[]string{"R", "U", "CW", "X", "T"}[r.Intn(5)])
			case 3:
				evs = append(evs, c+":CW", other(c)+":CW")
			case 4:
				evs = append(evs, c+":"+[]string{"X", "T", "E"}[r.Intn(3)], other(c)+":CW")
			default:
				evs = append(evs, other(c)+":U", other(c)+":CW", rnd())
			}
		case k < 16: // Z first
			c := ch()
			evs = append(evs, c+":Z", other(c)+":R", rnd())
		case k < 19: // random
			for u := r.Intn(9); u > 0; u-- {
				evs = append(evs, rnd())
			}
		default: // malformed / boundary
			malformed = true
			switch r.Intn(6) {
			case 0:
				evs = nil
			case 1:
				evs = []string{"m:R", "t:X"}
				tc = false
			case 2:
				evs = []string{"m:R", "m:Q"}
			case 3:
				evs = []string{"m:Z", "m:R"}
			case 4:
				evs = []string{"m:R", "x:T"}
			default:
				evs = []string{"m:R", ""}
			}
		}
		if !malformed {
			evs = c17mxSanitize(evs)
			if len(evs) > 10 {
				evs = evs[:10]
			}
		}
		t := "0"
		if tc {
			t = "1"
		}
		if malformed && r.Intn(12) == 0 {
			t = "2"
		}
		body := strings.Join(evs, ",")
		if len(evs) == 0 {
			body = "-"
		}
		out = append(out, "mux "+t+" "+body)
	}
	return out
}

type c17mxEv struct {
	tc   bool
	code string
}

func c17mxParse(line string) (bool, []c17mxEv, bool) {
	f := strings.Fields(line)
	if len(f) != 3 || f[0] != "mux" || (f[1] != "0" && f[1] != "1") {
		return false, nil, false
	}
	tc := f[1] == "1"
	var evs []c17mxEv
	if f[2] != "-" {
		closed := map[bool]bool{}
		for _, e := range strings.Split(f[2], ",") {
			p := strings.Split(e, ":")
			if len(p) != 2 || (p[0] != "m" && p[0] != "t") {
				return false, nil, false
			}
			ok := false
			for _, c := range c17mxCodes {
				ok = ok || c == p[1]
			}
			if !ok {
				return false, nil, false
			}
			ev := c17mxEv{tc: p[0] == "t", code: p[1]}
			if (ev.tc && !tc) || closed[ev.tc] {
				return false, nil, false
			}
			if ev.code == "Z" {
				closed[ev.tc] = true
			}
			evs = append(evs, ev)
		}
	}
	return tc, evs, true
}

func c17mxMsg(code string) *query.QueryStateChanData {
	d := &query.QueryStateChanData{Qid: c17mxQid}
	switch code {
	case "W":
		d.StateName = query.WAITING
	case "R":
		d.StateName = query.READY
	case "N":
		d.StateName = query.RUNNING
	case "S":
		d.StateName = query.QUERY_RESTART
	case "U":
		d.StateName = query.QUERY_UPDATE
		d.UpdateWSResp = &structs.PipeSearchWSUpdateResponse{}
	case "CW":
		d.StateName = query.COMPLETE
		d.CompleteWSResp = &structs.PipeSearchCompleteResponse{}
	case "CH":
		d.StateName = query.COMPLETE
		d.HttpResponse = &structs.PipeSearchResponseOuter{}
	case "CN":
		d.StateName = query.COMPLETE
	case "X":
		d.StateName = query.CANCELLED
	case "T":
		d.StateName = query.TIMEOUT
	case "E":
		d.StateName = query.ERROR
		d.Error = errors.New("c17mx")
	}
	return d
}

func c17mxShowEnv(env *multiplexer.QueryStateEnvelope) string {
	if env == nil || env.QueryStateChanData == nil {
		return "nil-envelope"
	}
	s := fmt.Sprintf("%s/%d", env.StateName.String(), int(env.ChannelIndex))
	switch env.StateName {
	case query.COMPLETE:
		if env.CompleteWSResp != nil {
			s += "/m"
		} else if env.HttpResponse != nil {
			s += "/h"
		}
	case query.ERROR:
		if env.Qid == 0 {
			s += "/x"
		}
	}
	return s
}

// number of goroutines whose stack is inside (*QueryStateMultiplexer).Multiplex
func c17mxGoroutines() int {
	buf := make([]byte, 1<<18)
	for {
		n := runtime.Stack(buf, true)
		if n < len(buf) {
			buf = buf[:n]
			break
		}
		buf = make([]byte, 2*len(buf))
	}
	c := 0
	for _, g := range strings.Split(string(buf), "\n\n") {
		if strings.Contains(g, "multiplexer.(*QueryStateMultiplexer).Multiplex") {
			c++
		}
	}
	return c
}

const (
	c17mxSent = iota
	c17mxClosed
	c17mxStuck
)

type c17mxDriver struct {
	out       <-chan *multiplexer.QueryStateEnvelope
	outs      []string
	closed    bool
	recording bool
	term      string   // name of the first CANCELLED / TIMEOUT / ERROR event delivered ("" = none yet)
	afterTerm []string // envelopes received after it
}

func (d *c17mxDriver) c17mxRecv(env *multiplexer.QueryStateEnvelope, ok bool) {
	if !ok {
		d.closed = true
		if d.recording {
			d.outs = append(d.outs, "close")
		}
		return
	}
	if d.recording {
		s := c17mxShowEnv(env)
		d.outs = append(d.outs, s)
		if d.term != "" {
			d.afterTerm = append(d.afterTerm, s)
		}
	}
}

// completes the send of msg on ch, or sees the close of the output, or gives up after 2 s; records every output
func (d *c17mxDriver) c17mxSend(ch chan *query.QueryStateChanData, msg *query.QueryStateChanData) int {
	timer := time.NewTimer(2 * time.Second)
	defer timer.Stop()
	for {
		select {
		case ch <- msg:
			return c17mxSent
		case env, ok := <-d.out:
			d.c17mxRecv(env, ok)
			if !ok {
				return c17mxClosed
			}
		case <-timer.C:
			return c17mxStuck
		}
	}
}

// receives outputs until the close of the output (true) or 2 s have passed (false)
func (d *c17mxDriver) c17mxAwaitClose() bool {
	timer := time.NewTimer(2 * time.Second)
	defer timer.Stop()
	for !d.closed {
		select {
		case env, ok := <-d.out:
			d.c17mxRecv(env, ok)
		case <-timer.C:
			return false
		}
	}
	return true
}

func c17mxExec(line string) Result {
	tc, evs, ok := c17mxParse(line)
	if !ok {
		return Result{Out: "bad-op"}
	}
	var res Result
	before := c17mxGoroutines()
	chans := map[bool]chan *query.QueryStateChanData{false: make(chan *query.QueryStateChanData)}
	if tc {
		chans[true] = make(chan *query.QueryStateChanData)
	}
	d := &c17mxDriver{recording: true}
	d.out = multiplexer.NewQueryStateMultiplexer(chans[false], chans[true]).Multiplex()

	chClosed := map[bool]bool{}
	sentComplete := map[bool]bool{}
	read := 0
	stuck := false
	termTok := ""
	acceptedAfterTerm := "" // the event (or "sync") the goroutine accepted after the terminal message
	for _, ev := range evs {
		if d.closed || stuck {
			break
		}
		if ev.code == "Z" {
			// close() needs no receiver: first make sure the goroutine is back in its select (a WAITING message is a
			// no-op), else a goroutine that has already ended would seem to have consumed the Z
			st := d.c17mxSend(chans[ev.tc], c17mxMsg("W"))
			if st == c17mxStuck {
				stuck = true
			}
			if st != c17mxSent {
				continue
			}
			if d.term != "" && acceptedAfterTerm == "" {
				acceptedAfterTerm = "sync"
			}
			close(chans[ev.tc])
			chClosed[ev.tc] = true
			read++
			if d.term != "" && acceptedAfterTerm == "" {
				acceptedAfterTerm = "Z"
			}
			if !sentComplete[ev.tc] {
				// closed before its COMPLETE: the goroutine answers with an ERROR and ends; wait for that, so that
				// the next event cannot overtake the close in the goroutine's select
				if !d.c17mxAwaitClose() {
					stuck = true
				}
			}
			continue
		}
		switch d.c17mxSend(chans[ev.tc], c17mxMsg(ev.code)) {
		case c17mxSent:
			read++
			if d.term != "" && acceptedAfterTerm == "" {
				acceptedAfterTerm = ev.code
			}
			if strings.HasPrefix(ev.code, "C") {
				sentComplete[ev.tc] = true
			}
			if d.term == "" && (ev.code == "X" || ev.code == "T" || ev.code == "E") {
				m := c17mxMsg(ev.code)
				d.term = m.StateName.String()
				idx := 0
				if ev.tc {
					idx = 1
				}
				termTok = fmt.Sprintf("%s/%d", d.term, idx)
			}
		case c17mxStuck:
			stuck = true
		}
	}
	open := false // a channel that is still open
	if chClosed[false] {
		open = true
	}
	canSync := !(chClosed[false] && (!tc || chClosed[true]))
	if !d.closed && !stuck && canSync {
		// quiescence: a WAITING message produces no output; once its send is complete every earlier output was received
		switch d.c17mxSend(chans[open], c17mxMsg("W")) {
		case c17mxSent:
			if d.term != "" && acceptedAfterTerm == "" {
				acceptedAfterTerm = "sync"
			}
		case c17mxStuck:
			stuck = true
		}
	}
	d.recording = false
	o := "-"
	if len(d.outs) > 0 {
		o = strings.Join(d.outs, " ")
	}
	ended := 0
	if d.closed {
		ended = 1
	}
	res.Out = fmt.Sprintf("%s | ended=%d read=%d", o, ended, read)
	if stuck {
		res.Out += " stuck"
	}

	// the property on the real goroutine
	name := d.term
	if name == "" {
		name = "none"
	}
	if d.term != "" {
		if acceptedAfterTerm != "" || !d.closed {
			res.Fails = append(res.Fails, PropFail{Sig: "query-lifecycle/multiplexer/not-ended-after/" + d.term,
				Msg: fmt.Sprintf("%s: after %s was delivered the multiplexer goroutine was still reading (accepted %q, output closed: %v)", line, termTok, acceptedAfterTerm, d.closed)})
		}
		rest := []string{}
		skipped := false
		for _, s := range d.afterTerm {
			if !skipped && s == termTok {
				skipped = true
				continue
			}
			rest = append(rest, s)
		}
		if len(rest) > 0 {
			res.Fails = append(res.Fails, PropFail{Sig: "query-lifecycle/multiplexer/sends-after-terminal/" + d.term,
				Msg: fmt.Sprintf("%s: envelopes after the terminal message %s: %v", line, termTok, rest)})
		}
	}
	// end the goroutine of a line without a terminal message (not part of the reported outputs)
	if !d.closed && !stuck && canSync {
		if d.c17mxSend(chans[open], c17mxMsg("X")) != c17mxStuck {
			d.c17mxAwaitClose()
		}
	}
	gone := false
	deadline := time.Now().Add(2 * time.Second)
	for i := 0; ; i++ {
		if c17mxGoroutines() <= before {
			gone = true
			break
		}
		if time.Now().After(deadline) {
			break
		}
		if i < 20 {
			runtime.Gosched()
		} else {
			time.Sleep(time.Millisecond)
		}
	}
	if !gone {
		res.Fails = append(res.Fails, PropFail{Sig: "query-lifecycle/multiplexer/goroutine-remains/" + name,
			Msg: fmt.Sprintf("%s: a goroutine inside (*QueryStateMultiplexer).Multiplex is left 2 s after the line", line)})
	}

	res.Nontrivial = len(evs) > 0
	first := "none"
	afterTerm := 0
	for i, ev := range evs {
		if first == "none" && (strings.HasPrefix(ev.code, "C") || ev.code == "X" || ev.code == "T" || ev.code == "E" || ev.code == "Z") {
			first = ev.code
		}
		if (ev.code == "X" || ev.code == "T" || ev.code == "E") && i+1 < len(evs) {
			afterTerm = 1
		}
	}
	t := 0
	if tc {
		t = 1
	}
	res.Tags = []string{"first=" + first, fmt.Sprintf("tc=%d", t), fmt.Sprintf("msgs-after-terminal=%d", afterTerm), fmt.Sprintf("events=%d", len(evs))}
	return res
}
