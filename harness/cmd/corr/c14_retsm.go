package main

// C14 — suite "retsm": the rewrite of segmeta.json (removeSegmetas / RemoveSegMetas / AddOrReplaceRotatedSegmeta,
// pkg/segment/writer/segmetarw.go) over generated segmeta.json files of ALL sizes: empty, a few lines, around the
// 4 KiB / 64 KiB / 1 MiB buffer boundaries of bufio.Scanner, several MiB (thousands of rotated segments), lines
// longer than 64 KiB, lines of exactly ONE_MiB-1 / ONE_MiB bytes, junk lines, two lines with one key.
//
//	sm <file> <steps>  → ret=<r>,… file=<missing|lines> h=<hash of the lines' uids> head=… tail=… rd=<entries>:<hash>
//	  file  ::= missing:<nidx> | <n>:<nidx>:<pad>:<specials>   (grammar: lean/Oracle/C14.lean)
//	  steps ::= rm:<victims>:<index|->  |  add:<key>   joined by '/'
//
// Every line of the generated file is what BulkAddRotatedSegmetas writes (json.Marshal of a SegMeta); its content is
// unique (RecordCount = uid+1), so every line of the rewritten file can be mapped back to the line it came from
// byte for byte; a line that is no line of the input maps to uid 9999999.  The file after the steps is read
// twice: raw (os.ReadFile, split at '\n': the `file=`, `h=`, `head=`, `tail=` fields) and with the real reader
// writer.ReadLocalSegmeta (the `rd=` field).  The Lean model is SigModel.Retention.smRemove / smAddOrReplace.
//
// PropFail (independent of the model; the statement: "metadata files list exactly the survivors"): after every
// step the entries the REAL reader finds must be exactly the entries listed before minus those the step asked to
// remove (key mode: SegmentKey in the map; index mode: VirtualTableName = index) plus the added one, each once,
// every field unchanged.  Not judged: files with a line of ≥ 1 MiB (no path can be that long), steps that
// give both keys and an index, keys without "/final/" (not segment keys).

import (
	"bytes"
	"encoding/json"
	"fmt"
	"math/rand"
	"os"
	"sort"
	"strings"

	"github.com/siglens/siglens/pkg/retention"
	segmetadata "github.com/siglens/siglens/pkg/segment/metadata"
	"github.com/siglens/siglens/pkg/segment/structs"
	"github.com/siglens/siglens/pkg/segment/writer"
	mmeta "github.com/siglens/siglens/pkg/segment/writer/metrics/meta"
)

func init() {
	register(&Suite{Name: "retsm", Gen: genRetSm, Exec: execRetSm,
		Rule: "segmeta.json files of 0..9000 lines / 0..5 MiB built by construction around the scanner's buffer boundaries (4 KiB, 64 KiB, 1 MiB ± a few bytes), lines of 64 KiB..1 MiB-1 and ≥ 1 MiB, junk lines, duplicate keys; 1..3 rewrites per file (key sets: single, every k-th, ranges, absent keys, all; index mode; nil/empty map; AddOrReplaceRotatedSegmeta of a present/new key); a quarter of the cases on metricmeta.json (RemoveMetricsSegments, the real DoRetentionBasedDeletion): up to 400 metrics segments, tag-key sets that make a line of 30000..65535 and ≥ 65536 bytes (the default scanner's limit); non-trivial = a step removed at least one line and kept at least one"})
}

const (
	retsmScanLimit = 1048576
	retsmMaxLen    = 2200000
	retsmMaxJunk   = 70000000
	retsmMaxTotal  = 80000000
	retsmGarbled   = 9999999
)

type retsmLine struct {
	uid   int
	key   int // -1: junk
	idx   int
	raw   string
	entry bool
}

type retsmItem struct {
	kind byte
	pos  int
	arg  int
}

type retsmStep struct {
	add     bool
	key     int
	nilMap  bool
	victims []string // raw items
	index   int      // -1: none
}

func retsmNat(s string, bound int) (int, bool) {
	v, ok := retParseDec(s, 32)
	if !ok || int(v) >= bound {
		return 0, false
	}
	return int(v), true
}

func retsmSplitLetter(s string) (string, byte, string, bool) {
	i := 0
	for i < len(s) && s[i] >= '0' && s[i] <= '9' {
		i++
	}
	if i == 0 || i >= len(s) {
		return "", 0, "", false
	}
	return s[:i], s[i], s[i+1:], true
}

type retsmFile struct {
	missing      bool
	n, nidx, pad int
	items        []retsmItem
}

func retsmParseFile(s string) (f retsmFile, ok bool) {
	q := strings.Split(s, ":")
	if len(q) == 2 && q[0] == "missing" {
		k, ok := retsmNat(q[1], 10)
		if !ok || k == 0 {
			return f, false
		}
		return retsmFile{missing: true, nidx: k}, true
	}
	if len(q) != 4 {
		return f, false
	}
	var o1, o2, o3 bool
	f.n, o1 = retsmNat(q[0], 20001)
	f.nidx, o2 = retsmNat(q[1], 10)
	f.pad, o3 = retsmNat(q[2], 4097)
	if !o1 || !o2 || !o3 || f.nidx == 0 {
		return f, false
	}
	if q[3] == "-" {
		return f, true
	}
	padSeen := map[int]bool{}
	for _, tok := range strings.Split(q[3], ",") {
		a, c, b, ok := retsmSplitLetter(tok)
		if !ok {
			return f, false
		}
		pos, ok := retsmNat(a, f.n+1)
		if !ok {
			return f, false
		}
		switch c {
		case 'p':
			l, ok := retsmNat(b, retsmMaxLen+1)
			if !ok || pos >= f.n || l < 1024 || padSeen[pos] {
				return f, false
			}
			padSeen[pos] = true
			f.items = append(f.items, retsmItem{'p', pos, l})
		case 'j':
			l, ok := retsmNat(b, retsmMaxJunk+1)
			if !ok || (l != 0 && l < 64) {
				return f, false
			}
			f.items = append(f.items, retsmItem{'j', pos, l})
		case 'd':
			k, ok := retsmNat(b, f.n)
			if !ok {
				return f, false
			}
			f.items = append(f.items, retsmItem{'d', pos, k})
		default:
			return f, false
		}
	}
	if len(f.items) > 40 {
		return f, false
	}
	sum := 0
	for _, it := range f.items {
		if it.kind != 'd' {
			sum += it.arg
		}
	}
	if sum > retsmMaxTotal {
		return f, false
	}
	return f, true
}

func retsmParseVItem(s string) bool {
	if len(s) < 2 {
		return false
	}
	q := strings.Split(s[1:], ".")
	switch s[0] {
	case 'k', 'x':
		if len(q) != 1 {
			return false
		}
		_, ok := retsmNat(q[0], 30000)
		return ok
	case 'm':
		if len(q) != 2 {
			return false
		}
		m, ok1 := retsmNat(q[0], 30000)
		r, ok2 := retsmNat(q[1], 30000)
		return ok1 && ok2 && m != 0 && r < m
	case 'r':
		if len(q) != 2 {
			return false
		}
		a, ok1 := retsmNat(q[0], 30000)
		b, ok2 := retsmNat(q[1], 30001)
		return ok1 && ok2 && a <= b
	}
	return false
}

func retsmParseSteps(s string) ([]retsmStep, bool) {
	toks := strings.Split(s, "/")
	if len(toks) > 6 {
		return nil, false
	}
	var out []retsmStep
	for _, t := range toks {
		q := strings.Split(t, ":")
		switch {
		case len(q) == 3 && q[0] == "rm":
			st := retsmStep{index: -1}
			switch q[1] {
			case "nil":
				st.nilMap = true
			case "e":
			default:
				st.victims = strings.Split(q[1], "+")
				if len(st.victims) > 12 {
					return nil, false
				}
				for _, v := range st.victims {
					if !retsmParseVItem(v) {
						return nil, false
					}
				}
			}
			if q[2] != "-" {
				i, ok := retsmNat(q[2], 10)
				if !ok {
					return nil, false
				}
				st.index = i
			}
			out = append(out, st)
		case len(q) == 2 && q[0] == "add":
			k, ok := retsmNat(q[1], 30000)
			if !ok {
				return nil, false
			}
			out = append(out, retsmStep{add: true, key: k, index: -1})
		default:
			return nil, false
		}
	}
	return out, true
}

// retsmIdxName: the name of index i.  Indexes 1, 3, 4 carry names that are also words of the data layout (see retIdxWords
// in c14_ret.go): removeSegmetas turns segment keys back into directories with utils.GetSegBaseDirFromFilename.
func retsmIdxName(i int) string {
	switch i {
	case 1:
		return "final"
	case 3:
		return "final.final"
	case 4:
		return "rotated"
	}
	return fmt.Sprintf("smx%d", i)
}

func retsmSegkey(ing string, nidx, key int) (segkey, basedir string) {
	basedir = fmt.Sprintf("%sfinal/%s/st/%d/", ing, retsmIdxName(key%nidx), key)
	return basedir + fmt.Sprint(key), basedir
}

// retsmMeta: the SegMeta of an entry; `extra` bytes of padding go to the end of SegbaseDir.
func retsmMeta(ing string, nidx, key, uid, extra int) *structs.SegMeta {
	segkey, basedir := retsmSegkey(ing, nidx, key)
	return &structs.SegMeta{SegmentKey: segkey, EarliestEpochMS: 1700000000000 + uint64(uid), LatestEpochMS: 1700000100000 + uint64(uid),
		SegbaseDir: basedir + strings.Repeat("p", extra), VirtualTableName: retsmIdxName(key % nidx), RecordCount: uid + 1,
		BytesReceivedCount: 1000 + uint64(uid), OnDiskBytes: 77, NumBlocks: 1}
}

func retsmEntryLine(ing string, nidx, key, uid, pad, exact int) retsmLine {
	m := retsmMeta(ing, nidx, key, uid, pad)
	b, err := json.Marshal(m)
	must(err)
	if exact > 0 {
		base := len(b) - pad
		if base > exact {
			panic(fmt.Sprintf("retsm: base line length %d exceeds the requested %d", base, exact))
		}
		m = retsmMeta(ing, nidx, key, uid, exact-base)
		b, err = json.Marshal(m)
		must(err)
		if len(b) != exact {
			panic("retsm: padding arithmetic")
		}
	}
	return retsmLine{uid: uid, key: key, idx: key % nidx, raw: string(b), entry: true}
}

func retsmJunkLine(uid, l int) retsmLine {
	if l == 0 {
		return retsmLine{uid: 3999999, key: -1, raw: ""}
	}
	head := fmt.Sprintf(`{"segmentKey":"junk%d","virtualTableName":"smx0","recordCount":`, uid) // truncated object: json.Unmarshal rejects it
	if len(head) > l {
		head = head[:l]
	}
	return retsmLine{uid: uid, key: -1, raw: head + strings.Repeat("x", l-len(head))}
}

func retsmBuild(ing string, f retsmFile) []retsmLine {
	var out []retsmLine
	exact := map[int]int{}
	for _, it := range f.items {
		if it.kind == 'p' {
			exact[it.pos] = it.arg
		}
	}
	before := func(i int) {
		for j, it := range f.items {
			if it.pos != i {
				continue
			}
			switch it.kind {
			case 'j':
				out = append(out, retsmJunkLine(3000000+j, it.arg))
			case 'd':
				out = append(out, retsmEntryLine(ing, f.nidx, it.arg, 1000000+j, f.pad, 0))
			}
		}
	}
	for i := 0; i < f.n; i++ {
		before(i)
		out = append(out, retsmEntryLine(ing, f.nidx, i, i, f.pad, exact[i]))
	}
	before(f.n)
	return out
}

// retsmKeys materialises the map handed to removeSegmetas.
func retsmKeys(ing string, f retsmFile, st retsmStep) (keys map[string]struct{}, member func(k int) bool, hasInvalid bool) {
	if st.nilMap {
		return nil, func(int) bool { return false }, false
	}
	keys = map[string]struct{}{}
	set := map[int]bool{}
	for _, v := range st.victims {
		q := strings.Split(v[1:], ".")
		a, _ := retsmNat(q[0], 1<<30)
		switch v[0] {
		case 'k':
			set[a] = true
		case 'x':
			keys[fmt.Sprintf("/nofinaldir/smx/st/%d/%d", a, a)] = struct{}{} // GetSegBaseDirFromFilename: no "/final/"
			hasInvalid = true
		case 'm':
			r, _ := retsmNat(q[1], 1<<30)
			for i := r; i < f.n; i += a {
				set[i] = true
			}
		case 'r':
			b, _ := retsmNat(q[1], 1<<30)
			for i := a; i < b; i++ {
				set[i] = true
			}
		}
	}
	for k := range set {
		sk, _ := retsmSegkey(ing, f.nidx, k)
		keys[sk] = struct{}{}
	}
	return keys, func(k int) bool { return set[k] }, hasInvalid
}

func retsmHash(us []int) uint64 {
	h := uint64(7)
	for _, u := range us {
		h = (h*1000003 + uint64(u) + 1) % 2147483647
	}
	return h
}

func retsmShowUids(us []int) string {
	if len(us) == 0 {
		return "-"
	}
	var sb []string
	for _, u := range us {
		sb = append(sb, fmt.Sprint(u))
	}
	return strings.Join(sb, ",")
}

func retsmMetaSig(m *structs.SegMeta) string {
	b, _ := json.Marshal(m)
	return string(b)
}

func execRetSm(line string) Result {
	fl := strings.Fields(line)
	if len(fl) == 3 && fl[0] == "mm" {
		return execRetMm(fl)
	}
	if len(fl) != 3 || fl[0] != "sm" {
		return Result{Out: "bad-op"}
	}
	f, ok1 := retsmParseFile(fl[1])
	steps, ok2 := retsmParseSteps(fl[2])
	if !ok1 || !ok2 {
		return Result{Out: "bad-op"}
	}
	ing := retInit()
	fname := writer.GetLocalSegmetaFName()
	cleanup := func() {
		os.Remove(fname)
		os.Remove(fname + ".tmp")
		os.RemoveAll(ing + "final")
	}
	cleanup()
	defer cleanup()

	res := Result{}
	byRaw := map[string]int{}
	var shadow []retsmLine // the entries the metadata file lists, as the property statement sees them
	total, maxLine := 0, 0
	judged := true
	nJunk, nDup := 0, 0
	if !f.missing {
		lines := retsmBuild(ing, f)
		var buf bytes.Buffer
		for _, l := range lines {
			buf.WriteString(l.raw)
			buf.WriteByte('\n')
			byRaw[l.raw] = l.uid
			if len(l.raw) > maxLine {
				maxLine = len(l.raw)
			}
			if l.entry {
				shadow = append(shadow, l)
				if l.uid >= 1000000 {
					nDup++
				}
			} else {
				nJunk++
			}
		}
		total = buf.Len()
		must(os.WriteFile(fname, buf.Bytes(), 0o644))
	}
	if maxLine >= retsmScanLimit {
		judged = false
	}

	var rets []string
	removedSome, keptSome := false, false
	for j, st := range steps {
		var want []retsmLine
		stepJudged := judged
		if st.add {
			m := retsmMeta(ing, f.nidx, st.key, 2000000+j, f.pad)
			_, basedir := retsmSegkey(ing, f.nidx, st.key)
			must(os.MkdirAll(basedir, 0o755))
			nl := retsmLine{uid: 2000000 + j, key: st.key, idx: st.key % f.nidx, raw: retsmMetaSig(m), entry: true}
			byRaw[nl.raw] = nl.uid
			writer.AddOrReplaceRotatedSegmeta(*m)
			rets = append(rets, "add")
			for _, l := range shadow {
				if l.key != st.key {
					want = append(want, l)
				}
			}
			want = append(want, nl)
		} else {
			keys, member, hasInvalid := retsmKeys(ing, f, st)
			var ret map[string]struct{}
			if keys != nil && st.index < 0 {
				// the production entry point of the retention passes
				metas := map[string]*structs.SegMeta{}
				for k := range keys {
					metas[k] = &structs.SegMeta{SegmentKey: k}
				}
				ret = writer.RemoveSegMetas(metas)
			} else {
				idx := ""
				if st.index >= 0 {
					idx = retsmIdxName(st.index)
				}
				ret = writer.VerifRemoveSegmetas(keys, idx)
			}
			switch {
			case ret == nil:
				rets = append(rets, "nil")
			case len(ret) == 0:
				rets = append(rets, "empty")
			default:
				rets = append(rets, "dirs")
			}
			if hasInvalid || (st.index >= 0 && (len(keys) > 0)) {
				stepJudged = false
			}
			nrm := 0
			for _, l := range shadow {
				gone := member(l.key)
				if st.index >= 0 {
					gone = l.idx == st.index
				}
				if gone {
					nrm++
				} else {
					want = append(want, l)
				}
			}
			if nrm > 0 && len(want) > 0 {
				removedSome, keptSome = true, true
			}
		}
		// the property on the real reader's view
		got := writer.ReadLocalSegmeta(false)
		if stepJudged {
			wantSig := map[string]int{}
			wantKey := map[string]bool{}
			for _, l := range want {
				wantSig[l.raw]++
				sk, _ := retsmSegkey(ing, f.nidx, l.key)
				wantKey[sk] = true
			}
			oldKey := map[string]bool{}
			for _, l := range shadow {
				sk, _ := retsmSegkey(ing, f.nidx, l.key)
				oldKey[sk] = true
			}
			gotSig := map[string]int{}
			gotKey := map[string]bool{}
			fail := func(cls, msg string) {
				if judged {
					judged = false // first discrepancy only: later steps start from a state the property no longer describes
					res.Fails = append(res.Fails, PropFail{Sig: "retention/segmeta-rewrite/" + cls, Msg: fmt.Sprintf("step %d of `%s` on a segmeta.json of %d bytes: %s", j+1, trunc(fl[2], 60), total, strings.ReplaceAll(msg, ing, "<ingestdir>/"))})
				}
			}
			for _, m := range got {
				s := retsmMetaSig(m)
				gotSig[s]++
				gotKey[m.SegmentKey] = true
			}
			for _, m := range got {
				s := retsmMetaSig(m)
				switch {
				case wantSig[s] > 0 && gotSig[s] > wantSig[s]:
					fail("entry-duplicated", fmt.Sprintf("the entry of %s is listed %d times afterwards, %d before", m.SegmentKey, gotSig[s], wantSig[s]))
				case wantSig[s] > 0:
				case wantKey[m.SegmentKey]:
					fail("survivor-altered", fmt.Sprintf("the entry of surviving segment %s is listed with other contents than before: %s", m.SegmentKey, trunc(s, 200)))
				case oldKey[m.SegmentKey]:
					fail("victim-still-listed", fmt.Sprintf("segment %s was to be removed and is still listed", m.SegmentKey))
				default:
					fail("unknown-entry", fmt.Sprintf("an entry that was never written is listed: %s", trunc(s, 200)))
				}
			}
			for _, l := range want {
				if gotSig[l.raw] == 0 {
					sk, _ := retsmSegkey(ing, f.nidx, l.key)
					if gotKey[sk] {
						continue // reported as altered above
					}
					fail("survivor-lost", fmt.Sprintf("segment %s (line %d of the file) was not to be removed and is no longer listed (%d entries listed, %d expected)", sk, l.uid, len(got), len(want)))
					break
				}
			}
		}
		shadow = want
	}

	// canonical answer: the raw file and the real reader's view
	out := "ret=" + strings.Join(rets, ",")
	rawb, err := os.ReadFile(fname)
	if err != nil {
		out += " file=missing h=- head=- tail=-"
	} else {
		parts := strings.Split(string(rawb), "\n")
		if len(parts) > 0 && parts[len(parts)-1] == "" {
			parts = parts[:len(parts)-1]
		}
		var us []int
		for _, p := range parts {
			if u, ok := byRaw[p]; ok {
				us = append(us, u)
			} else {
				us = append(us, retsmGarbled)
			}
		}
		head, tail := us, us
		if len(head) > 5 {
			head = head[:5]
		}
		if len(tail) > 3 {
			tail = tail[len(tail)-3:]
		}
		out += fmt.Sprintf(" file=%d h=%d head=%s tail=%s", len(us), retsmHash(us), retsmShowUids(head), retsmShowUids(tail))
	}
	var rd []int
	for _, m := range writer.ReadLocalSegmeta(false) {
		if u, ok := byRaw[retsmMetaSig(m)]; ok {
			rd = append(rd, u)
		} else {
			rd = append(rd, retsmGarbled)
		}
	}
	out += fmt.Sprintf(" rd=%d:%d", len(rd), retsmHash(rd))
	res.Out = out
	res.Nontrivial = removedSome && keptSome
	// distribution
	sz := "sm-size<4K"
	switch {
	case f.missing:
		sz = "sm-file-missing"
	case total >= 1048576+4096:
		sz = "sm-size>1MiB"
	case total >= 1048576-4096:
		sz = "sm-size=1MiB±4K"
	case total >= 65536+1024:
		sz = "sm-size-64K..1MiB"
	case total >= 65536-1024:
		sz = "sm-size=64K±1K"
	case total >= 4096:
		sz = "sm-size-4K..64K"
	}
	res.Tags = []string{sz, fmt.Sprintf("sm-steps=%d", len(steps))}
	if maxLine >= retsmScanLimit {
		res.Tags = append(res.Tags, "sm-line>=1MiB")
	} else if maxLine >= 65536 {
		res.Tags = append(res.Tags, "sm-line-64K..1MiB")
	}
	if nJunk > 0 {
		res.Tags = append(res.Tags, "sm-junk-lines")
	}
	if nDup > 0 {
		res.Tags = append(res.Tags, "sm-duplicate-key")
	}
	for _, st := range steps {
		switch {
		case st.add:
			res.Tags = append(res.Tags, "sm-add-or-replace")
		case st.index >= 0:
			res.Tags = append(res.Tags, "sm-index-mode")
		case st.nilMap || len(st.victims) == 0:
			res.Tags = append(res.Tags, "sm-nil-or-empty-map")
		}
	}
	if res.Nontrivial && total > 1048576 {
		res.Tags = append(res.Tags, "sm-removed-and-kept-in-file>1MiB")
	}
	sort.Strings(res.Tags)
	return res
}

// ---------------------------------------------------------------- metricmeta.json
//
//	mm <file> <steps>  → file=<missing|lines> h=… head=… tail=… rd=<entries of ReadMetricsMeta's map>:<hash>:<ok|err>
//	  steps ::= rm:<victims> (mmeta.RemoveMetricsSegments) | pass (retention.DoRetentionBasedDeletion, 1 h: age class 0 is expired)
//
// Same file grammar; a line is json.Marshal of a MetricsMeta (MSegmentDir = key, DatapointCount = uid+1, the
// padding is tag keys — what makes a real line long).  Both ReadMetricsMeta and removeMetricsSegmentsByList scan with
// a 64 MiB limit (before the repair: a default bufio.Scanner, 64 KiB; failures on files with a line of ≥ 64 KiB carry
// the class `/line-over-64KiB` in their sig; files with a line of ≥ 64 MiB are not judged).  PropFail: after `rm` the reader must find exactly the entries not removed; after
// `pass` exactly the entries that are not expired.  An empty metricmeta.json and a missing one are the same
// (ReadMetricsMeta opens with O_CREATE).

const retmmScanLimit = 64 * 1024 * 1024 // maxMetaLineBytes (before the repair: 65536, bufio.MaxScanTokenSize)
const retmmScanLimitOld = 65536

// retmmTagKeys: a tag-key set whose JSON adds exactly `extra` bytes to `{}` (extra = 0 or ≥ 8)
func retmmTagKeys(extra int) map[string]bool {
	m := map[string]bool{}
	if extra < 8 {
		return m
	}
	nreg := (extra - 8) / 24
	fill := extra - 24*nreg - 7
	m[strings.Repeat("z", fill)] = true
	for i := 0; i < nreg; i++ {
		m[fmt.Sprintf("tk%06dabcdefgh", i)] = true
	}
	return m
}

func retmmKey(ing string, key int) string { return fmt.Sprintf("%sts/mmx/%d/%d", ing, key, key) }

func retmmMeta(ing string, nidx, key, uid, extra int) *structs.MetricsMeta {
	latest := uint32(1000000000 + uid%1000) // 2001: expired under any retention
	if key%nidx != 0 {
		latest = uint32(4102444800 + uid%1000) // 2100
	}
	return &structs.MetricsMeta{MSegmentDir: retmmKey(ing, key), NumBlocks: 1, BytesReceivedCount: 1000 + uint64(uid), OnDiskBytes: 77,
		TagKeys: retmmTagKeys(extra), EarliestEpochSec: latest - 100, LatestEpochSec: latest, TTreeDir: ing + "ts/mmx/tth", DatapointCount: uint64(uid) + 1}
}

func retmmEntryLine(ing string, nidx, key, uid, pad, exact int) retsmLine {
	if pad > 0 && pad < 8 {
		pad = 8
	}
	b, err := json.Marshal(retmmMeta(ing, nidx, key, uid, pad))
	must(err)
	if exact > 0 {
		b0, _ := json.Marshal(retmmMeta(ing, nidx, key, uid, 0))
		if len(b0)+8 > exact {
			panic(fmt.Sprintf("retsm: base line length %d exceeds the requested %d", len(b0), exact))
		}
		b, err = json.Marshal(retmmMeta(ing, nidx, key, uid, exact-len(b0)))
		must(err)
		if len(b) != exact {
			panic(fmt.Sprintf("retsm: tag-key padding arithmetic %d != %d", len(b), exact))
		}
	}
	return retsmLine{uid: uid, key: key, idx: key % nidx, raw: string(b), entry: true}
}

func execRetMm(fl []string) Result {
	f, ok1 := retsmParseFile(fl[1])
	if !ok1 {
		return Result{Out: "bad-op"}
	}
	type mmStep struct {
		pass   bool
		nilMap bool
		items  []string
	}
	var steps []mmStep
	toks := strings.Split(fl[2], "/")
	if len(toks) > 6 {
		return Result{Out: "bad-op"}
	}
	for _, t := range toks {
		q := strings.Split(t, ":")
		switch {
		case len(q) == 1 && q[0] == "pass":
			steps = append(steps, mmStep{pass: true})
		case len(q) == 2 && q[0] == "rm":
			st := mmStep{}
			switch q[1] {
			case "nil":
				st.nilMap = true
			case "e":
			default:
				st.items = strings.Split(q[1], "+")
				if len(st.items) > 12 {
					return Result{Out: "bad-op"}
				}
				for _, v := range st.items {
					if !retsmParseVItem(v) {
						return Result{Out: "bad-op"}
					}
				}
			}
			steps = append(steps, st)
		default:
			return Result{Out: "bad-op"}
		}
	}
	ing := retInit()
	mfile := mmeta.GetLocalMetricsMetaFName()
	cleanup := func() {
		os.Remove(mfile)
		os.Remove(mfile + ".tmp")
		os.Remove(writer.GetLocalSegmetaFName())
		os.RemoveAll(ing + "ts")
		for _, d := range segmetadata.VerifMetricsSegmentDirs() {
			_ = segmetadata.DeleteMetricsSegmentKey(d)
		}
	}
	cleanup()
	defer cleanup()
	// the directory walk of removeMetricsSegmentsByList (RecursivelyDeleteEmptyParentDirectories) stops here
	must(os.MkdirAll(ing+"ts/mmx", 0o755))
	must(os.WriteFile(ing+"ts/mmx/keep", []byte("x"), 0o644))

	res := Result{}
	byRaw := map[string]int{}
	var shadow []retsmLine
	total, maxLine, nJunk, nDup := 0, 0, 0, 0
	hasPass := false
	for _, st := range steps {
		hasPass = hasPass || st.pass
	}
	if !f.missing {
		var lines []retsmLine
		exact := map[int]int{}
		for _, it := range f.items {
			if it.kind == 'p' {
				exact[it.pos] = it.arg
			}
		}
		before := func(i int) {
			for j, it := range f.items {
				if it.pos != i {
					continue
				}
				switch it.kind {
				case 'j':
					lines = append(lines, retsmJunkLine(3000000+j, it.arg))
				case 'd':
					lines = append(lines, retmmEntryLine(ing, f.nidx, it.arg, 1000000+j, f.pad, 0))
				}
			}
		}
		for i := 0; i < f.n; i++ {
			before(i)
			lines = append(lines, retmmEntryLine(ing, f.nidx, i, i, f.pad, exact[i]))
		}
		before(f.n)
		var buf bytes.Buffer
		inMem := map[int]bool{}
		for _, l := range lines {
			buf.WriteString(l.raw)
			buf.WriteByte('\n')
			byRaw[l.raw] = l.uid
			if len(l.raw) > maxLine {
				maxLine = len(l.raw)
			}
			if !l.entry {
				nJunk++
				continue
			}
			shadow = append(shadow, l)
			if l.uid >= 1000000 {
				nDup++
			}
			if hasPass && !inMem[l.key] {
				// DeleteMetricsSegmentData gives up when a victim is not in the in-memory metadata
				inMem[l.key] = true
				segmetadata.BulkAddMetricsSegment([]*segmetadata.MetricsSegmentMetadata{segmetadata.InitMetricsMicroIndex(retmmMeta(ing, f.nidx, l.key, l.uid, 0))})
			}
		}
		total = buf.Len()
		must(os.WriteFile(mfile, buf.Bytes(), 0o644))
	}
	// a line of ≥ 64 KiB is the class that was broken before the repair (default scanner): named in the witness class
	cls := ""
	if maxLine >= retmmScanLimitOld {
		cls = "/line-over-64KiB"
	}
	// a line of ≥ 64 MiB (millions of tag keys in one segment): model correspondence only
	judged := maxLine < retmmScanLimit
	removedSome, keptSome := false, false
	for j, st := range steps {
		var want []retsmLine
		if st.pass {
			retention.DoRetentionBasedDeletion(ing, 1, 0)
			for _, l := range shadow {
				if l.idx != 0 {
					want = append(want, l)
				}
			}
		} else {
			var keys map[string]*structs.MetricsMeta
			set := map[int]bool{}
			if !st.nilMap {
				keys = map[string]*structs.MetricsMeta{}
				for _, v := range st.items {
					q := strings.Split(v[1:], ".")
					a, _ := retsmNat(q[0], 1<<30)
					switch v[0] {
					case 'k':
						set[a] = true
					case 'x':
						keys[fmt.Sprintf("/nofinaldir/mmx/%d/%d", a, a)] = &structs.MetricsMeta{}
					case 'm':
						r, _ := retsmNat(q[1], 1<<30)
						for i := r; i < f.n; i += a {
							set[i] = true
						}
					case 'r':
						b, _ := retsmNat(q[1], 1<<30)
						for i := a; i < b; i++ {
							set[i] = true
						}
					}
				}
				for k := range set {
					keys[retmmKey(ing, k)] = &structs.MetricsMeta{MSegmentDir: retmmKey(ing, k), TTreeDir: ing + "ts/mmx/tth"}
				}
			}
			mmeta.RemoveMetricsSegments(mfile, keys)
			for _, l := range shadow {
				if !set[l.key] {
					want = append(want, l)
				}
			}
		}
		if len(want) < len(shadow) && len(want) > 0 {
			removedSome, keptSome = true, true
		}
		// the property: what the metadata file lists (own reading of the raw file; the last line of a key counts, as
		// in the map ReadMetricsMeta builds), and the real reader must find exactly that, without an error
		if judged {
			what := "metricsmeta-rewrite"
			if st.pass {
				what = "metrics-pass"
			}
			fail := func(c, msg string) {
				if judged {
					judged = false
					res.Fails = append(res.Fails, PropFail{Sig: "retention/" + what + "/" + c + cls, Msg: fmt.Sprintf("step %d of `%s` on a metricmeta.json of %d bytes (longest line %d): %s", j+1, trunc(fl[2], 60), total, maxLine, strings.ReplaceAll(msg, ing, "<ingestdir>/"))})
				}
			}
			lastOf := func(ls []retsmLine) map[int]retsmLine {
				m := map[int]retsmLine{}
				for _, l := range ls {
					m[l.key] = l
				}
				return m
			}
			wantBy, oldBy := lastOf(want), lastOf(shadow)
			byUid := map[int]retsmLine{}
			for _, l := range shadow {
				byUid[l.uid] = l
			}
			listed := map[int]retsmLine{} // by key
			rawNow, _ := os.ReadFile(mfile)
			for _, p := range strings.Split(string(rawNow), "\n") {
				u, ok := byRaw[p]
				if !ok {
					if p != "" {
						fail("unknown-entry", "a line that was never written is in the file: "+trunc(p, 120))
					}
					continue
				}
				if l, ok := byUid[u]; ok {
					listed[l.key] = l
				}
			}
			keysSorted := make([]int, 0, len(oldBy))
			for k := range oldBy {
				keysSorted = append(keysSorted, k)
			}
			sort.Ints(keysSorted)
			for _, k := range keysSorted {
				g, isListed := listed[k]
				w, wanted := wantBy[k]
				switch {
				case wanted && !isListed:
					fail("survivor-lost", fmt.Sprintf("metrics segment %s (line %d) was not to be removed and is no longer listed (%d listed, %d expected)", retmmKey(ing, k), w.uid, len(listed), len(wantBy)))
				case wanted && g.uid != w.uid:
					fail("survivor-altered", fmt.Sprintf("surviving metrics segment %s is listed by another line than before", retmmKey(ing, k)))
				case !wanted && isListed && st.pass:
					fail("kept-expired", fmt.Sprintf("metrics segment %s (newest event in 2001, retention 1 h) is still listed after the pass", retmmKey(ing, k)))
				case !wanted && isListed:
					fail("victim-still-listed", fmt.Sprintf("metrics segment %s was to be removed and is still listed", retmmKey(ing, k)))
				}
			}
			got, rerr := mmeta.ReadMetricsMeta(mfile)
			if rerr != nil {
				fail("reader-fails", fmt.Sprintf("ReadMetricsMeta returns an error afterwards (and %d of the %d entries listed): every retention pass returns without deleting anything when it does", len(got), len(listed)))
			} else {
				for k, l := range listed {
					g, ok := got[retmmKey(ing, k)]
					if b, _ := json.Marshal(g); !ok || string(b) != l.raw {
						fail("reader-differs", fmt.Sprintf("ReadMetricsMeta does not return the entry of %s as it is in the file", retmmKey(ing, k)))
						break
					}
				}
				if len(got) != len(listed) {
					fail("reader-differs", fmt.Sprintf("ReadMetricsMeta returns %d entries, the file lists %d", len(got), len(listed)))
				}
			}
		}
		shadow = want
	}
	out := ""
	rawb, err := os.ReadFile(mfile)
	if err != nil || len(rawb) == 0 {
		out = "file=missing h=- head=- tail=-"
	} else {
		parts := strings.Split(string(rawb), "\n")
		if len(parts) > 0 && parts[len(parts)-1] == "" {
			parts = parts[:len(parts)-1]
		}
		var us []int
		for _, p := range parts {
			if u, ok := byRaw[p]; ok {
				us = append(us, u)
			} else {
				us = append(us, retsmGarbled)
			}
		}
		head, tail := us, us
		if len(head) > 5 {
			head = head[:5]
		}
		if len(tail) > 3 {
			tail = tail[len(tail)-3:]
		}
		out = fmt.Sprintf("file=%d h=%d head=%s tail=%s", len(us), retsmHash(us), retsmShowUids(head), retsmShowUids(tail))
	}
	got, rerr := mmeta.ReadMetricsMeta(mfile)
	var rd []int
	for _, m := range got {
		b, _ := json.Marshal(m)
		if u, ok := byRaw[string(b)]; ok {
			rd = append(rd, u)
		} else {
			rd = append(rd, retsmGarbled)
		}
	}
	sort.Ints(rd)
	e := "ok"
	if rerr != nil {
		e = "err"
	}
	res.Out = fmt.Sprintf("%s rd=%d:%d:%s", out, len(rd), retsmHash(rd), e)
	res.Nontrivial = removedSome && keptSome
	sz := "mm-size<4K"
	switch {
	case f.missing:
		sz = "mm-file-missing"
	case total >= 65536+1024:
		sz = "mm-size>64K"
	case total >= 65536-1024:
		sz = "mm-size=64K±1K"
	case total >= 4096:
		sz = "mm-size-4K..64K"
	}
	res.Tags = []string{"mm", sz}
	if maxLine >= retmmScanLimit {
		res.Tags = append(res.Tags, "mm-line>=64MiB")
	} else if maxLine >= retmmScanLimitOld {
		res.Tags = append(res.Tags, "mm-line>=64KiB")
	} else if maxLine >= 60000 {
		res.Tags = append(res.Tags, "mm-line-60000..65535")
	}
	if hasPass {
		res.Tags = append(res.Tags, "mm-pass")
	}
	if nJunk > 0 {
		res.Tags = append(res.Tags, "mm-junk-lines")
	}
	if nDup > 0 {
		res.Tags = append(res.Tags, "mm-duplicate-key")
	}
	sort.Strings(res.Tags)
	return res
}

func genRetMmOne(r *rand.Rand) string {
	nidx := 1 + r.Intn(3)
	var file string
	var n int
	steps := func(n int) string {
		k := 1
		if r.Intn(3) == 0 {
			k = 2
		}
		var out []string
		for i := 0; i < k; i++ {
			x := r.Intn(100)
			switch {
			case x < 40:
				out = append(out, "pass")
			case x < 95:
				out = append(out, "rm:"+retsmGenVictims(r, n))
			case x < 97:
				out = append(out, "rm:nil")
			default:
				out = append(out, "rm:e")
			}
		}
		return strings.Join(out, "/")
	}
	switch x := r.Intn(100); {
	case x < 3:
		return fmt.Sprintf("mm missing:%d %s", nidx, steps(0))
	case x < 25: // a few segments, a few tag keys
		n = r.Intn(12)
		file = fmt.Sprintf("%d:%d:%d:-", n, nidx, r.Intn(4)*100)
	case x < 45: // some hundred segments
		n = 20 + r.Intn(400)
		sp := "-"
		if r.Intn(5) == 0 {
			sp = fmt.Sprintf("%dj0,%dd%d", r.Intn(n+1), r.Intn(n+1), r.Intn(n))
		}
		file = fmt.Sprintf("%d:%d:%d:%s", n, nidx, r.Intn(600), sp)
	case x < 55: // exactly around 4 KiB / 64 KiB in total
		tot := []int{4096, 65536}[r.Intn(2)] + []int{-2, -1, 0, 1, 2, 300, -300}[r.Intn(7)]
		if tot < 5000 {
			tot += 1100
		}
		file, n = retsmExactFile(r, tot, nidx)
	case x < 75: // one segment with very many tag keys: a line just below the scanner's limit
		n = 2 + r.Intn(10)
		l := []int{65535, 65534, 60000 + r.Intn(5535), 30000 + r.Intn(30000)}[r.Intn(4)]
		file = fmt.Sprintf("%d:%d:%d:%dp%d", n, nidx, r.Intn(200), r.Intn(n), l)
	default: // … at or beyond it
		n = 2 + r.Intn(10)
		l := []int{65536, 65537, 66000 + r.Intn(200000)}[r.Intn(3)]
		file = fmt.Sprintf("%d:%d:%d:%dp%d", n, nidx, r.Intn(200), r.Intn(n), l)
	}
	return fmt.Sprintf("mm %s %s", file, steps(n))
}

// ---------------------------------------------------------------- generator

func retsmGenVictims(r *rand.Rand, n int) string {
	if n == 0 {
		return []string{"k0", "r0.3", "k5+k7"}[r.Intn(3)]
	}
	var vs []string
	switch r.Intn(12) {
	case 0: // one key
		vs = append(vs, fmt.Sprintf("k%d", r.Intn(n)))
	case 1: // a handful
		for i := 0; i < 2+r.Intn(4); i++ {
			vs = append(vs, fmt.Sprintf("k%d", r.Intn(n)))
		}
	case 2: // the first, the last
		vs = append(vs, []string{"k0", fmt.Sprintf("k%d", n-1), fmt.Sprintf("k0+k%d", n-1)}[r.Intn(3)])
	case 3, 4: // every m-th
		m := 2 + r.Intn(9)
		vs = append(vs, fmt.Sprintf("m%d.%d", m, r.Intn(m)))
	case 5: // the oldest part (what a retention pass removes)
		vs = append(vs, fmt.Sprintf("r0.%d", 1+r.Intn(n)))
	case 6: // a stretch in the middle / at the end
		a := r.Intn(n)
		vs = append(vs, fmt.Sprintf("r%d.%d", a, a+1+r.Intn(n-a+3)))
	case 7: // all but a few
		keep := r.Intn(n)
		vs = append(vs, fmt.Sprintf("r0.%d", keep), fmt.Sprintf("r%d.%d", keep+1, n))
	case 8: // everything
		vs = append(vs, []string{"m1.0", fmt.Sprintf("r0.%d", n), fmt.Sprintf("r0.%d", n+5)}[r.Intn(3)])
	case 9: // keys that are not in the file
		vs = append(vs, fmt.Sprintf("r%d.%d", n, n+1+r.Intn(4)))
	case 10: // mixed
		m := 3 + r.Intn(20)
		vs = append(vs, fmt.Sprintf("m%d.%d", m, r.Intn(m)), fmt.Sprintf("k%d", r.Intn(n)), fmt.Sprintf("r%d.%d", n/2, n/2+r.Intn(20)))
	default: // with a key that is no segment key
		vs = append(vs, fmt.Sprintf("x%d", r.Intn(50)))
		if r.Intn(2) == 0 {
			vs = append(vs, fmt.Sprintf("k%d", r.Intn(n)))
		}
	}
	return strings.Join(vs, "+")
}

func retsmGenSteps(r *rand.Rand, n, nidx int) string {
	k := 1
	if r.Intn(3) == 0 {
		k = 2 + r.Intn(2)
	}
	var out []string
	for i := 0; i < k; i++ {
		x := r.Intn(100)
		switch {
		case x < 68:
			out = append(out, "rm:"+retsmGenVictims(r, n)+":-")
		case x < 80: // index deletion: nil map + index name
			out = append(out, fmt.Sprintf("rm:nil:%d", r.Intn(nidx+1)%10))
		case x < 83:
			out = append(out, fmt.Sprintf("rm:%s:%d", retsmGenVictims(r, n), r.Intn(nidx)))
		case x < 95:
			key := r.Intn(n + 3)
			if r.Intn(3) == 0 {
				key = n + r.Intn(5)
			}
			out = append(out, fmt.Sprintf("add:%d", key))
		case x < 97:
			out = append(out, "rm:nil:-")
		default:
			out = append(out, "rm:e:-")
		}
	}
	return strings.Join(out, "/")
}

// retsmExactFile: m entries with exact line lengths whose sum (with the newlines) is `total` bytes.
func retsmExactFile(r *rand.Rand, total int, nidx int) (string, int) {
	m := 4 + r.Intn(30)
	for total/m < 1100 && m > 1 {
		m--
	}
	if total/m > retsmScanLimit-2 {
		m = total/(retsmScanLimit-2) + 1
	}
	var items []string
	rest := total
	for i := 0; i < m; i++ {
		l := rest/(m-i) - 1 // without the newline
		if i < m-1 && l > 1200 {
			l -= r.Intn(100)
		}
		if i == m-1 {
			l = rest - 1
		}
		items = append(items, fmt.Sprintf("%dp%d", i, l))
		rest -= l + 1
	}
	return fmt.Sprintf("%d:%d:0:%s", m, nidx, strings.Join(items, ",")), m
}

func genRetSmOne(r *rand.Rand) string {
	nidx := 1 + r.Intn(4)
	var file string
	var n int
	specials := func(n int) string {
		if r.Intn(100) >= 18 {
			return "-"
		}
		var it []string
		for i := 0; i < 1+r.Intn(3); i++ {
			switch r.Intn(4) {
			case 0:
				it = append(it, fmt.Sprintf("%dj0", r.Intn(n+1)))
			case 1:
				it = append(it, fmt.Sprintf("%dj%d", r.Intn(n+1), 64+r.Intn(600)))
			default:
				if n > 0 {
					it = append(it, fmt.Sprintf("%dd%d", r.Intn(n+1), r.Intn(n)))
				} else {
					it = append(it, "0j0")
				}
			}
		}
		return strings.Join(it, ",")
	}
	deltas := []int{-2, -1, 0, 1, 2, 16, -300, 300, 4096, -4096}
	switch x := r.Intn(100); {
	case x < 4:
		return fmt.Sprintf("sm missing:%d %s", nidx, retsmGenSteps(r, 0, nidx))
	case x < 14: // tiny
		n = r.Intn(7)
		file = fmt.Sprintf("%d:%d:%d:%s", n, nidx, r.Intn(3)*7, specials(n))
	case x < 24: // small
		n = 5 + r.Intn(60)
		file = fmt.Sprintf("%d:%d:%d:%s", n, nidx, r.Intn(40), specials(n))
	case x < 30: // exactly around 4 KiB (bufio's default initial buffer)
		file, n = retsmExactFile(r, 4500+deltas[r.Intn(len(deltas))]+r.Intn(3)*1100, nidx)
	case x < 38: // exactly around 64 KiB (bufio.MaxScanTokenSize)
		file, n = retsmExactFile(r, 65536+deltas[r.Intn(len(deltas))], nidx)
	case x < 46: // some hundred segments
		n = 150 + r.Intn(2400)
		file = fmt.Sprintf("%d:%d:%d:%s", n, nidx, r.Intn(30), specials(n))
	case x < 58: // exactly around 1 MiB (the scanner's buffer in removeSegmetas / readSegMetaEntries)
		file, n = retsmExactFile(r, 1048576+deltas[r.Intn(len(deltas))], nidx)
	case x < 76: // thousands of rotated segments: 1 .. 3 MiB
		n = 3000 + r.Intn(6000)
		file = fmt.Sprintf("%d:%d:%d:%s", n, nidx, r.Intn(20), specials(n))
	case x < 86: // fewer, longer lines: 1 .. 5 MiB
		n = 300 + r.Intn(900)
		file = fmt.Sprintf("%d:%d:%d:%s", n, nidx, 900+r.Intn(3197), specials(n))
	case x < 96: // lines beyond 64 KiB, up to the scanner's limit
		n = 2 + r.Intn(12)
		var it []string
		seen := map[int]bool{}
		for i := 0; i < 1+r.Intn(3); i++ {
			p := r.Intn(n)
			if seen[p] {
				continue
			}
			seen[p] = true
			l := []int{65535, 65536, 65537, 70000 + r.Intn(900000), 1048574, 1048575, 300000 + r.Intn(700000)}[r.Intn(7)]
			it = append(it, fmt.Sprintf("%dp%d", p, l))
		}
		file = fmt.Sprintf("%d:%d:%d:%s", n, nidx, r.Intn(10), strings.Join(it, ","))
	default: // a line the scanner cannot deliver (≥ ONE_MiB): model correspondence only
		n = 2 + r.Intn(8)
		p := r.Intn(n)
		l := []int{1048576, 1048577, 1200000 + r.Intn(900000)}[r.Intn(3)]
		if r.Intn(3) == 0 {
			file = fmt.Sprintf("%d:%d:0:%dj%d", n, nidx, p, l)
		} else {
			file = fmt.Sprintf("%d:%d:0:%dp%d", n, nidx, p, l)
		}
	}
	return fmt.Sprintf("sm %s %s", file, retsmGenSteps(r, n, nidx))
}

func genRetSm(r *rand.Rand, n int, tier string) []string {
	out := []string{
		"sm 5:2:0:- rm:k1+k3:-",
		"sm 3:1:0:- rm:m1.0:-/add:1",
		"sm 3300:2:0:- rm:r0.40:-",                  // > 1 MiB, a retention pass removes the oldest 40
		"sm 3500:3:0:- rm:m2.1:-/rm:k0:-",           // > 1 MiB, every second
		"sm 600:2:3000:100j0,200d7 rm:nil:1",        // ≈ 2 MiB, index deletion
		"sm 3400:1:0:- add:17/rm:r0.3390:-",         // > 1 MiB, AddOrReplaceRotatedSegmeta of a present key
		"sm 4:1:0:1p1048575 rm:k0:-",                // the longest line the scanner delivers
		"sm 4:1:0:1p1048576 rm:k0:-",                // one byte more: ErrTooLong, nothing is rewritten
		"sm 20:2:0:3p70000,9p65536 rm:m3.0:-",       // lines beyond bufio.MaxScanTokenSize
		"sm missing:1 add:3/rm:k3:-",
		"mm 6:2:0:- pass",
		"mm 6:2:0:- rm:k1+k4/pass",
		"mm 6:2:0:3p65535 rm:k1/pass",    // the longest line the default scanner delivers
		"mm 6:2:0:3p65536 pass",          // one byte more: before the repair ReadMetricsMeta failed and the pass deleted nothing
		"mm 6:2:0:3p65536 rm:k1",         // … and the rewrite dropped entries 3, 4, 5
		"mm 6:2:0:1p65536 rm:k4",         // … or did not reach the victim
		"mm 5:2:0:4p2100000 rm:m2.1/pass", // some 90000 tag keys
		"mm 4:2:0:2j67108863 rm:k0/pass", // the longest line the scanner delivers now (a junk line: skipped)
		"mm 4:2:0:2j67108864 rm:k0/pass", // one byte more: read error, nothing is touched
		"mm 300:2:40:- rm:m2.0/rm:r0.10", // some hundred metrics segments
	}
	bad := []string{"sm", "sm 5:2:0:-", "sm 5:0:0:- rm:k1:-", "sm 5:2:0:9p2000 rm:k1:-", "sm 5:2:0:1p100 rm:k1:-", "sm 5:2:0:1p2000,1p3000 rm:k1:-",
		"sm 5:2:0:- rm:k1", "sm 5:2:0:- rm:q1:-", "sm 5:2:0:- rm:m0.0:-", "sm 5:2:0:- rm:m3.3:-", "sm 5:2:0:- rm:r9.2:-", "sm 5:2:0:- add:30000",
		"sm 20001:2:0:- rm:k1:-", "sm 5:2:5000:- rm:k1:-", "sm 5:2:0:1j5 rm:k1:-", "sm 5:2:0:1d5 rm:k1:-", "sm 5:2:0:- rm:k1:-/rm:k1:-/rm:k1:-/rm:k1:-/rm:k1:-/rm:k1:-/rm:k1:-",
		"sm missing rm:k1:-", "sm 5:2:0:- rm:k1:10", "sm 5:2:0:- del:k1:-",
		"mm 5:2:0:- rm:k1:-", "mm 5:2:0:- add:3", "mm 5:2:0:- passs", "mm 5:2:0:-"}
	for len(out) < n {
		if r.Intn(25) == 0 {
			out = append(out, bad[r.Intn(len(bad))])
			continue
		}
		if r.Intn(4) == 0 {
			out = append(out, genRetMmOne(r))
		} else {
			out = append(out, genRetSmOne(r))
		}
	}
	return out[:n]
}
