// C17 suite "alive": the route table (every route of pkg/server/query/server.go and pkg/server/ingest/server.go with a
// valid request) and the bootstrap data set.
package main

import (
	"bytes"
	"fmt"
	"math/rand"
	"mime/multipart"
	"time"

	"github.com/gogo/protobuf/proto"
	"github.com/golang/snappy"
	"github.com/prometheus/prometheus/prompb"
	lokilog "github.com/siglens/siglens/pkg/integrations/loki/log"
	collogpb "go.opentelemetry.io/proto/otlp/collector/logs/v1"
	collmetricspb "go.opentelemetry.io/proto/otlp/collector/metrics/v1"
	coltracepb "go.opentelemetry.io/proto/otlp/collector/trace/v1"
	commonpb "go.opentelemetry.io/proto/otlp/common/v1"
	logpb "go.opentelemetry.io/proto/otlp/logs/v1"
	metricspb "go.opentelemetry.io/proto/otlp/metrics/v1"
	resourcepb "go.opentelemetry.io/proto/otlp/resource/v1"
	tracepb "go.opentelemetry.io/proto/otlp/trace/v1"
	gproto "google.golang.org/protobuf/proto"
	"google.golang.org/protobuf/types/known/timestamppb"
)

const c17aTs = 1700000000 // the fixed instant of the bootstrap's "old" data; "new" data is written at the time of the boot

const (
	c17aJ  = "application/json"
	c17aFm = "application/x-www-form-urlencoded"
	c17aPB = "application/x-protobuf"
)

func c17aStrAttr(k, v string) *commonpb.KeyValue {
	return &commonpb.KeyValue{Key: k, Value: &commonpb.AnyValue{Value: &commonpb.AnyValue_StringValue{StringValue: v}}}
}

func c17aPromBody(ts int64) []byte {
	var series []prompb.TimeSeries
	for _, m := range []string{"c17m", "cpu"} {
		for _, h := range []string{"h1", "h2"} {
			s := prompb.TimeSeries{Labels: []prompb.Label{{Name: "__name__", Value: m}, {Name: "host", Value: h}, {Name: "job", Value: "c17"}}}
			for i := 0; i < 4; i++ {
				s.Samples = append(s.Samples, prompb.Sample{Value: float64(i + 1), Timestamp: (ts + int64(i)*15) * 1000})
			}
			series = append(series, s)
		}
	}
	b, _ := proto.Marshal(&prompb.WriteRequest{Timeseries: series})
	return snappy.Encode(nil, b)
}

func c17aOtlpMetricBody(ts int64) []byte {
	var dps []*metricspb.NumberDataPoint
	for i := 0; i < 2; i++ {
		dps = append(dps, &metricspb.NumberDataPoint{Attributes: []*commonpb.KeyValue{c17aStrAttr("host", "h1"), c17aStrAttr("job", "c17")},
			TimeUnixNano: uint64(ts+int64(i)) * 1e9, Value: &metricspb.NumberDataPoint_AsDouble{AsDouble: float64(i + 1)}})
	}
	hdp := &metricspb.HistogramDataPoint{Attributes: []*commonpb.KeyValue{c17aStrAttr("host", "h1")}, TimeUnixNano: uint64(ts) * 1e9, Count: 3, BucketCounts: []uint64{1, 2}, ExplicitBounds: []float64{1}}
	sum := 3.0
	hdp.Sum = &sum
	req := &collmetricspb.ExportMetricsServiceRequest{ResourceMetrics: []*metricspb.ResourceMetrics{{
		Resource: &resourcepb.Resource{Attributes: []*commonpb.KeyValue{c17aStrAttr("service.name", "c17svc")}},
		ScopeMetrics: []*metricspb.ScopeMetrics{{Metrics: []*metricspb.Metric{
			{Name: "c17otlp", Data: &metricspb.Metric_Gauge{Gauge: &metricspb.Gauge{DataPoints: dps}}},
			{Name: "c17sum", Data: &metricspb.Metric_Sum{Sum: &metricspb.Sum{DataPoints: dps, IsMonotonic: true}}},
			{Name: "c17hist", Data: &metricspb.Metric_Histogram{Histogram: &metricspb.Histogram{DataPoints: []*metricspb.HistogramDataPoint{hdp}}}},
		}}}}}}
	b, _ := gproto.Marshal(req)
	return b
}

func c17aOtlpLogBody(ts int64) []byte {
	req := &collogpb.ExportLogsServiceRequest{ResourceLogs: []*logpb.ResourceLogs{{
		Resource: &resourcepb.Resource{Attributes: []*commonpb.KeyValue{c17aStrAttr("service.name", "c17svc"), c17aStrAttr("siglensIndexName", "c17otlp")}},
		ScopeLogs: []*logpb.ScopeLogs{{Scope: &commonpb.InstrumentationScope{Name: "c17"},
			LogRecords: []*logpb.LogRecord{{TimeUnixNano: uint64(ts) * 1e9, SeverityText: "INFO", SeverityNumber: 9, TraceId: bytes.Repeat([]byte{0xc1}, 16), SpanId: bytes.Repeat([]byte{0x9e}, 8),
				Attributes: []*commonpb.KeyValue{c17aStrAttr("k", "v")}, Body: &commonpb.AnyValue{Value: &commonpb.AnyValue_StringValue{StringValue: "c17 event"}}}}}},
	}}}
	b, _ := gproto.Marshal(req)
	return b
}

func c17aOtlpTraceBody(ts int64) []byte {
	tid := bytes.Repeat([]byte{0xc1}, 16)
	root := bytes.Repeat([]byte{0x9e}, 8)
	child := bytes.Repeat([]byte{0x9f}, 8)
	span := func(id, parent []byte, name string, kind tracepb.Span_SpanKind, svcAttr string, off uint64) *tracepb.Span {
		return &tracepb.Span{TraceId: tid, SpanId: id, ParentSpanId: parent, Name: name, Kind: kind,
			StartTimeUnixNano: uint64(ts)*1e9 + off, EndTimeUnixNano: uint64(ts)*1e9 + off + 5e6,
			Attributes: []*commonpb.KeyValue{c17aStrAttr("http.method", "GET"), c17aStrAttr("peer.service", svcAttr)},
			Events:     []*tracepb.Span_Event{{TimeUnixNano: uint64(ts) * 1e9, Name: "ev", Attributes: []*commonpb.KeyValue{c17aStrAttr("e", "1")}}},
			Links:      []*tracepb.Span_Link{{TraceId: tid, SpanId: root}},
			Status:     &tracepb.Status{Code: tracepb.Status_STATUS_CODE_OK}}
	}
	req := &coltracepb.ExportTraceServiceRequest{ResourceSpans: []*tracepb.ResourceSpans{
		{Resource: &resourcepb.Resource{Attributes: []*commonpb.KeyValue{c17aStrAttr("service.name", "c17svc")}},
			ScopeSpans: []*tracepb.ScopeSpans{{Scope: &commonpb.InstrumentationScope{Name: "c17"}, Spans: []*tracepb.Span{span(root, nil, "c17op", tracepb.Span_SPAN_KIND_SERVER, "c17db", 0)}}}},
		{Resource: &resourcepb.Resource{Attributes: []*commonpb.KeyValue{c17aStrAttr("service.name", "c17db")}},
			ScopeSpans: []*tracepb.ScopeSpans{{Spans: []*tracepb.Span{span(child, root, "c17query", tracepb.Span_SPAN_KIND_CLIENT, "c17svc", 1e6)}}}},
	}}
	b, _ := gproto.Marshal(req)
	return b
}

// ---------------------------------------------------------------- protobuf bodies, structurally varied

// what a message field may be instead of what the valid body holds: absent, empty, of another kind
func c17aAnyValue(r *rand.Rand) *commonpb.AnyValue {
	switch r.Intn(9) {
	case 0:
		return nil
	case 1:
		return &commonpb.AnyValue{} // no value set
	case 2:
		return &commonpb.AnyValue{Value: &commonpb.AnyValue_IntValue{IntValue: -1 << 63}}
	case 3:
		return &commonpb.AnyValue{Value: &commonpb.AnyValue_DoubleValue{DoubleValue: 1e308}}
	case 4:
		return &commonpb.AnyValue{Value: &commonpb.AnyValue_BoolValue{BoolValue: true}}
	case 5:
		return &commonpb.AnyValue{Value: &commonpb.AnyValue_ArrayValue{ArrayValue: &commonpb.ArrayValue{Values: []*commonpb.AnyValue{nil, {}, {Value: &commonpb.AnyValue_StringValue{StringValue: "x"}}}}}}
	case 6:
		return &commonpb.AnyValue{Value: &commonpb.AnyValue_KvlistValue{KvlistValue: &commonpb.KeyValueList{Values: []*commonpb.KeyValue{nil, {Key: "k"}, {Key: "", Value: &commonpb.AnyValue{}}}}}}
	case 7:
		return &commonpb.AnyValue{Value: &commonpb.AnyValue_BytesValue{BytesValue: []byte{0, 0xff}}}
	}
	return &commonpb.AnyValue{Value: &commonpb.AnyValue_StringValue{StringValue: c17aPoolStr(r)}}
}

func c17aAttrs(r *rand.Rand) []*commonpb.KeyValue {
	switch r.Intn(6) {
	case 0:
		return nil
	case 1:
		return []*commonpb.KeyValue{nil}
	case 2:
		return []*commonpb.KeyValue{{Key: "", Value: c17aAnyValue(r)}}
	case 3:
		return []*commonpb.KeyValue{{Key: "service.name", Value: c17aAnyValue(r)}, {Key: "siglensIndexName", Value: c17aAnyValue(r)}}
	}
	return []*commonpb.KeyValue{c17aStrAttr("service.name", "c17svc"), {Key: c17aPoolStr(r), Value: c17aAnyValue(r)}, c17aStrAttr("host", "h1")}
}

func c17aOtlpLogVariant(r *rand.Rand) []byte {
	rec := &logpb.LogRecord{TimeUnixNano: uint64(c17aTs) * 1e9, SeverityText: "INFO", Body: c17aAnyValue(r), Attributes: c17aAttrs(r)}
	switch r.Intn(6) {
	case 0:
		rec.TimeUnixNano = 0
	case 1:
		rec.TimeUnixNano = 1<<64 - 1
	case 2:
		rec.TraceId, rec.SpanId = []byte{1}, bytes.Repeat([]byte{2}, 40)
	}
	sl := &logpb.ScopeLogs{Scope: &commonpb.InstrumentationScope{Name: "c17"}, LogRecords: []*logpb.LogRecord{rec}}
	switch r.Intn(6) {
	case 0:
		sl.Scope = nil
	case 1:
		sl.LogRecords = []*logpb.LogRecord{nil, rec}
	case 2:
		sl.LogRecords = nil
	}
	rl := &logpb.ResourceLogs{Resource: &resourcepb.Resource{Attributes: c17aAttrs(r)}, ScopeLogs: []*logpb.ScopeLogs{sl}}
	switch r.Intn(6) {
	case 0:
		rl.Resource = nil
	case 1:
		rl.ScopeLogs = []*logpb.ScopeLogs{nil}
	case 2:
		rl.ScopeLogs = nil
	}
	req := &collogpb.ExportLogsServiceRequest{ResourceLogs: []*logpb.ResourceLogs{rl}}
	if r.Intn(8) == 0 {
		req.ResourceLogs = []*logpb.ResourceLogs{nil, rl}
	}
	b, _ := gproto.Marshal(req)
	return b
}

func c17aOtlpTraceVariant(r *rand.Rand) []byte {
	tid := bytes.Repeat([]byte{0xc1}, 16)
	sp := &tracepb.Span{TraceId: tid, SpanId: bytes.Repeat([]byte{0x9e}, 8), Name: "c17op", Kind: tracepb.Span_SPAN_KIND_SERVER,
		StartTimeUnixNano: uint64(c17aTs) * 1e9, EndTimeUnixNano: uint64(c17aTs)*1e9 + 5e6, Attributes: c17aAttrs(r),
		Status: &tracepb.Status{Code: tracepb.Status_STATUS_CODE_OK}}
	switch r.Intn(10) {
	case 0:
		sp.TraceId, sp.SpanId = nil, nil
	case 1:
		sp.TraceId, sp.SpanId, sp.ParentSpanId = []byte{1}, []byte{2, 3}, bytes.Repeat([]byte{7}, 33)
	case 2:
		sp.Status = nil
	case 3:
		sp.EndTimeUnixNano = 0 // ends before it starts
	case 4:
		sp.Events = []*tracepb.Span_Event{nil, {Name: "e", Attributes: c17aAttrs(r)}}
	case 5:
		sp.Links = []*tracepb.Span_Link{nil, {TraceId: []byte{1}, Attributes: c17aAttrs(r)}}
	case 6:
		sp.Kind = tracepb.Span_SpanKind(99)
	case 7:
		sp.Status = &tracepb.Status{Code: tracepb.Status_StatusCode(77), Message: c17aPoolStr(r)}
	case 8:
		sp.Name = c17aPoolStr(r)
	}
	ss := &tracepb.ScopeSpans{Scope: &commonpb.InstrumentationScope{Name: "c17"}, Spans: []*tracepb.Span{sp}}
	switch r.Intn(6) {
	case 0:
		ss.Scope = nil
	case 1:
		ss.Spans = []*tracepb.Span{nil, sp}
	case 2:
		ss.Spans = nil
	}
	rs := &tracepb.ResourceSpans{Resource: &resourcepb.Resource{Attributes: c17aAttrs(r)}, ScopeSpans: []*tracepb.ScopeSpans{ss}}
	switch r.Intn(6) {
	case 0:
		rs.Resource = nil
	case 1:
		rs.ScopeSpans = []*tracepb.ScopeSpans{nil}
	}
	req := &coltracepb.ExportTraceServiceRequest{ResourceSpans: []*tracepb.ResourceSpans{rs}}
	if r.Intn(8) == 0 {
		req.ResourceSpans = []*tracepb.ResourceSpans{nil, rs}
	}
	b, _ := gproto.Marshal(req)
	return b
}

func c17aOtlpMetricVariant(r *rand.Rand) []byte {
	ndp := func() *metricspb.NumberDataPoint {
		dp := &metricspb.NumberDataPoint{Attributes: c17aAttrs(r), TimeUnixNano: uint64(c17aTs) * 1e9, Value: &metricspb.NumberDataPoint_AsDouble{AsDouble: 1}}
		switch r.Intn(6) {
		case 0:
			dp.Value = nil
		case 1:
			dp.Value = &metricspb.NumberDataPoint_AsInt{AsInt: -1 << 63}
		case 2:
			dp.TimeUnixNano = 0
		case 3:
			dp.TimeUnixNano = 1<<64 - 1
		}
		return dp
	}
	sum := 3.0
	hdp := &metricspb.HistogramDataPoint{Attributes: c17aAttrs(r), TimeUnixNano: uint64(c17aTs) * 1e9, Count: 3, Sum: &sum, BucketCounts: []uint64{1, 2}, ExplicitBounds: []float64{1}}
	switch r.Intn(6) {
	case 0:
		hdp.BucketCounts = []uint64{1} // fewer counts than bounds + 1
	case 1:
		hdp.BucketCounts, hdp.ExplicitBounds = nil, []float64{1, 2, 3}
	case 2:
		hdp.Sum = nil
	case 3:
		hdp.BucketCounts = []uint64{1, 2, 3, 4, 5}
	}
	var m *metricspb.Metric
	switch r.Intn(9) {
	case 0:
		m = &metricspb.Metric{Name: "c17v"} // no data at all
	case 1:
		m = &metricspb.Metric{Name: "c17v", Data: &metricspb.Metric_Gauge{}}
	case 2:
		m = &metricspb.Metric{Name: "c17v", Data: &metricspb.Metric_Gauge{Gauge: &metricspb.Gauge{DataPoints: []*metricspb.NumberDataPoint{nil, ndp()}}}}
	case 3:
		m = &metricspb.Metric{Name: "c17v", Data: &metricspb.Metric_Sum{Sum: &metricspb.Sum{DataPoints: []*metricspb.NumberDataPoint{ndp()}}}}
	case 4:
		m = &metricspb.Metric{Name: "c17v", Data: &metricspb.Metric_Histogram{Histogram: &metricspb.Histogram{DataPoints: []*metricspb.HistogramDataPoint{hdp}}}}
	case 5:
		m = &metricspb.Metric{Name: "c17v", Data: &metricspb.Metric_Histogram{Histogram: &metricspb.Histogram{DataPoints: []*metricspb.HistogramDataPoint{nil}}}}
	case 6:
		m = &metricspb.Metric{Name: "c17v", Data: &metricspb.Metric_Summary{Summary: &metricspb.Summary{DataPoints: []*metricspb.SummaryDataPoint{{Attributes: c17aAttrs(r), Count: 1, Sum: 1, QuantileValues: []*metricspb.SummaryDataPoint_ValueAtQuantile{nil, {Quantile: 0.5, Value: 1}}}}}}}
	case 7:
		m = &metricspb.Metric{Name: "c17v", Data: &metricspb.Metric_ExponentialHistogram{ExponentialHistogram: &metricspb.ExponentialHistogram{DataPoints: []*metricspb.ExponentialHistogramDataPoint{{Attributes: c17aAttrs(r), Count: 1}}}}}
	default:
		m = &metricspb.Metric{Name: c17aPoolStr(r), Data: &metricspb.Metric_Gauge{Gauge: &metricspb.Gauge{DataPoints: []*metricspb.NumberDataPoint{ndp()}}}}
	}
	sm := &metricspb.ScopeMetrics{Metrics: []*metricspb.Metric{m}}
	switch r.Intn(6) {
	case 0:
		sm.Metrics = []*metricspb.Metric{nil, m}
	case 1:
		sm.Metrics = nil
	}
	rm := &metricspb.ResourceMetrics{Resource: &resourcepb.Resource{Attributes: c17aAttrs(r)}, ScopeMetrics: []*metricspb.ScopeMetrics{sm}}
	switch r.Intn(6) {
	case 0:
		rm.Resource = nil
	case 1:
		rm.ScopeMetrics = []*metricspb.ScopeMetrics{nil}
	}
	req := &collmetricspb.ExportMetricsServiceRequest{ResourceMetrics: []*metricspb.ResourceMetrics{rm}}
	if r.Intn(8) == 0 {
		req.ResourceMetrics = []*metricspb.ResourceMetrics{nil, rm}
	}
	b, _ := gproto.Marshal(req)
	return b
}

func c17aPromVariant(r *rand.Rand) []byte {
	ts := prompb.TimeSeries{Labels: []prompb.Label{{Name: "__name__", Value: "c17v"}, {Name: "host", Value: "h1"}}, Samples: []prompb.Sample{{Value: 1, Timestamp: c17aTs * 1000}}}
	switch r.Intn(10) {
	case 0:
		ts.Labels = nil
	case 1:
		ts.Labels = []prompb.Label{{Name: "host", Value: "h1"}} // no metric name
	case 2:
		ts.Labels = []prompb.Label{{Name: "__name__", Value: ""}, {Name: "", Value: ""}}
	case 3:
		ts.Samples = nil
	case 4:
		ts.Samples = []prompb.Sample{{Value: 1, Timestamp: -1}, {Value: 1, Timestamp: 1<<63 - 1}, {Value: 1, Timestamp: 0}}
	case 5:
		ts.Labels = append(ts.Labels, prompb.Label{Name: "host", Value: "h2"}, prompb.Label{Name: "__name__", Value: "other"}) // duplicates
	case 6:
		ts.Labels = []prompb.Label{{Name: "__name__", Value: c17aPoolStr(r)}, {Name: c17aPoolStr(r), Value: c17aPoolStr(r)}}
	case 7:
		ts.Exemplars = []prompb.Exemplar{{Value: 1, Timestamp: 1}}
		ts.Histograms = []prompb.Histogram{{Sum: 1}}
	}
	wr := &prompb.WriteRequest{Timeseries: []prompb.TimeSeries{ts}}
	if r.Intn(6) == 0 {
		wr.Metadata = []prompb.MetricMetadata{{MetricFamilyName: "c17v", Help: "h", Unit: "u"}}
	}
	if r.Intn(8) == 0 {
		wr.Timeseries = nil
	}
	b, _ := proto.Marshal(wr)
	if r.Intn(8) == 0 {
		return b // not compressed
	}
	return snappy.Encode(nil, b)
}

func c17aLokiProtoBody(r *rand.Rand) []byte {
	e := &lokilog.EntryAdapter{Timestamp: timestamppb.New(time.Unix(c17aTs, 0)), Line: "foo line a=1"}
	st := &lokilog.StreamAdapter{Labels: `{host="h1", b="x"}`, Entries: []*lokilog.EntryAdapter{e}}
	if r != nil {
		switch r.Intn(10) {
		case 0:
			st.Labels = ""
		case 1:
			st.Labels = c17aPoolStr(r)
		case 2:
			st.Entries = nil
		case 3:
			e.Timestamp = nil
		case 4:
			e.Line = ""
		case 5:
			st.Entries = []*lokilog.EntryAdapter{nil, e}
		case 6:
			e.Timestamp = &timestamppb.Timestamp{Seconds: -1 << 62, Nanos: -5}
		case 7:
			st.Labels = `{host="h1", b}`
		}
	}
	req := &lokilog.PushRequest{Streams: []*lokilog.StreamAdapter{st}}
	if r != nil && r.Intn(8) == 0 {
		req.Streams = []*lokilog.StreamAdapter{nil, st}
	}
	b, _ := gproto.Marshal(req)
	if r != nil && r.Intn(8) == 0 {
		return b
	}
	return snappy.Encode(nil, b)
}

func c17aUploadBody() ([]byte, string) {
	var body bytes.Buffer
	w := multipart.NewWriter(&body)
	w.WriteField("name", "c17lk.csv")
	w.WriteField("overwrite", "true")
	fw, _ := w.CreateFormFile("file", "c17lk.csv")
	fw.Write([]byte("b,label\nx,one\ny,two\n"))
	w.Close()
	return body.Bytes(), w.FormDataContentType()
}

// a fixed boundary: the generated op lines of one seed are the same bytes in every run
func c17aUploadBodyFixed() []byte {
	var body bytes.Buffer
	w := multipart.NewWriter(&body)
	w.SetBoundary("c17aboundary7MA4YWxkTrZu0gW")
	w.WriteField("name", "c17up.csv")
	w.WriteField("overwrite", "true")
	fw, _ := w.CreateFormFile("file", "c17up.csv")
	fw.Write([]byte("b,label\nx,one\ny,two\n"))
	w.Close()
	return body.Bytes()
}

func c17aBulkBody(index string, ts int64, n int) []byte {
	var b bytes.Buffer
	for i := 0; i < n; i++ {
		fmt.Fprintf(&b, `{"index":{"_index":%q,"_id":"%d"}}`+"\n", index, i+1)
		fmt.Fprintf(&b, `{"a":%d,"b":%q,"c":%q,"d":%v,"host":"h%d","m":"c17boot","msg":"foo bar %d","nested":{"k":"v","n":%d},"arr":[1,2],"timestamp":%d}`+"\n",
			i%5, []string{"x", "y", "x y", "xyz"}[i%4], []string{"p", "q"}[i%2], float64(i)/2, 1+i%2, i, i, (ts+int64(i))*1000)
	}
	return b.Bytes()
}

// what the OTLP trace ingest stores per span (spanToJson), as a document: the trace routes search the index "traces"
func c17aSpanDoc(tsNano int64, traceID, spanID, parent, service, name string) string {
	return fmt.Sprintf(`{"trace_id":%q,"span_id":%q,"parent_span_id":%q,"service":%q,"trace_state":"","name":%q,"kind":"SPAN_KIND_SERVER","start_time":%d,"end_time":%d,"duration":5000000,"dropped_attributes_count":0,"dropped_events_count":0,"dropped_links_count":0,"status":"STATUS_CODE_OK","events":"[]","links":"[]","http.method":"GET"}`,
		traceID, spanID, parent, service, name, tsNano, tsNano+5000000)
}

const c17aDepDoc = `{"c17svc.c17db":3,"c17db.c17svc":1}`

func c17aBulkOf(index string, docs ...string) []byte {
	var b bytes.Buffer
	for _, d := range docs {
		fmt.Fprintf(&b, `{"index":{"_index":%q}}`+"\n%s\n", index, d)
	}
	return b.Bytes()
}

type c17aBootStep struct {
	srv, method, path, ctype string
	body                     []byte
	idTok, idFrom            string // the id of the created object: in the answer, or in the answer of GET idFrom
}

var c17aAlertBody = `{"alert_name":"c17alert","alert_type":1,"labels":[{"label_name":"l","label_value":"v"}],"condition":0,"value":100000,"eval_for":5,"eval_interval":5,"message":"c17 {{alert_rule_name}}","contact_id":"` + c17aTok("@CONTACT") + `","contact_name":"c17contact","queryParams":{"data_source":"Logs","queryLanguage":"Splunk QL","queryText":"* | stats count","startTime":"now-5m","endTime":"now","index":"ind-0","queryMode":"Builder"}}`

func c17aBootSteps(now time.Time) []c17aBootStep {
	var st []c17aBootStep
	add := func(srv, method, path, ctype string, body []byte, tok string) {
		from := map[string]string{"@CONTACT": "/api/alerts/allContacts", "@ALERTID": "/api/allalerts"}[tok]
		st = append(st, c17aBootStep{srv, method, path, ctype, body, tok, from})
	}
	nowS := now.Unix() - 120
	for _, ts := range []int64{c17aTs, nowS} {
		add("i", "POST", "/elastic/_bulk", c17aJ, c17aBulkBody("ind-0", ts, 40), "")
		add("i", "POST", "/elastic/_bulk", c17aJ, c17aBulkBody("c17boot", ts, 8), "")
		var arr []interface{}
		for i := 0; i < 6; i++ {
			for _, m := range []string{"c17m", "cpu"} {
				arr = append(arr, map[string]interface{}{"metric": m, "tags": map[string]string{"host": []string{"h1", "h2"}[i%2], "job": "c17"}, "timestamp": ts + int64(i)*15, "value": i + 1})
			}
		}
		for i := 0; i < 18; i++ { // a dense series: every window of a range function holds several samples, from the first sample on
			arr = append(arr, map[string]interface{}{"metric": "c17d", "tags": map[string]string{"host": "h1", "job": "c17"}, "timestamp": ts + int64(i)*10, "value": []float64{3, 1, 4, 1, 5, 9, 2, 6}[i%8]})
			// … and two more samples inside the same second (millisecond timestamps): several entries in one downsampling bucket
			arr = append(arr, map[string]interface{}{"metric": "c17d", "tags": map[string]string{"host": "h1", "job": "c17"}, "timestamp": (ts+int64(i)*10)*1000 + 250, "value": float64(i%5) + 0.5})
			arr = append(arr, map[string]interface{}{"metric": "c17d", "tags": map[string]string{"host": "h1", "job": "c17"}, "timestamp": (ts+int64(i)*10)*1000 + 750, "value": float64(i%3) - 1})
		}
		add("i", "POST", "/otsdb/api/put", c17aJ, c17aJSON(arr), "")
		add("i", "POST", "/otlp/v1/traces", c17aPB, c17aOtlpTraceBody(ts), "")
		add("i", "POST", "/otlp/v1/logs", c17aPB, c17aOtlpLogBody(ts), "")
	}
	// the indexes behind the trace routes exist before the first flush (the OTLP route does not register the index `traces`
	// itself; the flush of its first block does: writer.AppendWipToSegfile — suite fx_c12 watches that)
	tid2 := "c2c2c2c2c2c2c2c2c2c2c2c2c2c2c2c2"
	add("i", "POST", "/elastic/_bulk", c17aJ, c17aBulkOf("traces", c17aSpanDoc(nowS*1e9, tid2, "a1a1a1a1a1a1a1a1", "", "c17svc", "c17op"), c17aSpanDoc(nowS*1e9+1e6, tid2, "a2a2a2a2a2a2a2a2", "a1a1a1a1a1a1a1a1", "c17db", "c17query")), "")
	add("i", "POST", "/elastic/_bulk", c17aJ, c17aBulkOf("service-dependency", c17aDepDoc), "")
	add("i", "POST", "/loki/api/v1/push", c17aJ, []byte(fmt.Sprintf(`{"streams":[{"stream":{"host":"h1","b":"x"},"values":[["%d","foo line a=1"],["%d","bar line"]]}]}`, nowS*1e9, nowS*1e9+1)), "")
	add("i", "POST", "/services/collector/event", c17aJ, []byte(fmt.Sprintf(`{"event":{"a":1,"b":"x","m":"hec"},"index":"c17hec","time":%d}`, nowS)), "")
	up, ct := c17aUploadBody()
	add("q", "POST", "/api/lookup-upload", ct, up, "")
	add("q", "POST", "/api/dashboards/folders/create", c17aJ, []byte(`{"name":"c17folder","parentId":"root-folder"}`), "@FOLDER@")
	add("q", "POST", "/api/dashboards/create", c17aJ, []byte(`{"name":"c17dash","description":"c17","parentId":"root-folder"}`), "@DASHID@")
	add("q", "POST", "/api/usersavedqueries/save", c17aJ, []byte(`{"queryName":"c17q","queryDescription":"c17","searchText":"*","indexName":"ind-0","queryLanguage":"Splunk QL","dataSource":"Logs"}`), "")
	add("q", "POST", "/elastic/_aliases", c17aJ, []byte(`{"actions":[{"add":{"index":"ind-0","alias":"c17al"}}]}`), "")
	add("q", "POST", "/api/alerts/createContact", c17aJ, []byte(`{"contact_name":"c17contact","slack":[{"channel_id":"C1","slack_token":"t"}],"webhook":[{"webhook":"http://127.0.0.1:1/hook"}]}`), "@CONTACT")
	add("q", "POST", "/api/alerts/create", c17aJ, []byte(c17aAlertBody), "@ALERTID")
	return st
}

// ---------------------------------------------------------------- the routes

func c17aRoutes() []c17aRoute {
	const A, E, P, O, MX, OT, J = "/api", "/elastic", "/promql", "/otsdb", "/metrics-explorer", "/otlp", "/jaeger"
	start, end := fmt.Sprint(c17aTs-600), fmt.Sprint(c17aTs+600)
	tr := "start=" + start + "&end=" + end
	search := `{"searchText":"a=1 | stats count by b","indexName":"ind-0","startEpoch":"now-1h","endEpoch":"now","queryLanguage":"Splunk QL","size":100,"from":0,"state":"query","includeNulls":false,"runTimechart":false}`
	searchOld := fmt.Sprintf(`{"searchText":"*","indexName":"ind-0","startEpoch":%d,"endEpoch":%d,"queryLanguage":"Splunk QL","size":10,"from":0,"state":"query"}`, (c17aTs-600)*1000, (c17aTs+600)*1000)
	mq := `{"query":{"bool":{"must":[{"match":{"b":"x"}}],"filter":[{"range":{"a":{"gte":0}}}]}},"size":10,"from":0,"sort":[{"timestamp":{"order":"desc"}}],"aggs":{"g":{"terms":{"field":"b","size":5}}}}`
	mxBody := fmt.Sprintf(`{"start":%d,"end":%d,"queries":[{"name":"a","query":"avg by (host) (c17m)","qlType":"promql"},{"name":"b","query":"cpu{host=\"h1\"}","qlType":"promql"}],"formulas":[{"formula":"a+b"}]}`, c17aTs-600, c17aTs+600)
	mxRange := fmt.Sprintf(`{"start":%d,"end":%d}`, c17aTs-600, c17aTs+600)
	mxNow := `{"start":"now-1h","end":"now"}`
	doc := `{"a":1,"b":"x","m":"c17","timestamp":1700000000000}`
	otsdbExp := fmt.Sprintf(`{"time":{"start":%d,"end":%d,"aggregator":"sum","downsampler":{"interval":"1m","aggregator":"avg"}},"filters":[{"id":"f1","tags":[{"type":"literal_or","tagk":"host","filter":"h1","groupBy":false}]}],"metrics":[{"id":"a","metric":"c17m","filter":"f1","aggregator":"sum"}],"expressions":[{"id":"e","exp":"a + a"}],"outputs":[{"id":"a","alias":"a"}]}`, c17aTs-600, c17aTs+600)
	otsdbPost := fmt.Sprintf(`{"start":%d,"end":%d,"queries":[{"aggregator":"avg","metric":"c17m","downsample":"1m-avg","tags":{"host":"h1"}}]}`, c17aTs-600, c17aTs+600)
	tid := "c1c1c1c1c1c1c1c1c1c1c1c1c1c1c1c1"
	traceSearch := `{"searchText":"service=c17svc","startEpoch":"now-1h","endEpoch":"now","queryLanguage":"Splunk QL","page":1}`
	alertUpd := `{"alert_id":"` + c17aTok("@ALERTID") + `",` + c17aAlertBody[1:]
	metricsAlert := `{"alert_name":"c17malert","alert_type":2,"condition":0,"value":1,"eval_for":5,"eval_interval":5,"message":"m","contact_id":"` + c17aTok("@CONTACT") + `","contact_name":"c17contact","metricsQueryParams":"{\"start\":\"now-5m\",\"end\":\"now\",\"queries\":[{\"name\":\"a\",\"query\":\"avg by (host) (c17m)\",\"qlType\":\"promql\"}],\"formulas\":[{\"formula\":\"a\"}]}"}`
	dashUpd := `{"id":"` + c17aTok("@DASHID@") + `","details":{"name":"c17dash","description":"c17","folder":{"id":"root-folder"},"timeRange":"Last 1 Hr","refresh":"","isFavorite":false,"panels":[{"panelId":"p1","name":"panel","chartType":"Line Chart","queryType":"logs","panelIndex":0,"gridpos":{"h":2,"w":4,"x":0,"y":0},"queryData":{"searchText":"* | stats count","indexName":"ind-0","startEpoch":"now-1h","endEpoch":"now","queryLanguage":"Splunk QL"}}]}}`
	rts := []c17aRoute{
		// ---- search
		{srv: "q", method: "POST", path: A + "/search", ctype: c17aJ, body: search, text: "json:searchText:logs", weight: 14},
		{srv: "q", method: "POST", path: A + "/search", ctype: c17aJ, body: searchOld, text: "json:searchText:logs", weight: 4},
		{srv: "q", method: "POST", path: A + "/search/{dbPanel-id}", pv: map[string]string{"dbPanel-id": "p1"}, ctype: c17aJ, body: search, text: "json:searchText:logs", weight: 2},
		{srv: "q", method: "POST", path: A + "/echo", ctype: c17aJ, body: search, text: "json:searchText:logs"},
		{srv: "q", method: "GET", path: A + "/search/ws", ws: true, body: search, text: "json:searchText:logs", weight: 6},
		{srv: "q", method: "GET", path: A + "/search/live_tail", ws: true, body: search, text: "json:searchText:logs"},
		{srv: "q", method: "POST", path: A + "/search/ws", ctype: c17aJ, body: search},
		{srv: "q", method: "POST", path: A + "/search/live_tail", ctype: c17aJ, body: search},
		{srv: "q", method: "POST", path: A + "/listColumnNames", ctype: c17aJ, body: `{"indexName":"ind-0","startEpoch":"now-1h","endEpoch":"now"}`},
		{srv: "q", method: "GET", path: A + "/listIndices"},
		{srv: "q", method: "POST", path: A + "/sort-columns", ctype: c17aJ, body: `{"indexName":"c17sort","columns":["a"]}`},

		// ---- elasticsearch reads
		{srv: "q", method: "POST", path: E + "/_search", ctype: c17aJ, body: mq, text: "body::es", weight: 4},
		{srv: "q", method: "GET", path: E + "/_search", ctype: c17aJ, body: mq, text: "body::es"},
		{srv: "q", method: "POST", path: E + "/search", ctype: c17aJ, body: mq, text: "body::es"},
		{srv: "q", method: "POST", path: E + "/{indexName}/_search", pv: map[string]string{"indexName": "ind-0"}, query: "scroll=1m&rest_total_hits_as_int=true&size=5&from=0&q=b:x", ctype: c17aJ, body: mq, text: "body::es", weight: 4},
		{srv: "q", method: "GET", path: E + "/{indexName}/_search", pv: map[string]string{"indexName": "ind-0"}, ctype: c17aJ, body: mq, text: "body::es"},
		{srv: "q", method: "POST", path: E + "/{indexName}/_doc/_search", pv: map[string]string{"indexName": "ind-0"}, ctype: c17aJ, body: mq, text: "body::es"},
		{srv: "q", method: "POST", path: E + "/{indexName}/{docType}/_search", pv: map[string]string{"indexName": "ind-0", "docType": "t"}, ctype: c17aJ, body: mq, text: "body::es"},
		{srv: "q", method: "GET", path: E + "/{indexName}/{docType}/_search", pv: map[string]string{"indexName": "ind-0", "docType": "t"}, ctype: c17aJ, body: mq, text: "body::es"},
		{srv: "q", method: "POST", path: E + "/_search", query: "scroll=1m", ctype: c17aJ, body: `{"scroll":"1m","scroll_id":"c17scroll"}`},
		{srv: "q", method: "POST", path: E + "/{indexName}/_search", pv: map[string]string{"indexName": "ind-0"}, query: "scroll=1m", ctype: c17aJ, body: `{"query":{"match":{"b":"x"}},"size":1}`, text: "body::es", weight: 3},
		{srv: "q", method: "POST", path: E + "/{indexName}/_search", pv: map[string]string{"indexName": "ind-0"}, query: "scroll=1m&rest_total_hits_as_int=true", ctype: c17aJ, body: `{"query":{"match_all":{}},"size":1}`, weight: 2},
		{srv: "q", method: "POST", path: E + "/{indexName}/_search", pv: map[string]string{"indexName": "ind-0"}, query: "scroll=1m", ctype: c17aJ, body: `{"query":{"match":{"b":"nosuchvalue"}},"size":5}`, weight: 2},
		{srv: "q", method: "GET", path: E + "/{indexName}/{docType}/{idVal}", pv: map[string]string{"indexName": "ind-0", "docType": "_doc", "idVal": "1"}, weight: 3},
		{srv: "q", method: "HEAD", path: E + "/{indexName}/{docType}/{idVal}", pv: map[string]string{"indexName": "ind-0", "docType": "_doc", "idVal": "1"}},
		{srv: "q", method: "GET", path: E + "/"},
		{srv: "q", method: "HEAD", path: E + "/"},
		{srv: "q", method: "HEAD", path: E + "/{indexName}", pv: map[string]string{"indexName": "ind-0"}},
		{srv: "q", method: "DELETE", path: E + "/{indexName}", pv: map[string]string{"indexName": "c17gone"}},
		{srv: "q", method: "POST", path: A + "/deleteIndex/{indexName}", pv: map[string]string{"indexName": "c17gone"}},
		{srv: "q", method: "POST", path: E + "/_bulk", ctype: "application/x-ndjson", body: `{"index":{"_index":"c17q","_id":"1"}}` + "\n" + doc + "\n"},
		{srv: "q", method: "PUT", path: E + "/{indexName}", pv: map[string]string{"indexName": "c17new"}, ctype: c17aJ, body: `{"mappings":{"properties":{"m":{"type":"keyword"}}},"settings":{"number_of_shards":1}}`},
		// aliases
		{srv: "q", method: "GET", path: E + "/{indexName}/_alias/{aliasName}", pv: map[string]string{"indexName": "ind-0", "aliasName": "c17al"}},
		{srv: "q", method: "GET", path: E + "/_alias/{aliasName}", pv: map[string]string{"aliasName": "c17al"}},
		{srv: "q", method: "HEAD", path: E + "/_alias/{aliasName}", pv: map[string]string{"aliasName": "c17al"}},
		{srv: "q", method: "HEAD", path: E + "/{indexName}/_alias/{aliasName?}", pv: map[string]string{"indexName": "ind-0", "aliasName": "c17al"}},
		{srv: "q", method: "POST", path: E + "/_aliases", ctype: c17aJ, body: `{"actions":[{"add":{"index":"ind-0","alias":"c17al2","indices":["ind-0"],"aliases":["c17al3"]}},{"remove":{"index":"ind-0","alias":"c17al2"}}]}`},
		{srv: "q", method: "PUT", path: E + "/{indexName}/_alias/{aliasName}", pv: map[string]string{"indexName": "ind-0", "aliasName": "c17al4"}},
		{srv: "q", method: "PUT", path: E + "/{indexName}/_aliases/{aliasName}", pv: map[string]string{"indexName": "ind-0", "aliasName": "c17al4"}},
		{srv: "q", method: "POST", path: E + "/{indexName}/_alias/{aliasName}", pv: map[string]string{"indexName": "ind-0", "aliasName": "c17al4"}},
		{srv: "q", method: "POST", path: E + "/{indexName}/_aliases/{aliasName}", pv: map[string]string{"indexName": "ind-0", "aliasName": "c17al4"}},
		{srv: "q", method: "GET", path: E + "/_aliases"},
		{srv: "q", method: "GET", path: E + "/_cat/aliases"},

		// ---- metrics queries
		{srv: "q", method: "GET", path: O + "/api/query", query: tr + "&m=avg%3A1m-avg%3Ac17m%7Bhost%3Dh1%7D", text: "query:m:otsdb", weight: 8},
		{srv: "q", method: "POST", path: O + "/api/query", query: tr + "&m=sum%3Acpu%7Bhost%3D*%7D", ctype: c17aJ, body: otsdbPost, text: "query:m:otsdb", weight: 2},
		{srv: "q", method: "POST", path: O + "/api/v1/query/exp", ctype: c17aJ, body: otsdbExp, weight: 4},
		{srv: "q", method: "GET", path: P + "/api/v1/query", query: "time=" + end + "&query=avg%20by%20(host)%20(c17m)", text: "query:query:promql", weight: 4},
		{srv: "q", method: "GET", path: P + "/api/v1/query", query: "query=cpu%7Bhost%3D%22h1%22%7D", text: "query:query:promql", weight: 2},
		{srv: "q", method: "POST", path: P + "/api/v1/query", ctype: c17aFm, body: "time=" + end + "&query=avg%20by%20(host)%20(c17m)", text: "form:query:promql", weight: 4},
		{srv: "q", method: "GET", path: P + "/api/v1/query_range", query: tr + "&step=60&query=rate(c17m%5B5m%5D)", text: "query:query:promql", weight: 4},
		{srv: "q", method: "POST", path: P + "/api/v1/query_range", ctype: c17aFm, body: tr + "&step=60&query=rate(c17m%5B5m%5D)", text: "form:query:promql", weight: 4},
		{srv: "q", method: "POST", path: P + "/api/ui/query", ctype: c17aJ, body: `{"query":"avg by (host) (c17m)","start":"now-1h","end":"now","step":"15s"}`, text: "json:query:promql", weight: 3},
		{srv: "q", method: "GET", path: P + "/api/v1/status/buildinfo"},
		{srv: "q", method: "GET", path: P + "/api/v1/labels", query: tr + "&match%5B%5D=c17m"},
		{srv: "q", method: "POST", path: P + "/api/v1/labels", ctype: c17aFm, body: tr + "&match%5B%5D=c17m"},
		{srv: "q", method: "GET", path: P + "/api/v1/label/{labelName}/values", pv: map[string]string{"labelName": "host"}, query: tr + "&match%5B%5D=c17m", weight: 2},
		{srv: "q", method: "GET", path: P + "/api/v1/series", query: tr + "&match%5B%5D=c17m%7Bhost%3D%22h1%22%7D&match%5B%5D=cpu", text: "query:match[]:promql", weight: 2},
		{srv: "q", method: "POST", path: P + "/api/v1/series", ctype: c17aFm, body: tr + "&match%5B%5D=c17m%7Bhost%3D%22h1%22%7D", text: "form:match[]:promql", weight: 2},
		{srv: "q", method: "POST", path: MX + "/api/v1/metric_names", ctype: c17aJ, body: mxRange},
		{srv: "q", method: "POST", path: MX + "/api/v1/metric_names", ctype: c17aJ, body: mxNow},
		{srv: "q", method: "POST", path: MX + "/api/v1/all_tags", ctype: c17aJ, body: fmt.Sprintf(`{"start":%d,"end":%d,"metric_name":"c17m"}`, c17aTs-600, c17aTs+600), text: "json:metric_name:promql", weight: 2},
		{srv: "q", method: "POST", path: MX + "/api/v1/timeseries", ctype: c17aJ, body: mxBody, text: "json:queries.0.query:promql", weight: 6},
		{srv: "q", method: "GET", path: MX + "/api/v1/functions"},
		{srv: "q", method: "POST", path: MX + "/api/v1/series-cardinality", ctype: c17aJ, body: `{"startEpoch":"now-1h","endEpoch":"now"}`},
		{srv: "q", method: "POST", path: MX + "/api/v1/tag-keys-with-most-series", ctype: c17aJ, body: `{"startEpoch":"now-1h","endEpoch":"now","limit":10}`},
		{srv: "q", method: "POST", path: MX + "/api/v1/tag-pairs-with-most-series", ctype: c17aJ, body: `{"startEpoch":"now-1h","endEpoch":"now","limit":10}`},
		{srv: "q", method: "POST", path: MX + "/api/v1/tag-keys-with-most-values", ctype: c17aJ, body: `{"startEpoch":"now-1h","endEpoch":"now","limit":10}`},

		// ---- traces
		{srv: "q", method: "POST", path: A + "/traces/search", ctype: c17aJ, body: traceSearch, text: "json:searchText:spl", weight: 3},
		{srv: "q", method: "POST", path: A + "/traces/count", ctype: c17aJ, body: traceSearch, text: "json:searchText:spl"},
		{srv: "q", method: "POST", path: A + "/traces/dependencies", ctype: c17aJ, body: `{"startEpoch":"now-1h","endEpoch":"now"}`},
		{srv: "q", method: "POST", path: A + "/traces/generate-dep-graph", ctype: c17aJ, body: `{"startEpoch":"now-1h","endEpoch":"now"}`},
		{srv: "q", method: "POST", path: A + "/traces/ganttChart", ctype: c17aJ, body: `{"searchText":"trace_id=` + tid + `","startEpoch":"now-1h","endEpoch":"now","queryLanguage":"Splunk QL"}`, text: "json:searchText:spl", weight: 2},
		{srv: "q", method: "POST", path: A + "/traces/span/ganttChart", ctype: c17aJ, body: `{"span_id":"9e9e9e9e9e9e9e9e","searchText":"span_id=9e9e9e9e9e9e9e9e","startEpoch":"now-1h","endEpoch":"now","queryLanguage":"Splunk QL","page":1}`, weight: 2},
		{srv: "q", method: "GET", path: J + "/api/services", query: "startEpoch=now-1h&endEpoch=now"},
		{srv: "q", method: "GET", path: J + "/api/services/{serviceName}/operations", pv: map[string]string{"serviceName": "c17svc"}, query: "startEpoch=now-1h&endEpoch=now"},
		{srv: "q", method: "GET", path: J + "/api/dependencies", query: "endTs=1700000600000&lookback=3600000"},
		{srv: "q", method: "GET", path: J + "/api/traces", query: "service=c17svc&operation=c17op&start=1699999400000000&end=1700000600000000&limit=20&lookback=1h&maxDuration=1s&minDuration=1us&tags=%7B%22http.method%22%3A%22GET%22%7D", weight: 3},

		// ---- saved queries, persistent queries, dashboards, lookups
		{srv: "q", method: "POST", path: A + "/usersavedqueries/save", ctype: c17aJ, body: `{"queryName":"c17q2","queryDescription":"c17","searchText":"a=1","indexName":"ind-0","queryLanguage":"Splunk QL","dataSource":"Logs","metricsQueryParams":""}`},
		{srv: "q", method: "GET", path: A + "/usersavedqueries/getall"},
		{srv: "q", method: "GET", path: A + "/usersavedqueries/{qname}", pv: map[string]string{"qname": "c17q"}},
		{srv: "q", method: "GET", path: A + "/usersavedqueries/deleteone/{qname}", pv: map[string]string{"qname": "c17q2"}},
		{srv: "q", method: "POST", path: A + "/pqs/clear"},
		{srv: "q", method: "POST", path: A + "/pqs/delete", ctype: c17aJ, body: `{"pqid":"1234567890"}`},
		{srv: "q", method: "GET", path: A + "/pqs/get"},
		{srv: "q", method: "POST", path: A + "/pqs/aggs", ctype: c17aJ, body: `{"tableName":"ind-0","groupByColumns":["b"],"measureColumns":["a"]}`},
		{srv: "q", method: "POST", path: A + "/pqs/update", ctype: c17aJ, body: `{"pqsEnabled":true}`},
		{srv: "q", method: "GET", path: A + "/pqs"},
		{srv: "q", method: "GET", path: A + "/pqs/{pqid}", pv: map[string]string{"pqid": "1234567890"}},
		{srv: "q", method: "POST", path: A + "/dashboards/create", ctype: c17aJ, body: `{"name":"c17dash2","description":"c17","parentId":"root-folder"}`},
		{srv: "q", method: "POST", path: A + "/dashboards/update", ctype: c17aJ, body: dashUpd, weight: 2},
		{srv: "q", method: "GET", path: A + "/dashboards/{dashboard-id}", pv: map[string]string{"dashboard-id": c17aTok("@DASHID@")}},
		{srv: "q", method: "GET", path: A + "/dashboards/delete/{dashboard-id}", pv: map[string]string{"dashboard-id": "00000000-0000-0000-0000-000000000001"}},
		{srv: "q", method: "PUT", path: A + "/dashboards/favorite/{dashboard-id}", pv: map[string]string{"dashboard-id": c17aTok("@DASHID@")}},
		{srv: "q", method: "GET", path: A + "/dashboards/list", query: "sort=alpha-asc&query=c17&type=all&starred=false&folderId=root-folder"},
		{srv: "q", method: "POST", path: A + "/dashboards/folders/create", ctype: c17aJ, body: `{"name":"c17folder2","parentId":"root-folder"}`},
		{srv: "q", method: "GET", path: A + "/dashboards/folders/{folder-id}", pv: map[string]string{"folder-id": "root-folder"}, query: "foldersOnly=false"},
		{srv: "q", method: "PUT", path: A + "/dashboards/folders/{folder-id}", pv: map[string]string{"folder-id": c17aTok("@FOLDER@")}, ctype: c17aJ, body: `{"name":"c17folder","parentId":"root-folder"}`},
		{srv: "q", method: "DELETE", path: A + "/dashboards/folders/{folder-id}", pv: map[string]string{"folder-id": "00000000-0000-0000-0000-000000000001"}},
		{srv: "q", method: "GET", path: A + "/dashboards/folders/{folder-id}/count", pv: map[string]string{"folder-id": "root-folder"}},
		{srv: "q", method: "POST", path: A + "/lookup-upload", ctype: "multipart/form-data; boundary=c17aboundary7MA4YWxkTrZu0gW", bin: c17aUploadBodyFixed},
		{srv: "q", method: "GET", path: A + "/lookup-files"},
		{srv: "q", method: "GET", path: A + "/lookup-files/{lookupFilename}", pv: map[string]string{"lookupFilename": "c17lk.csv"}},
		{srv: "q", method: "DELETE", path: A + "/lookup-files/{lookupFilename}", pv: map[string]string{"lookupFilename": "c17up.csv"}},

		// ---- alerts
		{srv: "q", method: "POST", path: A + "/alerts/create", ctype: c17aJ, body: c17aAlertBody, text: "json:queryParams.queryText:spl", weight: 3},
		{srv: "q", method: "POST", path: A + "/alerts/create", ctype: c17aJ, body: metricsAlert, weight: 2},
		{srv: "q", method: "GET", path: A + "/alerts/{alertID}", pv: map[string]string{"alertID": c17aTok("@ALERTID")}},
		{srv: "q", method: "GET", path: A + "/allalerts"},
		{srv: "q", method: "POST", path: A + "/alerts/update", ctype: c17aJ, body: alertUpd, text: "json:queryParams.queryText:spl", weight: 2},
		{srv: "q", method: "DELETE", path: A + "/alerts/delete", ctype: c17aJ, body: `{"alert_id":"00000000-0000-0000-0000-000000000001"}`},
		{srv: "q", method: "GET", path: A + "/alerts/{alertID}/history", pv: map[string]string{"alertID": c17aTok("@ALERTID")}, query: "sort_order=DESC&limit=10&offset=0"},
		{srv: "q", method: "POST", path: A + "/alerts/createContact", ctype: c17aJ, body: `{"contact_name":"c17contact2","slack":[{"channel_id":"C1","slack_token":"t"}],"webhook":[{"webhook":"http://127.0.0.1:1/hook"}],"pager_duty":""}`},
		{srv: "q", method: "GET", path: A + "/alerts/allContacts"},
		{srv: "q", method: "POST", path: A + "/alerts/updateContact", ctype: c17aJ, body: `{"contact_id":"` + c17aTok("@CONTACT") + `","contact_name":"c17contact","slack":[{"channel_id":"C1","slack_token":"t"}],"webhook":[{"webhook":"http://127.0.0.1:1/hook"}]}`},
		{srv: "q", method: "DELETE", path: A + "/alerts/deleteContact", ctype: c17aJ, body: `{"contact_id":"00000000-0000-0000-0000-000000000001"}`},
		{srv: "q", method: "PUT", path: A + "/alerts/silenceAlert", ctype: c17aJ, body: `{"alert_id":"` + c17aTok("@ALERTID") + `","silence_minutes":5}`},
		{srv: "q", method: "PUT", path: A + "/alerts/unsilenceAlert", ctype: c17aJ, body: `{"alert_id":"` + c17aTok("@ALERTID") + `"}`},
		{srv: "q", method: "POST", path: A + "/alerts/testContactPoint", ctype: c17aJ, body: `{"type":"webhook","settings":{"webhook":"http://127.0.0.1:1/hook"}}`},
		{srv: "q", method: "GET", path: A + "/minionsearch/allMinionSearches"},
		{srv: "q", method: "POST", path: A + "/minionsearch/createMinionSearches", ctype: c17aJ, body: `{"version":"1","log_alerts":[{"repository":"github.com/c17/repo","filename":"main.go","line_number":42,"log_text":"failed to do x","log_text_hash":"c17hash0001","query_language":"Splunk QL","query":"b=* | stats count","condition":"above","value":3,"log_level":"ERROR"}]}`, text: "json:log_alerts.0.query:spl"},
		{srv: "q", method: "GET", path: A + "/minionsearch/{alertID}", pv: map[string]string{"alertID": c17aTok("@ALERTID")}},

		// ---- the rest of the query server
		{srv: "q", method: "GET", path: A + "/health"},
		{srv: "q", method: "GET", path: A + "/config"},
		{srv: "q", method: "POST", path: A + "/config/reload"},
		{srv: "q", method: "GET", path: A + "/clusterStats"},
		{srv: "q", method: "POST", path: A + "/usageStats", ctype: c17aJ, body: `{"startEpoch":"now-7d","endEpoch":"now","granularity":"day"}`, weight: 2},
		{srv: "q", method: "POST", path: A + "/usageStats", ctype: c17aJ, body: `{"startEpoch":1699999400,"endEpoch":1700000600,"granularity":"hour"}`},
		{srv: "q", method: "GET", path: A + "/version/info"},
		{srv: "q", method: "GET", path: A + "/system-info"},
		{srv: "q", method: "GET", path: A + "/inode-stats"},
		{srv: "q", method: "GET", path: A + "/query-stats"},
		{srv: "q", method: "POST", path: A + "/update-query-timeout", ctype: c17aJ, body: `{"timeoutSecs":300}`},
		{srv: "q", method: "GET", path: A + "/get-query-timeout"},
		{srv: "q", method: "GET", path: A + "/collect-diagnostics"},
		{srv: "q", method: "POST", path: A + "/sampledataset_bulk", ctype: c17aJ, body: `{"index":{"_index":"c17sample"}}` + "\n"},
		{srv: "q", method: "POST", path: A + "/sampletraces"},
		{srv: "q", method: "GET", path: "/services/collector/health"},
		{srv: "q", method: "GET", path: "/services/collector/health/1.0"},
		{srv: "q", method: "GET", path: "/{filename}.html", pv: map[string]string{"filename": "c17"}},
		{srv: "q", method: "GET", path: "/js/{filename}.js", pv: map[string]string{"filename": "c17"}},
		{srv: "q", method: "GET", path: "/{filepath}", pv: map[string]string{"filepath": "index.html"}},
		{srv: "q", method: "GET", path: "/"},

		// ---- ingest server
		{srv: "i", method: "GET", path: A + "/health"},
		{srv: "i", method: "POST", path: A + "/sampledataset_bulk", ctype: c17aJ, body: `{"index":{"_index":"c17sample"}}` + "\n"},
		{srv: "i", method: "GET", path: "/config"},
		{srv: "i", method: "POST", path: "/config/reload"},
		{srv: "i", method: "HEAD", path: E + "/"},
		{srv: "i", method: "GET", path: E + "/"},
		{srv: "i", method: "GET", path: E + "/_xpack"},
		{srv: "i", method: "POST", path: E + "/_bulk", ctype: "application/x-ndjson", weight: 4,
			body: `{"index":{"_index":"c17in","_id":"1"}}` + "\n" + doc + "\n" + `{"create":{"_index":"c17in","_id":"2"}}` + "\n" + doc + "\n" + `{"update":{"_index":"c17in","_id":"1"}}` + "\n" + `{"doc":{"m":"u"}}` + "\n" + `{"delete":{"_index":"c17in","_id":"2"}}` + "\n"},
		{srv: "i", method: "PUT", path: E + "/{indexName}", pv: map[string]string{"indexName": "c17new"}, ctype: c17aJ, body: `{"mappings":{"properties":{"m":{"type":"keyword"}}}}`},
		{srv: "i", method: "HEAD", path: E + "/{indexName}", pv: map[string]string{"indexName": "ind-0"}},
		{srv: "i", method: "PUT", path: E + "/{indexName}/_mapping", pv: map[string]string{"indexName": "c17new"}, ctype: c17aJ, body: `{"properties":{"m":{"type":"keyword"}}}`},
		{srv: "i", method: "PUT", path: E + "/{indexName}/_mapping/{docType}", pv: map[string]string{"indexName": "c17new", "docType": "t"}, ctype: c17aJ, body: `{"properties":{"m":{"type":"keyword"}}}`},
		{srv: "i", method: "PUT", path: E + "/{indexName}/_doc/{_id}", pv: map[string]string{"indexName": "c17in", "_id": "1"}, ctype: c17aJ, body: doc, weight: 2},
		{srv: "i", method: "POST", path: E + "/{indexName}/_doc/{_id?}", pv: map[string]string{"indexName": "c17in", "_id": "1"}, ctype: c17aJ, body: doc},
		{srv: "i", method: "PUT", path: E + "/{indexName}/_create/{_id}", pv: map[string]string{"indexName": "c17in", "_id": "3"}, ctype: c17aJ, body: doc},
		{srv: "i", method: "POST", path: E + "/{indexName}/_create/{_id}", pv: map[string]string{"indexName": "c17in", "_id": "3"}, ctype: c17aJ, body: doc},
		{srv: "i", method: "POST", path: E + "/{indexName}/_update/{_id}", pv: map[string]string{"indexName": "c17in", "_id": "1"}, ctype: c17aJ, body: `{"doc":{"m":"u"},"doc_as_upsert":true}`},
		{srv: "i", method: "POST", path: "/loki/api/v1/push", ctype: c17aJ, body: `{"streams":[{"stream":{"host":"h1","b":"x"},"values":[["1700000000000000000","foo line a=1"],["1700000000000000001","bar",{"k":"v"}]]}]}`, weight: 3},
		{srv: "i", method: "POST", path: "/services/collector/event", ctype: c17aJ, body: `{"event":{"a":1,"b":"x"},"index":"c17hec","time":1700000000.5,"host":"h1","source":"s","sourcetype":"st","fields":{"k":"v"}}`, weight: 3},
		{srv: "i", method: "GET", path: "/services/collector/health"},
		{srv: "i", method: "GET", path: "/services/collector/health/1.0"},
		{srv: "i", method: "POST", path: O + "/api/put", ctype: c17aJ, body: `[{"metric":"c17in","tags":{"host":"h1","job":"c17"},"timestamp":1700000000,"value":1.5},{"metric":"c17in","tags":{"host":"h2"},"timestamp":1700000001000,"value":2}]`, weight: 3},
		{srv: "i", method: "PUT", path: O + "/api/put", ctype: c17aJ, body: `{"metric":"c17in","tags":{"host":"h1"},"timestamp":1700000000,"value":1}`},
		{srv: "i", method: "POST", path: P + "/api/v1/write", ctype: c17aPB, hdr: [][2]string{{"Content-Encoding", "snappy"}, {"X-Prometheus-Remote-Write-Version", "0.1.0"}}, bin: func() []byte { return c17aPromBody(c17aTs) }, binv: c17aPromVariant, weight: 4},
		{srv: "i", method: "POST", path: OT + "/v1/traces", ctype: c17aPB, bin: func() []byte { return c17aOtlpTraceBody(c17aTs) }, binv: c17aOtlpTraceVariant, weight: 4},
		{srv: "i", method: "POST", path: OT + "/v1/logs", ctype: c17aPB, bin: func() []byte { return c17aOtlpLogBody(c17aTs) }, binv: c17aOtlpLogVariant, weight: 4},
		{srv: "i", method: "POST", path: OT + "/v1/metrics", ctype: c17aPB, bin: func() []byte { return c17aOtlpMetricBody(c17aTs) }, binv: c17aOtlpMetricVariant, weight: 4},
		{srv: "i", method: "POST", path: "/loki/api/v1/push", ctype: c17aPB, bin: func() []byte { return c17aLokiProtoBody(nil) }, binv: c17aLokiProtoBody, weight: 3},
	}
	return rts
}
