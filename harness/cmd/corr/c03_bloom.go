package main

// suite "bloom" (C03 kernel slice C03B): the bloom skip rule (what the writer adds per stored value vs what a
// query probes) and the dictionary search path, REAL siglens code against the Lean model (lean/Oracle/C03B.lean).
//
//	bloom add <v>                                   real addToBlockBloomBothCasesWithBuf → keys handed to the filter
//	bloom addip <v>                                 real addToBlockBloomBothCases (work buffer = the value) → keys + buffer
//	bloom col <raw|de> <item,…>                     real ColWip.writeToBloom / writeDeBloom over a really filled column
//	bloom probe <*|m> <=|!=> <ci> <t> <o>           real ProcessSingleFilter → GetAllBlockBloomKeysToSearch
//	bloom check <*|m> <=|!=> <ci> <t> <o> M=<l> U=<l>   probe + real record matcher per value + real doCmiChecks /
//	                                                DoCMICheckForUnrotated over real bloom filters of one block
//	bloom mf <and|or> <ci> <phrase> <neg> <star> W=<l> O=<l> P=<b> PO=<b> M=<l> U=<l>   same for a hand-built MatchFilter
//	bloom bool <=|!=> <0|1> <none|de> R=<item,…>    boolean comparison on column c: real ProcessSingleFilter → probe, real
//	                                                block checks (column without micro-index, or with the real writeDeBloom
//	                                                filter), real ApplySearchToExpressionFilterSimpleCsg per record
//	dict <and|or> <ci> <phrase> W=<l> P=<b> R=<item,…>  real PackDictEnc/ReadDictEnc + ApplySearchToMatchFilterDictCsg
//	                                                vs the per-record matcher
//
// Keys are observed by membership tests against a large real bloom filter (2^20 bits, 16 hashes, a few dozen keys:
// no false positives in practice) over a candidate universe that is a function of the input only: every substring of
// the value(s), of their ASCII-lower-cased copies (and, in-place variant, of the buffer afterwards), plus a few constants.
// The property itself (PropFail, independent of the model): a record that the record-level matcher accepts must not
// sit in a block that the bloom check drops; the dictionary path must select the records the per-record path selects.

import (
	"encoding/binary"
	"encoding/hex"
	"fmt"
	"math/rand"
	"os"
	"path/filepath"
	"sort"
	"strings"
	"unicode/utf8"

	"github.com/bits-and-blooms/bloom/v3"
	"github.com/siglens/siglens/pkg/ast"
	"github.com/siglens/siglens/pkg/config"
	smeta "github.com/siglens/siglens/pkg/segment/metadata"
	qmeta "github.com/siglens/siglens/pkg/segment/query/metadata"
	"github.com/siglens/siglens/pkg/segment/reader/segread"
	"github.com/siglens/siglens/pkg/segment/reader/segread/segreader"
	"github.com/siglens/siglens/pkg/segment/structs"
	sutils "github.com/siglens/siglens/pkg/segment/utils"
	"github.com/siglens/siglens/pkg/segment/writer"
)

func init() {
	register(&Suite{Name: "bloom", Gen: genBloom, Exec: execBloom,
		Rule: "stored values of 0..5 tokens joined by single/double/leading/trailing spaces and other separators (, - / _ tab), mixed case, non-ASCII, numeric-looking, empty; queries derived from the values (token, token range = inner / prefix / suffix / whole phrase, case variants, wildcards, foreign words) through the real ProcessSingleFilter or as hand-built And/Or MatchFilters; dictionary blocks of 1..8 records of strings/bools/numbers/nulls; non-trivial = a block check or a dictionary search (not a bare key listing)"})
}

var c03bDir string

func c03bTmp() string {
	if c03bDir == "" {
		d, err := os.MkdirTemp("", "verifc03b")
		if err != nil {
			panic(err)
		}
		c03bDir = d
		exitHooks = append(exitHooks, func() { os.RemoveAll(d) })
	}
	return c03bDir
}

func c03bNewBloom() *bloom.BloomFilter { return bloom.New(1<<20, 16) }

func c03bBytes(s string) ([]byte, bool) {
	if s == "-" {
		return []byte{}, true
	}
	if s == "" {
		return nil, false
	}
	b, err := hex.DecodeString(s)
	return b, err == nil
}

func c03bShow(b []byte) string {
	if len(b) == 0 {
		return "-"
	}
	return hex.EncodeToString(b)
}

func c03bLower(b []byte) []byte {
	o := make([]byte, len(b))
	for i, c := range b {
		if c >= 'A' && c <= 'Z' {
			c += 32
		}
		o[i] = c
	}
	return o
}

// every substring of each seed and of its lower-cased copy, plus the empty string and a few constants
func c03bUniverse(seeds ...[]byte) [][]byte {
	seen := map[string]bool{"": true, "\x00": true, "\x01": true, "true": true, "false": true, "0": true, "1": true}
	for _, s0 := range seeds {
		for _, s := range [][]byte{s0, c03bLower(s0)} {
			for i := 0; i <= len(s); i++ {
				for j := i + 1; j <= len(s); j++ {
					seen[string(s[i:j])] = true
				}
			}
		}
	}
	out := make([][]byte, 0, len(seen))
	for k := range seen {
		out = append(out, []byte(k))
	}
	return out
}

func c03bKeysIn(bf *bloom.BloomFilter, uni [][]byte) string {
	var ks []string
	if bf != nil {
		for _, k := range uni {
			if bf.Test(k) {
				ks = append(ks, c03bShow(k))
			}
		}
	}
	if len(ks) == 0 {
		return "none"
	}
	sort.Strings(ks)
	return strings.Join(ks, ",")
}

// K=<list>: items separated by ';', 'e' = empty string, the list '-' = no value at all
func c03bList(key, s string) (vals [][]byte, present bool, ok bool) {
	if !strings.HasPrefix(s, key+"=") {
		return nil, false, false
	}
	body := s[len(key)+1:]
	if body == "-" {
		return nil, false, true
	}
	for _, it := range strings.Split(body, ";") {
		if it == "e" {
			vals = append(vals, []byte{})
			continue
		}
		if it == "-" || it == "" {
			return nil, false, false
		}
		b, err := hex.DecodeString(it)
		if err != nil {
			return nil, false, false
		}
		vals = append(vals, b)
	}
	return vals, true, true
}

func c03bBytesArg(key, s string) ([]byte, bool) {
	if !strings.HasPrefix(s, key+"=") {
		return nil, false
	}
	return c03bBytes(s[len(key)+1:])
}

func c03bBool(s string) (bool, bool) {
	switch s {
	case "1":
		return true, true
	case "0":
		return false, true
	}
	return false, false
}

func c03bStrTlv(v []byte) []byte {
	t := make([]byte, 0, 3+len(v))
	t = append(t, sutils.VALTYPE_ENC_SMALL_STRING[0])
	t = binary.LittleEndian.AppendUint16(t, uint16(len(v)))
	return append(t, v...)
}

type c03bItem struct {
	kind byte // s t f i z
	str  []byte
}

func c03bItems(s string) ([]c03bItem, bool) {
	if s == "-" {
		return nil, true
	}
	var out []c03bItem
	for _, it := range strings.Split(s, ",") {
		switch {
		case it == "t" || it == "f" || it == "i" || it == "z":
			out = append(out, c03bItem{kind: it[0]})
		case strings.HasPrefix(it, "s"):
			b, err := hex.DecodeString(it[1:])
			if err != nil {
				return nil, false
			}
			out = append(out, c03bItem{kind: 's', str: b})
		default:
			return nil, false
		}
	}
	return out, true
}

func (it c03bItem) tlv() []byte {
	switch it.kind {
	case 's':
		return c03bStrTlv(it.str)
	case 't':
		return []byte{sutils.VALTYPE_ENC_BOOL[0], 1}
	case 'f':
		return []byte{sutils.VALTYPE_ENC_BOOL[0], 0}
	case 'i':
		return append([]byte{sutils.VALTYPE_ENC_INT64[0]}, make([]byte, 8)...)
	}
	return []byte{sutils.VALTYPE_ENC_BACKFILL[0]}
}

func execBloom(line string) Result {
	f := strings.Fields(line)
	if len(f) == 0 {
		return Result{Out: "bad-op"}
	}
	if f[0] == "dict" {
		return execC03bDict(f[1:])
	}
	if f[0] != "bloom" || len(f) < 2 {
		return Result{Out: "bad-op"}
	}
	switch f[1] {
	case "add":
		return execC03bAdd(f[2:], false)
	case "addip":
		return execC03bAdd(f[2:], true)
	case "col":
		return execC03bCol(f[2:])
	case "probe":
		return execC03bCheck(f[2:], false)
	case "check":
		return execC03bCheck(f[2:], true)
	case "mf":
		return execC03bMf(f[2:])
	case "bool":
		return execC03bBoolCmp(f[2:])
	}
	return Result{Out: "bad-op"}
}

func execC03bAdd(a []string, inPlace bool) Result {
	if len(a) != 1 {
		return Result{Out: "bad-op"}
	}
	v, ok := c03bBytes(a[0])
	if !ok {
		return Result{Out: "bad-op"}
	}
	bf := c03bNewBloom()
	tags := []string{"add"}
	if bytesHasSpace(v) {
		tags = append(tags, "add:spaces")
	}
	if string(c03bLower(v)) != string(v) {
		tags = append(tags, "add:upper")
	}
	if !inPlace {
		word := append([]byte{}, v...)
		buf := make([]byte, len(v)+8)
		if _, err := writer.VerifC03bAddWithBuf(bf, word, buf); err != nil {
			return Result{Out: "err", Tags: tags}
		}
		res := Result{Out: "keys=" + c03bKeysIn(bf, c03bUniverse(v)), Tags: tags}
		if string(word) != string(v) {
			res.Fails = append(res.Fails, PropFail{Sig: "bloom-add/value-modified", Msg: fmt.Sprintf("the flush path changed the stored value %x to %x", v, word)})
		}
		return res
	}
	word := append([]byte{}, v...)
	writer.VerifC03bAddInPlace(bf, word)
	return Result{Out: "keys=" + c03bKeysIn(bf, c03bUniverse(v, word)) + " buf=" + c03bShow(word), Tags: append(tags, "addip")}
}

func bytesHasSpace(b []byte) bool {
	for _, c := range b {
		if c == ' ' {
			return true
		}
	}
	return false
}

func execC03bCol(a []string) Result {
	if len(a) != 2 || (a[0] != "raw" && a[0] != "de") {
		return Result{Out: "bad-op"}
	}
	items, ok := c03bItems(a[1])
	if !ok {
		return Result{Out: "bad-op"}
	}
	var vals []writer.VerifVal
	var tss []uint64
	var seeds [][]byte
	for i, it := range items {
		switch it.kind {
		case 's':
			vals = append(vals, writer.VerifVal{Kind: 's', Str: append([]byte{}, it.str...)})
			seeds = append(seeds, it.str)
		case 't':
			vals = append(vals, writer.VerifVal{Kind: 'b', Bool: true})
		case 'f':
			vals = append(vals, writer.VerifVal{Kind: 'b', Bool: false})
		case 'i':
			vals = append(vals, writer.VerifVal{Kind: 'i', I: 0})
		default:
			vals = append(vals, writer.VerifVal{Kind: 'z'})
		}
		tss = append(tss, uint64(1700000000000+i))
	}
	bootEngineConfigOnly()
	ss, err := writer.VerifFillColumn(filepath.Join(c03bTmp(), "seg"), vals, tss, "timestamp")
	if err != nil {
		return Result{Out: "err"}
	}
	var bf *bloom.BloomFilter
	if a[0] == "raw" {
		bf = c03bNewBloom()
		if err := ss.VerifC03bRawBloom(writer.VerifColName, bf); err != nil {
			return Result{Out: "err"}
		}
	} else {
		bf, err = ss.VerifC03bDeBloom(writer.VerifColName)
		if err != nil {
			return Result{Out: "err"}
		}
	}
	return Result{Out: "keys=" + c03bKeysIn(bf, c03bUniverse(seeds...)), Nontrivial: len(items) > 0, Tags: []string{"col:" + a[0]}}
}

var c03bCfgOnce bool

// the column filling path reads the global config (timestamp key etc.)
func bootEngineConfigOnly() {
	if !c03bCfgOnce {
		c03bCfgOnce = true
		config.InitializeTestingConfig(c03bTmp() + "/")
	}
}

func c03bProbeStr(keys map[string]bool, orig map[string]string, wild bool, op sutils.LogicalOperator) string {
	var ks, os_ []string
	for k := range keys {
		ks = append(ks, c03bShow([]byte(k)))
	}
	for k, o := range orig {
		os_ = append(os_, c03bShow([]byte(k))+":"+c03bShow([]byte(o)))
	}
	sort.Strings(ks)
	sort.Strings(os_)
	kS, oS := "none", "none"
	if len(ks) > 0 {
		kS = strings.Join(ks, ",")
	}
	if len(os_) > 0 {
		oS = strings.Join(os_, ",")
	}
	w := "0"
	if wild {
		w = "1"
	}
	opS := "and"
	if op == sutils.Or {
		opS = "or"
	}
	return fmt.Sprintf("keys=%s orig=%s wild=%s op=%s", kS, oS, w, opS)
}

// the bloom micro-indexes of one block: column m / u hold the given string values (added by the real flush-path function)
func c03bCmis(m [][]byte, mP bool, u [][]byte, uP bool) map[string]*structs.CmiContainer {
	cmis := map[string]*structs.CmiContainer{}
	mk := func(vals [][]byte) *structs.CmiContainer {
		bf := c03bNewBloom()
		buf := make([]byte, 1<<12)
		for _, v := range vals {
			if _, err := writer.VerifC03bAddWithBuf(bf, append([]byte{}, v...), buf); err != nil {
				panic(err)
			}
		}
		return &structs.CmiContainer{CmiType: sutils.CMI_BLOOM_INDEX[0], Loaded: true, Bf: bf}
	}
	if mP {
		cmis["m"] = mk(m)
	}
	if uP {
		cmis["u"] = mk(u)
	}
	return cmis
}

type c03bRec struct {
	inM bool
	val []byte
}

// runs both block-level checks of one query over one block; returns kept(rotated), kept(unrotated)
func c03bPass(sq *structs.SearchQuery, cmis map[string]*structs.CmiContainer) (bool, bool, string) {
	keys, orig, wild, bop := sq.GetAllBlockBloomKeysToSearch()
	rangeFilter, rangeOp, isRange := sq.ExtractRangeFilterFromQuery(0)
	note := ""
	if isRange {
		note = " range=1"
	}
	// rotated: RunCmiCheck → doCmiChecks
	passR := true
	if !sq.IsMatchAll() {
		colsToCheck, wildcardCol := sq.GetAllColumnsInQuery()
		delete(colsToCheck, config.GetTimeStampKey())
		smi := smeta.VerifC03bSmi(map[uint16]map[string]*structs.CmiContainer{0: cmis}, 1)
		tfb := map[uint16]map[string]bool{0: {}}
		qmeta.VerifC03bDoCmiChecks(smi, tfb, rangeFilter, rangeOp, colsToCheck, sq, isRange, wildcardCol, wild, keys, orig, bop)
		_, passR = tfb[0]
	}
	passU, err := writer.VerifC03bUnrotatedCheck(cmis, sq, keys, orig, bop, rangeFilter, rangeOp, isRange, wild)
	if err != nil {
		note += " uerr=1"
	}
	return passR, passU, note
}

func c03bBit(b bool) string {
	if b {
		return "1"
	}
	return "0"
}

func c03bCiEq(a, b []byte) bool { return string(c03bLower(a)) == string(c03bLower(b)) }

// witness class of an unsound skip, from the inputs only: needles = the phrase, or the match words, or the compared value
func c03bClass(needles [][]byte, val []byte, ci, negate, onlyUnrot bool) string {
	return c03bClassOp(needles, nil, false, val, ci, negate, onlyUnrot)
}

// orWords: the match words of the filter when its operator is Or (the record matcher then asks for ANY of them)
func c03bClassOp(needles [][]byte, words [][]byte, isOr bool, val []byte, ci, negate, onlyUnrot bool) string {
	switch {
	case negate && onlyUnrot:
		return "negated-unrotated"
	case negate:
		return "negated"
	}
	if isOr {
		for _, w := range words {
			if len(strings.Trim(string(w), " ")) == 0 {
				return "or-filter-word-without-bloom-key" // an empty / blank word: matches at record level, has no key
			}
		}
	}
	for _, n := range needles {
		if len(n) == 0 {
			return "empty-needle"
		}
	}
	for _, n := range needles {
		if bytesHasSpace(n) && !c03bCiEq(n, val) {
			return "phrase-inside-longer-value"
		}
	}
	switch {
	case ci && string(c03bLower(val)) != string(val):
		return "case-variant"
	case strings.ContainsAny(string(val), ",-/_\t"):
		return "word-delimited-by-non-space"
	}
	return "other"
}

func execC03bCheck(a []string, withBlock bool) Result {
	want := 5
	if withBlock {
		want = 7
	}
	if len(a) != want || (a[0] != "*" && a[0] != "m") || (a[1] != "=" && a[1] != "!=") {
		return Result{Out: "bad-op"}
	}
	ci, ok1 := c03bBool(a[2])
	t, ok2 := c03bBytes(a[3])
	o, ok3 := c03bBytes(a[4])
	if !ok1 || !ok2 || !ok3 {
		return Result{Out: "bad-op"}
	}
	var m, u [][]byte
	var mP, uP bool
	if withBlock {
		var okm, oku bool
		m, mP, okm = c03bList("M", a[5])
		u, uP, oku = c03bList("U", a[6])
		if !okm || !oku {
			return Result{Out: "bad-op"}
		}
	}
	star := a[0] == "*"
	tags := []string{"probe"}
	crit, err := ast.ProcessSingleFilter(a[0], string(t), string(o), a[1], false, ci, false, false, 0)
	if err != nil || len(crit) == 0 {
		out := "crit=err keys=none orig=none wild=0 op=and neg=0"
		if withBlock {
			out += " rec=err pass=err"
		}
		return Result{Out: out, Tags: append(tags, "crit:err")}
	}
	sq := structs.GetSearchQueryFromFilterCriteria(crit[0], 0)
	sq.GetQueryInfo()
	keys, orig, wild, bop := sq.GetAllBlockBloomKeysToSearch()
	cname, neg := "expr", false
	var needles [][]byte
	if sq.MatchFilter != nil {
		cname = "words"
		needles = sq.MatchFilter.MatchWords
		if sq.MatchFilter.MatchType == structs.MATCH_PHRASE {
			cname = "phrase"
			needles = [][]byte{sq.MatchFilter.MatchPhrase}
		}
		neg = sq.MatchFilter.NegateMatch
	} else if sq.QueryInfo != nil && sq.QueryInfo.QValDte != nil {
		needles = [][]byte{[]byte(sq.QueryInfo.QValDte.StringVal)}
	}
	// a quoted NUMBER against a named column is a numeric comparison (by value, kernel suite cmpk): the bloom model only
	// says WHEN that is the case (the number grammar); the record-level soundness check below still runs on the real code
	numeric := sq.MatchFilter == nil && sq.QueryInfo != nil && sq.QueryInfo.QValDte != nil && sq.QueryInfo.QValDte.IsNumeric()
	if numeric {
		cname = "number"
	}
	tags = append(tags, "crit:"+cname)
	if ci {
		tags = append(tags, "ci")
	}
	out := fmt.Sprintf("crit=%s %s neg=%s", cname, c03bProbeStr(keys, orig, wild, bop), c03bBit(neg))
	if numeric {
		out = "crit=number"
	}
	if !withBlock {
		return Result{Out: out, Tags: tags}
	}
	tags = append(tags, "check")
	cmis := c03bCmis(m, mP, u, uP)
	passR, passU, note := c03bPass(sq, cmis)
	var recs []c03bRec
	for _, v := range m {
		recs = append(recs, c03bRec{true, v})
	}
	for _, v := range u {
		recs = append(recs, c03bRec{false, v})
	}
	isWild := strings.Contains(string(t), "*")
	bitsS := ""
	holder := &sutils.DtypeEnclosure{}
	var res Result
	anyInAnswer := false
	for _, r := range recs {
		var matched, inAnswer bool
		if sq.MatchFilter != nil {
			matched, _ = writer.ApplySearchToMatchFilterRawCsg(sq.MatchFilter, c03bStrTlv(r.val), nil, ci)
			inAnswer = matched != neg
		} else if star || r.inM {
			isRegex := sq.SearchType == structs.RegexExpression || sq.SearchType == structs.RegexExpressionAllColumns
			matched, _ = writer.ApplySearchToExpressionFilterSimpleCsg(sq.QueryInfo.QValDte, sq.ExpressionFilter.FilterOp, c03bStrTlv(r.val), isRegex, holder, ci)
			inAnswer = matched
		}
		bitsS += c03bBit(matched)
		if inAnswer {
			anyInAnswer = true
			if !passR || !passU {
				cls := c03bClass(needles, r.val, ci, neg, passR && !passU)
				if len(res.Fails) == 0 {
					res.Fails = append(res.Fails, PropFail{Sig: "bloom-skip-unsound/" + cls,
						Msg: fmt.Sprintf("stored value %q satisfies the filter (%s, value %q, ci=%v, negate=%v) at record level, but the block is skipped by the bloom check (kept: rotated=%v open=%v; keys probed: %s)",
							r.val, cname, t, ci, neg, passR, passU, c03bProbeStr(keys, orig, wild, bop))})
				}
			}
		}
	}
	if len(recs) == 0 {
		bitsS = "none"
	}
	if isWild {
		bitsS = "-"
		tags = append(tags, "wildcard")
	}
	if anyInAnswer {
		tags = append(tags, "check:some-record-matches")
	}
	if !passR || !passU {
		tags = append(tags, "check:block-skipped")
	}
	res.Out = fmt.Sprintf("%s rec=%s pass=%s%s%s", out, bitsS, c03bBit(passR), c03bBit(passU), note)
	if numeric {
		res.Out = out
	}
	res.Tags = tags
	res.Nontrivial = true
	return res
}

func execC03bMf(a []string) Result {
	if len(a) != 11 || (a[0] != "and" && a[0] != "or") {
		return Result{Out: "bad-op"}
	}
	ci, ok1 := c03bBool(a[1])
	ph, ok2 := c03bBool(a[2])
	neg, ok3 := c03bBool(a[3])
	star, ok4 := c03bBool(a[4])
	w, _, ok5 := c03bList("W", a[5])
	ow, _, ok6 := c03bList("O", a[6])
	p, ok7 := c03bBytesArg("P", a[7])
	po, ok8 := c03bBytesArg("PO", a[8])
	m, mP, ok9 := c03bList("M", a[9])
	u, uP, ok10 := c03bList("U", a[10])
	if !(ok1 && ok2 && ok3 && ok4 && ok5 && ok6 && ok7 && ok8 && ok9 && ok10) {
		return Result{Out: "bad-op"}
	}
	mf := &structs.MatchFilter{MatchColumn: "m", MatchWords: w, MatchOperator: sutils.And, NegateMatch: neg}
	if star {
		mf.MatchColumn = "*"
	}
	if a[0] == "or" {
		mf.MatchOperator = sutils.Or
	}
	if len(ow) > 0 {
		mf.MatchWordsOriginal = ow
	}
	if ph {
		mf.MatchType = structs.MATCH_PHRASE
		mf.MatchPhrase = p
		if len(po) > 0 {
			mf.MatchPhraseOriginal = po
		}
	} else {
		mf.MatchType = structs.MATCH_WORDS
	}
	sq := structs.GetSearchQueryFromFilterCriteria(&structs.FilterCriteria{MatchFilter: mf, FilterIsCaseInsensitive: ci}, 0)
	sq.GetQueryInfo()
	keys, orig, wild, bop := sq.GetAllBlockBloomKeysToSearch()
	cmis := c03bCmis(m, mP, u, uP)
	passR, passU, note := c03bPass(sq, cmis)
	anyStar := ph && strings.Contains(string(p), "*")
	for _, x := range w {
		if strings.Contains(string(x), "*") {
			anyStar = true
		}
	}
	var res Result
	bitsS := ""
	n := 0
	mfNeedles := w
	if ph {
		mfNeedles = [][]byte{p}
	}
	for i, vals := range [][][]byte{m, u} {
		for _, v := range vals {
			n++
			matched := false
			if star || i == 0 {
				matched, _ = writer.ApplySearchToMatchFilterRawCsg(mf, c03bStrTlv(v), nil, ci)
			}
			bitsS += c03bBit(matched)
			inAnswer := (star || i == 0) && matched != neg
			if inAnswer && (!passR || !passU) && len(res.Fails) == 0 && !anyStar {
				cls := c03bClassOp(mfNeedles, w, a[0] == "or", v, ci, neg, passR && !passU)
				res.Fails = append(res.Fails, PropFail{Sig: "bloom-skip-unsound/" + cls,
					Msg: fmt.Sprintf("stored value %q satisfies the hand-built MatchFilter (words %q phrase %q op=%s ci=%v negate=%v) at record level, but the block is skipped by the bloom check (kept: rotated=%v open=%v; %s)",
						v, w, p, a[0], ci, neg, passR, passU, c03bProbeStr(keys, orig, wild, bop))})
			}
		}
	}
	if n == 0 {
		bitsS = "none"
	}
	if anyStar {
		bitsS = "-"
	}
	res.Out = fmt.Sprintf("%s rec=%s pass=%s%s%s", c03bProbeStr(keys, orig, wild, bop), bitsS, c03bBit(passR), c03bBit(passU), note)
	res.Tags = []string{"mf", "mf:" + a[0]}
	res.Nontrivial = true
	return res
}

func execC03bBoolCmp(a []string) Result {
	if len(a) != 4 || (a[0] != "=" && a[0] != "!=") || (a[2] != "none" && a[2] != "de") || !strings.HasPrefix(a[3], "R=") {
		return Result{Out: "bad-op"}
	}
	lit, ok1 := c03bBool(a[1])
	items, ok2 := c03bItems(a[3][2:])
	if !ok1 || !ok2 {
		return Result{Out: "bad-op"}
	}
	crit, err := ast.ProcessSingleFilter(writer.VerifColName, lit, nil, a[0], false, false, false, false, 0)
	if err != nil || len(crit) == 0 {
		return Result{Out: "err"}
	}
	sq := structs.GetSearchQueryFromFilterCriteria(crit[0], 0)
	sq.GetQueryInfo()
	keys, orig, wild, bop := sq.GetAllBlockBloomKeysToSearch()
	cmis := map[string]*structs.CmiContainer{}
	if a[2] == "de" {
		var vals []writer.VerifVal
		var tss []uint64
		for i, it := range items {
			switch it.kind {
			case 's':
				vals = append(vals, writer.VerifVal{Kind: 's', Str: append([]byte{}, it.str...)})
			case 't':
				vals = append(vals, writer.VerifVal{Kind: 'b', Bool: true})
			case 'f':
				vals = append(vals, writer.VerifVal{Kind: 'b', Bool: false})
			case 'i':
				vals = append(vals, writer.VerifVal{Kind: 'i', I: 0})
			default:
				vals = append(vals, writer.VerifVal{Kind: 'z'})
			}
			tss = append(tss, uint64(1700000000000+i))
		}
		bootEngineConfigOnly()
		ss, err := writer.VerifFillColumn(filepath.Join(c03bTmp(), "seg"), vals, tss, "timestamp")
		if err != nil {
			return Result{Out: "err"}
		}
		bf, err := ss.VerifC03bDeBloom(writer.VerifColName)
		if err != nil {
			return Result{Out: "err"}
		}
		if bf != nil {
			cmis[writer.VerifColName] = &structs.CmiContainer{CmiType: sutils.CMI_BLOOM_INDEX[0], Loaded: true, Bf: bf}
		}
	}
	passR, passU, note := c03bPass(sq, cmis)
	holder := &sutils.DtypeEnclosure{}
	var res Result
	bitsS := ""
	for _, it := range items {
		m, err := writer.ApplySearchToExpressionFilterSimpleCsg(sq.QueryInfo.QValDte, sq.ExpressionFilter.FilterOp, it.tlv(), false, holder, false)
		if err != nil {
			bitsS += "E"
			if len(res.Fails) == 0 {
				res.Fails = append(res.Fails, PropFail{Sig: "bool-filter-error/non-bool-record", Msg: fmt.Sprintf("boolean comparison %s %v on a record of kind %c returns the error %q: the dictionary word loop / the record loop of the block stops there and the answer depends on the order of the dictionary words", a[0], lit, it.kind, err)})
			}
			continue
		}
		bitsS += c03bBit(m)
		if m && (!passR || !passU) && len(res.Fails) == 0 {
			res.Fails = append(res.Fails, PropFail{Sig: "bloom-skip-unsound/bool-value", Msg: fmt.Sprintf("a boolean record satisfies %s %v, but the block is skipped by the bloom check (kept: rotated=%v open=%v; column micro-index: %s; %s)", a[0], lit, passR, passU, a[2], c03bProbeStr(keys, orig, wild, bop))})
		}
	}
	if len(items) == 0 {
		bitsS = "none"
	}
	res.Out = fmt.Sprintf("%s rec=%s pass=%s%s%s", c03bProbeStr(keys, orig, wild, bop), bitsS, c03bBit(passR), c03bBit(passU), note)
	res.Tags = []string{"bool", "bool:" + a[2]}
	res.Nontrivial = len(items) > 0
	return res
}

func execC03bDict(a []string) Result {
	if len(a) != 6 || (a[0] != "and" && a[0] != "or") || !strings.HasPrefix(a[5], "R=") {
		return Result{Out: "bad-op"}
	}
	ci, ok1 := c03bBool(a[1])
	ph, ok2 := c03bBool(a[2])
	w, _, ok3 := c03bList("W", a[3])
	p, ok4 := c03bBytesArg("P", a[4])
	items, ok5 := c03bItems(a[5][2:])
	if !(ok1 && ok2 && ok3 && ok4 && ok5) {
		return Result{Out: "bad-op"}
	}
	mf := &structs.MatchFilter{MatchColumn: "c", MatchWords: w, MatchOperator: sutils.And, MatchType: structs.MATCH_WORDS}
	if a[0] == "or" {
		mf.MatchOperator = sutils.Or
	}
	if ph {
		mf.MatchType = structs.MATCH_PHRASE
		mf.MatchPhrase = p
	}
	anyStar := ph && strings.Contains(string(p), "*")
	for _, x := range w {
		if strings.Contains(string(x), "*") {
			anyStar = true
		}
	}
	if anyStar {
		return Result{Out: "wildcard", Tags: []string{"dict:wildcard"}}
	}
	rc := len(items)
	deMap := map[string][]uint16{}
	for i, it := range items {
		k := string(it.tlv())
		deMap[k] = append(deMap[k], uint16(i))
	}
	cw := writer.InitColWip(filepath.Join(c03bTmp(), "seg"), "c")
	cw.SetDeDataForTest(uint16(len(deMap)), deMap)
	writer.PackDictEnc(cw, uint16(rc))
	packed, _ := cw.GetBufAndIdx()
	packed = append([]byte{}, packed...)
	sfr, _ := segreader.InitNewSegFileReader(nil, "c", nil, 0, []*structs.BlockSummary{{RecCount: uint16(rc)}}, sutils.INCONSISTENT_CVAL_SIZE, nil)
	if err := sfr.ReadDictEnc(packed, 0); err != nil {
		return Result{Out: "err"}
	}
	sfr.VerifSetEncType(sutils.ZSTD_DICTIONARY_BLOCK[0])
	bsh := structs.InitBlockSearchHelper()
	if _, err := segread.ApplySearchToMatchFilterDictCsg(sfr, mf, bsh, ci); err != nil {
		return Result{Out: "err"}
	}
	dictBits, recBits := "", ""
	var res Result
	for i, it := range items {
		d := bsh.DoesRecordMatch(uint(i))
		rec, err := sfr.ReadRecord(uint16(i))
		var r bool
		if err == nil {
			r, _ = writer.ApplySearchToMatchFilterRawCsg(mf, rec, nil, ci)
		}
		plain, _ := writer.ApplySearchToMatchFilterRawCsg(mf, it.tlv(), nil, ci)
		dictBits += c03bBit(d)
		recBits += c03bBit(r)
		if len(res.Fails) == 0 {
			kind := map[byte]string{'s': "string", 't': "bool", 'f': "bool", 'i': "number", 'z': "null"}[it.kind]
			if r != plain {
				res.Fails = append(res.Fails, PropFail{Sig: "dict-search/readback-" + kind, Msg: fmt.Sprintf("record %d read through the dictionary matches=%v, its plain encoding matches=%v", i, r, plain)})
			} else if d != r && len(w) > 0 {
				// (a filter without words is degenerate: dictionary path nothing, per-record path everything; see Props/C03)
				res.Fails = append(res.Fails, PropFail{Sig: "dict-search/" + kind, Msg: fmt.Sprintf("record %d (%s %q): dictionary search selects=%v, per-record search selects=%v (words %q phrase %q op=%s ci=%v)", i, kind, it.str, d, r, w, p, a[0], ci)})
			}
		}
	}
	if rc == 0 {
		dictBits, recBits = "none", "none"
	}
	res.Out = "dict=" + dictBits + " rec=" + recBits
	res.Tags = []string{"dict", "dict:" + a[0]}
	if len(w) == 0 {
		res.Tags = append(res.Tags, "dict:no-words")
	}
	res.Nontrivial = rc > 0
	return res
}

// ---------------------------------------------------------------- generators

var c03bVocab = []string{"foo", "bar", "Foo", "BAR", "fOO", "x", "y", "zzz", "a,b", "k-v", "p/q", "u_v", "t\tb", "日本", "é", "É", "Straße",
	"123", "1.5", "true", "GET", "err", "Error", "ab", "abc", "b"}

func c03bGenValue(r *rand.Rand) []byte {
	n := r.Intn(6)
	if n == 0 {
		if r.Intn(3) == 0 {
			return []byte{}
		}
		n = 1
	}
	var sb strings.Builder
	if r.Intn(8) == 0 {
		sb.WriteString(" ")
	}
	for i := 0; i < n; i++ {
		if i > 0 {
			switch r.Intn(12) {
			case 0:
				sb.WriteString("  ")
			case 1:
				sb.WriteString(",")
			case 2:
				sb.WriteString("-")
			case 3:
				sb.WriteString("\t")
			case 4:
				sb.WriteString(" - ")
			default:
				sb.WriteString(" ")
			}
		}
		sb.WriteString(c03bVocab[r.Intn(len(c03bVocab))])
	}
	if r.Intn(8) == 0 {
		sb.WriteString(" ")
	}
	return []byte(sb.String())
}

func c03bCaseVariant(r *rand.Rand, s string) string {
	switch r.Intn(4) {
	case 0:
		return strings.ToUpper(s)
	case 1:
		return strings.ToLower(s)
	case 2:
		b := []byte(s)
		for i := range b {
			if r.Intn(2) == 0 && b[i] >= 'a' && b[i] <= 'z' {
				b[i] -= 32
			}
		}
		return string(b)
	}
	return s
}

// a needle derived from the stored values: a token, a token range (inner / prefix / suffix / whole), a foreign word
func c03bGenNeedle(r *rand.Rand, vals [][]byte) (string, bool) {
	if len(vals) == 0 || r.Intn(8) == 0 {
		return c03bVocab[r.Intn(len(c03bVocab))], false
	}
	v := string(vals[r.Intn(len(vals))])
	toks := strings.Split(v, " ")
	multi := false
	var s string
	switch r.Intn(6) {
	case 0:
		s = v // whole value
		multi = len(toks) > 1
	case 1, 2:
		s = toks[r.Intn(len(toks))]
	default:
		i := r.Intn(len(toks))
		j := i + 1 + r.Intn(len(toks)-i)
		s = strings.Join(toks[i:j], " ")
		multi = j-i > 1
	}
	if r.Intn(3) == 0 {
		s = c03bCaseVariant(r, s)
	}
	if r.Intn(14) == 0 && len(s) > 1 {
		k := 1 + r.Intn(len(s)-1)
		if utf8.ValidString(s[:k]) {
			s = s[:k] + "*"
		}
	}
	if r.Intn(25) == 0 {
		s = s + "\u00a0" // no-break space: trimmed by strings.TrimSpace
	}
	return s, multi
}

func c03bListStr(key string, vals [][]byte, present bool) string {
	if !present {
		return key + "=-"
	}
	var it []string
	for _, v := range vals {
		if len(v) == 0 {
			it = append(it, "e")
		} else {
			it = append(it, hex.EncodeToString(v))
		}
	}
	if len(it) == 0 {
		return key + "=-"
	}
	return key + "=" + strings.Join(it, ";")
}

func c03bGenBlock(r *rand.Rand) (m [][]byte, u [][]byte, uP bool) {
	for i, n := 0, 1+r.Intn(4); i < n; i++ {
		m = append(m, c03bGenValue(r))
	}
	if r.Intn(3) == 0 {
		uP = true
		for i, n := 0, 1+r.Intn(3); i < n; i++ {
			u = append(u, c03bGenValue(r))
		}
	}
	return
}

func c03bGenCheck(r *rand.Rand, withBlock bool) string {
	m, u, uP := c03bGenBlock(r)
	all := append(append([][]byte{}, m...), u...)
	needle, multi := c03bGenNeedle(r, all)
	col := "*"
	if r.Intn(4) == 0 {
		col = "m"
	}
	op := "="
	if r.Intn(7) == 0 {
		op = "!="
	}
	quoted := multi || strings.ContainsAny(needle, " \t") || r.Intn(5) == 0
	if col == "*" && !quoted && needle == "" {
		quoted = true
	}
	o := needle
	if quoted {
		o = "\"" + needle + "\""
	}
	ci := r.Intn(4) != 0
	t := o
	if ci {
		t = strings.ToLower(o) // what the SPL grammar does for a string that is not wrapped in CASE()
	}
	pre := "bloom probe"
	if withBlock {
		pre = "bloom check"
	}
	line := fmt.Sprintf("%s %s %s %s %s %s", pre, col, op, c03bBit(ci), c03bShow([]byte(t)), c03bShow([]byte(o)))
	if withBlock {
		line += " " + c03bListStr("M", m, true) + " " + c03bListStr("U", u, uP)
	}
	return line
}

func c03bGenMf(r *rand.Rand) string {
	m, u, uP := c03bGenBlock(r)
	all := append(append([][]byte{}, m...), u...)
	op := "and"
	if r.Intn(2) == 0 {
		op = "or"
	}
	ci := r.Intn(2) == 0
	ph := r.Intn(4) == 0
	neg := r.Intn(8) == 0
	star := r.Intn(3) != 0
	var w, ow [][]byte
	var p, po []byte
	if ph {
		s, _ := c03bGenNeedle(r, all)
		o := s
		if ci {
			s = strings.ToLower(s)
		}
		p = []byte(s)
		for _, x := range strings.Split(s, " ") {
			w = append(w, []byte(x))
		}
		if ci && r.Intn(2) == 0 {
			po = []byte(o)
		}
	} else {
		for i, n := 0, r.Intn(4); i < n; i++ {
			s, _ := c03bGenNeedle(r, all)
			if strings.ContainsAny(s, " ") && r.Intn(4) != 0 {
				s = strings.Split(s, " ")[0]
			}
			o := s
			if ci {
				s = strings.ToLower(s)
			}
			if s == "" {
				continue
			}
			w = append(w, []byte(s))
			ow = append(ow, []byte(o))
		}
		if !ci || r.Intn(2) == 0 {
			ow = nil
		}
		if r.Intn(8) == 0 { // a word without bloom key: empty (two spaces in a row in a multi_match phrase) or blank (a terms entry)
			w = append(w, [][]byte{{}, []byte(" "), []byte("  ")}[r.Intn(3)])
			ow = nil
		}
	}
	return fmt.Sprintf("bloom mf %s %s %s %s %s %s %s P=%s PO=%s %s %s", op, c03bBit(ci), c03bBit(ph), c03bBit(neg), c03bBit(star),
		c03bListStr("W", w, true), c03bListStr("O", ow, true), c03bShow(p), c03bShow(po), c03bListStr("M", m, true), c03bListStr("U", u, uP))
}

func c03bGenItems(r *rand.Rand, n int) (string, [][]byte) {
	var it []string
	var strs [][]byte
	pool := [][]byte{c03bGenValue(r), c03bGenValue(r), c03bGenValue(r)}
	for i := 0; i < n; i++ {
		switch r.Intn(10) {
		case 0:
			it = append(it, "t")
		case 1:
			it = append(it, "f")
		case 2:
			it = append(it, "i")
		case 3:
			it = append(it, "z")
		default:
			v := pool[r.Intn(len(pool))]
			strs = append(strs, v)
			it = append(it, "s"+hex.EncodeToString(v))
		}
	}
	if len(it) == 0 {
		return "-", nil
	}
	return strings.Join(it, ","), strs
}

func c03bGenDict(r *rand.Rand) string {
	items, strs := c03bGenItems(r, 1+r.Intn(8))
	op := "and"
	if r.Intn(2) == 0 {
		op = "or"
	}
	ci := r.Intn(2) == 0
	ph := r.Intn(4) == 0
	var w [][]byte
	var p []byte
	if ph {
		s, _ := c03bGenNeedle(r, strs)
		if ci {
			s = strings.ToLower(s)
		}
		p = []byte(s)
		for _, x := range strings.Split(s, " ") {
			w = append(w, []byte(x))
		}
	} else {
		for i, n := 0, r.Intn(3); i < n; i++ {
			s, _ := c03bGenNeedle(r, strs)
			if ci {
				s = strings.ToLower(s)
			}
			if s != "" {
				w = append(w, []byte(s))
			}
		}
	}
	return fmt.Sprintf("dict %s %s %s %s P=%s R=%s", op, c03bBit(ci), c03bBit(ph), c03bListStr("W", w, true), c03bShow(p), items)
}

func genBloom(r *rand.Rand, n int, tier string) []string {
	out := []string{
		// the phrase counterexample of Props/C03 and its neighbours
		"bloom check * = 1 " + hex.EncodeToString([]byte(`"foo bar"`)) + " " + hex.EncodeToString([]byte(`"foo bar"`)) + " M=" + hex.EncodeToString([]byte("x foo bar y")) + " U=-",
		"bloom check * = 1 " + hex.EncodeToString([]byte(`"bar y"`)) + " " + hex.EncodeToString([]byte(`"bar y"`)) + " M=" + hex.EncodeToString([]byte("x foo bar y")) + " U=-",
		"bloom check * = 1 " + hex.EncodeToString([]byte(`"x foo bar y"`)) + " " + hex.EncodeToString([]byte(`"x foo bar y"`)) + " M=" + hex.EncodeToString([]byte("x foo bar y")) + " U=-",
		"bloom check * = 1 " + hex.EncodeToString([]byte(`foo`)) + " " + hex.EncodeToString([]byte(`Foo`)) + " M=" + hex.EncodeToString([]byte("x FOO bar y")) + " U=-",
		"bloom check * != 1 " + hex.EncodeToString([]byte(`zzz`)) + " " + hex.EncodeToString([]byte(`zzz`)) + " M=" + hex.EncodeToString([]byte("ccc")) + ";" + hex.EncodeToString([]byte("ddd")) + " U=-",
		"bloom addip " + hex.EncodeToString([]byte("Foo Bar")),
		"bloom bool = 1 none R=t,f,z",
		"bloom bool = 0 de R=t,f,z",
	}
	for len(out) < n {
		switch k := r.Intn(100); {
		case k < 12:
			v := c03bGenValue(r)
			if r.Intn(10) == 0 {
				v = make([]byte, r.Intn(12))
				r.Read(v)
			}
			out = append(out, "bloom add "+c03bShow(v))
		case k < 17:
			out = append(out, "bloom addip "+c03bShow(c03bGenValue(r)))
		case k < 24:
			items, _ := c03bGenItems(r, r.Intn(7))
			mode := "raw"
			if r.Intn(2) == 0 {
				mode = "de"
			}
			out = append(out, "bloom col "+mode+" "+items)
		case k < 30:
			out = append(out, c03bGenCheck(r, false))
		case k < 66:
			out = append(out, c03bGenCheck(r, true))
		case k < 82:
			out = append(out, c03bGenMf(r))
		case k < 93:
			out = append(out, c03bGenDict(r))
		case k < 97:
			var it []string
			for i, n := 0, r.Intn(6); i < n; i++ {
				it = append(it, []string{"t", "f", "t", "f", "z", "i", "s74727565"}[r.Intn(7)])
			}
			items := "-"
			if len(it) > 0 {
				items = strings.Join(it, ",")
			}
			out = append(out, fmt.Sprintf("bloom bool %s %d %s R=%s", []string{"=", "=", "!="}[r.Intn(3)], r.Intn(2), []string{"none", "de"}[r.Intn(2)], items))
		default: // malformed
			bad := []string{"bloom", "bloom add", "bloom add zz", "bloom add 0", "bloom check * = 1 66", "bloom check q = 1 66 66 M=- U=-",
				"bloom check * == 1 66 66 M=- U=-", "bloom check * = 2 66 66 M=- U=-", "bloom check * = 1 66 66 M=;; U=-", "bloom col xx s61",
				"bloom col raw q", "bloom mf and 1 0 0 1 W=61", "dict and 0 0 W=61 P=- X=s61", "dict xor 0 0 W=61 P=- R=s61", "bloom frob 1", "bloom bool = 2 none R=t", "bloom bool = 1 xx R=t", "bloom bool = 1 none"}
			out = append(out, bad[r.Intn(len(bad))])
		}
	}
	return out
}
