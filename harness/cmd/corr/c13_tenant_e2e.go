package main

import (
	"bufio"
	"bytes"
	"encoding/hex"
	"encoding/json"
	"fmt"
	"math/rand"
	"os"
	"os/exec"
	"sort"
	"strconv"
	"strings"
	"time"

	"github.com/siglens/siglens/pkg/ast/pipesearch"
	eswriter "github.com/siglens/siglens/pkg/es/writer"
	"github.com/siglens/siglens/pkg/segment/writer"
)

// suite "tenant_e2e" (C13): tenant / index isolation END TO END, one engine process per case.
//
//	tn e2e <k> I=<org:index:count,…> Q=<org:expr,…>   → r0=<ids> r1=<ids> …
//
// The I entries are ingested in order through the real Elasticsearch bulk entry point
// (eswriter.HandleBulkBody with the organisation of the entry), every document carrying the markers
// morg / midx / mid (mid = 1,2,… in ingest order). After the first k entries the segments are flushed and
// ROTATED, after the last entry flushed (so the first part is searched as rotated, the rest as unrotated
// segments). Then every query (organisation, index expression, search `*`) runs through the real
// pipesearch.ParseAndExecutePipeRequest. The answer lists the mids returned per query.
func init() {
	register(&Suite{Name: "tenant_e2e", Gen: genTenantE2E, Exec: execTenantE2E, Parallel: 4,
		Rule: "2-4 organisations (multi-digit ids) × 2-5 index names per case, built so that decimal org id followed by index name coincide across organisations (org 1 / 0app vs org 10 / app), plus prefix-related and shared names; 1-3 records per (org,index) entry, entries repeated before and after a rotation; per organisation the queries *, each own / foreign name, wildcards; non-trivial = ≥ 2 organisations"})
}

// ---------------------------------------------------------------- worker (corr tnworker run)
//
//	bulk <org> <hex body>      HandleBulkBody for that organisation; prints nothing
//	flush | rotate
//	q <org> <hex index expr>   search `*` over everything; prints {"recs":[[morg,midx,mid],…],"err":""}
func tnWorkerMain() {
	dir := bootEngine()
	defer os.RemoveAll(dir)
	in := bufio.NewScanner(os.Stdin)
	in.Buffer(make([]byte, 1<<20), 1<<26)
	out := bufio.NewWriter(os.Stdout)
	defer out.Flush()
	qid := uint64(1)
	for in.Scan() {
		f := strings.Fields(in.Text())
		if len(f) == 0 {
			continue
		}
		switch f[0] {
		case "bulk":
			org, _ := strconv.ParseInt(f[1], 10, 64)
			body, _ := hex.DecodeString(f[2])
			_, resp, err := eswriter.HandleBulkBody(body, nil, 0, org, false)
			if e, _ := resp["errors"].(bool); e || err != nil {
				fmt.Fprintf(out, "{\"ingesterr\":%q}\n", fmt.Sprint(err, resp["items"]))
				out.Flush()
			}
		case "flush":
			z := time.Duration(0)
			writer.FlushWipBufferToFile(&z, &z)
		case "rotate":
			writer.ForceRotateSegmentsForTest()
		case "q":
			org, _ := strconv.ParseInt(f[1], 10, 64)
			expr := ""
			if f[2] != "-" {
				b, _ := hex.DecodeString(f[2])
				expr = string(b)
			}
			body := map[string]interface{}{
				"searchText": "*", "startEpoch": float64(1), "endEpoch": float64(time.Now().Add(24 * time.Hour).UnixMilli()),
				"indexName": expr, "queryLanguage": "Splunk QL", "size": float64(1000), "from": float64(0),
			}
			qid++
			resp, _, _, err := pipesearch.ParseAndExecutePipeRequest(body, qid, org, time.Now(), "", nil)
			res := map[string]interface{}{"err": ""}
			recs := [][]interface{}{}
			if err != nil {
				res["err"] = err.Error()
			} else if resp != nil {
				for _, h := range resp.Hits.Hits {
					recs = append(recs, []interface{}{h["morg"], h["midx"], h["mid"]})
				}
			}
			res["recs"] = recs
			b, _ := json.Marshal(res)
			out.Write(b)
			out.WriteByte('\n')
			out.Flush()
		}
	}
}

// ---------------------------------------------------------------- exec

type tnIngest struct {
	org   int64
	index string
	count int
}

type tnQuery struct {
	org  int64
	expr string
}

func tnE2EOrg(s string) (int64, bool) {
	n, ok := tnNat(s)
	if !ok || n > 100000 {
		return 0, false
	}
	return int64(n), true
}

func tnE2EIdxOk(s string) bool {
	if !tnIdxOk(s) {
		return false
	}
	for i := 0; i < len(s); i++ {
		if !(tnAlnum(s[i]) || s[i] == '.' || s[i] == '_' || s[i] == '-') {
			return false
		}
	}
	return true
}

func execTenantE2E(line string) Result {
	f := strings.Fields(line)
	if len(f) != 5 || f[0] != "tn" || f[1] != "e2e" {
		return Result{Out: "bad-op"}
	}
	k64, ok0 := tnNat(f[2])
	il, ok1 := tnList("I", f[3])
	ql, ok2 := tnList("Q", f[4])
	if !(ok0 && ok1 && ok2) || len(il) > 12 || len(ql) > 16 || int(k64) > len(il) {
		return Result{Out: "bad-op"}
	}
	k := int(k64)
	var ings []tnIngest
	for _, s := range il {
		p := strings.Split(s, ":")
		if len(p) != 3 {
			return Result{Out: "bad-op"}
		}
		o, oka := tnE2EOrg(p[0])
		n, okb := tnUnhex(p[1])
		c, okc := tnNat(p[2])
		if !(oka && okb && okc) || !tnE2EIdxOk(n) || c < 1 || c > 8 {
			return Result{Out: "bad-op"}
		}
		ings = append(ings, tnIngest{o, n, int(c)})
	}
	var qs []tnQuery
	for _, s := range ql {
		p := strings.Split(s, ":")
		if len(p) != 2 {
			return Result{Out: "bad-op"}
		}
		o, oka := tnE2EOrg(p[0])
		e, okb := tnUnhex(p[1])
		if !(oka && okb) || !tnExprInFragment(e) {
			return Result{Out: "bad-op"}
		}
		qs = append(qs, tnQuery{o, e})
	}

	// ---- script for the worker
	type rec struct {
		id    int
		org   int64
		index string
	}
	var recs []rec
	var in bytes.Buffer
	next := 1
	for i, g := range ings {
		if i == k && k > 0 {
			in.WriteString("flush\nrotate\n")
		}
		var body strings.Builder
		for j := 0; j < g.count; j++ {
			ix, _ := json.Marshal(g.index)
			fmt.Fprintf(&body, "{\"index\":{\"_index\":%s}}\n{\"morg\":%d,\"midx\":%s,\"mid\":%d,\"msg\":\"rec %d\"}\n", ix, g.org, ix, next, next)
			recs = append(recs, rec{next, g.org, g.index})
			next++
		}
		fmt.Fprintf(&in, "bulk %d %s\n", g.org, hex.EncodeToString([]byte(body.String())))
	}
	if k == len(ings) && k > 0 {
		in.WriteString("flush\nrotate\n")
	}
	in.WriteString("flush\n")
	for _, q := range qs {
		fmt.Fprintf(&in, "q %d %s\n", q.org, tnHex(q.expr))
	}

	cmd := exec.Command(os.Args[0], "tnworker", "run")
	cmd.Stdin = &in
	var stdout, stderr bytes.Buffer
	cmd.Stdout = &stdout
	cmd.Stderr = &stderr
	cmd.Env = append(os.Environ(), "GOMEMLIMIT=2GiB", "GOMAXPROCS=4")
	if err := cmd.Start(); err != nil {
		return Result{Out: "worker-start-failed"}
	}
	done := make(chan error, 1)
	go func() { done <- cmd.Wait() }()
	var werr error
	select {
	case werr = <-done:
	case <-time.After(120 * time.Second):
		cmd.Process.Kill()
		<-done
		return Result{Out: "worker-timeout", Fails: []PropFail{{Sig: "e2e-worker/timeout", Msg: "engine worker did not finish within 120 s"}}, Nontrivial: true}
	}
	var answers []string
	for _, l := range strings.Split(strings.TrimSpace(stdout.String()), "\n") {
		if strings.HasPrefix(l, `{"ingesterr"`) {
			return Result{Out: "ingest-error", Fails: []PropFail{{Sig: "e2e-worker/ingest-error", Msg: trunc(l, 300)}}, Nontrivial: true}
		}
		if strings.HasPrefix(l, "{") {
			answers = append(answers, l)
		}
	}
	if werr != nil || len(answers) != len(qs) {
		return Result{Out: fmt.Sprintf("worker-died err=%v answers=%d/%d", werr, len(answers), len(qs)),
			Fails: []PropFail{{Sig: "e2e-worker/crash", Msg: fmt.Sprintf("engine worker exited abnormally (%v) after %d of %d answers: %s", werr, len(answers), len(qs), trunc(stderr.String(), 400))}}, Nontrivial: true}
	}

	// ---- answers and the property itself
	res := Result{}
	var toks []string
	orgs := map[int64]bool{}
	for _, g := range ings {
		orgs[g.org] = true
	}
	for qi, q := range qs {
		var a struct {
			Recs [][]interface{} `json:"recs"`
			Err  string          `json:"err"`
		}
		dec := json.NewDecoder(strings.NewReader(answers[qi]))
		dec.UseNumber()
		if err := dec.Decode(&a); err != nil || a.Err != "" {
			toks = append(toks, fmt.Sprintf("r%d=error", qi))
			continue
		}
		stripped := tnStrip(q.expr)
		elems := strings.Split(stripped, ",")
		named := func(idx string) bool {
			if stripped == "*" {
				return true
			}
			for _, e := range elems {
				if tnGlob(e, idx) {
					return true
				}
			}
			return false
		}
		got := map[int]bool{}
		var ids []int
		for _, r := range a.Recs {
			mid := -1
			if len(r) == 3 {
				if n, ok := r[2].(json.Number); ok {
					if v, err := strconv.Atoi(n.String()); err == nil {
						mid = v
					}
				}
			}
			if mid < 1 || mid > len(recs) {
				res.Fails = append(res.Fails, PropFail{Sig: "isolation/unknown-record-returned", Msg: fmt.Sprintf("query of org %d over %q returned a record without a known marker: %v", q.org, q.expr, r)})
				continue
			}
			if got[mid] {
				res.Fails = append(res.Fails, PropFail{Sig: "isolation/record-returned-twice", Msg: fmt.Sprintf("query of org %d over %q returned record %d twice", q.org, q.expr, mid)})
				continue
			}
			got[mid] = true
			ids = append(ids, mid)
			rc := recs[mid-1]
			// the markers in the returned record are those it was ingested with
			morg, _ := r[0].(json.Number)
			midx, _ := r[1].(string)
			if morg.String() != strconv.FormatInt(rc.org, 10) || midx != rc.index {
				res.Fails = append(res.Fails, PropFail{Sig: "isolation/record-markers-altered", Msg: fmt.Sprintf("record %d came back with markers (%v,%q), ingested with (%d,%q)", mid, morg, midx, rc.org, rc.index)})
			}
			if rc.org != q.org {
				res.Fails = append(res.Fails, PropFail{Sig: "isolation/other-org-record-returned", Msg: fmt.Sprintf("query of org %d over %q returned record %d of org %d (index %q)", q.org, q.expr, mid, rc.org, rc.index)})
			} else if !named(rc.index) {
				res.Fails = append(res.Fails, PropFail{Sig: "isolation/other-index-record-returned", Msg: fmt.Sprintf("query of org %d over %q returned record %d of index %q, which the expression does not name", q.org, q.expr, mid, rc.index)})
			}
		}
		for _, rc := range recs {
			if rc.org == q.org && named(rc.index) && !got[rc.id] {
				res.Fails = append(res.Fails, PropFail{Sig: "isolation/own-record-missing", Msg: fmt.Sprintf("query of org %d over %q did not return its own record %d (index %q)", q.org, q.expr, rc.id, rc.index)})
			}
		}
		sort.Ints(ids)
		ss := make([]string, len(ids))
		for i, v := range ids {
			ss[i] = strconv.Itoa(v)
		}
		toks = append(toks, fmt.Sprintf("r%d=%s", qi, strings.Join(ss, ",")))
	}
	res.Out = strings.Join(toks, " ")
	res.Nontrivial = len(orgs) >= 2
	res.Tags = append(res.Tags, fmt.Sprintf("e2e:orgs=%d", len(orgs)))
	if k > 0 && k < len(ings) {
		res.Tags = append(res.Tags, "e2e:rotated+unrotated")
	} else if k > 0 {
		res.Tags = append(res.Tags, "e2e:rotated")
	} else {
		res.Tags = append(res.Tags, "e2e:unrotated")
	}
	return res
}

// ---------------------------------------------------------------- generator

// (org, index) pairs whose "<decimal org><index>" strings coincide: all ways of cutting the digits of a
// multi-digit organisation id between organisation and index name
func tnConcatFamily(r *rand.Rand) []tnIngest {
	digits := []string{"10", "12", "21", "117", "101", "230"}[r.Intn(6)]
	base := []string{"app", "-logs", "7-logs", "x", ".d", "logs"}[r.Intn(6)]
	var fam []tnIngest
	for cut := 1; cut <= len(digits); cut++ {
		if digits[cut-1] == '0' && cut > 1 && digits[0] == '0' {
			continue
		}
		o, _ := strconv.ParseInt(digits[:cut], 10, 64)
		if strconv.FormatInt(o, 10) != digits[:cut] {
			continue
		}
		idx := digits[cut:] + base
		if !tnE2EIdxOk(idx) {
			continue
		}
		fam = append(fam, tnIngest{o, idx, 0})
	}
	return fam
}

func genTenantE2E(r *rand.Rand, n int, tier string) []string {
	var out []string
	for c := 0; c < n; c++ {
		var pairs []tnIngest
		switch r.Intn(4) {
		case 0, 1, 2:
			pairs = tnConcatFamily(r)
		}
		// prefix-related and shared names over the same / other organisations
		orgPool := []int64{1, 2, 10, 12, 21}
		for _, p := range pairs {
			orgPool = append(orgPool, p.org)
		}
		names := []string{"app", "app2", "0app", "logs", "logs.2024", "logsX2024", "7-logs", "17-logs", "x"}
		for i, m := 0, 1+r.Intn(3); i < m; i++ {
			nm := names[r.Intn(len(names))]
			if len(pairs) > 0 && r.Intn(2) == 0 {
				nm = pairs[r.Intn(len(pairs))].index
				if r.Intn(2) == 0 {
					nm += "2"
				}
			}
			pairs = append(pairs, tnIngest{orgPool[r.Intn(len(orgPool))], nm, 0})
		}
		// ingest entries: every pair once or twice, shuffled; rotation somewhere in between
		var ings []tnIngest
		for _, p := range pairs {
			reps := 1 + r.Intn(2)
			for j := 0; j < reps; j++ {
				ings = append(ings, tnIngest{p.org, p.index, 1 + r.Intn(3)})
			}
		}
		r.Shuffle(len(ings), func(i, j int) { ings[i], ings[j] = ings[j], ings[i] })
		if len(ings) > 12 {
			ings = ings[:12]
		}
		k := r.Intn(len(ings) + 1)
		// queries
		orgSet := map[int64]bool{}
		for _, g := range ings {
			orgSet[g.org] = true
		}
		var orgs []int64
		for o := range orgSet {
			orgs = append(orgs, o)
		}
		sort.Slice(orgs, func(i, j int) bool { return orgs[i] < orgs[j] })
		var qs []string
		for _, o := range orgs {
			qs = append(qs, fmt.Sprintf("%d:%s", o, tnHex("*")))
		}
		for len(qs) < 12 {
			o := orgs[r.Intn(len(orgs))]
			g := ings[r.Intn(len(ings))]
			var e string
			switch r.Intn(5) {
			case 0, 1:
				e = g.index
			case 2:
				e = tnWildFrom(r, g.index)
			case 3:
				e = g.index + "," + ings[r.Intn(len(ings))].index
			default:
				e = []string{"*app", "*logs", "*7-logs", "logs*", "app*", "0*", "1*", "*2"}[r.Intn(8)]
			}
			if !tnExprInFragment(e) {
				e = "*"
			}
			qs = append(qs, fmt.Sprintf("%d:%s", o, tnHex(e)))
		}
		var is []string
		for _, g := range ings {
			is = append(is, fmt.Sprintf("%d:%s:%d", g.org, tnHex(g.index), g.count))
		}
		out = append(out, fmt.Sprintf("tn e2e %d I=%s Q=%s", k, strings.Join(is, ","), strings.Join(qs, ",")))
	}
	return out
}

func init() { registerWorker("tnworker", tnWorkerMain) }
