// C19 — end-to-end confinement: the WORKER side of suite "confine" (see c19_confine.go).
//
//	corr c19eworker <sandbox root> <ingest port> <query port>
//
// The worker IS a siglens server: it writes a server.yaml into its working directory (<root>/…/inst), and runs the
// real cmd/startup.Main() (configuration file → derived config → log file → StartSiglensServer: both HTTP servers with
// the real routers, all background loops).  It then reads one request description per line on stdin (JSON), performs
// it either
//
//	level R: as raw bytes over TCP to the real ingest/query server (real fasthttp parsing, real router, real
//	         middleware; the request line is sent exactly as given, nothing is normalised by a client library), or
//	level H: by calling the exported handler function the route is bound to, with a RequestCtx whose user values
//	         are set directly (what a unit test of the handler does),
//
// optionally followed by the flush calls of ShutdownSiglensServer (segments, metrics blocks + tags trees, alias map,
// scroll files) so that deferred file writes happen NOW and can be attributed to the request, and answers with one
// JSON line (status code, start of the response body).  It never looks at the file system itself: the parent does.
package main

import (
	"bufio"
	"bytes"
	"encoding/json"
	"fmt"
	"io"
	"net"
	"os"
	"regexp"
	"strconv"
	"strings"
	"time"

	"github.com/siglens/siglens/cmd/startup"
	"github.com/siglens/siglens/pkg/config"
	"github.com/siglens/siglens/pkg/dashboards"
	esreader "github.com/siglens/siglens/pkg/es/reader"
	eswriter "github.com/siglens/siglens/pkg/es/writer"
	otsdbquery "github.com/siglens/siglens/pkg/integrations/otsdb/query"
	otsdbwriter "github.com/siglens/siglens/pkg/integrations/otsdb/writer"
	prometheuswriter "github.com/siglens/siglens/pkg/integrations/prometheus/ingest"
	"github.com/siglens/siglens/pkg/integrations/prometheus/promql"
	"github.com/siglens/siglens/pkg/lookups"
	"github.com/siglens/siglens/pkg/otlp"
	"github.com/siglens/siglens/pkg/scroll"
	"github.com/siglens/siglens/pkg/segment/writer"
	"github.com/siglens/siglens/pkg/segment/writer/metrics"
	usq "github.com/siglens/siglens/pkg/usersavedqueries"
	vtable "github.com/siglens/siglens/pkg/virtualtable"
	"github.com/valyala/fasthttp"
)

// one request, as sent by the parent
type c19eReq struct {
	Level   string            `json:"level"`   // "R" | "H" | "flush"
	Server  string            `json:"server"`  // R: "i" ingest | "q" query
	Raw     []byte            `json:"raw"`     // R: the complete request bytes
	Handler string            `json:"handler"` // H: key of c19eHandlers
	Method  string            `json:"method"`  // H
	Params  map[string]string `json:"params"`  // H: user values (route parameters)
	Query   string            `json:"query"`   // H: raw query string
	Headers map[string]string `json:"headers"` // H
	Body    []byte            `json:"body"`    // H
	Flush   bool              `json:"flush"`
	Settle  bool              `json:"settle"` // also wait for the sort-index goroutines started by a rotation
}

type c19eResp struct {
	Status int    `json:"status"`
	Body   []byte `json:"body"` // first 64 KiB
	Err    string `json:"err,omitempty"`
}

// level H: the exported handler functions the routes of pkg/server/{ingest,query}/server.go are bound to
var c19eHandlers = map[string]func(ctx *fasthttp.RequestCtx){
	"deleteIndex":     func(ctx *fasthttp.RequestCtx) { eswriter.ProcessDeleteIndex(ctx, 0) },
	"putIndex":        func(ctx *fasthttp.RequestCtx) { eswriter.ProcessPutIndex(ctx, 0) },
	"bulk":            func(ctx *fasthttp.RequestCtx) { eswriter.ProcessBulkRequest(ctx, 0, true) },
	"singleDoc":       func(ctx *fasthttp.RequestCtx) { eswriter.ProcessPutPostSingleDocRequest(ctx, false, 0) },
	"postAliases":     func(ctx *fasthttp.RequestCtx) { eswriter.ProcessPostAliasesRequest(ctx, 0) },
	"putAlias":        func(ctx *fasthttp.RequestCtx) { eswriter.ProcessPutAliasesRequest(ctx, 0) },
	"getAlias":        func(ctx *fasthttp.RequestCtx) { eswriter.ProcessGetAlias(ctx, 0) },
	"getIndexAlias":   func(ctx *fasthttp.RequestCtx) { eswriter.ProcessGetIndexAlias(ctx, 0) },
	"indexAliasExist": func(ctx *fasthttp.RequestCtx) { eswriter.ProcessIndexAliasExist(ctx, 0) },
	"lookupUpload":    func(ctx *fasthttp.RequestCtx) { callLookupHandler(lookups.UploadLookupFile, ctx, 0) },
	"lookupGet":       func(ctx *fasthttp.RequestCtx) { callLookupHandler(lookups.GetLookupFile, ctx, 0) },
	"lookupDelete":    func(ctx *fasthttp.RequestCtx) { callLookupHandler(lookups.DeleteLookupFile, ctx, 0) },
	"dashCreate":      func(ctx *fasthttp.RequestCtx) { dashboards.ProcessCreateDashboardRequest(ctx, 0) },
	"dashUpdate":      func(ctx *fasthttp.RequestCtx) { dashboards.ProcessUpdateDashboardRequest(ctx, 0) },
	"dashGet":         func(ctx *fasthttp.RequestCtx) { dashboards.ProcessGetDashboardRequest(ctx, 0) },
	"dashDelete":      func(ctx *fasthttp.RequestCtx) { dashboards.ProcessDeleteDashboardRequest(ctx, 0) },
	"dashFavorite":    func(ctx *fasthttp.RequestCtx) { dashboards.ProcessFavoriteRequest(ctx, 0) },
	"folderCreate":    func(ctx *fasthttp.RequestCtx) { dashboards.ProcessCreateFolderRequest(ctx, 0) },
	"folderGet":       func(ctx *fasthttp.RequestCtx) { dashboards.ProcessGetFolderContentsRequest(ctx, 0) },
	"folderUpdate":    func(ctx *fasthttp.RequestCtx) { dashboards.ProcessUpdateFolderRequest(ctx, 0) },
	"folderDelete":    func(ctx *fasthttp.RequestCtx) { dashboards.ProcessDeleteFolderRequest(ctx, 0) },
	"usqSave":         func(ctx *fasthttp.RequestCtx) { usq.SaveUserQueries(ctx, 0) },
	"usqGet":          func(ctx *fasthttp.RequestCtx) { usq.SearchUserSavedQuery(ctx, 0) },
	"usqDelete":       func(ctx *fasthttp.RequestCtx) { usq.DeleteUserSavedQuery(ctx, 0) },
	"otsdbPut":        func(ctx *fasthttp.RequestCtx) { otsdbwriter.PutMetrics(ctx, 0) },
	"promWrite":       func(ctx *fasthttp.RequestCtx) { prometheuswriter.PutMetrics(ctx, 0) },
	"otlpMetrics":     func(ctx *fasthttp.RequestCtx) { otlp.ProcessMetricsIngest(ctx, 0) },
	"otsdbQuery":      func(ctx *fasthttp.RequestCtx) { otsdbquery.MetricsQueryParser(ctx, 0) },
	"otsdbQueryExp":   otsdbquery.MetricsQueryExpressionsParser,
	"promLabelValues": func(ctx *fasthttp.RequestCtx) { promql.ProcessGetLabelValuesRequest(ctx, 0) },
	"esSearch":        func(ctx *fasthttp.RequestCtx) { esreader.ProcessSearchRequest(ctx, 0) },
}

// the first UUID of the previous answer (a created dashboard / folder id): stands in for @LASTID@… in the next request
var c19eLastID string
var c19eUUIDRe = regexp.MustCompile(`[0-9a-f]{8}-[0-9a-f]{4}-[0-9a-f]{4}-[0-9a-f]{4}-[0-9a-f]{12}`)

const c19eLastIDTok = "@LASTID@@@@@@@@@@@@@@@@@@@@@@@@@@@@@"

func init() {
	if len(os.Args) >= 5 && os.Args[1] == "c19eworker" {
		c19eWorkerMain(os.Args[2], os.Args[3], os.Args[4])
		os.Exit(0)
	}
}

func c19eWorkerMain(root, iport, qport string) {
	// the working directory is the install directory <root>/…/inst (set by the parent)
	cwd, err := os.Getwd()
	if err != nil || !strings.HasPrefix(cwd, root+"/") {
		fmt.Println("FATAL cwd not inside the sandbox:", cwd, err)
		os.Exit(3)
	}
	yaml := fmt.Sprintf(`ingestListenIP: "127.0.0.1"
ingestPort: %s
queryListenIP: "127.0.0.1"
queryPort: %s
dataPath: %s/data/
timestampKey: timestamp
pqsEnabled: true
analyticsEnabled: false
esVersion: "7.9.3"
ssInstanceName: "H"
idleWipFlushIntervalSecs: 3600
maxWaitWipFlushIntervalSecs: 3600
log:
  logPrefix: %s/logs/
tls:
  enabled: false
queryTimeoutSecs: 20
`, iport, qport, cwd, cwd)
	// a restarted worker (same sandbox, same ports) finds its configuration file as it left it and does not touch it
	if cur, err := os.ReadFile("server.yaml"); err != nil || string(cur) != yaml {
		if err := os.WriteFile("server.yaml", []byte(yaml), 0o644); err != nil {
			fmt.Println("FATAL", err)
			os.Exit(3)
		}
	}
	os.Args = []string{"siglens", "-config", "server.yaml"}
	// no outbound traffic: the startup's "which IP am I" lookup fails at once instead of waiting for a resolver
	os.Setenv("HTTPS_PROXY", "http://127.0.0.1:1")
	os.Setenv("HTTP_PROXY", "http://127.0.0.1:1")
	os.Setenv("NO_PROXY", "127.0.0.1,localhost")
	go startup.Main()

	deadline := time.Now().Add(60 * time.Second)
	for _, p := range []string{iport, qport} {
		for {
			r := c19eRawHTTP(p, []byte("GET /api/health HTTP/1.1\r\nHost: localhost\r\nConnection: close\r\n\r\n"), 2*time.Second)
			if r.Status == 200 {
				break
			}
			if time.Now().After(deadline) {
				fmt.Println("FATAL server did not come up on port", p, r.Err)
				os.Exit(3)
			}
			time.Sleep(50 * time.Millisecond)
		}
	}
	out := bufio.NewWriter(os.Stdout)
	fmt.Fprintln(out, "@@READY "+config.GetDataPath()+" "+config.GetHostID())
	out.Flush()
	in := bufio.NewReaderSize(os.Stdin, 1<<20)
	for {
		line, err := in.ReadBytes('\n')
		if len(bytes.TrimSpace(line)) > 0 {
			var rq c19eReq
			var rs c19eResp
			if e := json.Unmarshal(line, &rq); e != nil {
				rs.Err = "bad request line: " + e.Error()
			} else {
				rs = c19eDo(&rq, iport, qport)
			}
			b, _ := json.Marshal(rs)
			out.WriteString("@@")
			out.Write(b)
			out.WriteByte('\n')
			out.Flush()
		}
		if err != nil {
			return
		}
	}
}

func c19eDo(rq *c19eReq, iport, qport string) (rs c19eResp) {
	defer func() {
		if r := recover(); r != nil {
			rs.Err = fmt.Sprintf("panic: %v", r)
		}
	}()
	if c19eLastID != "" {
		rq.Raw = bytes.ReplaceAll(rq.Raw, []byte(c19eLastIDTok), []byte(c19eLastID))
		rq.Body = bytes.ReplaceAll(rq.Body, []byte(c19eLastIDTok), []byte(c19eLastID))
	}
	defer func() {
		if m := c19eUUIDRe.Find(rs.Body); m != nil {
			c19eLastID = string(m)
		}
	}()
	switch rq.Level {
	case "R":
		p := qport
		if rq.Server == "i" {
			p = iport
		}
		rs = c19eRawHTTP(p, rq.Raw, 8*time.Second)
	case "H":
		h := c19eHandlers[rq.Handler]
		if h == nil {
			return c19eResp{Err: "no such handler " + rq.Handler}
		}
		ctx := &fasthttp.RequestCtx{}
		m := rq.Method
		if m == "" {
			m = "POST"
		}
		ctx.Request.Header.SetMethod(m)
		ctx.Request.SetRequestURI("/verif" + map[bool]string{true: "?" + rq.Query, false: ""}[rq.Query != ""])
		ctx.Request.Header.SetHost("localhost")
		for k, v := range rq.Headers {
			ctx.Request.Header.Set(k, v)
		}
		if rq.Body != nil {
			ctx.Request.SetBody(rq.Body)
		}
		for k, v := range rq.Params {
			ctx.SetUserValue(k, v)
		}
		h(ctx)
		rs.Status = ctx.Response.StatusCode()
		rs.Body = c19eCut(ctx.Response.Body())
	case "flush":
	default:
		return c19eResp{Err: "bad level"}
	}
	if rq.Flush || rq.Level == "flush" {
		c19eFlush()
		if rq.Settle {
			time.Sleep(30 * time.Millisecond) // writeSortIndexes registers with its WaitGroup from inside the goroutine
			writer.WaitForSortedIndexToComplete()
		}
	}
	return rs
}

// the flush calls of cmd/startup.ShutdownSiglensServer, without shutting down
func c19eFlush() {
	writer.ForcedFlushToSegfile()
	metrics.ForceFlushMetricsBlock()
	_ = vtable.FlushAliasMapToFile()
	scroll.ForcedFlushToScrollFile()
}

func c19eCut(b []byte) []byte {
	if len(b) > 65536 {
		b = b[:65536]
	}
	return append([]byte(nil), b...)
}

// one raw HTTP/1.1 exchange: the bytes are written as they are, the answer is read until the peer closes
func c19eRawHTTP(port string, raw []byte, timeout time.Duration) (rs c19eResp) {
	conn, err := net.DialTimeout("tcp", "127.0.0.1:"+port, timeout)
	if err != nil {
		return c19eResp{Err: "dial: " + err.Error()}
	}
	defer conn.Close()
	conn.SetDeadline(time.Now().Add(timeout))
	if _, err := conn.Write(raw); err != nil {
		return c19eResp{Err: "write: " + err.Error()}
	}
	data, err := io.ReadAll(io.LimitReader(conn, 1<<20))
	if len(data) == 0 {
		if err != nil {
			return c19eResp{Err: "read: " + err.Error()}
		}
		return c19eResp{Err: "empty answer"}
	}
	// status line
	if i := bytes.IndexByte(data, '\n'); i > 0 {
		f := strings.Fields(string(data[:i]))
		if len(f) >= 2 {
			rs.Status, _ = strconv.Atoi(f[1])
		}
	}
	if i := bytes.Index(data, []byte("\r\n\r\n")); i >= 0 {
		rs.Body = c19eCut(data[i+4:])
	} else {
		rs.Body = c19eCut(data)
	}
	return rs
}
