package main

import (
	"bytes"
	"encoding/hex"
	"fmt"
	"io"
	"math"
	"math/bits"
	"math/rand"
	"strconv"
	"strings"

	"github.com/siglens/siglens/pkg/segment/writer/metrics/compress"
)

// suite "gorilla": gor <header> <cloneAt> <t>:<vhex16> ...
// suite "gorilladec": gdec <hex bytes>   (arbitrary bytes into the decoder)

func init() {
	register(&Suite{Name: "gorilla", Gen: genGorilla, Exec: execGorilla,
		Rule: "series of (uint32 t, float64 bits) from adversarial generators (small-XOR neighbours, ±0, subnormal, NaN payloads, dod at every bucket edge ±1, irregular/out-of-order steps); distinct = sha1 of the op line; non-trivial = ≥2 points"})
	register(&Suite{Name: "gorilladec", Gen: genGorillaDec, Exec: execGorillaDec,
		Rule: "byte strings: valid encodings with one byte mutated / truncated, and random bytes; non-trivial = ≥5 bytes"})
}

var specialVals = []uint64{
	0, 0x8000000000000000, 1, 0x000fffffffffffff, 0x0010000000000000, 0x7fefffffffffffff, 0xffefffffffffffff,
	0x7ff0000000000000, 0xfff0000000000000, 0x7ff8000000000001, 0x7ff0000000000001, math.Float64bits(1.0), math.Float64bits(0.1),
	math.Float64bits(-1.5), math.Float64bits(12345678.0), 0xffffffffffffffff,
}

func genValue(r *rand.Rand, prev uint64) uint64 {
	switch r.Intn(9) {
	case 0:
		return prev
	case 1: // flip low mantissa bits only
		return prev ^ uint64(1+r.Intn(7))
	case 2: // xor with a random window
		lz := r.Intn(64)
		w := 1 + r.Intn(64-lz)
		x := (r.Uint64() | 1<<63) >> uint(lz)
		x = x >> uint(64-lz-w) << uint(64-lz-w)
		if x == 0 {
			x = 1
		}
		return prev ^ x
	case 3:
		return specialVals[r.Intn(len(specialVals))]
	case 4:
		return math.Float64bits(float64(r.Intn(1000)))
	case 5:
		return math.Float64bits(r.NormFloat64() * 100)
	case 6:
		return math.Float64bits(math.Nextafter(math.Float64frombits(prev&^(0x7ff<<52)|0x3ff<<52), math.Inf(1)))
	case 7: // single bit anywhere
		return prev ^ (1 << uint(r.Intn(64)))
	default:
		return r.Uint64()
	}
}

var dodEdges = []int64{0, 1, -1, 63, 64, 65, -62, -63, -64, 255, 256, 257, -254, -255, -256, 2047, 2048, 2049, -2046, -2047, -2048, 100000, -100000}

func genGorilla(r *rand.Rand, n int, tier string) []string {
	var out []string
	for i := 0; i < n; i++ {
		npts := 1 + r.Intn(12)
		if r.Intn(10) == 0 {
			npts = r.Intn(40)
		}
		var t uint32
		switch r.Intn(5) {
		case 0:
			t = uint32(1 + r.Intn(100))
		case 1:
			t = 2147483647 - uint32(r.Intn(50)) // 2038 crossing
		default:
			t = 1700000000 + uint32(r.Intn(100000000))
		}
		header := t
		if r.Intn(12) == 0 { // header != first timestamp (not what the writer does, but the codec API allows it)
			header = t - uint32(r.Intn(20000))
		}
		var sb strings.Builder
		delta := int64(r.Intn(120))
		v := specialVals[r.Intn(len(specialVals))]
		cloneAt := r.Intn(npts + 1)
		fmt.Fprintf(&sb, "gor %d %d", header, cloneAt)
		mono := r.Intn(6) != 0
		for j := 0; j < npts; j++ {
			fmt.Fprintf(&sb, " %d:%016x", t, v)
			dod := dodEdges[r.Intn(len(dodEdges))]
			if r.Intn(3) == 0 {
				dod = int64(r.Intn(5000)) - 2500
			}
			if r.Intn(3) == 0 {
				dod = 0
			}
			delta += dod
			if mono && delta < 0 {
				delta = int64(r.Intn(3))
			}
			t = uint32(int64(t) + delta)
			if t == 0 {
				t = 1
			}
			v = genValue(r, v)
		}
		out = append(out, sb.String())
	}
	return out
}

type gpt struct {
	t uint32
	v uint64
}

func parseGor(line string) (header uint32, cloneAt int, pts []gpt, ok bool) {
	f := strings.Fields(line)
	if len(f) < 3 || f[0] != "gor" {
		return
	}
	h, err := strconv.ParseUint(f[1], 10, 32)
	if err != nil {
		return
	}
	k, err := strconv.Atoi(f[2])
	if err != nil {
		return
	}
	for _, p := range f[3:] {
		tv := strings.Split(p, ":")
		if len(tv) != 2 {
			return
		}
		t, e1 := strconv.ParseUint(tv[0], 10, 32)
		v, e2 := strconv.ParseUint(tv[1], 16, 64)
		if e1 != nil || e2 != nil {
			return
		}
		pts = append(pts, gpt{uint32(t), v})
	}
	return uint32(h), k, pts, true
}

func gorDecode(b []byte) string {
	it, err := compress.NewDecompressIterator(bytes.NewReader(b))
	if err != nil {
		return "nohdr"
	}
	var parts []string
	for it.Next() {
		t, v := it.At()
		parts = append(parts, fmt.Sprintf("%d:%016x", t, math.Float64bits(v)))
		if len(parts) > 100000 {
			break
		}
	}
	// "/eof" = the finish marker was read; "/err" = the stream ran out or was invalid (Err() reports
	// nil for both because short reads wrap io.EOF — the raw error is exposed by the verif overlay)
	st := "/err"
	if it.VerifRawErr() == io.EOF {
		st = "/eof"
	}
	return strings.Join(parts, ",") + st
}

func gorEncode(header uint32, pts []gpt, cloneAt int) (full []byte, clone []byte) {
	buf := new(bytes.Buffer)
	c, finish, err := compress.NewCompressor(buf, header)
	if err != nil {
		panic(err)
	}
	doClone := func() {
		cb := new(bytes.Buffer)
		_, cf, err := compress.CloneCompressor(c, cb)
		if err != nil {
			panic(err)
		}
		if err := cf(); err != nil {
			panic(err)
		}
		clone = cb.Bytes()
	}
	for i, p := range pts {
		if i == cloneAt {
			doClone()
		}
		if _, err := c.Compress(p.t, math.Float64frombits(p.v)); err != nil {
			panic(err)
		}
	}
	if cloneAt >= len(pts) {
		doClone()
	}
	if err := finish(); err != nil {
		panic(err)
	}
	return buf.Bytes(), clone
}

func expectDec(pts []gpt) string {
	var parts []string
	for _, p := range pts {
		parts = append(parts, fmt.Sprintf("%d:%016x", p.t, p.v))
	}
	return strings.Join(parts, ",") + "/eof"
}

// witness class of a series, for known-finding matching
func gorClass(header uint32, pts []gpt) string {
	if len(pts) > 0 {
		d := int64(pts[0].t) - int64(header)
		if d < 0 || d >= (1<<14)-1 {
			return "first-delta-out-of-14-bits"
		}
	}
	cls := "other"
	var tDelta int32
	for i := range pts {
		if pts[i].t == 0 {
			return "timestamp-zero"
		}
		if i == 0 {
			tDelta = int32(pts[0].t) - int32(header)
			continue
		}
		delta := int32(pts[i].t) - int32(pts[i-1].t)
		dod := int64(delta) - int64(tDelta)
		tDelta = delta
		if uint32(dod) == 0xFFFFFFFF && !(dod >= -2047 && dod <= 2048) {
			return "dod-equals-eof-marker"
		}
		x := pts[i].v ^ pts[i-1].v
		if x != 0 && bits.LeadingZeros64(x) >= 32 {
			cls = "xor-leading-zeros>=32"
		}
	}
	return cls
}

func execGorilla(line string) Result {
	header, cloneAt, pts, ok := parseGor(line)
	if !ok {
		return Result{Out: "bad-op"}
	}
	full, clone := gorEncode(header, pts, cloneAt)
	dec := gorDecode(full)
	cdec := gorDecode(clone)
	res := Result{Out: fmt.Sprintf("bytes=%s dec=%s clone=%s", hex.EncodeToString(full), dec, cdec), Nontrivial: len(pts) >= 2}
	cls := gorClass(header, pts)
	res.Tags = append(res.Tags, "class:"+cls, fmt.Sprintf("npts<=%d", (len(pts)/5+1)*5))
	// the property on the real code: decode(encode(s)) = s bit-identically (for series the ingest path can produce:
	// header = first timestamp is what metricssegment.go does; other headers are codec-API only)
	precond := cls != "first-delta-out-of-14-bits" && cls != "timestamp-zero"
	if precond {
		if dec != expectDec(pts) {
			res.Fails = append(res.Fails, PropFail{Sig: "gorilla-roundtrip/" + cls, Msg: "decode(encode(series)) differs from series: got " + trunc(dec, 200) + " want " + trunc(expectDec(pts), 200)})
		}
		k := cloneAt
		if k > len(pts) {
			k = len(pts)
		}
		if cdec != expectDec(pts[:k]) {
			res.Fails = append(res.Fails, PropFail{Sig: "gorilla-clone-prefix/" + cls, Msg: "decode(clone+finish) differs from the prefix: got " + trunc(cdec, 200) + " want " + trunc(expectDec(pts[:k]), 200)})
		}
	}
	return res
}

func genGorillaDec(r *rand.Rand, n int, tier string) []string {
	var out []string
	base := genGorilla(r, n, tier)
	for _, l := range base {
		h, k, pts, _ := parseGor(l)
		full, _ := gorEncode(h, pts, k)
		b := append([]byte{}, full...)
		switch r.Intn(4) {
		case 0:
			b = b[:r.Intn(len(b)+1)]
		case 1:
			if len(b) > 0 {
				b[r.Intn(len(b))] ^= byte(1 << uint(r.Intn(8)))
			}
		case 2:
			if len(b) > 0 {
				b[r.Intn(len(b))] = byte(r.Intn(256))
			}
		default:
			b = make([]byte, r.Intn(40))
			r.Read(b)
		}
		out = append(out, "gdec "+hex.EncodeToString(b))
	}
	return out
}

func execGorillaDec(line string) Result {
	f := strings.Fields(line)
	if len(f) == 1 && f[0] == "gdec" {
		f = append(f, "")
	}
	if len(f) != 2 || f[0] != "gdec" {
		return Result{Out: "bad-op"}
	}
	b, err := hex.DecodeString(f[1])
	if err != nil {
		return Result{Out: "bad-op"}
	}
	return Result{Out: "dec=" + gorDecode(b), Nontrivial: len(b) >= 5, Tags: []string{fmt.Sprintf("len<=%d", (len(b)/16+1)*16)}}
}
