package main

// e2eworker: ONE dataset per process (the engine keeps global in-memory metadata).
// stdin: line protocol
//   idx <name>                     index for subsequent batches (default vidx)
//   cfg card <n>                   writer.SetCardinalityLimit
//   cfg pqs <0|1>                  config.SetPQSEnabled (persistent-query results; the testing config has them ON)
//   cfg pqdrain <0|1>              1 (default): pqwait also hands the queued back-fill requests to the writer (overlay hook); 0: only the engine's own listener does
//   pqstate                        prints "#pqstate pqmr=<n> sfm=<m> stuck=<k>" (see e2ePqState)
//   pqwait                         wait until no background persistent-query write (search.writePqmrFilesWrapper) is running,
//                                  then hand the queued back-fill requests to the writer (VerifDrainPqsRequests); prints nothing
//   batch <hexjson> <hexjson> ...  one ProcessIndexRequestPle call
//   stream <n>                     the following batches go to ingest stream / shard n of the index (default 0): the stream id
//                                  utils.CreateStreamId would give with MAX_SHARDS > n, handed to ProcessIndexRequestPle in its
//                                  index → stream-id cache; every stream of an index has its own segstore (own open segment,
//                                  rotated on its own)
//   flush                          flush every WIP buffer to its segment file
//   rotate                         force segment rotation
//   waitsync                       (restart on an existing dir, env VERIF_WAIT_SYNC=1) wait for the startup sync
// env: VERIF_DATA_DIR=<dir> use this data dir and keep it; VERIF_CRASH_AT / VERIF_CRASH_LOG see c07_crash.go
//   q <from> <size> <start> <end> <hex text> [sql]   run a query (Splunk QL; with `sql`: the SQL front end); prints one JSON line
//   qd <from> <size> <start> <end> <hex SPL>  run a query, print nothing
// stdout: one JSON line per q: {"recs":[{...}], "measure":[...], "groupByCols":[...], "measureFunctions":[...], "total":n, "err":"..."}
import (
	"bufio"
	"bytes"
	"encoding/hex"
	"encoding/json"
	"fmt"
	"os"
	"path/filepath"
	"runtime"
	"strconv"
	"strings"
	"sync"
	"time"

	"github.com/siglens/siglens/pkg/ast/pipesearch"
	"github.com/siglens/siglens/pkg/config"
	eswriter "github.com/siglens/siglens/pkg/es/writer"
	"github.com/siglens/siglens/pkg/segment/writer"
	segutils "github.com/siglens/siglens/pkg/utils"
)

// e2ePqWait: the raw search of a rotated segment starts `go writePqmrFilesWrapper(…)` BEFORE the query returns; the
// goroutine registers the result in memory (pqs.AddPersistentQueryResult) and queues a back-fill request.  Quiescence =
// no goroutine stack names the wrapper any more (exact: the `go` statement has executed when the query has answered).
func e2ePqWait() {
	buf := make([]byte, 1<<20)
	deadline := time.Now().Add(5 * time.Second)
	for time.Now().Before(deadline) {
		n := runtime.Stack(buf, true)
		if n == len(buf) {
			buf = make([]byte, 2*len(buf))
			continue
		}
		if !bytes.Contains(buf[:n], []byte("search.writePqmrFilesWrapper")) && !bytes.Contains(buf[:n], []byte("search.writePqmrFiles(")) {
			break
		}
		time.Sleep(time.Millisecond)
	}
	if e2ePqDrain {
		writer.VerifDrainPqsRequests()
	}
}

// e2ePqDrain: hand the queued back-fill requests to the writer through the overlay hook after every wait (default).  With
// `cfg pqdrain 0` nothing but the engine's own listener goroutine (writer.listenBackFillAndEmptyPQSRequests) reads the queue.
var e2ePqDrain = true

// e2ePqState: "#pqstate pqmr=<n> sfm=<m> stuck=<k>" — n persistent-query result files on disk, m (segment, pqid) pairs recorded
// in the .sfm files, k goroutines blocked while queueing a back-fill request.  The engine's listener persists the requests
// when 100 (PQS_FLUSH_SIZE) have arrived or every 10 s (PQS_TICKER): waits up to 4 s for m ≥ ⌊n/100⌋·100 and k = 0.
func e2ePqState(dir string) string {
	var npq, nsfm, stuck int
	buf := make([]byte, 1<<22)
	deadline := time.Now().Add(4 * time.Second)
	for {
		npq, nsfm = 0, 0
		_ = filepath.Walk(dir, func(p string, info os.FileInfo, err error) error {
			if err != nil || info.IsDir() {
				return nil
			}
			if strings.HasSuffix(p, ".pqmr") {
				npq++
			} else if strings.HasSuffix(p, ".sfm") {
				var m struct {
					P map[string]bool `json:"pqids"`
				}
				if b, err := os.ReadFile(p); err == nil && json.Unmarshal(b, &m) == nil {
					nsfm += len(m.P)
				}
			}
			return nil
		})
		n := runtime.Stack(buf, true)
		stuck = bytes.Count(buf[:n], []byte("writer.AddToBackFillAndEmptyPQSChan(")) + bytes.Count(buf[:n], []byte("writer.AddToEmptyPqmetaChan(")) + bytes.Count(buf[:n], []byte("writer.RemoveSegmentFromEmptyPqmeta("))
		if (stuck == 0 && nsfm >= npq/100*100) || time.Now().After(deadline) {
			break
		}
		time.Sleep(20 * time.Millisecond)
	}
	return fmt.Sprintf("#pqstate pqmr=%d sfm=%d stuck=%d", npq, nsfm, stuck)
}

func e2eWorkerMain() {
	syncDone := installSyncWatch()    // no-op unless VERIF_WAIT_SYNC is set (c07_crash.go)
	sfLogCap := sfInstallLogCapture() // no-op unless VERIF_LOG_ERRORS is set (c18_segfault.go)
	dir := bootEngine()
	if !engineKeep {
		defer os.RemoveAll(dir)
	}
	cmdNo := 0
	in := bufio.NewScanner(os.Stdin)
	in.Buffer(make([]byte, 1<<20), 1<<28)
	out := bufio.NewWriter(os.Stdout)
	defer out.Flush()
	idx := "vidx"
	tsKey := config.GetTimeStampKey()
	var stack [64]byte
	qid := uint64(1)
	stream := 0
	for in.Scan() {
		f := strings.Fields(in.Text())
		if len(f) == 0 {
			continue
		}
		switch f[0] {
		case "idx":
			idx = f[1]
		case "cfg":
			if f[1] == "card" {
				n, _ := strconv.Atoi(f[2])
				writer.SetCardinalityLimit(uint16(n))
			}
			if f[1] == "pqs" {
				config.SetPQSEnabled(f[2] == "1")
			}
			if f[1] == "pqdrain" {
				e2ePqDrain = f[2] == "1"
			}
		case "stream":
			stream, _ = strconv.Atoi(f[1])
		case "pqwait":
			e2ePqWait()
		case "pqstate":
			fmt.Fprintln(out, e2ePqState(dir))
			out.Flush()
		case "sleep": // sleep <ms> (manual probes only)
			ms, _ := strconv.Atoi(f[1])
			time.Sleep(time.Duration(ms) * time.Millisecond)
		case "batch":
			now := uint64(time.Now().UnixMilli())
			var ples []*writer.ParsedLogEvent
			for _, h := range f[1:] {
				raw, err := hex.DecodeString(h)
				if err != nil {
					fmt.Fprintln(os.Stderr, "bad hex")
					os.Exit(4)
				}
				ple, err := writer.GetNewPLE(raw, now, idx, &tsKey, stack[:])
				if err != nil {
					fmt.Fprintln(out, `{"ingesterr":"`+err.Error()+`"}`)
					continue
				}
				ples = append(ples, ple)
			}
			streamCache := map[string]string{}
			if stream > 0 {
				// CreateStreamId = "<shard>-<org>-<hash of the index name>" with shard = rand.Intn(MAX_SHARDS) (0 today)
				if sid := segutils.CreateStreamId(idx, 0); strings.HasPrefix(sid, "0-") {
					streamCache[idx] = strconv.Itoa(stream) + sid[1:]
				}
			}
			err := eswriter.ProcessIndexRequestPle(now, idx, false, map[string]string{}, 0, 0, streamCache, map[uint64]string{}, stack[:], ples)
			if err != nil {
				fmt.Fprintf(os.Stderr, "ProcessIndexRequestPle: %v\n", err)
			}
			writer.ReleasePLEs(ples)
		case "flush":
			cmdNo++
			crashNote(fmt.Sprintf("cmdstart:%d:flush", cmdNo)) // no-op unless VERIF_CRASH_LOG is set
			z := time.Duration(0)
			writer.FlushWipBufferToFile(&z, &z)
			crashNote(fmt.Sprintf("cmddone:%d", cmdNo))
		case "rotate":
			cmdNo++
			crashNote(fmt.Sprintf("cmdstart:%d:rotate", cmdNo))
			writer.ForceRotateSegmentsForTest()
			crashNote(fmt.Sprintf("cmddone:%d", cmdNo))
		case "waitsync":
			// restart on an existing data dir: wait until the startup goroutine that adopts segment dirs
			// (query.initSyncSegMetaForAllIds) has finished; prints {"sync":"done"|"timeout"}
			if sfLogCap {
				b, _ := json.Marshal(map[string]interface{}{"sync": waitSync(syncDone), "logErrors": sfDrainLogErrors()})
				out.Write(b)
				out.WriteByte('\n')
			} else {
				fmt.Fprintf(out, "{\"sync\":%q}\n", waitSync(syncDone))
			}
			out.Flush()
		case "alias": // alias <index> <alias> (C15 suites, c15_bulk.go): vtable.AddAliases
			bkWorkerAlias(f[1], f[2])
		case "block": // block <index> (C15 suites, c15_bulk.go): from now on every store call for this index fails
			bkWorkerBlock(f[1])
		case "bulk":
			// bulk <hex body>: the real Elasticsearch bulk entry point; prints {"items":[status…],"errors":bool}
			hx := ""
			if len(f) > 1 {
				hx = f[1]
			}
			body, err := hex.DecodeString(hx)
			if err != nil {
				fmt.Fprintln(os.Stderr, "bad hex")
				os.Exit(4)
			}
			_, resp, _ := eswriter.HandleBulkBody(body, nil, 0, 0, false)
			var sts []int
			if items, ok := resp["items"].([]interface{}); ok {
				for _, it := range items {
					m, _ := it.(map[string]interface{})
					st := 0
					if ix, ok := m["index"].(map[string]interface{}); ok {
						if v, ok := ix["status"].(int); ok {
							st = v
						}
					}
					if v, ok := m["status"].(int); ok {
						st = v
					}
					sts = append(sts, st)
				}
			}
			eflag, _ := resp["errors"].(bool)
			b, _ := json.Marshal(map[string]interface{}{"bulk": true, "items": sts, "errors": eflag})
			out.Write(b)
			out.WriteByte('\n')
			out.Flush()
		case "bulkpar":
			// bulkpar <hex body> <hex body> …: the bodies are posted CONCURRENTLY (one goroutine each)
			type br struct {
				Items  []int `json:"items"`
				Errors bool  `json:"errors"`
			}
			res := make([]br, len(f)-1)
			var wg sync.WaitGroup
			start := make(chan struct{})
			for bi, hx := range f[1:] {
				body, err := hex.DecodeString(hx)
				if err != nil {
					fmt.Fprintln(os.Stderr, "bad hex")
					os.Exit(4)
				}
				wg.Add(1)
				go func(bi int, body []byte) {
					defer wg.Done()
					<-start
					_, resp, _ := eswriter.HandleBulkBody(body, nil, uint64(bi+1), 0, false)
					if items, ok := resp["items"].([]interface{}); ok {
						for _, it := range items {
							m, _ := it.(map[string]interface{})
							st := 0
							if ix, ok := m["index"].(map[string]interface{}); ok {
								if v, ok := ix["status"].(int); ok {
									st = v
								}
							}
							if v, ok := m["status"].(int); ok {
								st = v
							}
							res[bi].Items = append(res[bi].Items, st)
						}
					}
					res[bi].Errors, _ = resp["errors"].(bool)
				}(bi, body)
			}
			close(start)
			wg.Wait()
			b, _ := json.Marshal(map[string]interface{}{"bulkpar": res})
			out.Write(b)
			out.WriteByte('\n')
			out.Flush()
		case "q", "qd":
			from, _ := strconv.Atoi(f[1])
			size, _ := strconv.Atoi(f[2])
			start, _ := strconv.ParseUint(f[3], 10, 64)
			end, _ := strconv.ParseUint(f[4], 10, 64)
			spl, _ := hex.DecodeString(f[5])
			lang := "Splunk QL"
			if len(f) > 6 && f[6] == "sql" {
				lang = "SQL"
			}
			body := map[string]interface{}{
				"searchText": string(spl), "startEpoch": float64(start), "endEpoch": float64(end),
				"indexName": idx, "queryLanguage": lang, "size": float64(size), "from": float64(from),
			}
			qid++
			var done chan struct{}
			if ts, _ := strconv.Atoi(os.Getenv("VERIF_QUERY_TIMEOUT_S")); ts > 0 {
				// (C07) a query on a crashed-and-restarted directory may spin for ever; a spinning goroutine cannot be
				// stopped, so the worker answers {"err":"query-never-returned"} and exits
				done = make(chan struct{})
				go func(done chan struct{}) {
					select {
					case <-done:
					case <-time.After(time.Duration(ts) * time.Second):
						fmt.Fprintln(out, `{"err":"query-never-returned"}`)
						out.Flush()
						os.Exit(0)
					}
				}(done)
			}
			resp, _, _, err := pipesearch.ParseAndExecutePipeRequest(body, qid, 0, time.Now(), "", nil)
			if done != nil {
				close(done)
			}
			res := map[string]interface{}{}
			if err != nil {
				res["err"] = err.Error()
			} else if resp != nil {
				res["recs"] = resp.Hits.Hits
				res["total"] = resp.Hits.TotalMatched
				res["measure"] = resp.MeasureResults
				res["groupByCols"] = resp.GroupByCols
				res["measureFunctions"] = resp.MeasureFunctions
				res["errors"] = resp.Errors
				res["columnsOrder"] = resp.ColumnsOrder
			} else {
				res["err"] = "nil response"
			}
			if sfLogCap {
				res["logErrors"] = sfDrainLogErrors() // error-level log lines emitted while this query ran
			}
			if f[0] == "qd" {
				continue // a query run in the middle of a history (it registers as a persistent query): answer discarded
			}
			b, _ := json.Marshal(res)
			out.Write(b)
			out.WriteByte('\n')
			out.Flush()
		}
	}
}

func init() { registerWorker("e2eworker", e2eWorkerMain) }
