package main

import (
	"encoding/hex"
	"fmt"
	"math/rand"
	"os"
	"path/filepath"
	"strconv"
	"strings"

	"github.com/siglens/siglens/pkg/utils"
)

// suite "csf": csf <mut> <from> <count> <hex;hex;...>

func init() {
	register(&Suite{Name: "csf", Gen: genCsf, Exec: execCsf,
		Rule: "checksummed files of 1..5 chunks (1..40 bytes), read ranges of whole chunks; unmutated / truncated / one byte replaced (header fields and data, offset-0 magic included); non-trivial = mutated"})
}

func genCsf(r *rand.Rand, n int, tier string) []string {
	var out []string
	for i := 0; i < n; i++ {
		nc := 1 + r.Intn(5)
		var chunks []string
		total := 0
		for j := 0; j < nc; j++ {
			b := make([]byte, 1+r.Intn(40))
			r.Read(b)
			if r.Intn(6) == 0 { // data that itself looks like a chunk header
				copy(b, []byte{0x21, 0x43, 0x65, 0x87})
			}
			chunks = append(chunks, hex.EncodeToString(b))
			total += 12 + len(b)
		}
		from := r.Intn(nc)
		count := 1 + r.Intn(nc-from)
		mut := "none"
		switch r.Intn(6) {
		case 0:
		case 1:
			mut = fmt.Sprintf("cut:%d", r.Intn(total+1))
		case 2: // header bytes of a random chunk
			k := r.Intn(nc)
			off := 0
			for j := 0; j < k; j++ {
				off += 12 + len(chunks[j])/2
			}
			mut = fmt.Sprintf("set:%d:%d", off+r.Intn(12), r.Intn(256))
		default:
			mut = fmt.Sprintf("set:%d:%d", r.Intn(total), r.Intn(256))
		}
		out = append(out, fmt.Sprintf("csf %s %d %d %s", mut, from, count, strings.Join(chunks, ";")))
	}
	return out
}

func execCsf(line string) Result {
	f := strings.Fields(line)
	if len(f) != 5 || f[0] != "csf" {
		return Result{Out: "bad-op"}
	}
	from, e1 := strconv.Atoi(f[2])
	count, e2 := strconv.Atoi(f[3])
	if e1 != nil || e2 != nil {
		return Result{Out: "bad-op"}
	}
	var chunks [][]byte
	if f[4] != "-" {
		for _, h := range strings.Split(f[4], ";") {
			b, err := hex.DecodeString(h)
			if err != nil {
				return Result{Out: "bad-op"}
			}
			chunks = append(chunks, b)
		}
	}
	dir, _ := os.MkdirTemp("", "verifcsf")
	defer os.RemoveAll(dir)
	fp := filepath.Join(dir, "f.csg")
	fd, err := os.OpenFile(fp, os.O_CREATE|os.O_RDWR, 0o644)
	if err != nil {
		panic(err)
	}
	csf := &utils.ChecksumFile{Fd: fd}
	for i, c := range chunks {
		if i%2 == 0 {
			if err := csf.AppendChunk(c); err != nil {
				panic(err)
			}
		} else { // same chunk through the partial-chunk API
			h := len(c) / 2
			if err := csf.AppendPartialChunk(c[:h]); err != nil {
				panic(err)
			}
			if err := csf.AppendPartialChunk(c[h:]); err != nil {
				panic(err)
			}
			if err := csf.Flush(); err != nil {
				panic(err)
			}
		}
	}
	fd.Close()
	data, _ := os.ReadFile(fp)
	orig := append([]byte{}, data...)
	parts := strings.Split(f[1], ":")
	mutPos := -1
	switch parts[0] {
	case "cut":
		k, _ := strconv.Atoi(parts[1])
		if k < len(data) {
			data = data[:k]
			mutPos = k
		}
	case "set":
		p, _ := strconv.Atoi(parts[1])
		b, _ := strconv.Atoi(parts[2])
		if p < len(data) {
			if data[p] != byte(b) {
				mutPos = p
			}
			data[p] = byte(b)
		}
	}
	os.WriteFile(fp, data, 0o644)
	fd, _ = os.Open(fp)
	defer fd.Close()
	csf = &utils.ChecksumFile{Fd: fd}
	start := 0
	for i := 0; i < from && i < len(chunks); i++ {
		if len(chunks[i]) > 0 {
			start += 12 + len(chunks[i])
		}
	}
	var want []byte
	for i := from; i < from+count && i < len(chunks); i++ {
		want = append(want, chunks[i]...)
	}
	buf := make([]byte, len(want))
	n, rerr := csf.ReadAt(buf, int64(start))
	e := 0
	if rerr != nil {
		e = 1
	}
	res := Result{Out: fmt.Sprintf("n=%d err=%d data=%s", n, e, hex.EncodeToString(buf[:n])), Nontrivial: mutPos >= 0,
		Tags: []string{"mut:" + parts[0], fmt.Sprintf("err=%d", e)}}
	_ = orig
	// property on the real code: data served without an error must be the original data
	if rerr == nil && hex.EncodeToString(buf[:n]) != hex.EncodeToString(want) {
		cls := "other"
		if mutPos >= 0 && mutPos < 4 {
			cls = "offset0-magic-damaged-legacy-fallback"
		} else if mutPos >= 0 && parts[0] == "cut" && mutPos < 4 {
			cls = "file-shorter-than-magic"
		}
		res.Fails = append(res.Fails, PropFail{Sig: "csf-altered-data-served/" + cls, Msg: fmt.Sprintf("ReadAt returned no error but data %s != original %s", trunc(hex.EncodeToString(buf[:n]), 80), trunc(hex.EncodeToString(want), 80))})
	}
	return res
}
