package main

// C14 — metricmeta.json under concurrency (suite "retmmc") and the directory of a segment from its key (suite "retsbd").
//
// retmmc: deterministic REPLAY of interleavings of one retention pass (mmeta.RemoveMetricsSegments →
// removeMetricsSegmentsByList), rotations of metrics segments (mmeta.AddMetricsMetaEntry) and readers
// (mmeta.ReadMetricsMeta) on the real code.  Every call runs in its own goroutine and is stopped at the pause points
// that harness/cmd/overlaygen/c14.go inserts into a copy of metricsmeta.go (before Lock / RLock, before the scan, before
// each directory removal, before the rewrite, before the appending Write); the op line names the thread that takes its
// next step.  The driver tracks who holds mMetaLock from the pause points it has SEEN and, like the model
// (lean/SigModel/Model/Retention.lean, namespace MmConc), does not take a step that would wait for the lock (`B`): the
// unchanged code can never be driven into a wait, and code that releases the lock early lets a step the model calls
// blocked proceed.  A non-deferred Unlock is a notification, not a stop (defer ↔ explicit unlock: same replay).
//
//	mmc <n> <victims> <na> <nr> <sched>   file = entries 1..n, pass removes <victims>, rotation i appends 101+i
//	  → tr=<t:label|t:B,…> file=<keys in file order> dirs=<keys whose directory exists> rd=<reader results>
//
// retsbd: utils.GetSegBaseDirFromFilename on keys built from the words of the data layout.
//
//	sbd <string> → ok <dir> | err

import (
	"bufio"
	"encoding/json"
	"fmt"
	"math/rand"
	"os"
	"sort"
	"strings"
	"sync"
	"sync/atomic"
	"time"

	"github.com/siglens/siglens/pkg/config"
	"github.com/siglens/siglens/pkg/segment/structs"
	mmeta "github.com/siglens/siglens/pkg/segment/writer/metrics/meta"
	sutils "github.com/siglens/siglens/pkg/utils"
)

func init() {
	register(&Suite{Name: "retmmc", Gen: genRetMmc, Exec: execRetMmc,
		Rule: "schedules of one retention pass over metricmeta.json (1..6 entries, victims and survivors), 1..3 rotations and 0..2 readers: rotations before the pass, inside its window (between scan, directory removals and rewrite: blocked probes), holding the lock when the pass arrives, after it; non-trivial = a victim, a survivor, a rotation and at least one blocked probe"})
	register(&Suite{Name: "retsbd", Gen: genRetSbd, Exec: execRetSbd,
		Rule: "segment keys in the writer's layout whose data path, host id, index, stream id are drawn from the words of the layout (final, rotated, ts, active, segmeta.json, names containing final); truncated keys, keys without /final/; non-trivial = a key in the writer's layout whose index name is such a word"})
}

type retcEvent struct {
	point string
	done  bool
}

type retcThread struct {
	name   string
	kind   byte // 'p', 'a', 'r'
	idx    int
	events chan retcEvent
	resume chan struct{}
	at     string
	done   bool
	err    error
	res    []int
	// bookkeeping for the property checks
	wroteDuringPass bool
	steps           int
}

type retcWorld struct {
	th      []*retcThread
	byGoid  sync.Map
	free    atomic.Bool
	writer  *retcThread
	readers map[*retcThread]bool
	trace   []string
	stalled string
	anomaly []string
}

var retcPoisoned = false

// how long a resumed call may take to reach its next pause point before the replay calls it a stall (the unchanged
// code never waits: the driver does not take a step that would).  Stalls are capped so that changed code that makes
// every line stall cannot make a run take hours: 20 s for the first three, 2 s afterwards, none after ten.
var retcStalls = 0

func retcStepWait() time.Duration {
	if retcStalls >= 3 {
		return 2 * time.Second
	}
	return 20 * time.Second
}

func (w *retcWorld) hook(point string) {
	if w.free.Load() {
		return
	}
	v, ok := w.byGoid.Load(c11cGoid())
	if !ok {
		return
	}
	th := v.(*retcThread)
	th.events <- retcEvent{point: point}
	if point == "unlock" || point == "runlock" {
		return
	}
	<-th.resume
}

// wait until the thread stops at its next pause point or returns
func (w *retcWorld) wait(th *retcThread) {
	for {
		select {
		case ev := <-th.events:
			if ev.done {
				th.done, th.at = true, ""
				if w.writer == th {
					w.writer = nil // a deferred Unlock has run
				}
				delete(w.readers, th)
				return
			}
			switch ev.point {
			case "unlock":
				if w.writer == th {
					w.writer = nil
				} else {
					w.anomaly = append(w.anomaly, th.name+":unlock-without-lock")
				}
				continue
			case "runlock":
				delete(w.readers, th)
				continue
			}
			th.at = ev.point
			return
		case <-time.After(retcStepWait()):
			w.stalled = th.name + "@" + th.at
			return
		}
	}
}

func (w *retcWorld) step(th *retcThread, explicit bool) {
	if th.done || w.stalled != "" {
		return
	}
	switch th.at {
	case "lock":
		if w.writer != nil || len(w.readers) > 0 {
			if explicit {
				w.trace = append(w.trace, th.name+":B")
			}
			return
		}
		w.writer = th
	case "rlock":
		if w.writer != nil {
			if explicit {
				w.trace = append(w.trace, th.name+":B")
			}
			return
		}
		w.readers[th] = true
	case "write":
		if p := w.th[0]; p.steps > 0 && !p.done { // the pass has begun and has not returned
			th.wroteDuringPass = true
		}
	}
	w.trace = append(w.trace, th.name+":"+th.at)
	th.steps++
	th.resume <- struct{}{}
	w.wait(th)
}

func retcKeys(ks []int) string {
	if len(ks) == 0 {
		return "-"
	}
	var sb []string
	for _, k := range ks {
		sb = append(sb, fmt.Sprint(k))
	}
	return strings.Join(sb, ",")
}

func retcSegDir(ing string, key int) string { return fmt.Sprintf("%sts/rtq/%d/", ing, key) }

func retcMeta(ing string, key int) *structs.MetricsMeta {
	d := retcSegDir(ing, key)
	return &structs.MetricsMeta{MSegmentDir: d + fmt.Sprint(key), TTreeDir: fmt.Sprintf("%sts/rtq/tth%d", ing, key), NumBlocks: 1,
		EarliestEpochSec: 1700000000, LatestEpochSec: 1700000100, DatapointCount: uint64(key), BytesReceivedCount: 10}
}

func execRetMmc(line string) Result {
	f := strings.Fields(line)
	if len(f) != 6 || f[0] != "mmc" {
		return Result{Out: "bad-op"}
	}
	n64, o1 := retParseDec(f[1], 8)
	na64, o2 := retParseDec(f[3], 8)
	nr64, o3 := retParseDec(f[4], 8)
	if !o1 || !o2 || !o3 || n64 == 0 || n64 >= 7 || na64 >= 4 || nr64 >= 3 {
		return Result{Out: "bad-op"}
	}
	n, na, nr := int(n64), int(na64), int(nr64)
	victims := map[int]bool{}
	if f[2] != "-" {
		for _, t := range strings.Split(f[2], ",") {
			v, ok := retParseDec(t, 16)
			if !ok || v >= 1000 {
				return Result{Out: "bad-op"}
			}
			victims[int(v)] = true
		}
	}
	w := &retcWorld{readers: map[*retcThread]bool{}}
	mk := func(kind byte, idx int) *retcThread {
		name := "p"
		if kind != 'p' {
			name = fmt.Sprintf("%c%d", kind, idx)
		}
		return &retcThread{name: name, kind: kind, idx: idx, events: make(chan retcEvent, 64), resume: make(chan struct{})}
	}
	w.th = append(w.th, mk('p', 0))
	for i := 0; i < na; i++ {
		w.th = append(w.th, mk('a', i))
	}
	for j := 0; j < nr; j++ {
		w.th = append(w.th, mk('r', j))
	}
	byName := map[string]*retcThread{}
	for _, th := range w.th {
		byName[th.name] = th
	}
	var sched []*retcThread
	if f[5] != "-" {
		for _, t := range strings.Split(f[5], ",") {
			th := byName[t]
			if th == nil || (len(t) > 1 && t != th.name) {
				return Result{Out: "bad-op"}
			}
			sched = append(sched, th)
		}
	}
	if len(sched) > 60 {
		return Result{Out: "bad-op"}
	}
	if !mmeta.VerifC14Instrumented {
		return Result{Out: "replay-impossible: " + strings.Join(mmeta.VerifC14Problems, "; ")}
	}
	if retcPoisoned {
		return Result{Out: "stall (an earlier replay of this process left a call hanging)"}
	}
	ing := retInit()
	// ---- the state: entries 1..n with their directories; the directories of the segments that will rotate
	mmeta.VerifC14Pause = nil
	fname := mmeta.GetLocalMetricsMetaFName()
	os.Remove(fname)
	os.Remove(fname + ".tmp")
	os.RemoveAll(ing + "ts")
	must(os.MkdirAll(ing+"ts/rtq", 0o755))
	must(os.WriteFile(ing+"ts/rtq/keep", []byte("x"), 0o644)) // RecursivelyDeleteEmptyParentDirectories stops here
	mkdir := func(key int) {
		must(os.MkdirAll(retcSegDir(ing, key), 0o755))
		must(os.WriteFile(fmt.Sprintf("%s%d_1.mbsu", retcSegDir(ing, key), key), []byte("x"), 0o644))
	}
	var lines []byte
	for k := 1; k <= n; k++ {
		mkdir(k)
		b, err := json.Marshal(retcMeta(ing, k))
		must(err)
		lines = append(append(lines, b...), '\n')
	}
	must(os.WriteFile(fname, lines, 0o644))
	for i := 0; i < na; i++ {
		mkdir(101 + i)
	}
	defer func() {
		os.Remove(fname)
		os.RemoveAll(ing + "ts")
	}()
	// ---- the calls, each stopped at its first pause point
	mmeta.VerifC14Pause = w.hook
	del := map[string]*structs.MetricsMeta{}
	for k := range victims {
		m := retcMeta(ing, k)
		del[m.MSegmentDir] = m
	}
	for _, th := range w.th {
		th := th
		go func() {
			w.byGoid.Store(c11cGoid(), th)
			switch th.kind {
			case 'p':
				mmeta.RemoveMetricsSegments(fname, del)
			case 'a':
				th.err = mmeta.AddMetricsMetaEntry(retcMeta(ing, 101+th.idx))
			case 'r':
				m, err := mmeta.ReadMetricsMeta(fname)
				th.err = err
				for _, v := range m {
					th.res = append(th.res, int(v.DatapointCount))
				}
				sort.Ints(th.res)
			}
			th.events <- retcEvent{done: true}
		}()
		if w.stalled == "" {
			w.wait(th)
		}
	}
	// ---- the schedule, then everybody to the end (round robin; a blocked step is simply not taken)
	for _, th := range sched {
		w.step(th, true)
	}
	for round := 0; round < 24; round++ {
		for _, th := range w.th {
			w.step(th, false)
		}
	}
	allDone := true
	for _, th := range w.th {
		if !th.done {
			allDone = false
		}
	}
	if !allDone && w.stalled == "" {
		w.stalled = "not-finished"
	}
	// ---- let go of everything
	w.free.Store(true)
	if w.stalled != "" {
		for _, th := range w.th {
			close(th.resume)
		}
		deadline := time.Now().Add(10 * time.Second) // for all threads together
		for _, th := range w.th {
			for !th.done {
				select {
				case ev := <-th.events:
					th.done = ev.done
				case <-time.After(time.Until(deadline)):
					retcPoisoned = true
					th.done = true
				}
			}
		}
	}
	mmeta.VerifC14Pause = nil
	res := Result{}
	if w.stalled != "" {
		if retcStalls++; retcStalls >= 10 {
			retcPoisoned = true
		}
		res.Out = "stall " + w.stalled + " tr=" + strings.Join(w.trace, ",")
		return res
	}
	// ---- what is there now
	var file []int
	inFile := map[int]bool{}
	if fd, err := os.Open(fname); err == nil {
		sc := bufio.NewScanner(fd)
		sc.Buffer(nil, 1<<24)
		for sc.Scan() {
			var m structs.MetricsMeta
			if json.Unmarshal(sc.Bytes(), &m) != nil {
				file = append(file, 0)
				continue
			}
			file = append(file, int(m.DatapointCount))
			inFile[int(m.DatapointCount)] = true
		}
		fd.Close()
	}
	var dirs []int
	hasDir := map[int]bool{}
	all := []int{}
	for k := 1; k <= n; k++ {
		all = append(all, k)
	}
	for i := 0; i < na; i++ {
		all = append(all, 101+i)
	}
	for _, k := range all {
		if _, err := os.Stat(fmt.Sprintf("%s%d_1.mbsu", retcSegDir(ing, k), k)); err == nil {
			dirs = append(dirs, k)
			hasDir[k] = true
		}
	}
	var rds []string
	for _, th := range w.th {
		if th.kind == 'r' {
			if len(th.res) == 0 {
				rds = append(rds, "e")
			} else {
				rds = append(rds, retcKeys(th.res))
			}
		}
	}
	rd := "-"
	if len(rds) > 0 {
		rd = strings.Join(rds, "/")
	}
	tr := "-"
	if len(w.trace) > 0 {
		tr = strings.Join(w.trace, ",")
	}
	res.Out = fmt.Sprintf("tr=%s file=%s dirs=%s rd=%s", tr, retcKeys(file), retcKeys(dirs), rd)
	// ---- the property itself, independent of the model
	for _, th := range w.th {
		if th.kind == 'a' && th.err == nil && !victims[101+th.idx] && !inFile[101+th.idx] {
			when := "rotated-outside-the-pass"
			if th.wroteDuringPass {
				when = "rotated-during-the-pass"
			}
			res.Fails = append(res.Fails, PropFail{Sig: "retention/metricsmeta-lost-rotation/" + when, Msg: fmt.Sprintf("the metrics segment %d was rotated (AddMetricsMetaEntry returned nil), is no victim of the pass, its files exist: %v, but metricmeta.json does not list it (file: %s)", 101+th.idx, hasDir[101+th.idx], retcKeys(file))})
		}
		if th.kind == 'a' && !victims[101+th.idx] && !hasDir[101+th.idx] {
			res.Fails = append(res.Fails, PropFail{Sig: "retention/metricsmeta-survivor-damaged/directory", Msg: fmt.Sprintf("the directory of the freshly rotated metrics segment %d (no victim) is gone", 101+th.idx)})
		}
		if th.kind == 'r' {
			seen := map[int]bool{}
			for _, k := range th.res {
				seen[k] = true
			}
			for k := 1; k <= n; k++ {
				if !victims[k] && !seen[k] {
					res.Fails = append(res.Fails, PropFail{Sig: "retention/metricsmeta-reader-missed-survivor", Msg: fmt.Sprintf("ReadMetricsMeta (%s) did not return the surviving entry %d", th.name, k)})
				}
			}
		}
	}
	nv, ns := 0, 0
	for k := 1; k <= n; k++ {
		switch {
		case victims[k]:
			nv++
			if inFile[k] {
				res.Fails = append(res.Fails, PropFail{Sig: "retention/metricsmeta-victim-listed/concurrent-rotation", Msg: fmt.Sprintf("entry %d was to be removed, the pass has returned, metricmeta.json still lists it", k)})
			}
			if hasDir[k] {
				res.Fails = append(res.Fails, PropFail{Sig: "retention/metricsmeta-victim-leftover/directory", Msg: fmt.Sprintf("entry %d was to be removed, the pass has returned, its directory is still on disk", k)})
			}
		default:
			ns++
			if !inFile[k] {
				res.Fails = append(res.Fails, PropFail{Sig: "retention/metricsmeta-survivor-dropped/concurrent-rotation", Msg: fmt.Sprintf("entry %d was not to be removed but metricmeta.json no longer lists it", k)})
			}
			if !hasDir[k] {
				res.Fails = append(res.Fails, PropFail{Sig: "retention/metricsmeta-survivor-damaged/directory", Msg: fmt.Sprintf("entry %d was not to be removed but its directory is gone", k)})
			}
		}
	}
	for _, a := range w.anomaly {
		res.Fails = append(res.Fails, PropFail{Sig: "retention/metricsmeta-lock-protocol/" + strings.SplitN(a, ":", 2)[1], Msg: a})
	}
	// ---- distribution
	res.Tags = []string{"mmc", fmt.Sprintf("mmc-rotations=%d", na), fmt.Sprintf("mmc-readers=%d", nr)}
	blockedA, blockedP, blockedR := 0, 0, 0
	passSeen, passDone := false, false
	before, after := false, false
	for _, t := range w.trace {
		switch {
		case t == "p:lock":
			passSeen = true
		case t == "p:rewrite":
			passDone = true
		case t == "p:B":
			blockedP++
		case strings.HasPrefix(t, "a") && strings.HasSuffix(t, ":B"):
			if passSeen && !passDone {
				blockedA++
			}
		case strings.HasPrefix(t, "r") && strings.HasSuffix(t, ":B"):
			blockedR++
		case strings.HasPrefix(t, "a") && strings.HasSuffix(t, ":write"):
			if !passSeen {
				before = true
			}
			if passDone {
				after = true
			}
		}
	}
	if blockedA > 0 {
		res.Tags = append(res.Tags, "mmc-rotation-probed-inside-the-pass-window")
	}
	if blockedP > 0 {
		res.Tags = append(res.Tags, "mmc-pass-probed-while-a-rotation-or-reader-holds-the-lock")
	}
	if blockedR > 0 {
		res.Tags = append(res.Tags, "mmc-reader-probed-while-locked")
	}
	if before {
		res.Tags = append(res.Tags, "mmc-rotation-before-the-pass")
	}
	if after {
		res.Tags = append(res.Tags, "mmc-rotation-after-the-pass")
	}
	if nv > 0 && ns > 0 {
		res.Tags = append(res.Tags, "mmc-victims-and-survivors")
	} else if nv > 0 {
		res.Tags = append(res.Tags, "mmc-every-entry-a-victim")
	} else {
		res.Tags = append(res.Tags, "mmc-no-victim")
	}
	res.Nontrivial = nv > 0 && ns > 0 && na > 0 && blockedA+blockedP+blockedR > 0
	return res
}

var retMmcFixed = []string{
	"mmc 3 1 1 0 p,p,a0,p,a0,p",             // the rotation tries to get in after the scan and after the directory removal
	"mmc 3 1,2 2 1 a0,p,a0,p,r0,p,a1,p,p,p", // a rotation holds the lock when the pass arrives
	"mmc 2 1,2 1 1 p,p,p,a0,r0,p,p",         // nothing preserved: the file is removed, the rotation re-creates it
	"mmc 4 - 1 0 p,a0,p,a0,p",               // nothing to remove: no rewrite
	"mmc 1 7 0 0 -",
}

func genRetMmcLine(r *rand.Rand) string {
	n := 1 + r.Intn(6)
	na := 1 + r.Intn(3)
	nr := r.Intn(3)
	if r.Intn(12) == 0 {
		na = 0
	}
	var vs []string
	mode := r.Intn(10)
	for k := 1; k <= n; k++ {
		switch {
		case mode == 0: // every entry
			vs = append(vs, fmt.Sprint(k))
		case mode == 1: // none
		case k == 1 && n > 1: // at least one victim …
			vs = append(vs, "1")
		case k == n && n > 1: // … and one survivor
		case r.Intn(2) == 0:
			vs = append(vs, fmt.Sprint(k))
		}
	}
	if r.Intn(10) == 0 {
		vs = append(vs, fmt.Sprint(n+1+r.Intn(3))) // a key the file does not hold
	}
	if na > 0 && r.Intn(10) == 0 {
		vs = append(vs, "101") // the segment that rotates meanwhile is itself on the list
	}
	v := "-"
	if len(vs) > 0 {
		v = strings.Join(vs, ",")
	}
	var others []string
	for i := 0; i < na; i++ {
		others = append(others, fmt.Sprintf("a%d", i))
	}
	for j := 0; j < nr; j++ {
		others = append(others, fmt.Sprintf("r%d", j))
	}
	pick := func() string {
		if len(others) == 0 {
			return "p"
		}
		return others[r.Intn(len(others))]
	}
	var s []string
	if r.Intn(3) == 0 { // uniform
		l := 4 + r.Intn(24)
		for i := 0; i < l; i++ {
			if r.Intn(3) == 0 {
				s = append(s, "p")
			} else {
				s = append(s, pick())
			}
		}
	} else { // the pass step by step, other threads (probes) in every gap
		for i := r.Intn(5); i > 0; i-- {
			s = append(s, pick())
		}
		steps := 3 + len(vs)
		for i := 0; i < steps; i++ {
			s = append(s, "p")
			for g := r.Intn(3); g > 0; g-- {
				s = append(s, pick())
			}
		}
		for i := r.Intn(4); i > 0; i-- {
			s = append(s, pick())
		}
	}
	if len(s) > 60 {
		s = s[:60]
	}
	return fmt.Sprintf("mmc %d %s %d %d %s", n, v, na, nr, strings.Join(s, ","))
}

func genRetMmc(r *rand.Rand, n int, tier string) []string {
	out := append([]string{}, retMmcFixed...)
	for len(out) < n {
		if r.Intn(40) == 0 {
			out = append(out, []string{"mmc 0 - 1 0 p", "mmc 3 1 1 0 p,a1", "mmc 3 x 1 0 p", "mmc 7 1 1 0 p", "mmc 3 1 1"}[r.Intn(5)])
			continue
		}
		out = append(out, genRetMmcLine(r))
	}
	return out[:n]
}

// ---------------------------------------------------------------- retsbd

var retSbdWords = []string{"final", "rotated", "ts", "active", "segmeta.json", "finalx", "xfinal", "final.final", "ingestnodes", "querynodes", "data", "idx", "app-logs", "0", "17"}

func execRetSbd(line string) Result {
	f := strings.Fields(line)
	if len(f) != 2 || f[0] != "sbd" {
		return Result{Out: "bad-op"}
	}
	key := f[1]
	res := Result{Tags: []string{"sbd"}}
	d, err := sutils.GetSegBaseDirFromFilename(key)
	if err != nil {
		res.Out = "err"
	} else {
		res.Out = "ok " + d
	}
	// the property on keys in the writer's layout <pre>/final/<index>/<stream>/<suffix>/<suffix>: the directory is the key
	// without its last component.  Which /final/ is the layout's is read off the key's shape (the first one that is
	// followed by exactly index/stream/suffix/suffix); it is the first one of the key unless <pre> (data path + host id)
	// itself holds a /final/ — the class of the known finding retention/segment-directory-from-key/data-path-contains-final.
	found := false
	for from := 0; !found; {
		i := strings.Index(key[from:], "/final/")
		if i < 0 {
			break
		}
		i += from
		from = i + 1
		parts := strings.Split(key[i+len("/final/"):], "/")
		if len(parts) != 4 || parts[2] != parts[3] || parts[0] == "" || parts[1] == "" || parts[2] == "" {
			continue
		}
		found = true
		first := i == strings.Index(key, "/final/")
		want := key[:len(key)-len(parts[3])]
		res.Tags = append(res.Tags, "sbd-writer-layout")
		class := "other"
		for _, w := range retSbdWords[:8] {
			if parts[0] == w {
				res.Nontrivial = true
				class = "layout-word"
				if w == "final" {
					class = "final"
				} else if strings.Contains(w, "final") {
					class = "contains-final"
				}
				res.Tags = append(res.Tags, "sbd-index-name="+class)
			}
		}
		if !first {
			class = "data-path-contains-final"
			res.Tags = append(res.Tags, "sbd-data-path-contains-final")
		} else {
			class = "index-name-" + class
		}
		if err != nil || d != want {
			res.Fails = append(res.Fails, PropFail{Sig: "retention/segment-directory-from-key/" + class, Msg: fmt.Sprintf("GetSegBaseDirFromFilename(%q) = %q, %v; the segment's directory is %q", key, d, err, want)})
		}
	}
	if !strings.Contains(key, "/final/") {
		res.Tags = append(res.Tags, "sbd-no-final")
	}
	return res
}

func genRetSbd(r *rand.Rand, n int, tier string) []string {
	out := []string{"sbd /data/ingestnodes/h1/final/final/123/0/0", "sbd /data/h/final/app/1/2/2", "sbd /data/h/final/app/1/2", "sbd /nofinaldir/smx/st/1/1", "sbd /d/final/final/final/final/final", "sbd x/final/", "sbd /mnt/final/sig/h/final/app/1/7/7"}
	word := func() string { return retSbdWords[r.Intn(len(retSbdWords))] }
	for len(out) < n {
		var pre []string
		for i := 1 + r.Intn(3); i > 0; i-- {
			w := word()
			if w == "final" && (i == 1 || r.Intn(4) != 0) { // a data path with a directory called final: rarely (known finding), never the host id
				w = "finals"
			}
			pre = append(pre, w)
		}
		p := "/" + strings.Join(pre, "/")
		if r.Intn(4) == 0 {
			p = strings.Join(pre, "/")
		}
		idx := word()
		if r.Intn(3) == 0 {
			idx = "final"
		}
		stream := word()
		if r.Intn(2) == 0 {
			stream = fmt.Sprint(r.Uint64())
		}
		suf := fmt.Sprint(r.Intn(1000))
		key := p + "/final/" + idx + "/" + stream + "/" + suf + "/" + suf
		switch r.Intn(12) {
		case 0: // a file of the segment
			key += "_" + fmt.Sprint(r.Intn(100)) + ".csg"
		case 1: // truncated
			key = key[:len(p)+7+r.Intn(len(key)-len(p)-7+1)]
		case 2: // no /final/
			key = p + "/" + idx + "/" + stream + "/" + suf + "/" + suf
		case 3: // deeper
			key += "/" + word()
		}
		out = append(out, "sbd "+key)
	}
	return out[:n]
}

var _ = config.GetHostID
