package main

// C07 — flushed log data survives a process crash at any instant.   Suite "crash".
//
//	crash H <history…> X <m>       history ::= ev/<vid>/<ts>/<fields> | send | fl | ro  (tokens of e2e_suite.go; every
//	                               event carries n~i<2^vid>, vids distinct and < 60)
//	crash H <history…> X <m>~<cap> as X <m>, but at most about <cap> crash points of the window are run (first, last,
//	                               evenly spaced ones in between, and the first point of every function) — quick tier
//	crash H <history…> X order
//
// The crash points are the calls utils.VerifCrashPoint(label) that harness/cmd/overlaygen (crash.go) inserts before
// every statement of the segment-writer functions (from the CURRENT source of the repo).  A process started with
// VERIF_CRASH_AT=k os.Exit()s at the k-th point it reaches; with VERIF_CRASH_LOG every point reached is logged.
//
// MODEL STEPS.  The Lean model (SigModel.Crash.steps) is a list of file-system steps.  A logged point is the
// completion MARKER of a model step when (function of the point, calls of the statement that just completed) is:
//
//	suftmp   writeSuffix             os.WriteFile          (suffix.tmp written)
//	sufren   writeSuffix             os.Rename
//	mkdir    resetSegStore           os.MkdirAll           (segment directory)
//	cols     AppendWipToSegfile      allColsToFlush.Wait() — the LAST Wait statement of the function: every column
//	                                 goroutine (writeWip = .csg chunk, flushBloomIndex/flushBlockRangeIndex = .cmi) is done
//	bsu      flushBlockSummary       fd.Write
//	ssttmp   FlushSegStats           os.OpenFile(.sst.tmp, O_TRUNC)   (its content is never read)
//	sstren   FlushSegStats           os.Rename
//	sfmtmp   WriteSfm                os.OpenFile(.sfm.tmp, O_TRUNC)   (its content is never read)
//	sfmren   WriteSfm                os.Rename onto .sfm
//	         (a WriteSfm that truncates the .sfm in place again has no Rename marker: `X order` and every later
//	         window then differ from the model, and the property check reports completed-flush-lost@WriteSfm)
//	segmeta  BulkAddRotatedSegmetas  fd.Write              (segmeta.json append)
//
// `X m` stands for EVERY crash point at which exactly m markers had completed (points between two model steps
// belong to the earlier one; points inside the parallel column phase belong to the step before `cols`).  Exec
// runs them all: child A = worker that ingests the history and dies at the point, child B = fresh worker on the
// same data dir (initialisation order of cmd/startup; waits for the startup sync goroutine) that queries, then
// ingests and flushes ONE more event and queries again.  All points of the window must give the same answer
// (else Out = "diverge …").  `X order` prints the marker kinds of an uncrashed run (ties the step ORDER).
//
// METADATA LAYER (Model/CrashMeta.lean).  "Searchable" is more than "served by an all-time match-all": the restarted
// node prunes whole segments by the time range its metadata record advertises — for a segment that was open at the
// crash that record is the running .sfm.  Therefore (a) the parent reads, at the moment of the crash, every
// <seg>.sfm and the lines of segmeta.json (earliest, latest, recordCount, column names) — out fields sfm= / sm=,
// compared with the record the model builds by the per-record update rule; (b) the restarted process also runs,
// per flush i of the history, `*` and `* | stats count` over the time window of the events of flush i (tw= / tc=),
// and per column named c<digits> the search `<col>=*` (col=).  The generator gives every batch its own time window
// (forward, backward, shuffled or coinciding) and lets later batches introduce new columns.
//
// Three defects of the flush in progress that this layer found are repaired (known_findings.txt, `fixed:` lines); their
// detectors stay: crash/query-never-returns (a search that does not return within the limit, twice),
// crash/orphan-column-chunk-misattributed (a column search returning an event without the column while the flush in
// progress was writing that column's file), crash/inflight-new-column-dropped (an event of the flush in progress that
// comes back without one of its fields).
//
// SUFFIX ALLOCATION (segment numbers).  suffix.GetNextSuffix runs once per new SegStore / rotation; a restart reads the
// suffix file (missing or EMPTY = 0) for the number of its first segment.  Besides the statement boundaries the log has
// the points `<func>:<n>|~open` that overlaygen puts before every os.WriteFile(name, …): dying there leaves `name`
// truncated to zero bytes (the open(O_TRUNC) of the call done, its write not) — they belong to the window of the
// boundary before the call.  The points of writeSuffix / getAndIncrementSuffixFromFile and the ~open points are their
// own class: the quick tier's cap never drops them (tags suffix-crash, suffix-crash:open).  After the restart the worker
// ingests+flushes one more event into the SAME stream, searches, ROTATES the new segment and searches again
// (rpost= / rpcnt=).
//
// PropFail (independent of the model): see checkPoint.

import (
	"bufio"
	"bytes"
	"crypto/sha1"
	"encoding/json"
	"fmt"
	"math/rand"
	"os"
	"os/exec"
	"path/filepath"
	"runtime"
	"sort"
	"strconv"
	"strings"
	"sync"
	"time"

	"github.com/siglens/siglens/pkg/utils"
	log "github.com/sirupsen/logrus"
)

// ---------------------------------------------------------------- helpers used by e2eworker.go

func crashNote(s string) { utils.VerifCrashNote(s) }

type syncWatch struct {
	ch   chan struct{}
	once sync.Once
}

func (w *syncWatch) Levels() []log.Level { return []log.Level{log.InfoLevel, log.ErrorLevel} }
func (w *syncWatch) Fire(e *log.Entry) error {
	// the two ways query.syncSegMetaWithSegFullMeta ends (pkg/segment/query/queryrefresh.go)
	if strings.HasPrefix(e.Message, "syncSegMetaWithSegFullMeta: myid=") || strings.HasPrefix(e.Message, "syncSegMetaWithSegFullMeta: Error in getting vtable names") {
		w.once.Do(func() { close(w.ch) })
	}
	return nil
}

func installSyncWatch() chan struct{} {
	if os.Getenv("VERIF_WAIT_SYNC") == "" {
		return nil
	}
	w := &syncWatch{ch: make(chan struct{})}
	log.SetLevel(log.InfoLevel) // output stays io.Discard (main.go)
	log.AddHook(w)
	return w.ch
}

func waitSync(ch chan struct{}) string {
	if ch == nil {
		return "off"
	}
	select {
	case <-ch:
		return "done"
	case <-time.After(20 * time.Second):
		return "timeout"
	}
}

// ---------------------------------------------------------------- suite

const crashNewVid = 1000000

func init() {
	register(&Suite{Name: "crash", Parallel: 3, Gen: genCrash, Exec: execCrash,
		Rule: "ingest histories (batches, buffer flushes, rotations) × EVERY crash point (statement boundary) of the flush/rotate/segmeta/suffix/checksum-file writer functions, grouped by the number of completed model steps; per point: process A killed at the point, process B restarted on the same directory, 5 queries + per-flush window and per-column queries, one more ingest+flush into the same stream, 2 queries, rotation of the new segment, 2 queries; the points of the suffix allocation (writeSuffix/getAndIncrementSuffixFromFile) and the points between the open(O_TRUNC) and the write of every os.WriteFile are never dropped by the quick tier's cap; non-trivial = at least one flush had completed or was in flight"})
}

type crashEvent struct {
	vid    int
	ts     uint64
	fields []kv
}

type crashHist struct {
	key     string
	input   string // stdin of child A
	events  map[int]crashEvent
	flushes [][]int     // vids of flush 0,1,…
	cmdFl   map[int]int // worker command number (1-based over flush/rotate lines) → flush id, -1 = none
	kinds   []string    // model step kinds in program order (Go copy of SigModel.Crash.steps, for Gen only)
	created bool
	wins    [][2]uint64 // per flush: [min ts, max ts] of its events
	xcols   []string    // columns named c<digits>, sorted
}

func (h *crashHist) hasCol(vid int, c string) bool {
	for _, f := range h.events[vid].fields {
		if f.k == c {
			return true
		}
	}
	return false
}

func crashIsExtraCol(c string) bool {
	return len(c) >= 2 && c[0] == 'c' && digitsOnly(c[1:])
}

func (h *crashHist) finish() {
	xc := map[string]bool{}
	for _, fl := range h.flushes {
		var lo, hi uint64
		for i, v := range fl {
			ts := h.events[v].ts
			if i == 0 || ts < lo {
				lo = ts
			}
			if ts > hi {
				hi = ts
			}
		}
		h.wins = append(h.wins, [2]uint64{lo, hi})
	}
	for _, e := range h.events {
		for _, f := range e.fields {
			if crashIsExtraCol(f.k) {
				xc[f.k] = true
			}
		}
	}
	for c := range xc {
		h.xcols = append(h.xcols, c)
	}
	sort.Strings(h.xcols)
}

func parseCrashHist(toks []string) (*crashHist, bool) {
	h := &crashHist{key: strings.Join(toks, " "), events: map[int]crashEvent{}, cmdFl: map[int]int{}}
	var in bytes.Buffer
	var batch []string
	var batchV, pending []int
	cmdNo := 0
	blocks := 0 // blocks in the open segment
	open := func(n int) { _ = n; h.kinds = append(h.kinds, "suftmp", "sufren", "mkdir") }
	flush := func() int {
		if len(pending) == 0 {
			return -1
		}
		h.flushes = append(h.flushes, pending)
		pending = nil
		h.kinds = append(h.kinds, "cols", "bsu", "ssttmp", "sstren", "sfmtmp", "sfmren")
		blocks++
		return len(h.flushes) - 1
	}
	for _, t := range toks {
		switch {
		case t == "send":
			if len(batch) > 0 {
				fmt.Fprintf(&in, "batch %s\n", strings.Join(batch, " "))
				if !h.created {
					h.created = true
					open(0)
				}
				pending = append(pending, batchV...)
			}
			batch, batchV = nil, nil
		case t == "fl":
			in.WriteString("flush\n")
			cmdNo++
			h.cmdFl[cmdNo] = flush()
		case t == "ro":
			in.WriteString("rotate\n")
			cmdNo++
			h.cmdFl[cmdNo] = flush()
			if h.created && blocks > 0 {
				h.kinds = append(h.kinds, "sfmtmp", "sfmren", "segmeta")
				open(0)
				blocks = 0
			}
		case strings.HasPrefix(t, "ev/"):
			p := strings.SplitN(t, "/", 4)
			if len(p) != 4 {
				return nil, false
			}
			if !digitsOnly(p[1]) || !digitsOnly(p[2]) {
				return nil, false
			}
			vid, e1 := strconv.Atoi(p[1])
			ts, e2 := strconv.ParseUint(p[2], 10, 64)
			if e1 != nil || e2 != nil || vid >= 60 {
				return nil, false
			}
			if _, dup := h.events[vid]; dup {
				return nil, false
			}
			var fields []kv
			hasN := false
			for _, x := range strings.Split(p[3], ",") {
				if x == "n~i"+strconv.FormatUint(uint64(1)<<uint(vid), 10) {
					hasN = true
				}
				y := strings.SplitN(x, "~", 2)
				if len(y) != 2 {
					return nil, false
				}
				fields = append(fields, kv{y[0], y[1]})
			}
			if !hasN {
				return nil, false
			}
			js, ok := eventJSON(vid, ts, fields, false)
			if !ok {
				return nil, false
			}
			h.events[vid] = crashEvent{vid, ts, fields}
			batch = append(batch, hexs(js))
			batchV = append(batchV, vid)
		default:
			return nil, false
		}
	}
	h.input = in.String()
	if !h.created {
		h.kinds = nil
	}
	h.finish()
	return h, true
}

// ---- crash log

type crashPoint struct {
	k     int    // 1-based index among the points
	label string // fn:n|calls
	fn    string
	calls []string
	cmd   int  // worker command in progress (0 = none: inside a batch or between commands)
	rot   bool // a point of checkAndRotateColFiles was reached in this command (the buffer-flush part is over)
	open  bool // `~open` point: dying here leaves the target of the next os.WriteFile truncated
	done  int  // last command that returned
	m     int  // markers completed up to and including this point
}

func splitLabel(label string) (fn string, n int, calls []string) {
	a := strings.SplitN(label, "|", 2)
	b := strings.SplitN(a[0], ":", 2)
	fn = b[0]
	if len(b) == 2 {
		n, _ = strconv.Atoi(b[1])
	}
	if len(a) == 2 && a[1] != "" {
		calls = strings.Split(a[1], "+")
	}
	return
}

func digitsOnly(s string) bool {
	if s == "" {
		return false
	}
	for _, c := range s {
		if c < '0' || c > '9' {
			return false
		}
	}
	return true
}

func hasCall(calls []string, c string) bool {
	for _, x := range calls {
		if x == c {
			return true
		}
	}
	return false
}

// the completion marker table (see the header comment)
func markerKind(fn string, calls []string, label, finalWait string) string {
	switch {
	case fn == "writeSuffix" && hasCall(calls, "WriteFile"):
		return "suftmp"
	case fn == "writeSuffix" && hasCall(calls, "Rename"):
		return "sufren"
	case fn == "resetSegStore" && hasCall(calls, "MkdirAll"):
		return "mkdir"
	case label == finalWait:
		return "cols"
	case fn == "flushBlockSummary" && hasCall(calls, "Write"):
		return "bsu"
	case fn == "FlushSegStats" && hasCall(calls, "OpenFile"):
		return "ssttmp"
	case fn == "FlushSegStats" && hasCall(calls, "Rename"):
		return "sstren"
	case fn == "WriteSfm" && hasCall(calls, "OpenFile"):
		return "sfmtmp"
	case fn == "WriteSfm" && hasCall(calls, "Rename"):
		return "sfmren"
	case fn == "BulkAddRotatedSegmetas" && hasCall(calls, "Write"):
		return "segmeta"
	}
	return ""
}

// the label of the last `…Wait()` statement of AppendWipToSegfile that occurs in a log
func findFinalWait(lines []string) string {
	best, bestN := "", -1
	for _, l := range lines {
		sp := strings.SplitN(l, " ", 2)
		if len(sp) != 2 {
			continue
		}
		fn, n, calls := splitLabel(sp[1])
		if fn == "AppendWipToSegfile" && len(calls) == 1 && calls[0] == "Wait" && n > bestN {
			best, bestN = sp[1], n
		}
	}
	return best
}

func parseCrashLog(path, finalWait string) (pts []crashPoint, kinds []string, fw string) {
	b, _ := os.ReadFile(path)
	lines := strings.Split(strings.TrimSpace(string(b)), "\n")
	if finalWait == "" {
		finalWait = findFinalWait(lines)
	}
	cmd, done, m := 0, 0, 0
	rot := false
	for _, l := range lines {
		switch {
		case strings.HasPrefix(l, "cmdstart:"):
			cmd, _ = strconv.Atoi(strings.SplitN(l[9:], ":", 2)[0])
			rot = false
		case strings.HasPrefix(l, "cmddone:"):
			done, _ = strconv.Atoi(l[8:])
			cmd = 0
		default:
			sp := strings.SplitN(l, " ", 2)
			if len(sp) != 2 {
				continue
			}
			k, err := strconv.Atoi(sp[0])
			if err != nil {
				continue
			}
			fn, _, calls := splitLabel(sp[1])
			if fn == "checkAndRotateColFiles" {
				rot = true
			}
			if mk := markerKind(fn, calls, sp[1], finalWait); mk != "" {
				m++
				kinds = append(kinds, mk)
			}
			pts = append(pts, crashPoint{k: k, label: sp[1], fn: fn, calls: calls, cmd: cmd, rot: rot, done: done, m: m, open: hasCall(calls, "~open")})
		}
	}
	return pts, kinds, finalWait
}

// the points of the suffix allocation protocol (and every between-the-syscalls point): a class of their own
func (p crashPoint) suffixClass() bool {
	return p.open || p.fn == "writeSuffix" || p.fn == "getAndIncrementSuffixFromFile"
}

// ---- children

var crashSem = make(chan struct{}, crashPar())

// concurrent child pairs (each child runs with GOMAXPROCS=2)
func crashPar() int {
	if n, err := strconv.Atoi(os.Getenv("VERIF_CRASH_PAR")); err == nil && n > 0 {
		return n
	}
	n := runtime.NumCPU() / 4 // the machine is shared with other checks
	if n < 2 {
		n = 2
	}
	if n > 4 {
		n = 4
	}
	return n
}

var crashRootOnce sync.Once
var crashRoot string

func crashTmp() string {
	crashRootOnce.Do(func() {
		d, err := os.MkdirTemp("", "verif-c07-")
		if err != nil {
			panic(err)
		}
		crashRoot = d
		exitHooks = append(exitHooks, func() { os.RemoveAll(d) })
	})
	d, err := os.MkdirTemp(crashRoot, "p")
	if err != nil {
		panic(err)
	}
	return d
}

func childEnv(extra ...string) []string {
	var env []string
	for _, e := range os.Environ() {
		if strings.HasPrefix(e, "VERIF_CRASH_") || strings.HasPrefix(e, "VERIF_DATA_DIR=") || strings.HasPrefix(e, "VERIF_WAIT_SYNC=") || strings.HasPrefix(e, "GOMAXPROCS=") || strings.HasPrefix(e, "GOMEMLIMIT=") {
			continue
		}
		env = append(env, e)
	}
	// two OS threads per child: many children run side by side, and AppendWipToSegfile sizes its
	// per-flush work-buffer loop by GOMAXPROCS (fewer, not different, crash points)
	return append(append(env, "GOMAXPROCS=2", "GOMEMLIMIT=768MiB"), extra...)
}

func runChildA(h *crashHist, dir string, k int) (rc int, stderr string) {
	cmd := exec.Command(os.Args[0], "e2eworker")
	cmd.Stdin = strings.NewReader(h.input)
	cmd.Env = childEnv("VERIF_DATA_DIR="+filepath.Join(dir, "d"), "VERIF_CRASH_AT="+strconv.Itoa(k), "VERIF_CRASH_LOG="+filepath.Join(dir, "log"))
	var eb bytes.Buffer
	cmd.Stderr = &eb
	cmd.Stdout = nil
	err := cmd.Run()
	rc = 0
	if err != nil {
		rc = -1
		if ee, ok := err.(*exec.ExitError); ok {
			rc = ee.ExitCode()
		}
	}
	return rc, eb.String()
}

type crashDry struct {
	once      sync.Once
	pts       []crashPoint
	kinds     []string
	finalWait string
	err       string
}

var crashDryCache sync.Map

func dryRun(h *crashHist) *crashDry {
	v, _ := crashDryCache.LoadOrStore(h.key, &crashDry{})
	d := v.(*crashDry)
	d.once.Do(func() {
		crashSem <- struct{}{}
		defer func() { <-crashSem }()
		dir := crashTmp()
		defer os.RemoveAll(dir)
		rc, se := runChildA(h, dir, 0)
		if rc != 0 {
			d.err = fmt.Sprintf("dry run of the history failed rc=%d %s", rc, trunc(se, 300))
			return
		}
		d.pts, d.kinds, d.finalWait = parseCrashLog(filepath.Join(dir, "log"), "")
	})
	return d
}

type crashAnswer struct {
	vis, flt, rng, post []int
	cnt, pcnt           int
	rpost               []int // `*` after the restarted process also rotated its new segment
	rpcnt               int
	reissued            []string // segment directories that existed before the restart and that the restarted writer wrote into
	sum                 uint64
	sumOK               bool
	next                int
	altered             []int
	dropped             map[int]bool // events that some search returned WITHOUT one of the fields sent
	errs                []string
	sfm, sm             string  // metadata records on disk at the moment of the crash
	tw                  [][]int // per flush of the history: `*` over the flush's time window
	tc                  []int   // … `* | stats count` over it
	col                 [][]int // per extra column: `<col>=*`
	hang                string  // the query that never returned (confirmed by a second, solitary run with a longer limit)
}

type crashSfmFile struct {
	Earliest uint64                 `json:"earliestEpochMs"`
	Latest   uint64                 `json:"latestEpochMs"`
	Records  int                    `json:"recordCount"`
	Cols     map[string]interface{} `json:"columnNames"`
}

// the metadata records of the data directory: every <seg>/<seg>.sfm (segment order) and the lines of segmeta.json
func crashMetaState(dir string) (sfm, sm string) {
	type ent struct {
		seg int
		s   string
	}
	var sfms []ent
	var sms []string
	segOf := func(key string) int {
		n, err := strconv.Atoi(filepath.Base(key))
		if err != nil {
			return -1
		}
		return n
	}
	filepath.Walk(filepath.Join(dir, "d"), func(p string, fi os.FileInfo, err error) error {
		if err != nil || fi.IsDir() {
			return nil
		}
		switch {
		case filepath.Ext(p) == ".sfm":
			seg := segOf(strings.TrimSuffix(p, ".sfm"))
			b, _ := os.ReadFile(p)
			var f crashSfmFile
			if json.Unmarshal(b, &f) != nil {
				sfms = append(sfms, ent{seg, fmt.Sprintf("%d:unparsable", seg)})
				return nil
			}
			var cols []string
			for c := range f.Cols {
				cols = append(cols, c)
			}
			sort.Strings(cols)
			sfms = append(sfms, ent{seg, fmt.Sprintf("%d:%d-%d:%d:%s", seg, f.Earliest, f.Latest, f.Records, strings.Join(cols, "+"))})
		case filepath.Base(p) == "segmeta.json":
			b, _ := os.ReadFile(p)
			for _, l := range strings.Split(string(b), "\n") {
				if strings.TrimSpace(l) == "" {
					continue
				}
				var f struct {
					crashSfmFile
					Key string `json:"segmentKey"`
				}
				if json.Unmarshal([]byte(l), &f) != nil {
					sms = append(sms, "unparsable")
					continue
				}
				sms = append(sms, fmt.Sprintf("%d:%d-%d:%d", segOf(f.Key), f.Earliest, f.Latest, f.Records))
			}
		}
		return nil
	})
	sort.Slice(sfms, func(i, j int) bool { return sfms[i].seg < sfms[j].seg })
	var ss []string
	for _, e := range sfms {
		ss = append(ss, e.s)
	}
	dash := func(l []string, sep string) string {
		if len(l) == 0 {
			return "-"
		}
		return strings.Join(l, sep)
	}
	return dash(ss, ";"), dash(sms, ";")
}

type qres struct {
	Recs    []map[string]interface{} `json:"recs"`
	Measure []struct {
		MeasureVal map[string]interface{} `json:"MeasureVal"`
	} `json:"measure"`
	Err    string      `json:"err"`
	Errors interface{} `json:"errors"`
	Sync   string      `json:"sync"`
}

// data files of the segment directories: path → content hash (.sfm is excluded: the restarted process
// legitimately rewrites it when it back-fills persistent-query ids; so are new files such as pqmr/)
func segFiles(dir string) map[string]string {
	res := map[string]string{}
	filepath.Walk(filepath.Join(dir, "d"), func(p string, fi os.FileInfo, err error) error {
		if err != nil || fi.IsDir() {
			return nil
		}
		switch filepath.Ext(p) {
		case ".csg", ".cmi", ".bsu", ".sst":
			b, _ := os.ReadFile(p)
			res[p] = fmt.Sprintf("%d:%x", len(b), sha1.Sum(b))
		}
		return nil
	})
	return res
}

func (h *crashHist) recordOK(rec map[string]interface{}) (vid int, ok bool, why string) {
	vn, isn := rec["_vid"].(json.Number)
	if !isn {
		return -1, false, "record without _vid"
	}
	v64, err := vn.Int64()
	if err != nil {
		return -1, false, "record with non-integer _vid"
	}
	vid = int(v64)
	var ev crashEvent
	if vid == crashNewVid {
		ev = crashEvent{vid, e2eBase + 999, []kv{{"a", "s" + hexs("xN")}, {"g", "s" + hexs("k")}}}
	} else {
		e, known := h.events[vid]
		if !known {
			return vid, false, "unknown _vid"
		}
		ev = e
	}
	want := map[string]string{"_vid": "i" + strconv.Itoa(vid), "timestamp": "i" + strconv.FormatUint(ev.ts, 10)}
	for _, f := range ev.fields {
		want[f.k] = f.tv
	}
	var wk []string
	for k := range want {
		wk = append(wk, k)
	}
	sort.Strings(wk)
	for _, k := range wk {
		w := want[k]
		g, present := rec[k]
		if !present || g == nil {
			return vid, false, fmt.Sprintf("missing field %s (sent %s)", k, w)
		}
		if canonVal(g) != w {
			return vid, false, fmt.Sprintf("field %s = %v, sent %s", k, g, w)
		}
	}
	for k, g := range rec {
		if _, sent := want[k]; !sent && g != nil && k != "_index" {
			return vid, false, fmt.Sprintf("field %s = %v was never sent", k, g)
		}
	}
	return vid, true, ""
}

// a query that has not returned after crashQueryLimit seconds is taken to spin for ever only when a second run of the
// restarted process — alone on its slot, with three times the limit — stalls at a query again
const crashQueryLimit = 8

func runChildB(h *crashHist, dir string) crashAnswer {
	sfm, sm := crashMetaState(dir) // before the restarted process touches the directory
	a := runChildBOnce(h, dir, crashQueryLimit)
	if a.hang != "" {
		a = runChildBOnce(h, dir, 3*crashQueryLimit)
	}
	a.sfm, a.sm = sfm, sm
	return a
}

func runChildBOnce(h *crashHist, dir string, limitS int) (a crashAnswer) {
	a.next = -1
	before := segFiles(dir)
	var in bytes.Buffer
	lo, hi := e2eBase-1000, e2eBase+1000000
	q := func(spl string) { fmt.Fprintf(&in, "q 0 1000 %d %d %s\n", lo, hi, hexs(spl)) }
	qw := func(spl string, w [2]uint64) { fmt.Fprintf(&in, "q 0 1000 %d %d %s\n", w[0], w[1], hexs(spl)) }
	in.WriteString("waitsync\n")
	q("*")
	q("* | stats count")
	q("g=k")
	q("n>0")
	q("* | stats sum(n)")
	names := []string{"", "*", "count", "g=k", "n>0", "sum"}
	for i, w := range h.wins {
		qw("*", w)
		qw("* | stats count", w)
		names = append(names, fmt.Sprintf("* over the window of flush #%d", i), fmt.Sprintf("count over the window of flush #%d", i))
	}
	for _, c := range h.xcols {
		q(c + "=*")
		names = append(names, c+"=*")
	}
	names = append(names, "post *", "post count", "post-rotation *", "post-rotation count")
	nj, _ := eventJSON(crashNewVid, e2eBase+999, []kv{{"a", "s" + hexs("xN")}, {"g", "s" + hexs("k")}}, false)
	fmt.Fprintf(&in, "batch %s\nflush\n", hexs(nj))
	q("*")
	q("* | stats count")
	in.WriteString("rotate\n")
	q("*")
	q("* | stats count")
	dirsBefore := segDirs(dir)
	cmd := exec.Command(os.Args[0], "e2eworker")
	cmd.Stdin = &in
	cmd.Env = childEnv("VERIF_DATA_DIR="+filepath.Join(dir, "d"), "VERIF_WAIT_SYNC=1", "VERIF_QUERY_TIMEOUT_S="+strconv.Itoa(limitS))
	var ob, eb bytes.Buffer
	cmd.Stdout, cmd.Stderr = &ob, &eb
	if err := cmd.Run(); err != nil {
		first := ""
		for _, l := range strings.Split(eb.String(), "\n") {
			if strings.HasPrefix(l, "panic:") || strings.HasPrefix(l, "fatal error:") || strings.Contains(l, "/repo/") {
				first += strings.TrimSpace(l) + " | "
				if len(first) > 300 {
					break
				}
			}
		}
		a.errs = append(a.errs, "startup: restarted process failed: "+err.Error()+" "+first)
		return
	}
	var rs []qres
	sc := bufio.NewScanner(&ob)
	sc.Buffer(make([]byte, 1<<20), 1<<26)
	for sc.Scan() {
		var r qres
		d := json.NewDecoder(strings.NewReader(sc.Text()))
		d.UseNumber()
		if err := d.Decode(&r); err != nil {
			a.errs = append(a.errs, "startup: unreadable answer "+trunc(sc.Text(), 100))
			return
		}
		rs = append(rs, r)
	}
	if n := len(rs); n > 0 && n <= len(names) && rs[n-1].Err == "query-never-returned" {
		a.hang = names[n-1]
		a.errs = append(a.errs, fmt.Sprintf("hang: query %q did not return within %d s", names[n-1], limitS))
		return
	}
	if len(rs) != len(names) {
		a.errs = append(a.errs, fmt.Sprintf("startup: %d answers instead of %d", len(rs), len(names)))
		return
	}
	if rs[0].Sync != "done" {
		a.errs = append(a.errs, "startup: segment-meta sync did not finish: "+rs[0].Sync)
	}
	for i := 1; i < len(names); i++ {
		if rs[i].Err != "" {
			a.errs = append(a.errs, "query: "+names[i]+": "+rs[i].Err)
		}
		if rs[i].Errors != nil {
			if l, isl := rs[i].Errors.([]interface{}); !isl || len(l) > 0 {
				a.errs = append(a.errs, fmt.Sprintf("query: %s: errors=%v", names[i], rs[i].Errors))
			}
		}
	}
	vids := func(r qres) []int {
		var out []int
		for _, rec := range r.Recs {
			v, ok, why := h.recordOK(rec)
			if !ok && strings.HasPrefix(why, "missing field ") {
				if a.dropped == nil {
					a.dropped = map[int]bool{}
				}
				if !a.dropped[v] {
					a.dropped[v] = true
					a.errs = append(a.errs, fmt.Sprintf("dropped: _vid %d: %s", v, why))
				}
			} else if !ok {
				a.altered = append(a.altered, v)
				a.errs = append(a.errs, fmt.Sprintf("altered: _vid %d: %s", v, why))
			}
			out = append(out, v)
		}
		sort.Ints(out)
		return out
	}
	measure := func(r qres, key string) (uint64, bool) {
		if len(r.Measure) == 0 {
			return 0, true
		}
		if len(r.Measure) > 1 {
			return 0, false
		}
		v, ok := r.Measure[0].MeasureVal[key]
		if !ok || v == nil {
			return 0, true
		}
		if s, iss := v.(string); iss && s == "" {
			return 0, true
		}
		n, isn := v.(json.Number)
		if !isn {
			return 0, false
		}
		u, err := strconv.ParseUint(n.String(), 10, 64)
		if err != nil {
			f, err2 := n.Float64()
			if err2 != nil || f < 0 || f != float64(uint64(f)) {
				return 0, false
			}
			u = uint64(f)
		}
		return u, true
	}
	a.vis = vids(rs[1])
	c, ok := measure(rs[2], "count(*)")
	if !ok {
		a.errs = append(a.errs, "query: count: unreadable measure")
	}
	a.cnt = int(c)
	a.flt = vids(rs[3])
	a.rng = vids(rs[4])
	a.sum, a.sumOK = measure(rs[5], "sum(n)")
	if !a.sumOK {
		a.errs = append(a.errs, "query: sum: unreadable measure")
	}
	ri := 6
	for range h.wins {
		a.tw = append(a.tw, vids(rs[ri]))
		c, ok = measure(rs[ri+1], "count(*)")
		if !ok {
			a.errs = append(a.errs, "query: "+names[ri+1]+": unreadable measure")
		}
		a.tc = append(a.tc, int(c))
		ri += 2
	}
	for range h.xcols {
		a.col = append(a.col, vids(rs[ri]))
		ri++
	}
	a.post = vids(rs[ri])
	c, ok = measure(rs[ri+1], "count(*)")
	if !ok {
		a.errs = append(a.errs, "query: post count: unreadable measure")
	}
	a.pcnt = int(c)
	a.rpost = vids(rs[ri+2])
	c, ok = measure(rs[ri+3], "count(*)")
	if !ok {
		a.errs = append(a.errs, "query: post-rotation count: unreadable measure")
	}
	a.rpcnt = int(c)
	after := segFiles(dir)
	a.next = -1
	for p, sum := range before {
		if after[p] != sum {
			a.errs = append(a.errs, fmt.Sprintf("overwritten: data file %s of an existing segment was changed by the restarted process", strings.TrimPrefix(p, dir)))
		}
	}
	for p := range after {
		if _, old := before[p]; !old && filepath.Ext(p) == ".bsu" {
			if n, err := strconv.Atoi(filepath.Base(filepath.Dir(p))); err == nil {
				a.next = n
			}
		}
	}
	// the segment number the restarted writer took must be FRESH: every directory it wrote data files into (new or
	// changed .csg/.cmi/.bsu/.sst) must not have existed before the restart
	wrote := map[string]bool{}
	for p, sum := range after {
		if before[p] != sum {
			wrote[filepath.Dir(p)] = true
		}
	}
	for d := range wrote {
		if dirsBefore[d] {
			a.reissued = append(a.reissued, strings.TrimPrefix(d, dir))
		}
	}
	sort.Strings(a.reissued)
	for _, d := range a.reissued {
		if n, err := strconv.Atoi(filepath.Base(d)); err == nil && a.next == -1 {
			a.next = n
		}
	}
	return
}

// the segment directories (<stream>/<number>) that exist below the data directory
func segDirs(dir string) map[string]bool {
	res := map[string]bool{}
	filepath.Walk(filepath.Join(dir, "d"), func(p string, fi os.FileInfo, err error) error {
		if err == nil && fi.IsDir() && digitsOnly(filepath.Base(p)) {
			res[p] = true
		}
		return nil
	})
	return res
}

func showInts(l []int) string {
	if len(l) == 0 {
		return "-"
	}
	s := make([]string, len(l))
	for i, v := range l {
		if v == crashNewVid {
			s[i] = "N"
		} else {
			s[i] = strconv.Itoa(v)
		}
	}
	return strings.Join(s, ",")
}

func (h *crashHist) sumSet(sum uint64) string {
	var vs []int
	for v := 0; v < 60; v++ {
		if sum&(uint64(1)<<uint(v)) != 0 {
			if _, ok := h.events[v]; !ok {
				return "#" + strconv.FormatUint(sum, 10)
			}
			vs = append(vs, v)
		}
	}
	if sum>>60 != 0 {
		return "#" + strconv.FormatUint(sum, 10)
	}
	return showInts(vs)
}

func (a *crashAnswer) out(h *crashHist) string {
	if a.hang != "" {
		return "never-returns"
	}
	post := make([]int, 0, len(a.post))
	hasN := false
	for _, v := range a.post {
		if v == crashNewVid {
			hasN = true
		} else {
			post = append(post, v)
		}
	}
	ps := showInts(post)
	if hasN {
		ps += "+N"
	}
	withN := func(l []int) string {
		rest := make([]int, 0, len(l))
		n := false
		for _, v := range l {
			if v == crashNewVid {
				n = true
			} else {
				rest = append(rest, v)
			}
		}
		r := showInts(rest)
		if n {
			r += "+N"
		}
		return r
	}
	s := fmt.Sprintf("vis=%s cnt=%d flt=%s rng=%s sum=%s post=%s pcnt=%d rpost=%s rpcnt=%d next=%d", showInts(a.vis), a.cnt, showInts(a.flt), showInts(a.rng), h.sumSet(a.sum), ps, a.pcnt, withN(a.rpost), a.rpcnt, a.next)
	dash := func(l []string, sep string) string {
		if len(l) == 0 {
			return "-"
		}
		return strings.Join(l, sep)
	}
	var tw, tc, cl []string
	for i := range a.tw {
		tw = append(tw, showInts(a.tw[i]))
		tc = append(tc, strconv.Itoa(a.tc[i]))
	}
	for i := range a.col {
		// only the events that HAVE the column are part of the answer line (completeness of the column search is
		// what the model decides); an event without the column that comes back is reported by checkPoint
		var has []int
		for _, v := range a.col[i] {
			if h.hasCol(v, h.xcols[i]) {
				has = append(has, v)
			}
		}
		cl = append(cl, h.xcols[i]+":"+showInts(has))
	}
	var alt []int
	for v := range a.dropped {
		alt = append(alt, v)
	}
	sort.Ints(alt)
	sfm, sm := a.sfm, a.sm
	if sfm == "" {
		sfm, sm = "-", "-"
	}
	s += fmt.Sprintf(" sfm=%s sm=%s tw=%s tc=%s col=%s alt=%s", sfm, sm, dash(tw, "|"), dash(tc, ","), dash(cl, ";"), showInts(alt))
	for _, e := range a.errs {
		if c := strings.SplitN(e, ":", 2)[0]; c != "dropped" {
			s += " ERR[" + c + "]"
		}
	}
	return s
}

// the property statement itself, checked on the answers of the restarted process
//
//	completed  = flushes whose command had returned, or whose AppendWipToSegfile call had reached the rotation check
//	in flight  = the flush of the command that was running otherwise
func checkPoint(h *crashHist, p crashPoint, a *crashAnswer) []PropFail {
	var completed [][]int
	var inflight []int
	for c := 1; c <= len(h.cmdFl); c++ {
		f := h.cmdFl[c]
		if f < 0 {
			continue
		}
		switch {
		case c <= p.done || (c == p.cmd && p.rot):
			completed = append(completed, h.flushes[f])
		case c == p.cmd:
			inflight = h.flushes[f]
		}
	}
	where := fmt.Sprintf("crash point %d (%s)", p.k, p.label)
	seen := map[string]bool{}
	var fails []PropFail
	add := func(class, msg string) {
		sig := "crash/" + class + "@" + p.fn
		if !seen[sig] {
			seen[sig] = true
			fails = append(fails, PropFail{Sig: sig, Msg: where + ": " + msg})
		}
	}
	inInflight := func(v int) bool {
		for _, x := range inflight {
			if x == v {
				return true
			}
		}
		return false
	}
	addPlain := func(sig, msg string) {
		if !seen[sig] {
			seen[sig] = true
			fails = append(fails, PropFail{Sig: sig, Msg: where + ": " + msg})
		}
	}
	if a.hang != "" {
		addPlain("crash/query-never-returns", fmt.Sprintf("after the restart the search %q never returns (it still spins after %d s, in two runs): a block of the flush in progress straddles the start its segment advertises, the record searcher keeps its older records for a round that never comes", a.hang, 3*crashQueryLimit))
		return fails
	}
	for v := range a.dropped {
		if inInflight(v) {
			// the flush in progress is served, but not with its content
			addPlain("crash/inflight-new-column-dropped", fmt.Sprintf("event %d of the flush in progress is returned without one of its fields (a column the running .sfm does not name yet)", v))
		}
	}
	for _, e := range a.errs {
		switch strings.SplitN(e, ":", 2)[0] {
		case "dropped":
			var v int
			fmt.Sscanf(e, "dropped: _vid %d:", &v)
			if !inInflight(v) {
				add("altered", e)
			}
		case "startup":
			add("startup-failed", e)
		case "query":
			add("query-error", e)
		case "altered":
			add("altered", e)
		case "overwritten":
			add("overwritten", e)
		}
	}
	if len(a.errs) > 0 && len(a.vis) == 0 && a.next == -1 && len(a.post) == 0 {
		return fails // the restarted process did not answer at all
	}
	// `want` = the events the search condition selects (nil = all)
	orphanCol := "" // set while a column search is checked whose column the flush in progress carries
	checkSetSel := func(name string, s []int, post bool, want func(crashEvent) bool) {
		sel := func(v int) bool { return want == nil || want(h.events[v]) }
		cnt := map[int]int{}
		for _, v := range s {
			cnt[v]++
			if cnt[v] == 2 {
				add("duplicated", fmt.Sprintf("%s returns event %d twice", name, v))
			}
			if e, known := h.events[v]; !known && !(post && v == crashNewVid) {
				add("garbage", fmt.Sprintf("%s returns an event (_vid %d) that was never sent", name, v))
			} else if known && want != nil && !want(e) {
				if orphanCol != "" && !inInflight(v) {
					addPlain("crash/orphan-column-chunk-misattributed", fmt.Sprintf("%s returns event %d, which has no such column: the flush in progress had begun to write the file of the NEW column %s, and its chunk is read as if it belonged to an earlier block", name, v, orphanCol))
				} else {
					add("garbage", fmt.Sprintf("%s returns event %d, which does not satisfy the search condition", name, v))
				}
			}
		}
		for i, fl := range completed {
			for _, v := range fl {
				if sel(v) && cnt[v] == 0 {
					add("completed-flush-lost", fmt.Sprintf("%s does not return event %d of completed flush #%d (returned: %s)", name, v, i, showInts(s)))
					break
				}
			}
		}
		n, ns := 0, 0
		for _, v := range inflight {
			if sel(v) {
				ns++
				if cnt[v] > 0 {
					n++
				}
			}
		}
		if n != 0 && n != ns {
			add("inflight-not-atomic", fmt.Sprintf("%s returns %d of the %d selected events of the flush in progress (returned: %s)", name, n, ns, showInts(s)))
		}
	}
	checkSet := func(name string, s []int, post bool) { checkSetSel(name, s, post, nil) }
	checkSet("search *", a.vis, false)
	checkSet("search g=k", a.flt, false)
	checkSet("search n>0", a.rng, false)
	nc, sc := 0, uint64(0)
	for _, fl := range completed {
		nc += len(fl)
		for _, v := range fl {
			sc += uint64(1) << uint(v)
		}
	}
	si := uint64(0)
	for _, v := range inflight {
		si += uint64(1) << uint(v)
	}
	checkNum := func(name string, got, base, extra uint64) {
		switch {
		case got == base || got == base+extra:
		case got < base:
			add("completed-flush-lost", fmt.Sprintf("%s = %d, the completed flushes alone amount to %d", name, got, base))
		default:
			add("inflight-not-atomic", fmt.Sprintf("%s = %d is neither %d (completed flushes) nor %d (with the flush in progress)", name, got, base, base+extra))
		}
	}
	checkNum("stats count", uint64(a.cnt), uint64(nc), uint64(len(inflight)))
	// searchable under a time window / a column condition, not only by the all-time match-all
	for i := range a.tw {
		if i >= len(h.wins) {
			break
		}
		w := h.wins[i]
		inWin := func(e crashEvent) bool { return w[0] <= e.ts && e.ts <= w[1] }
		checkSetSel(fmt.Sprintf("search * over [%d,%d] (the time window of flush #%d)", w[0], w[1], i), a.tw[i], false, inWin)
		var base, extra uint64
		for _, fl := range completed {
			for _, v := range fl {
				if inWin(h.events[v]) {
					base++
				}
			}
		}
		for _, v := range inflight {
			if inWin(h.events[v]) {
				extra++
			}
		}
		checkNum(fmt.Sprintf("stats count over [%d,%d] (the time window of flush #%d)", w[0], w[1], i), uint64(a.tc[i]), base, extra)
	}
	for i := range a.col {
		if i >= len(h.xcols) {
			break
		}
		c := h.xcols[i]
		hasCol := func(e crashEvent) bool {
			for _, f := range e.fields {
				if f.k == c {
					return true
				}
			}
			return false
		}
		orphanCol = ""
		for _, v := range inflight {
			if h.hasCol(v, c) {
				orphanCol = c
			}
		}
		checkSetSel("search "+c+"=*", a.col[i], false, hasCol)
		orphanCol = ""
	}
	if a.sumOK {
		checkNum("stats sum(n)", a.sum, sc, si)
	}
	// later ingestion does not overwrite recovered data
	checkSet("search * after one more ingest+flush", a.post, true)
	pc := map[int]bool{}
	for _, v := range a.post {
		pc[v] = true
	}
	for _, v := range a.vis {
		if !pc[v] {
			add("overwritten", fmt.Sprintf("event %d was returned after the restart but no longer after one more ingest+flush", v))
			break
		}
	}
	if !pc[crashNewVid] {
		add("post-restart-ingest-lost", "the event ingested and flushed after the restart is not returned")
	}
	if a.pcnt != a.cnt+1 {
		add("overwritten", fmt.Sprintf("stats count went from %d to %d by ingesting one event", a.cnt, a.pcnt))
	}
	// … nor does the rotation of the segment the restarted writer opened
	checkSet("search * after one more ingest+flush and the rotation of the new segment", a.rpost, true)
	rc := map[int]bool{}
	for _, v := range a.rpost {
		rc[v] = true
	}
	for _, v := range a.vis {
		if !rc[v] {
			add("overwritten", fmt.Sprintf("event %d was returned after the restart but no longer after one more ingest+flush and the rotation of the new segment", v))
			break
		}
	}
	if !rc[crashNewVid] {
		add("post-restart-ingest-lost", "the event ingested and flushed after the restart is not returned once its segment is rotated")
	}
	if a.rpcnt != a.cnt+1 {
		add("overwritten", fmt.Sprintf("stats count went from %d to %d by ingesting one event and rotating its segment", a.cnt, a.rpcnt))
	}
	// the restarted writer must take a segment number no directory of the stream has
	if len(a.reissued) > 0 {
		kind := "boundary"
		if p.open {
			kind = "between-open-and-write"
		}
		addPlain("crash/segment-number-reissued/"+kind+"@"+p.fn, fmt.Sprintf("the restarted writer took a segment number that was already in use: it wrote into the existing segment director%s %s (the suffix file read after the restart was behind the numbers handed out before the crash)", map[bool]string{true: "y", false: "ies"}[len(a.reissued) == 1], strings.Join(a.reissued, ", ")))
	}
	return fails
}

func runPoint(h *crashHist, d *crashDry, k int) (out string, fails []PropFail, p crashPoint, ok bool) {
	crashSem <- struct{}{}
	defer func() { <-crashSem }()
	dir := crashTmp()
	defer os.RemoveAll(dir)
	rc, se := runChildA(h, dir, k)
	if rc != 77 {
		return fmt.Sprintf("childA-rc=%d %s", rc, trunc(se, 200)), nil, p, false
	}
	pts, _, _ := parseCrashLog(filepath.Join(dir, "log"), d.finalWait)
	if len(pts) == 0 || pts[len(pts)-1].k != k {
		return "childA-log-inconsistent", nil, p, false
	}
	p = pts[len(pts)-1]
	// the restarted process sees nothing but the data directory: crash points that leave byte-identical
	// directories (statement boundaries without a file-system call in between) share one restart
	v, _ := crashBCache.LoadOrStore(h.key+"\x00"+dirState(filepath.Join(dir, "d")), &crashB{})
	cb := v.(*crashB)
	cb.once.Do(func() { cb.a = runChildB(h, dir) })
	a := cb.a
	return a.out(h), checkPoint(h, p, &a), p, true
}

type crashB struct {
	once sync.Once
	a    crashAnswer
}

var crashBCache sync.Map

// every file and directory below the data dir: relative name + content
func dirState(root string) string {
	hsh := sha1.New()
	filepath.Walk(root, func(p string, fi os.FileInfo, err error) error {
		if err != nil {
			return nil
		}
		rel, _ := filepath.Rel(root, p)
		if fi.IsDir() {
			fmt.Fprintf(hsh, "D %s\n", rel)
			return nil
		}
		b, _ := os.ReadFile(p)
		fmt.Fprintf(hsh, "F %s %d %x\n", rel, len(b), sha1.Sum(b))
		return nil
	})
	return fmt.Sprintf("%x", hsh.Sum(nil))
}

func execCrash(line string) Result {
	f := strings.Fields(line)
	if len(f) < 4 || f[0] != "crash" || f[1] != "H" || f[len(f)-2] != "X" {
		return Result{Out: "bad-op"}
	}
	h, ok := parseCrashHist(f[2 : len(f)-2])
	if !ok {
		return Result{Out: "bad-op"}
	}
	x := f[len(f)-1]
	if !h.created {
		// nothing was ever sent: no segment writer, no crash points; the "restart" is a start on an empty directory
		if x == "order" {
			return Result{Out: "order n=0 "}
		}
		if !digitsOnly(x) || strings.TrimLeft(x, "0") != "" {
			return Result{Out: "bad-op"}
		}
		crashSem <- struct{}{}
		defer func() { <-crashSem }()
		dir := crashTmp()
		defer os.RemoveAll(dir)
		a := runChildB(h, dir)
		return Result{Out: a.out(h), Fails: checkPoint(h, crashPoint{fn: "none", label: "no crash point"}, &a), Tags: []string{"empty-history"}}
	}
	d := dryRun(h)
	if d.err != "" {
		return Result{Out: "dry-run-failed " + d.err, Tags: []string{"dry-run-failed"}}
	}
	if x == "order" {
		return Result{Out: fmt.Sprintf("order n=%d %s", len(d.kinds), strings.Join(d.kinds, " ")), Nontrivial: true, Tags: []string{"order"}}
	}
	capN := 0
	if i := strings.IndexByte(x, '~'); i >= 0 {
		c, err := strconv.Atoi(x[i+1:])
		if err != nil || !digitsOnly(x[i+1:]) || c < 2 {
			return Result{Out: "bad-op"}
		}
		capN, x = c, x[:i]
	}
	m, err := strconv.Atoi(x)
	if err != nil || !digitsOnly(x) {
		return Result{Out: "bad-op"}
	}
	var ks []int
	var wpts []crashPoint
	for _, p := range d.pts {
		if p.m == m {
			wpts = append(wpts, p)
		}
	}
	if capN > 0 && len(wpts) > capN {
		keep := map[int]bool{}
		for i := 0; i < capN; i++ {
			keep[i*(len(wpts)-1)/(capN-1)] = true
		}
		fnSeen := map[string]bool{}
		for i, p := range wpts {
			if !fnSeen[p.fn] {
				fnSeen[p.fn] = true
				keep[i] = true
			}
			if p.open || p.fn == "writeSuffix" { // once per new segment only: a sample over the window would rarely hit them
				keep[i] = true
			}
		}
		for i, p := range wpts {
			if keep[i] {
				ks = append(ks, p.k)
			}
		}
	} else {
		for _, p := range wpts {
			ks = append(ks, p.k)
		}
	}
	if len(ks) == 0 {
		if m > len(d.kinds) {
			return Result{Out: "bad-op"}
		}
		return Result{Out: fmt.Sprintf("no-crash-point-with-%d-completed-steps", m)}
	}
	type pr struct {
		out   string
		fails []PropFail
		p     crashPoint
		ok    bool
	}
	res := make([]pr, len(ks))
	var wg sync.WaitGroup
	for i, k := range ks {
		wg.Add(1)
		go func(i, k int) {
			defer wg.Done()
			o, fl, p, ok := runPoint(h, d, k)
			res[i] = pr{o, fl, p, ok}
		}(i, k)
	}
	wg.Wait()
	r := Result{Tags: append([]string{"window"}, crashDistTags(h, m)...)}
	seenSig := map[string]bool{}
	outs := map[string][]int{}
	var order []string
	nontrivial := false
	for i, x := range res {
		r.Tags = append(r.Tags, "point")
		if x.ok && x.p.m != m {
			// the k-th point of THIS run lies in another step window than the k-th point of the dry run (the
			// column goroutines interleave differently near a window boundary): the property is still checked
			// on it, but its answer belongs to the neighbouring op line, not to this one
			r.Tags = append(r.Tags, "point-moved")
		} else {
			if _, seen := outs[x.out]; !seen {
				order = append(order, x.out)
			}
			outs[x.out] = append(outs[x.out], ks[i])
		}
		for _, pf := range x.fails {
			if !seenSig[pf.Sig] {
				seenSig[pf.Sig] = true
				r.Fails = append(r.Fails, pf)
			}
			r.Tags = append(r.Tags, "propfail:"+pf.Sig)
		}
		if x.ok && (x.p.done > 0 || x.p.cmd > 0) {
			nontrivial = true
		}
		if x.ok {
			r.Tags = append(r.Tags, "in:"+x.p.fn)
			if x.p.suffixClass() {
				r.Tags = append(r.Tags, "suffix-crash")
				if x.p.open {
					r.Tags = append(r.Tags, "suffix-crash:open")
				}
				if x.p.done > 0 || x.p.cmd > 0 {
					r.Tags = append(r.Tags, "suffix-crash:segment-0-has-data")
				}
			}
		}
	}
	r.Nontrivial = nontrivial
	if len(order) == 0 {
		r.Out = "every-point-of-the-window-moved"
	} else if len(order) == 1 {
		r.Out = order[0]
	} else {
		var parts []string
		for _, o := range order {
			parts = append(parts, fmt.Sprintf("{%s @k=%v}", o, outs[o]))
		}
		r.Out = "diverge " + strings.Join(parts, " ")
	}
	return r
}

// ---------------------------------------------------------------- generator

// an event of batch number b: the batch's time offset places it in the batch's own time window (10 s apart, events
// 1 ms apart), xcol (may be "") is a column only this batch (and later ones that name it) carries
func crashEvTokAt(vid int, off uint64, xcol string) string {
	t := fmt.Sprintf("ev/%d/%d/a~s%s,g~s%s,n~i%d", vid, e2eBase+off+uint64(vid), hexs(fmt.Sprintf("x%d", vid)), hexs("k"), uint64(1)<<uint(vid))
	if xcol != "" {
		t += "," + xcol + "~s" + hexs("w")
	}
	return t
}

func crashEvTok(vid int) string { return crashEvTokAt(vid, 0, "") }

// time layout of the batches of a history: offset of batch b (of nb)
func crashBatchOffsets(mode string, nb int, r *rand.Rand) []uint64 {
	off := make([]uint64, nb)
	perm := make([]int, nb)
	for i := range perm {
		perm[i] = i
	}
	if mode == "shuffled" && r != nil {
		perm = r.Perm(nb)
	}
	for b := 0; b < nb; b++ {
		switch mode {
		case "forward": // log time moves on
			off[b] = 10000 * uint64(b+1)
		case "backward": // late arrivals: every batch is older than the one before
			off[b] = 10000 * uint64(nb-b)
		case "shuffled":
			off[b] = 10000 * uint64(perm[b]+1)
		default: // "same": all batches within the same few milliseconds (the layout before the metadata layer)
			off[b] = 0
		}
	}
	return off
}

// shorthand: digits = events, s = send, f = fl, r = ro; mode = time layout; lateCols: batch b with b in the set
// carries the column c<b> (and only that batch)
func crashHistTokens(short string, mode string, lateCols map[int]bool, r *rand.Rand) []string {
	ws := strings.Fields(short)
	nb := 0
	for _, w := range ws {
		if w == "s" {
			nb++
		}
	}
	off := crashBatchOffsets(mode, nb+1, r)
	var t []string
	b := 0
	for _, w := range ws {
		switch w {
		case "s":
			t = append(t, "send")
			b++
		case "f":
			t = append(t, "fl")
		case "r":
			t = append(t, "ro")
		default:
			v, _ := strconv.Atoi(w)
			xc := ""
			if lateCols[b] {
				xc = fmt.Sprintf("c%d", b)
			}
			t = append(t, crashEvTokAt(v, off[b], xc))
		}
	}
	return t
}

func genCrash(r *rand.Rand, n int, tier string) []string {
	var hists [][]string
	type fx struct {
		short, mode string
		late        map[int]bool
	}
	fixed := []fx{
		// two flushes into one segment, the second LATER in time and with a new column, then the rotation (the minimal
		// WriteSfm window is in here; between the second flush and the rotation the running .sfm is the only record)
		// (batch 0 carries a column the later batch lacks, batch 1 a column the earlier one lacked)
		{"1 2 s f 3 s f r", "forward", map[int]bool{0: true, 1: true}},
		// rotation that first flushes the buffer, then two flushes into the next segment, the second one EARLIER in time
		{"1 s r 2 s f 3 s f", "backward", map[int]bool{1: true, 2: true}},
		{"1 s r 2 3 s f 4 s f", "forward", map[int]bool{1: true}}, // … and two flushes into the next segment
		{"1 s f r 2 s f r 3 s", "shuffled", nil},                   // two rotated segments, unflushed tail
	}
	nfixed := len(fixed)
	if tier != "thorough" && n > 4 {
		n = 4 // the runner raises n to the thorough count when a fact or proof is broken; every history costs thousands of process pairs
	}
	if tier == "thorough" {
		nfixed = 1 // the runner uses several seeds in this tier: the rest of the budget goes to random histories
	}
	for i := 0; i < n && i < nfixed; i++ {
		hists = append(hists, crashHistTokens(fixed[i].short, fixed[i].mode, fixed[i].late, r))
	}
	modes := []string{"forward", "forward", "backward", "shuffled", "shuffled", "same"}
	for len(hists) < n {
		// random histories: 2..6 commands, 1..3 events per batch; every batch has its own time window
		var t []string
		vid := 1
		nc := 2 + r.Intn(5)
		mode := modes[r.Intn(len(modes))]
		off := crashBatchOffsets(mode, 2*nc+1, r)
		b := 0
		xcolOf := func() string {
			if r.Intn(2) == 0 { // also the first batch: a column that only EARLIER blocks of a segment have
				return fmt.Sprintf("c%d", 1+r.Intn(3)) // few names: a column may first appear in block 1 and come back later
			}
			return ""
		}
		for c := 0; c < nc; c++ {
			if r.Intn(6) != 0 || c == 0 {
				ne := 1 + r.Intn(3)
				xc := xcolOf()
				for e := 0; e < ne; e++ {
					t = append(t, crashEvTokAt(vid, off[b], xc))
					vid++
				}
				t = append(t, "send")
				b++
				if r.Intn(5) == 0 { // a second batch before the flush
					t = append(t, crashEvTokAt(vid, off[b], xcolOf()), "send")
					vid++
					b++
				}
			}
			// two thirds flushes: histories with several blocks in one unrotated segment are the common case
			if r.Intn(3) == 0 {
				t = append(t, "ro")
			} else {
				t = append(t, "fl")
			}
		}
		hists = append(hists, t)
	}
	var out []string
	for _, t := range hists {
		h, ok := parseCrashHist(t)
		if !ok {
			continue
		}
		pre := "crash H " + strings.Join(t, " ") + " X "
		out = append(out, pre+"order")
		for m := 0; m <= len(h.kinds); m++ {
			if tier == "thorough" {
				out = append(out, pre+strconv.Itoa(m))
			} else {
				out = append(out, pre+strconv.Itoa(m)+"~12")
			}
		}
	}
	// malformed share
	out = append(out, "crash H ev/1/1700000000001/a~s78 send fl X 3", "crash H "+crashEvTok(1)+" send fl X 99", "crash H "+crashEvTok(1)+" "+crashEvTok(1)+" send fl X 1", "crash H bogus X 0")
	return out
}

// input-distribution tags of one op line `X m`: time layout of the flush windows, late columns, and how many blocks
// the open (unrotated) segment holds after m model steps
func crashDistTags(h *crashHist, m int) []string {
	var tags []string
	fwd, bwd := false, false
	for i := 1; i < len(h.wins); i++ {
		if h.wins[i][0] > h.wins[i-1][1] {
			fwd = true
		}
		if h.wins[i][1] < h.wins[i-1][0] {
			bwd = true
		}
	}
	switch {
	case fwd && bwd:
		tags = append(tags, "time:shuffled")
	case fwd:
		tags = append(tags, "time:forward")
	case bwd:
		tags = append(tags, "time:backward")
	default:
		tags = append(tags, "time:same-window")
	}
	if len(h.xcols) > 0 {
		tags = append(tags, "late-column")
	}
	open := 0
	for i := 0; i < m && i < len(h.kinds); i++ {
		switch h.kinds[i] {
		case "sfmren":
			if i >= 2 && h.kinds[i-2] == "sstren" {
				open++
			}
		case "segmeta":
			open = 0
		}
	}
	if open >= 2 {
		tags = append(tags, "open-segment-2+blocks")
	} else {
		tags = append(tags, fmt.Sprintf("open-segment-%d-blocks", open))
	}
	return tags
}
