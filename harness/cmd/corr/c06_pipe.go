package main

import (
	"encoding/hex"
	"fmt"
	"io"
	"math/rand"
	"regexp"
	"sort"
	"strconv"
	"strings"
	"sync"

	"github.com/siglens/siglens/pkg/config"
	"github.com/siglens/siglens/pkg/segment/query"
	"github.com/siglens/siglens/pkg/segment/query/iqr"
	"github.com/siglens/siglens/pkg/segment/query/processor"
	"github.com/siglens/siglens/pkg/segment/structs"
	sutils "github.com/siglens/siglens/pkg/segment/utils"
)

// suite "pipe" (C06): pipe <cmd>[|<cmd>…] D=<0|1> E=<0|1> P=<n,n,…> R=<row>;<row>…
//
//	cmd ::= head:<n> | tail:<n> | scroll:<n> | dedup:<limit>:<flags>:<f,f…> | fillnull:<hex>:<f,f…|>
//	      | rename:<old>:<new> | fields:+:<f,f…> | fields:-:<f,f…>      flags ⊆ "cev" in that order, or "-"
//	row ::= k~tv,k~tv…   tv ::= i<int> | s<hex> | z
//
// The REAL DataProcessors (processor.NewHeadDP … with the real option structs) are chained on top of a
// replaying Streamer that delivers the table in the batches named by P (D=1: every batch carries every
// column of the table; D=0: only the columns its rows mention; E=1: last batch together with io.EOF) and
// fetched until EOF exactly as QueryProcessor.GetFullResult does.
// Out: "ok n=<rows> <row>;… [st=<processor state, single command>]" (rows in order, columns sorted, nulls dropped,
// "-" = row without values) | "panic" | "err"  (the model has no panic: a panic is a mismatch AND a PropFail)
// PropFail (independent of the model):
//   - output under P ≠ output under the single-batch delivery  → pipe-chunking/<cmd>/<shape>
//   - single-batch output ≠ the documented meaning (reference evaluator below) → pipe-semantics/<cmd>/<shape>
//     (rows without any value are not compared: an IQR without RRCs cannot hold a row without a column)
func init() {
	register(&Suite{Name: "pipe", Gen: genPipe, Exec: execPipe,
		Rule: "tables of 0..12 rows over ≤5 typed sparse columns × every modelled command (head, tail, scroll, dedup with limit/consecutive/keepempty/keepevents over 1..3 fields, fillnull with and without field list, rename, fields +/-) and chains of 2..3 of them × random partitions into batches (empty batches, one row per batch, EOF with the last batch, dense or per-batch column sets) on the real DataProcessor chain; non-trivial = ≥3 rows in ≥2 batches"})
}

const c06Qid = uint64(9060601)

type c06Cell struct {
	k string
	v c06Val
}
type c06Val struct {
	kind byte // 'i' 's' 'z'
	i    int64
	s    string // hex text for 's'
}
type c06Row []c06Cell

type c06Cmd struct {
	kind       string
	n          uint64
	limit      uint64
	cons       bool
	keepEmpty  bool
	keepEvents bool
	fields     []string
	fillHex    string
	old, new   string
	inc        bool
}

var c06NameRe = regexp.MustCompile(`^[a-z0-9_]+$`)
var c06HexRe = regexp.MustCompile(`^([0-9a-f][0-9a-f])*$`)
var c06NatRe = regexp.MustCompile(`^(0|[1-9][0-9]{0,17})$`)
var c06IntRe = regexp.MustCompile(`^(0|-?[1-9][0-9]{0,17})$`)

func c06Names(s string) ([]string, bool) {
	fs := strings.Split(s, ",")
	for _, f := range fs {
		if !c06NameRe.MatchString(f) {
			return nil, false
		}
	}
	return fs, true
}

func c06Nat(s string, max uint64) (uint64, bool) {
	if !c06NatRe.MatchString(s) {
		return 0, false
	}
	v, err := strconv.ParseUint(s, 10, 64)
	if err != nil || v > max {
		return 0, false
	}
	return v, true
}

func c06ParseCmd(s string) (c06Cmd, bool) {
	p := strings.Split(s, ":")
	c := c06Cmd{kind: p[0]}
	var ok bool
	switch {
	case (p[0] == "head" || p[0] == "tail" || p[0] == "scroll") && len(p) == 2:
		c.n, ok = c06Nat(p[1], 1000000)
		return c, ok
	case p[0] == "dedup" && len(p) == 4:
		if c.limit, ok = c06Nat(p[1], 1000000); !ok {
			return c, false
		}
		fl := p[2]
		if fl != "-" {
			if fl == "" {
				return c, false
			}
			c.cons, c.keepEmpty, c.keepEvents = strings.Contains(fl, "c"), strings.Contains(fl, "e"), strings.Contains(fl, "v")
			canon := ""
			if c.cons {
				canon += "c"
			}
			if c.keepEmpty {
				canon += "e"
			}
			if c.keepEvents {
				canon += "v"
			}
			if canon != fl {
				return c, false
			}
		}
		c.fields, ok = c06Names(p[3])
		return c, ok
	case p[0] == "fillnull" && len(p) == 3:
		if !c06HexRe.MatchString(p[1]) {
			return c, false
		}
		c.fillHex = p[1]
		if p[2] == "" {
			return c, true
		}
		c.fields, ok = c06Names(p[2])
		return c, ok
	case p[0] == "rename" && len(p) == 3:
		c.old, c.new = p[1], p[2]
		return c, c06NameRe.MatchString(c.old) && c06NameRe.MatchString(c.new)
	case p[0] == "fields" && len(p) == 3 && (p[1] == "+" || p[1] == "-"):
		c.inc = p[1] == "+"
		c.fields, ok = c06Names(p[2])
		return c, ok
	}
	return c, false
}

func c06ParseVal(s string) (c06Val, bool) {
	switch {
	case s == "z":
		return c06Val{kind: 'z'}, true
	case strings.HasPrefix(s, "i"):
		if !c06IntRe.MatchString(s[1:]) {
			return c06Val{}, false
		}
		v, err := strconv.ParseInt(s[1:], 10, 64)
		return c06Val{kind: 'i', i: v}, err == nil
	case strings.HasPrefix(s, "s"):
		if !c06HexRe.MatchString(s[1:]) {
			return c06Val{}, false
		}
		return c06Val{kind: 's', s: s[1:]}, true
	}
	return c06Val{}, false
}

func c06ParseRows(s string) ([]c06Row, bool) {
	if s == "" {
		return nil, true
	}
	var rows []c06Row
	for _, rs := range strings.Split(s, ";") {
		var row c06Row
		seen := map[string]bool{}
		for _, cs := range strings.Split(rs, ",") {
			kv := strings.Split(cs, "~")
			if len(kv) != 2 || !c06NameRe.MatchString(kv[0]) || seen[kv[0]] {
				return nil, false
			}
			v, ok := c06ParseVal(kv[1])
			if !ok {
				return nil, false
			}
			seen[kv[0]] = true
			row = append(row, c06Cell{kv[0], v})
		}
		rows = append(rows, row)
	}
	return rows, true
}

type c06Op struct {
	cmds  []c06Cmd
	dense bool
	eofWL bool
	sizes []int
	rows  []c06Row
}

func c06ParseOp(line string) (c06Op, bool) {
	var op c06Op
	f := strings.Fields(line)
	if len(f) != 6 || f[0] != "pipe" {
		return op, false
	}
	for _, cs := range strings.Split(f[1], "|") {
		c, ok := c06ParseCmd(cs)
		if !ok {
			return op, false
		}
		op.cmds = append(op.cmds, c)
	}
	switch f[2] {
	case "D=0":
	case "D=1":
		op.dense = true
	default:
		return op, false
	}
	switch f[3] {
	case "E=0":
	case "E=1":
		op.eofWL = true
	default:
		return op, false
	}
	if !strings.HasPrefix(f[4], "P=") || !strings.HasPrefix(f[5], "R=") {
		return op, false
	}
	if ps := f[4][2:]; ps != "" {
		for _, x := range strings.Split(ps, ",") {
			v, ok := c06Nat(x, 1000)
			if !ok {
				return op, false
			}
			op.sizes = append(op.sizes, int(v))
		}
	}
	var ok bool
	op.rows, ok = c06ParseRows(f[5][2:])
	return op, ok
}

// successive batches of the given sizes; what is left over is one more batch
func c06Split(sizes []int, rows []c06Row) [][]c06Row {
	var out [][]c06Row
	for _, n := range sizes {
		if n > len(rows) {
			n = len(rows)
		}
		out = append(out, rows[:n])
		rows = rows[n:]
	}
	if len(rows) > 0 {
		out = append(out, rows)
	}
	return out
}

func c06Keys(rows []c06Row) []string {
	var ks []string
	seen := map[string]bool{}
	for _, r := range rows {
		for _, c := range r {
			if !seen[c.k] {
				seen[c.k] = true
				ks = append(ks, c.k)
			}
		}
	}
	return ks
}

func c06Enc(v c06Val) sutils.CValueEnclosure {
	switch v.kind {
	case 'i':
		return sutils.CValueEnclosure{Dtype: sutils.SS_DT_SIGNED_NUM, CVal: v.i}
	case 's':
		b, _ := hex.DecodeString(v.s)
		return sutils.CValueEnclosure{Dtype: sutils.SS_DT_STRING, CVal: string(b)}
	}
	return sutils.CValueEnclosure{Dtype: sutils.SS_DT_BACKFILL, CVal: nil}
}

// c06Stream replays the batches; a fresh IQR per Fetch (the processors mutate what they are handed)
type c06Stream struct {
	batches [][]c06Row
	cols    [][]string
	eofWL   bool
	next    int
	fetches int
}

func (s *c06Stream) Fetch() (*iqr.IQR, error) {
	s.fetches++
	if s.next >= len(s.batches) {
		return nil, io.EOF
	}
	b := s.batches[s.next]
	kv := map[string][]sutils.CValueEnclosure{}
	for _, c := range s.cols[s.next] {
		vals := make([]sutils.CValueEnclosure, len(b))
		for i, r := range b {
			vals[i] = sutils.CValueEnclosure{Dtype: sutils.SS_DT_BACKFILL, CVal: nil}
			for _, cell := range r {
				if cell.k == c {
					vals[i] = c06Enc(cell.v)
				}
			}
		}
		kv[c] = vals
	}
	q := iqr.NewIQR(c06Qid)
	if err := q.AppendKnownValues(kv); err != nil {
		return nil, err
	}
	s.next++
	if s.eofWL && s.next == len(s.batches) {
		return q, io.EOF
	}
	return q, nil
}
func (s *c06Stream) Rewind()        { s.next = 0 }
func (s *c06Stream) Cleanup()       {}
func (s *c06Stream) String() string { return "<c06 replay>" }

var c06QueryOnce, c06ConfigOnce sync.Once

func c06NewDP(c c06Cmd) *processor.DataProcessor {
	switch c.kind {
	case "head":
		return processor.NewHeadDP(&structs.HeadExpr{MaxRows: c.n})
	case "tail":
		return processor.NewTailDP(&structs.TailExpr{TailRows: c.n})
	case "scroll":
		c06QueryOnce.Do(func() {
			// scrollProcessor reports the skipped records to the query's progress: it needs a running query
			if _, err := query.StartQuery(c06Qid, true, nil, true); err == nil {
				query.InitProgressForRRCCmd(0, c06Qid)
			}
		})
		return processor.NewScrollerDP(c.n, c06Qid)
	case "dedup":
		return processor.NewDedupDP(&structs.DedupExpr{Limit: c.limit, FieldList: append([]string{}, c.fields...),
			DedupOptions: &structs.DedupOptions{Consecutive: c.cons, KeepEmpty: c.keepEmpty, KeepEvents: c.keepEvents}})
	case "fillnull":
		b, _ := hex.DecodeString(c.fillHex)
		return processor.NewFillnullDP(&structs.FillNullExpr{Value: string(b), FieldList: append([]string{}, c.fields...)})
	case "rename":
		return processor.NewRenameDP(&structs.RenameExp{RenameExprMode: structs.REMPhrase, RenameColumns: map[string]string{c.old: c.new}})
	case "fields":
		if c.inc {
			return processor.NewFieldsDP(&structs.ColumnsRequest{IncludeColumns: append([]string{}, c.fields...)})
		}
		return processor.NewFieldsDP(&structs.ColumnsRequest{ExcludeColumns: append([]string{}, c.fields...)})
	}
	return nil
}

type c06Out struct {
	status string   // ok | panic | err | hang
	rows   []string // canonical rows
	msg    string
	state  string // single command: what the processor remembers afterwards (overlay hook VerifC06State)
}

func (o c06Out) String() string {
	if o.status != "ok" {
		return o.status
	}
	st := ""
	if o.state != "" {
		st = " st=" + o.state
	}
	if len(o.rows) == 0 {
		return "ok n=0" + st
	}
	return fmt.Sprintf("ok n=%d %s%s", len(o.rows), strings.Join(o.rows, ";"), st)
}

// rows that carry at least one value (what the PropFail comparisons look at)
func (o c06Out) valued() string {
	if o.status != "ok" {
		return o.status
	}
	var rs []string
	for _, r := range o.rows {
		if r != "-" {
			rs = append(rs, r)
		}
	}
	return strings.Join(rs, ";")
}

func c06ShowEnc(e sutils.CValueEnclosure) (string, bool) {
	if e.IsNull() {
		return "", false
	}
	switch e.Dtype {
	case sutils.SS_DT_SIGNED_NUM:
		return fmt.Sprintf("i%d", e.CVal.(int64)), true
	case sutils.SS_DT_STRING:
		return "s" + hex.EncodeToString([]byte(e.CVal.(string))), true
	}
	return fmt.Sprintf("?%d", e.Dtype), true
}

// c06Run drives the real chain over one delivery of the table
func c06Run(cmds []c06Cmd, batches [][]c06Row, cols [][]string, eofWL bool) (out c06Out) {
	defer func() {
		if r := recover(); r != nil {
			out = c06Out{status: "panic", msg: fmt.Sprint(r)}
		}
	}()
	var up processor.Streamer = &c06Stream{batches: batches, cols: cols, eofWL: eofWL}
	var top *processor.DataProcessor
	for _, c := range cmds {
		dp := c06NewDP(c)
		dp.SetStreams([]*processor.CachedStream{processor.NewCachedStream(up)})
		up, top = dp, dp
	}
	out.status = "ok"
	var err error
	for i := 0; err != io.EOF; i++ { // QueryProcessor.GetFullResult: fetch until EOF
		if i > 100000 {
			return c06Out{status: "hang"}
		}
		var q *iqr.IQR
		q, err = top.Fetch()
		if err != nil && err != io.EOF {
			return c06Out{status: "err", msg: err.Error()}
		}
		if q == nil {
			continue
		}
		colset, e := q.GetColumns()
		if e != nil {
			return c06Out{status: "err", msg: e.Error()}
		}
		names := make([]string, 0, len(colset))
		for c := range colset {
			names = append(names, c)
		}
		sort.Strings(names)
		n := q.NumberOfRecords()
		vals := map[string][]sutils.CValueEnclosure{}
		for _, c := range names {
			v, e := q.ReadColumn(c)
			if e != nil || len(v) != n {
				return c06Out{status: "err", msg: fmt.Sprintf("column %s: %v len=%d n=%d", c, e, len(v), n)}
			}
			vals[c] = v
		}
		for r := 0; r < n; r++ {
			var cells []string
			for _, c := range names {
				if s, ok := c06ShowEnc(vals[c][r]); ok {
					cells = append(cells, c+"~"+s)
				}
			}
			if len(cells) == 0 {
				out.rows = append(out.rows, "-")
			} else {
				out.rows = append(out.rows, strings.Join(cells, ","))
			}
		}
	}
	if len(cmds) == 1 {
		out.state = processor.VerifC06State(top)
	}
	return out
}

func c06Cols(dense bool, rows []c06Row, batches [][]c06Row) [][]string {
	all := c06Keys(rows)
	cols := make([][]string, len(batches))
	for i, b := range batches {
		if dense {
			cols[i] = all
		} else {
			cols[i] = c06Keys(b)
		}
	}
	return cols
}

// ---------------------------------------------------------------- reference evaluator (documented meaning)

type c06RefRow map[string]c06Val // key present with kind 'z' = the column exists for the row, without a value

func (r c06RefRow) val(k string) (c06Val, bool) {
	v, ok := r[k]
	if !ok || v.kind == 'z' {
		return c06Val{kind: 'z'}, false
	}
	return v, true
}

func c06ValStr(v c06Val) string {
	switch v.kind {
	case 'i':
		return fmt.Sprintf("i%d", v.i)
	case 's':
		return "s" + v.s
	}
	return "z"
}

func c06Clone(r c06RefRow) c06RefRow {
	n := c06RefRow{}
	for k, v := range r {
		n[k] = v
	}
	return n
}

// shapes of inputs for which siglens is known to deviate; collected while the reference walks the chain
type c06Shapes struct {
	absentFirst, absentLater, xorCollision, renameSame bool
}

func c06RefStage(c c06Cmd, in []c06RefRow, sh *c06Shapes) []c06RefRow {
	var out []c06RefRow
	switch c.kind {
	case "head":
		n := int(c.n)
		if n > len(in) {
			n = len(in)
		}
		return in[:n]
	case "scroll":
		n := int(c.n)
		if n > len(in) {
			n = len(in)
		}
		return in[n:]
	case "tail": // the last n results, in reverse order
		for i := len(in) - 1; i >= 0 && len(out) < int(c.n); i-- {
			out = append(out, in[i])
		}
		return out
	case "fillnull":
		fs := c.fields
		if len(fs) == 0 { // every field of the results
			seen := map[string]bool{}
			for _, r := range in {
				for k := range r {
					if !seen[k] {
						seen[k] = true
						fs = append(fs, k)
					}
				}
			}
		}
		for _, r := range in {
			n := c06Clone(r)
			for _, f := range fs {
				if _, ok := r.val(f); !ok {
					n[f] = c06Val{kind: 's', s: c.fillHex}
				}
			}
			out = append(out, n)
		}
		return out
	case "rename": // the target is overwritten; a missing source leaves the target without a value
		if c.old == c.new {
			sh.renameSame = true
			return in
		}
		for _, r := range in {
			n := c06Clone(r)
			delete(n, c.new)
			if v, ok := r[c.old]; ok {
				n[c.new] = v
			}
			delete(n, c.old)
			out = append(out, n)
		}
		return out
	case "fields":
		for _, r := range in {
			n := c06RefRow{}
			for k, v := range r {
				listed := false
				for _, f := range c.fields {
					listed = listed || f == k
				}
				if (c.inc && (listed || k == "timestamp")) || (!c.inc && !listed) {
					n[k] = v
				}
			}
			out = append(out, n)
		}
		return out
	case "dedup":
		// input-shape classification (columns the stream does not have at all; value tuples that differ
		// but contain the same values an odd number of times)
		has := func(f string) bool {
			for _, r := range in {
				if _, ok := r[f]; ok {
					return true
				}
			}
			return false
		}
		if len(in) > 0 {
			for i, f := range c.fields {
				if !has(f) {
					if i == 0 {
						sh.absentFirst = true
					} else {
						sh.absentLater = true
					}
				}
			}
		}
		tuple := func(r c06RefRow) (string, string, bool) {
			var parts []string
			odd := map[string]bool{}
			for _, f := range c.fields {
				v, ok := r.val(f)
				if !ok {
					return "", "", false
				}
				s := c06ValStr(v)
				parts = append(parts, s)
				odd[s] = !odd[s]
			}
			var os []string
			for s, o := range odd {
				if o {
					os = append(os, s)
				}
			}
			sort.Strings(os)
			return strings.Join(parts, "\x00"), strings.Join(os, "\x00"), true
		}
		oddToTuple := map[string]string{}
		for _, r := range in {
			if t, o, ok := tuple(r); ok {
				if prev, seen := oddToTuple[o]; seen && prev != t {
					sh.xorCollision = true
				}
				oddToTuple[o] = t
			}
		}
		limit := int(c.limit)
		if limit < 1 {
			limit = 1
		}
		counts := map[string]int{}
		last, run := "", 0
		for _, r := range in {
			t, _, ok := tuple(r)
			discard := false
			if !ok {
				discard = !c.keepEmpty
			} else if c.cons {
				if run > 0 && last == t {
					discard = run >= limit
					run++
				} else {
					last, run = t, 1
				}
			} else {
				discard = counts[t] >= limit
				counts[t]++
			}
			if !discard {
				out = append(out, r)
			} else if c.keepEvents {
				n := c06Clone(r)
				for _, f := range c.fields {
					if _, ok := n[f]; ok {
						n[f] = c06Val{kind: 'z'}
					}
				}
				out = append(out, n)
			}
		}
		return out
	}
	return in
}

func c06RefCanon(rows []c06RefRow) string {
	var rs []string
	for _, r := range rows {
		var ks []string
		for k, v := range r {
			if v.kind != 'z' {
				ks = append(ks, k)
			}
		}
		if len(ks) == 0 {
			continue
		}
		sort.Strings(ks)
		var cells []string
		for _, k := range ks {
			cells = append(cells, k+"~"+c06ValStr(r[k]))
		}
		rs = append(rs, strings.Join(cells, ","))
	}
	return strings.Join(rs, ";")
}

func c06Name(cmds []c06Cmd) string {
	if len(cmds) == 1 {
		return cmds[0].kind
	}
	return "chain"
}

func execPipe(line string) Result {
	op, ok := c06ParseOp(line)
	if !ok {
		return Result{Out: "bad-op", Tags: []string{"bad-op"}}
	}
	// production default of server.yaml / ExtractConfigData (an uninitialised config has an empty key)
	c06ConfigOnce.Do(func() { config.SetTimeStampKey("timestamp") })
	res := Result{}
	batches := c06Split(op.sizes, op.rows)
	cols := c06Cols(op.dense, op.rows, batches)
	got := c06Run(op.cmds, batches, cols, op.eofWL)
	res.Out = got.String()

	// the single-batch delivery of the same table
	var one [][]c06Row
	if len(op.rows) > 0 {
		one = [][]c06Row{op.rows}
	}
	base := c06Run(op.cmds, one, c06Cols(true, op.rows, one), false)

	name := c06Name(op.cmds)
	hasDedup := false
	var dedupFields []string
	for _, c := range op.cmds {
		if c.kind == "dedup" {
			hasDedup = true
			dedupFields = append(dedupFields, c.fields...)
		}
	}
	// --- property 1: the partition does not matter
	if got.valued() != base.valued() {
		shape := "other"
		if hasDedup && !op.dense {
			all := c06Keys(op.rows)
			for i, b := range batches {
				if len(b) == 0 {
					continue
				}
				for _, f := range dedupFields {
					inTable, inBatch := false, false
					for _, k := range all {
						inTable = inTable || k == f
					}
					for _, k := range cols[i] {
						inBatch = inBatch || k == f
					}
					if inTable && !inBatch {
						shape = "column-absent-from-batch"
					}
				}
			}
		}
		who := name
		if shape == "column-absent-from-batch" {
			who = "dedup"
		}
		res.Fails = append(res.Fails, PropFail{Sig: "pipe-chunking/" + who + "/" + shape,
			Msg: fmt.Sprintf("batches %v (dense=%v eofWithLast=%v): [%s] %s  but delivered as one batch: [%s] %s", op.sizes, op.dense, op.eofWL, got.valued(), got.msg, base.valued(), base.msg)})
	}
	// --- property 2: the single-batch output is the documented meaning on the whole input
	var ref []c06RefRow
	allKeys := c06Keys(op.rows)
	for _, r := range op.rows {
		rr := c06RefRow{}
		for _, k := range allKeys {
			rr[k] = c06Val{kind: 'z'}
		}
		for _, c := range r {
			rr[c.k] = c.v
		}
		ref = append(ref, rr)
	}
	var sh c06Shapes
	for _, c := range op.cmds {
		ref = c06RefStage(c, ref, &sh)
		if c.kind == "fields" || c.kind == "rename" {
			// latitude: a result without RRCs is column-major and cannot hold a record that has no column
			// at all, so records that lose their last column cease to exist (they had no value to show)
			var kept []c06RefRow
			for _, r := range ref {
				if len(r) > 0 {
					kept = append(kept, r)
				}
			}
			ref = kept
		}
	}
	if want := c06RefCanon(ref); !sh.renameSame && base.valued() != want {
		who, shape := name, "other"
		// tail … rename … fillnull-without-fields: the two-pass command reads tail's retained result a second
		// time after rename has already renamed it in place
		rereadShape := false
		for i, a := range op.cmds {
			for j := i + 1; a.kind == "tail" && j < len(op.cmds); j++ {
				for k := j + 1; op.cmds[j].kind == "rename" && k < len(op.cmds); k++ {
					if op.cmds[k].kind == "fillnull" && len(op.cmds[k].fields) == 0 {
						rereadShape = true
					}
				}
			}
		}
		switch {
		case base.status == "ok" && rereadShape:
			who, shape = "chain", "tail-result-renamed-in-place-before-second-pass"
		case base.status == "panic" && sh.absentLater:
			who, shape = "dedup", "later-field-column-absent-panic"
		case base.status == "ok" && sh.absentFirst:
			who, shape = "dedup", "first-field-column-absent"
		case base.status == "ok" && sh.xorCollision:
			who, shape = "dedup", "multi-field-xor-collision"
		}
		res.Fails = append(res.Fails, PropFail{Sig: "pipe-semantics/" + who + "/" + shape,
			Msg: fmt.Sprintf("one batch: got [%s] %s  documented meaning: [%s]", base.valued(), base.msg, want)})
	}

	nb := 0
	for _, b := range batches {
		if len(b) > 0 {
			nb++
		}
	}
	res.Nontrivial = len(op.rows) >= 3 && nb >= 2
	res.Tags = []string{"cmd=" + name, fmt.Sprintf("dense=%v", op.dense), fmt.Sprintf("batches<=%d", (len(batches)/3+1)*3)}
	if len(op.cmds) == 1 && op.cmds[0].kind == "dedup" {
		res.Tags = append(res.Tags, fmt.Sprintf("dedup-fields=%d", len(op.cmds[0].fields)))
	}
	if op.eofWL {
		res.Tags = append(res.Tags, "eof-with-last-batch")
	}
	if got.status != "ok" {
		res.Tags = append(res.Tags, "status="+got.status)
	}
	return res
}

// ---------------------------------------------------------------- generator

var c06ColNames = []string{"a", "b", "c", "d", "timestamp"}

func c06GenVal(r *rand.Rand) string {
	switch r.Intn(10) {
	case 0, 1, 2, 3, 4:
		return fmt.Sprintf("i%d", r.Intn(3)+1)
	case 5:
		return fmt.Sprintf("i%d", r.Intn(7)-3)
	case 6, 7:
		return "s" + hex.EncodeToString([]byte([]string{"x", "y", "1", ""}[r.Intn(4)]))
	case 8:
		return "z"
	default:
		return fmt.Sprintf("i%d", r.Int63n(1<<40)-(1<<39))
	}
}

func c06GenRows(r *rand.Rand, n int, cols []string) []string {
	var rows []string
	for i := 0; i < n; i++ {
		var cells []string
		for _, c := range cols {
			if r.Intn(5) > 0 {
				cells = append(cells, c+"~"+c06GenVal(r))
			}
		}
		if len(cells) == 0 {
			cells = append(cells, cols[r.Intn(len(cols))]+"~"+c06GenVal(r))
		}
		rows = append(rows, strings.Join(cells, ","))
	}
	return rows
}

func c06Pick(r *rand.Rand, from []string, n int) []string {
	if len(from) == 0 {
		return nil
	}
	p := r.Perm(len(from))
	if n > len(from) {
		n = len(from)
	}
	var out []string
	for _, i := range p[:n] {
		out = append(out, from[i])
	}
	return out
}

func c06GenSizes(r *rand.Rand, n int) string {
	var ss []string
	switch r.Intn(6) {
	case 0: // one row per batch
		for i := 0; i < n; i++ {
			ss = append(ss, "1")
		}
	case 1: // single batch
	case 2: // two halves
		ss = append(ss, strconv.Itoa(n/2))
	default:
		left := n
		for left > 0 && len(ss) < 8 {
			k := r.Intn(4)
			if r.Intn(8) == 0 {
				k = r.Intn(left + 2)
			}
			ss = append(ss, strconv.Itoa(k))
			left -= k
		}
		if r.Intn(6) == 0 {
			ss = append(ss, "0")
		}
	}
	return strings.Join(ss, ",")
}

// one command; live = columns every batch surely carries at this point (dense delivery), dead = removed by `fields`
func c06GenCmd(r *rand.Rand, live *[]string, dead map[string]bool, inChain bool, nrows int) string {
	rmLive := func(k string) {
		var n []string
		for _, x := range *live {
			if x != k {
				n = append(n, x)
			}
		}
		*live = n
	}
	isLive := func(k string) bool {
		for _, x := range *live {
			if x == k {
				return true
			}
		}
		return false
	}
	fresh := func() string {
		for {
			k := []string{"a", "b", "c", "d", "e", "f", "timestamp"}[r.Intn(7)]
			if !dead[k] {
				return k
			}
		}
	}
	lim := func() int {
		switch r.Intn(4) {
		case 0:
			return r.Intn(3)
		case 1:
			return nrows / 2
		case 2:
			return nrows + r.Intn(2)
		}
		return r.Intn(nrows+2) + 1
	}
	for {
		switch r.Intn(10) {
		case 0:
			return fmt.Sprintf("head:%d", lim())
		case 1:
			return fmt.Sprintf("tail:%d", lim())
		case 2:
			if inChain { // the scroller is the last stage of a real chain; keep it out of the middle
				continue
			}
			return fmt.Sprintf("scroll:%d", lim())
		case 3, 4, 5:
			var fs []string
			if inChain {
				fs = c06Pick(r, *live, 1+r.Intn(3))
				if len(fs) == 0 {
					continue
				}
			} else {
				pool := append([]string{}, *live...) // mostly columns of the table
				if r.Intn(8) == 0 || len(pool) == 0 {
					pool = append(append([]string{}, c06ColNames...), "q")
				}
				fs = c06Pick(r, pool, 1+r.Intn(3))
				if r.Intn(25) == 0 {
					fs = append(fs, fs[0])
				}
			}
			fl := ""
			if r.Intn(4) == 0 {
				fl += "c"
			}
			if r.Intn(4) == 0 {
				fl += "e"
			}
			if r.Intn(4) == 0 {
				fl += "v"
			}
			if fl == "" {
				fl = "-"
			}
			l := 1
			if r.Intn(3) == 0 {
				l = r.Intn(4)
			}
			return fmt.Sprintf("dedup:%d:%s:%s", l, fl, strings.Join(fs, ","))
		case 6:
			v := hex.EncodeToString([]byte([]string{"0", "x", "NULL", ""}[r.Intn(4)]))
			if r.Intn(3) == 0 {
				return fmt.Sprintf("fillnull:%s:", v)
			}
			var fs []string
			for i := 0; i < 1+r.Intn(2); i++ {
				f := fresh()
				dup := false
				for _, x := range fs {
					dup = dup || x == f
				}
				if !dup {
					fs = append(fs, f)
				}
			}
			for _, f := range fs {
				if !isLive(f) {
					*live = append(*live, f)
				}
			}
			return fmt.Sprintf("fillnull:%s:%s", v, strings.Join(fs, ","))
		case 7:
			a, b := fresh(), fresh()
			if a == b && (inChain || r.Intn(4) > 0) {
				continue
			}
			wasLive := isLive(a)
			rmLive(a)
			rmLive(b)
			if wasLive && a != b {
				*live = append(*live, b)
			}
			return fmt.Sprintf("rename:%s:%s", a, b)
		default:
			inc := r.Intn(2) == 0
			var fs []string
			if inc {
				fs = c06Pick(r, []string{"a", "b", "c", "d", "e", "timestamp"}, 1+r.Intn(3))
				for _, k := range append([]string{}, *live...) {
					keep := k == "timestamp"
					for _, f := range fs {
						keep = keep || f == k
					}
					if !keep {
						rmLive(k)
						dead[k] = true
					}
				}
				// columns not live but present in some batch are deleted as well: in dense delivery live = all
				return "fields:+:" + strings.Join(fs, ",")
			}
			fs = c06Pick(r, []string{"a", "b", "c", "d", "e", "timestamp"}, 1+r.Intn(2))
			for _, f := range fs {
				if isLive(f) {
					rmLive(f)
					dead[f] = true
				}
			}
			return "fields:-:" + strings.Join(fs, ",")
		}
	}
}

func genPipe(r *rand.Rand, n int, tier string) []string {
	out := []string{
		// deliberate boundary cases
		"pipe dedup:1:-:a,b D=1 E=0 P=1 R=a~i1,b~i2;a~i2,b~i1",
		"pipe dedup:1:-:a,b D=1 E=0 P= R=a~i1,b~i1;a~i2,b~i2",
		"pipe dedup:1:-:a D=0 E=0 P=1 R=a~i1,b~i1;b~i2",
		"pipe dedup:1:-:b,a D=0 E=0 P=1 R=a~i1,b~i1;b~i2",
		"pipe head:0 D=1 E=0 P= R=",
		"pipe tail:2 D=1 E=1 P=0,1,0,1,1 R=a~i1;a~i2;a~i3",
		"pipe fillnull:30: D=0 E=0 P=1 R=a~i1;b~i2",
		"pipe dedup:1:-:a|fillnull:30:|head:2 D=1 E=0 P=1,1 R=a~i1;a~i1,b~i2;a~i2",
	}
	for len(out) < n {
		if r.Intn(20) == 0 { // malformed share
			out = append(out, []string{
				"pipe head:x D=1 E=0 P= R=a~i1", "pipe head:1 D=2 E=0 P= R=a~i1", "pipe dedup:1:vc:a D=1 E=0 P= R=a~i1",
				"pipe head:1 D=1 E=0 P=1,, R=a~i1", "pipe head:1 D=1 E=0 P= R=a~i01", "pipe head:1 D=1 E=0 P= R=a~i1,a~i2",
				"pipe head:1 D=1 E=0 P= R=a~sZZ", "pipe nosuch:1 D=1 E=0 P= R=a~i1", "pipe head:1 D=1 E=0 P=", "pipe fields:*:a D=1 E=0 P= R=a~i1",
				"pipe head:1 D=1 E=0 P= R=A~i1", "pipe dedup:1:-: D=1 E=0 P= R=a~i1", "pipe head:1 D=1 E=0 P= R=a~i-0",
			}[r.Intn(13)])
			continue
		}
		ncols := 1 + r.Intn(len(c06ColNames))
		cols := c06Pick(r, c06ColNames, ncols)
		nrows := r.Intn(13)
		if r.Intn(15) == 0 {
			nrows = 0
		}
		rows := c06GenRows(r, nrows, cols)
		chain := r.Intn(4) == 0
		dense := chain || r.Intn(10) < 7
		var parsed []c06Row
		if len(rows) > 0 {
			parsed, _ = c06ParseRows(strings.Join(rows, ";"))
		}
		live := c06Keys(parsed)
		dead := map[string]bool{}
		var cmds []string
		k := 1
		if chain {
			k = 2 + r.Intn(2)
		}
		for i := 0; i < k; i++ {
			cmds = append(cmds, c06GenCmd(r, &live, dead, chain, nrows))
		}
		d, e := 0, 0
		if dense {
			d = 1
		}
		if r.Intn(4) == 0 {
			e = 1
		}
		out = append(out, fmt.Sprintf("pipe %s D=%d E=%d P=%s R=%s", strings.Join(cmds, "|"), d, e, c06GenSizes(r, nrows), strings.Join(rows, ";")))
	}
	return out[:n]
}
