package main

// C14 — retention and deletion.  Suite "ret": synthetic segmeta.json / metricmeta.json entries (real
// directories, real in-memory metadata, a fake blob store behind the blob hooks) driven through the REAL
// retention.DoRetentionBasedDeletion / doVolumeBasedDeletion / DeleteSegmentData.
//
//	seg  ::= <key>:<l|m>:<latest>:<size>:<org>:<pqs>      pqs ::= - | <pqid>+<pqid>…
//	ret time <nowMs> <hours> <segs>   → h=<GetRetentionTimeMs(hours, nowMs)> del=<victims>
//	ret vol <limitGB> <counter> <segs> → del=<segments removed by the volume pass>
//	ret int <cut> <nowMs> <hours> <segs> → the five stores after DeleteSegmentData was cut after <cut>
//	                                       micro-steps and a full pass was run afterwards
//	ret rec <nowMs> <hours> <segs> <recs> → h=… del=… pq=<every entry of the pqmeta files afterwards>: the time-based
//	                                       pass, THEN empty results are recorded the way a rotation records them
//	                                       (AddToEmptyPqmetaChan → BulkAddEmptyResults); recs ::= <pqid>/<key>,…
//	                                       a key that is not in <segs> is a segment rotated after the pass
//
// The clock of DoRetentionBasedDeletion cannot be injected.  The op line therefore talks about a virtual
// clock reading <nowMs>; Exec plans a real instant T* a few ms ahead, shifts every segment time so that
// its offset from the horizon is preserved (ms for log segments, whole seconds relative to ⌊H/1000⌋ for
// metrics segments), builds the state, spins until the wall clock reads T* and calls the pass.  Two probe
// segments (latest = H* and H*+1) show afterwards whether the pass really read T*; if the clock slipped
// the case is rebuilt and repeated.
//
// Suite "rete2e": real segments (ingested events with explicit timestamps, rotated), the real pass, then
// search + segmeta.json + directory listing.

import (
	"encoding/json"
	"fmt"
	"math/big"
	"math/rand"
	"os"
	"path"
	"path/filepath"
	"sort"
	"strconv"
	"strings"
	"time"

	"github.com/siglens/siglens/pkg/ast/pipesearch"
	"github.com/siglens/siglens/pkg/config"
	eswriter "github.com/siglens/siglens/pkg/es/writer"
	"github.com/siglens/siglens/pkg/hooks"
	"github.com/siglens/siglens/pkg/retention"
	segmetadata "github.com/siglens/siglens/pkg/segment/metadata"
	"github.com/siglens/siglens/pkg/segment/query"
	pqsmeta "github.com/siglens/siglens/pkg/segment/query/pqs/meta"
	"github.com/siglens/siglens/pkg/segment/structs"
	"github.com/siglens/siglens/pkg/segment/writer"
	mmeta "github.com/siglens/siglens/pkg/segment/writer/metrics/meta"
	sutils "github.com/siglens/siglens/pkg/utils"
)

func init() {
	register(&Suite{Name: "ret", Gen: genRet, Exec: execRet,
		Rule: "meta sets of 1..14 log/metrics segments with ages clustered at the horizon (0, ±1 ms, ±1 s, ±1 h), ties, other orgs, absurd retention hours; every second log segment lives in an index whose NAME is a word of the data layout (final — about 30 % of the cases have a victim there —, finalx, xfinal, final.final, rotated, ts, active, segmeta.json, the host id), victims' directories looked at on disk; volume pass with sizes at the GB boundary; delete protocol cut at every micro-step (what is only queued for the pqmeta files is lost at the cut) then re-run; records of empty results AFTER a pass that (mostly) removed the last pqmeta entry, for survivors and for segments rotated since; non-trivial = at least one victim and one survivor (rec: one victim and one record)"})
}

type rseg struct {
	key    uint64
	kind   byte // 'l' or 'm'
	latest uint64
	size   uint64
	org    int64
	pqs    []int
	// real-world incarnation
	real    uint64 // mapped latest (ms for l, s for m)
	segkey  string // SegmentKey / MSegmentDir
	basedir string
	probe   bool
}

func (s *rseg) trueMs() *big.Int {
	v := new(big.Int).SetUint64(s.latest)
	if s.kind == 'm' {
		v.Mul(v, big.NewInt(1000))
	}
	return v
}

func retParseDec(s string, bits int) (uint64, bool) {
	if s == "" {
		return 0, false
	}
	for _, c := range s {
		if c < '0' || c > '9' {
			return 0, false
		}
	}
	v, err := strconv.ParseUint(s, 10, bits)
	return v, err == nil
}

func retParseSegs(s string) ([]*rseg, bool) {
	if s == "-" {
		return nil, true
	}
	var out []*rseg
	seen := map[uint64]bool{}
	for _, tok := range strings.Split(s, ";") {
		f := strings.Split(tok, ":")
		if len(f) != 6 {
			return nil, false
		}
		k, ok1 := retParseDec(f[0], 32)
		sz, ok2 := retParseDec(f[3], 64)
		og, ok3 := retParseDec(f[4], 16)
		if !ok1 || !ok2 || !ok3 || og >= 1000 || seen[k] {
			return nil, false
		}
		seen[k] = true
		sg := &rseg{key: k, size: sz, org: int64(og)}
		switch f[1] {
		case "l":
			v, ok := retParseDec(f[2], 64)
			if !ok {
				return nil, false
			}
			sg.kind, sg.latest = 'l', v
		case "m":
			v, ok := retParseDec(f[2], 32)
			if !ok {
				return nil, false
			}
			sg.kind, sg.latest = 'm', v
		default:
			return nil, false
		}
		if f[5] != "-" {
			for _, p := range strings.Split(f[5], "+") {
				v, ok := retParseDec(p, 16)
				if !ok || v >= 1000 {
					return nil, false
				}
				sg.pqs = append(sg.pqs, int(v))
			}
		}
		if sg.kind == 'm' {
			sg.pqs = nil // empty-PQ meta files only ever list log segments
		}
		out = append(out, sg)
	}
	return out, true
}

func retParseHours(s string) (int, bool) {
	body := strings.TrimPrefix(s, "-")
	if _, ok := retParseDec(body, 64); !ok {
		return 0, false
	}
	if s == "-0" || strings.HasPrefix(s, "-") && strings.Trim(body, "0") == "" {
		return 0, false
	}
	v, err := strconv.ParseInt(s, 10, 64)
	return int(v), err == nil
}

const retNowBound = uint64(1) << 53

// ---------------------------------------------------------------- the world the real code runs in

var retBlob = map[string]bool{}
var retBlobPanicAt = -1 // panic inside the n-th DeleteBlob call (crash injection), -1 = never
var retBlobCalls = 0
var retHooksDone = false

type retCrash_ struct{}

func retInit() string {
	bootEngine()
	if !retHooksDone {
		retHooksDone = true
		hooks.GlobalHooks.GetAllFilesInDirectoryHook = func(dirPath string) ([]string, error) {
			var fs []string
			for k := range retBlob {
				if strings.HasPrefix(k, dirPath) {
					fs = append(fs, k)
				}
			}
			sort.Strings(fs)
			return fs, nil
		}
		hooks.GlobalHooks.DeleteBlobExtrasHook = func(fp string) (bool, error) {
			if retBlobPanicAt >= 0 && retBlobCalls == retBlobPanicAt {
				retBlobCalls++
				panic(retCrash_{})
			}
			retBlobCalls++
			delete(retBlob, fp)
			return true, nil
		}
		pqsmeta.InitPqsMeta()
		query.VerifFreezeMetaRefresh()
	}
	return config.GetCurrentNodeIngestDir()
}

func retReset(ing string) {
	os.Remove(writer.GetLocalSegmetaFName())
	os.Remove(writer.GetLocalSegmetaFName() + ".tmp")
	os.Remove(mmeta.GetLocalMetricsMetaFName())
	os.RemoveAll(ing + "final")
	os.RemoveAll(ing + "ts")
	segmetadata.DeleteSegmentKeys(segmetadata.GetAllSegKeys())
	for _, d := range segmetadata.VerifMetricsSegmentDirs() {
		_ = segmetadata.DeleteMetricsSegmentKey(d)
	}
	_ = pqsmeta.DeletePQMetaDir()
	pqsmeta.InitPqsMeta()
	for k := range retBlob {
		delete(retBlob, k)
	}
	retBlobPanicAt, retBlobCalls = -1, 0
}

// retCrash: the process dies here.  What is on disk stays; what was only QUEUED for the writer's listener goroutine
// (pqsChan: back-fill of .sfm files, additions to and removals from the pqmeta files) is lost.  The listener's private
// buffer cannot be reached from outside, so: remember the pqmeta files as they are at this instant, let the listener
// process whatever it holds, put the files back.  (Requests that change .sfm files are not queued by a retention pass.)
// Then what a restart does to the pqmeta directory: InitPqsMeta.
//
// The listener may be writing a pqmeta file at this very instant (code that does not wait for its queued removals: the
// listener processes its buffer on its own every PQS_TICKER seconds or PQS_FLUSH_SIZE requests).  writeEmptyPqsMapToFile
// truncates the file and then writes it with one Write call, and it never writes less than "{}" (the file of an empty map
// is removed instead): a file of length 0 (or one that is not a JSON value) is a file caught between the two, the directory is
// read again then.  Every
// other state the directory can be seen in is the state before or after one of the listener's writes, i.e. what a crash
// at that instant leaves on disk.
var retSnapshotRetried = false

func retCrash() {
	dir := retPqMetaDir()
	var snap map[string][]byte
	existed := false
	for attempt := 0; ; attempt++ {
		snap = map[string][]byte{}
		ents, err := os.ReadDir(dir)
		existed = err == nil
		torn := false
		for _, e := range ents {
			b, err := os.ReadFile(filepath.Join(dir, e.Name()))
			if os.IsNotExist(err) { // removed between ReadDir and ReadFile: the state after that removal
				continue
			}
			must(err)
			if len(b) == 0 || !json.Valid(b) {
				torn = true
			}
			snap[e.Name()] = b
		}
		if !torn {
			break
		}
		retSnapshotRetried = true
		if attempt > 20000 {
			panic("harness: a pqmeta file stays empty")
		}
		time.Sleep(100 * time.Microsecond)
	}
	writer.VerifDrainPqsRequests()
	must(os.RemoveAll(dir))
	if existed {
		must(os.MkdirAll(dir, 0o764))
		for name, b := range snap {
			must(os.WriteFile(filepath.Join(dir, name), b, 0o764))
		}
	}
	pqsmeta.InitPqsMeta()
}

func retPqid(p int) string { return fmt.Sprintf("vpq%d", p) }

// retSpan: how long before its newest event the segment's oldest event lies (ms; a function of the key, up to 2.3
// days, so that the order by oldest event differs from the order by newest event: every pass has to go by the newest)
func retSpan(key, latestMs uint64) uint64 {
	sp := (key * 2654435761) % 200000000
	if sp > latestMs {
		sp = latestMs
	}
	return sp
}

// retIdxWords: the index a log segment belongs to is a function of its key.  Every second key gets an index NAME that is
// also a word of the data layout (<data>/<host>/final/<index>/<stream>/<suffix>/<suffix>; "final" most often, names that
// merely contain it, the other directory and file names of the ingest directory, the host id): valid index names
// (vtable.IsValidIndexName = no path separator), and the code that turns a segment key back into its directory
// (utils.GetSegBaseDirFromFilename, used by DeleteSegmentData and removeSegmetas) must not be confused by them.
// "" = an ordinary name (rtx<org>).
var retIdxWords = []string{"", "final", "", "rotated", "", "final", "", "ts", "", "finalx", "", "final", "", "<host>", "", "final.final",
	"", "final", "", "active", "", "xfinal", "", "segmeta.json"}

func retIdxName(s *rseg) string {
	if s.probe {
		return "rtx0"
	}
	switch w := retIdxWords[s.key%uint64(len(retIdxWords))]; w {
	case "":
		return fmt.Sprintf("rtx%d", s.org)
	case "<host>":
		return config.GetHostID()
	default:
		return w
	}
}

func retIdxClass(s *rseg) string {
	n := retIdxName(s)
	switch {
	case n == "final":
		return "final"
	case strings.Contains(n, "final"):
		return "contains-final"
	case strings.HasPrefix(n, "rtx"):
		return "ordinary"
	}
	return "layout-word"
}

// retIdxTags: which kinds of index name the log segments that the pass removed from segmeta.json had
func retIdxTags(all []*rseg, obs retObs) []string {
	seen := map[string]bool{}
	var out []string
	for _, s := range all {
		if s.probe || s.kind != 'l' || obs.meta[s.segkey] {
			continue
		}
		if c := retIdxClass(s); !seen[c] {
			seen[c] = true
			out = append(out, "victim-index-name="+c)
		}
	}
	sort.Strings(out)
	return out
}

// retBuild creates the state for the segments (using s.real as the time) through the real APIs.
func retBuild(ing string, segs []*rseg) {
	var metas []*structs.SegMeta
	for _, s := range segs {
		if s.kind == 'l' {
			s.basedir = fmt.Sprintf("%sfinal/%s/st/%d/", ing, retIdxName(s), s.key)
			s.segkey = s.basedir + fmt.Sprint(s.key)
			must(os.MkdirAll(s.basedir, 0o755))
			must(os.WriteFile(s.segkey+"_1.csg", []byte("x"), 0o644))
			retBlob[s.basedir+"a.csg"] = true
			retBlob[s.basedir+sutils.SegmentValidityFname] = true
			sm := &structs.SegMeta{SegmentKey: s.segkey, LatestEpochMS: s.real, EarliestEpochMS: s.real - retSpan(s.key, s.real), SegbaseDir: s.basedir,
				VirtualTableName: retIdxName(s), RecordCount: 1, BytesReceivedCount: s.size, NumBlocks: 1, OrgId: s.org}
			if len(s.pqs) > 0 {
				// as at rotation (segstore.go): the segment's pqids go to its .sfm file (BulkAddRotatedSegmetas below),
				// those with empty results also to the pqmeta files; one more pqid stands for a query with results
				sm.AllPQIDs = map[string]bool{retPqid(9999): true}
				for _, p := range s.pqs {
					sm.AllPQIDs[retPqid(p)] = true
				}
			}
			metas = append(metas, sm)
			segmetadata.AddSegMetaToMetadata(sm)
			for _, p := range s.pqs {
				pqsmeta.BulkAddEmptyResults(retPqid(p), map[string]bool{s.segkey: true})
			}
		} else {
			s.basedir = fmt.Sprintf("%sts/rtm%d/%d/", ing, s.org, s.key)
			s.segkey = s.basedir + fmt.Sprint(s.key)
			must(os.MkdirAll(s.basedir, 0o755))
			must(os.WriteFile(s.segkey+"_1.mbsu", []byte("x"), 0o644))
			retBlob[s.basedir+"a.tso"] = true
			mm := &structs.MetricsMeta{MSegmentDir: s.segkey, LatestEpochSec: uint32(s.real), EarliestEpochSec: uint32(s.real - retSpan(s.key, s.real*1000)/1000), BytesReceivedCount: s.size,
				NumBlocks: 1, TTreeDir: fmt.Sprintf("%sts/rtm%d/tth%d", ing, s.org, s.key), OrgId: s.org}
			must(mmeta.AddMetricsMetaEntry(mm))
			segmetadata.BulkAddMetricsSegment([]*segmetadata.MetricsSegmentMetadata{segmetadata.InitMetricsMicroIndex(mm)})
		}
	}
	writer.BulkAddRotatedSegmetas(metas, true)
}

type retObs struct {
	meta, files, mem, blob map[string]bool // by segkey
	dir                    map[string]bool // by segkey: the segment directory exists on disk
	pq                     map[string]bool // "<pqid>/<segkey>"
}

func retObserve(segs []*rseg) retObs {
	o := retObs{meta: map[string]bool{}, files: map[string]bool{}, mem: map[string]bool{}, blob: map[string]bool{}, dir: map[string]bool{}, pq: map[string]bool{}}
	// step 4 of DeleteSegmentData only queues the removals from the pqmeta files (a channel drained every 10 s)
	writer.VerifDrainPqsRequests()
	for _, m := range writer.ReadLocalSegmeta(false) {
		o.meta[m.SegmentKey] = true
	}
	mms, _ := mmeta.GetLocalMetricsMetaEntries()
	for k := range mms {
		o.meta[k] = true
	}
	for k := range segmetadata.GetAllSegKeys() {
		o.mem[k] = true
	}
	for _, k := range segmetadata.VerifMetricsSegmentDirs() {
		o.mem[k] = true
	}
	pqids := map[int]bool{}
	for _, s := range segs {
		suffix := "_1.csg"
		if s.kind == 'm' {
			suffix = "_1.mbsu"
		}
		if _, err := os.Stat(s.segkey + suffix); err == nil {
			o.files[s.segkey] = true
		}
		if _, err := os.Stat(s.basedir); err == nil { // the segment's directory itself (ON DISK, not the metadata)
			o.dir[s.segkey] = true
		}
		for b := range retBlob {
			if strings.HasPrefix(b, s.basedir) {
				o.blob[s.segkey] = true
			}
		}
		for _, p := range s.pqs {
			pqids[p] = true
		}
	}
	for p := range pqids {
		m, _ := pqsmeta.GetAllEmptySegmentsForPqid(retPqid(p))
		for k := range m {
			o.pq[fmt.Sprintf("%d/%s", p, k)] = true
		}
	}
	return o
}

func retShowKeys(ks []uint64) string {
	if len(ks) == 0 {
		return "-"
	}
	sort.Slice(ks, func(i, j int) bool { return ks[i] < ks[j] })
	var sb []string
	for _, k := range ks {
		sb = append(sb, fmt.Sprint(k))
	}
	return strings.Join(sb, ",")
}

// ---------------------------------------------------------------- ret time

func retFloorDiv(a, b int64) int64 {
	q := a / b
	if (a%b != 0) && ((a < 0) != (b < 0)) {
		q--
	}
	return q
}

// retMap shifts the virtual times to the real time line. Returns false if some value leaves its Go type.
func retMap(segs []*rseg, hv, hr uint64, nowV, nowR int64) bool {
	normal := hv < 1<<62 && hr < 1<<62
	for _, s := range segs {
		if s.kind == 'l' {
			var real *big.Int
			if normal {
				real = new(big.Int).Sub(new(big.Int).SetUint64(s.latest), new(big.Int).SetUint64(hv))
				real.Add(real, new(big.Int).SetUint64(hr))
			} else {
				real = new(big.Int).Add(new(big.Int).SetUint64(s.latest), big.NewInt(nowR-nowV))
			}
			if real.Sign() < 0 || !real.IsUint64() {
				return false
			}
			s.real = real.Uint64()
		} else {
			var real int64
			if normal {
				real = int64(hr/1000) + (int64(s.latest) - int64(hv/1000))
			} else {
				real = int64(s.latest) + retFloorDiv(nowR-nowV, 1000)
			}
			if real < 0 || real >= 1<<32 {
				return false
			}
			s.real = uint64(real)
		}
	}
	return true
}

func (s *rseg) realMs() uint64 {
	if s.kind == 'm' {
		return s.real * 1000
	}
	return s.real
}

var retLeadMs = int64(6)

// retWaitUntil returns as soon as the wall clock reads tStar ms (sleeps, then spins for the last stretch).
func retWaitUntil(tStar int64) {
	for {
		d := tStar - time.Now().UnixMilli()
		if d <= 0 {
			return
		}
		if d > 2 {
			time.Sleep(time.Duration(d-2) * time.Millisecond)
		}
	}
}

// runTimedPass builds the state for an instant T* slightly in the future, waits for it and runs the real pass.
// Returns the observation, H* (horizon at T*), the horizon at return time, and whether the probes confirm T*.
func retRunTimedPass(ing string, segs []*rseg, nowV int64, hours int, hv uint64, before func(all []*rseg)) (obs retObs, hStar, hEnd uint64, all []*rseg, status string) {
	for attempt := 0; attempt < 40; attempt++ {
		retReset(ing)
		tBuild := time.Now()
		tStar := tBuild.UnixMilli() + retLeadMs
		hStar = retention.GetRetentionTimeMs(hours, time.UnixMilli(tStar))
		if !retMap(segs, hv, hStar, nowV, tStar) {
			return obs, hStar, hStar, segs, "unmappable"
		}
		all = append([]*rseg{}, segs...)
		normal := hv < 1<<62 && hStar < 1<<62
		if normal {
			all = append(all, &rseg{key: 4000000001, kind: 'l', real: hStar, size: 1, probe: true},
				&rseg{key: 4000000002, kind: 'l', real: hStar + 1, size: 1, probe: true})
		}
		retBuild(ing, all)
		if before != nil {
			before(all)
		}
		if slack := tStar - time.Now().UnixMilli(); slack <= 0 { // the build took longer than planned
			retLeadMs = 2*time.Since(tBuild).Milliseconds() + 4
			continue
		} else if slack > 3 && retLeadMs > 3 {
			retLeadMs--
		}
		retWaitUntil(tStar)
		retention.DoRetentionBasedDeletion(ing, hours, 0)
		hEnd = retention.GetRetentionTimeMs(hours, time.Now())
		obs = retObserve(all)
		if !normal {
			return obs, hStar, hEnd, all, "ok"
		}
		p0, p1 := all[len(all)-2], all[len(all)-1]
		if !obs.meta[p0.segkey] && obs.meta[p1.segkey] {
			return obs, hStar, hEnd, all, "ok"
		}
		if obs.meta[p0.segkey] {
			// the pass ran at or after T*, yet a segment whose newest event is exactly at the horizon of T* survived
			return obs, hStar, hEnd, all, "probe-kept"
		}
		// both probes gone: the pass read a later clock value (between T* and the reading behind hEnd).
		// If no segment of the case lies in that window the outcome does not depend on which; else repeat.
		sensitive := false
		for _, s := range segs {
			if s.realMs() > hStar && s.realMs() <= hEnd {
				sensitive = true
			}
		}
		if !sensitive {
			return obs, hStar, hEnd, all, "ok"
		}
	}
	return obs, hStar, hEnd, all, "clock-unstable"
}

// retCheckStores: the property on the five stores, independent of the model.
func retCheckStores(all []*rseg, obs retObs, res *Result, what string) {
	retLastIdxTags = retIdxTags(all, obs)
	for _, s := range all {
		if s.probe {
			continue
		}
		if obs.meta[s.segkey] { // survivor: everything must still be there
			if !obs.files[s.segkey] {
				res.Fails = append(res.Fails, PropFail{Sig: "retention/survivor-damaged/files", Msg: fmt.Sprintf("%s: segment %d is still listed in the meta file but its files are gone", what, s.key)})
			}
			if !obs.mem[s.segkey] {
				res.Fails = append(res.Fails, PropFail{Sig: "retention/survivor-damaged/memory", Msg: fmt.Sprintf("%s: segment %d is still listed in the meta file but not in the in-memory metadata", what, s.key)})
			}
			if !obs.blob[s.segkey] {
				res.Fails = append(res.Fails, PropFail{Sig: "retention/survivor-damaged/blob", Msg: fmt.Sprintf("%s: segment %d is still listed in the meta file but its blob objects are gone", what, s.key)})
			}
			for _, p := range s.pqs {
				if !obs.pq[fmt.Sprintf("%d/%s", p, s.segkey)] {
					res.Fails = append(res.Fails, PropFail{Sig: "retention/survivor-damaged/pqmeta", Msg: fmt.Sprintf("%s: empty-PQ entry of surviving segment %d removed", what, s.key)})
				}
			}
		} else {
			if obs.files[s.segkey] {
				res.Fails = append(res.Fails, PropFail{Sig: "retention/victim-leftover/files", Msg: fmt.Sprintf("%s: segment %d (index %q) removed from the meta file but its files remain on disk", what, s.key, retIdxName(s))})
			} else if obs.dir[s.segkey] {
				res.Fails = append(res.Fails, PropFail{Sig: "retention/victim-leftover/directory", Msg: fmt.Sprintf("%s: segment %d (index %q) removed from the meta file but its directory is still on disk", what, s.key, retIdxName(s))})
			}
			if obs.mem[s.segkey] {
				res.Fails = append(res.Fails, PropFail{Sig: "retention/victim-leftover/memory", Msg: fmt.Sprintf("%s: segment %d removed from the meta file but still in the in-memory metadata (searchable)", what, s.key)})
			}
			if obs.blob[s.segkey] {
				res.Fails = append(res.Fails, PropFail{Sig: "retention/victim-leftover/blob", Msg: fmt.Sprintf("%s: segment %d removed from the meta file but blob objects remain", what, s.key)})
			}
			for _, p := range s.pqs {
				if obs.pq[fmt.Sprintf("%d/%s", p, s.segkey)] {
					sig := "retention/pqmeta-stale"
					if strings.HasPrefix(what, "pass interrupted") {
						// the repeated pass cannot read the .sfm file of a victim whose files the interrupted pass removed
						sig = "retention/pqmeta-stale/interrupted-pass"
					}
					res.Fails = append(res.Fails, PropFail{Sig: sig, Msg: fmt.Sprintf("%s: segment %d was deleted but pqid %d's empty-results meta file still lists it", what, s.key, p)})
				}
			}
		}
	}
}

func execRetTime(f []string) Result {
	if len(f) != 3 {
		return Result{Out: "bad-op"}
	}
	nowV, ok1 := retParseDec(f[0], 64)
	hours, ok2 := retParseHours(f[1])
	segs, ok3 := retParseSegs(f[2])
	if !ok1 || !ok2 || !ok3 || nowV >= retNowBound {
		return Result{Out: "bad-op"}
	}
	ing := retInit()
	hv := retention.GetRetentionTimeMs(hours, time.UnixMilli(int64(nowV)))
	obs, hStar, hEnd, all, status := retRunTimedPass(ing, segs, int64(nowV), hours, hv, nil)
	defer retReset(ing)
	res := Result{}
	if status == "unmappable" || status == "clock-unstable" {
		res.Out = status
		return res
	}
	var del []uint64
	normal := hv < 1<<62 && hStar < 1<<62 && hEnd < 1<<62
	kept := 0
	for _, s := range segs {
		gone := !obs.meta[s.segkey]
		if gone {
			del = append(del, s.key)
		} else {
			kept++
		}
		if normal && s.org == 0 {
			if s.realMs() <= hStar && !gone {
				res.Fails = append(res.Fails, PropFail{Sig: "retention/time-kept-expired", Msg: fmt.Sprintf("segment %d (%c, index %q) newest event %d ms ≤ horizon %d but it survived the pass", s.key, s.kind, retIdxName(s), s.realMs(), hStar)})
			}
			if s.realMs() > hEnd && gone {
				res.Fails = append(res.Fails, PropFail{Sig: "retention/time-deleted-live", Msg: fmt.Sprintf("segment %d (%c) newest event %d ms > horizon %d but it was deleted", s.key, s.kind, s.realMs(), hEnd)})
			}
		}
		if s.org != 0 && gone {
			res.Fails = append(res.Fails, PropFail{Sig: "retention/other-org-deleted", Msg: fmt.Sprintf("segment %d of org %d deleted by the pass for org 0", s.key, s.org)})
		}
	}
	if status == "probe-kept" {
		res.Fails = append(res.Fails, PropFail{Sig: "retention/time-kept-expired", Msg: fmt.Sprintf("a segment whose newest event is exactly at the horizon %d survived a pass that ran at or after that instant", hStar)})
	}
	retCheckStores(all, obs, &res, "time pass")
	res.Out = fmt.Sprintf("h=%d del=%s", hv, retShowKeys(del))
	res.Nontrivial = len(del) > 0 && kept > 0
	res.Tags = []string{"time", fmt.Sprintf("time-segs<=%d", (len(segs)/4+1)*4)}
	if !normal {
		res.Tags = append(res.Tags, "time-horizon-wrapped")
	}
	for _, s := range segs {
		d := new(big.Int).Sub(s.trueMs(), new(big.Int).SetUint64(hv))
		if d.IsInt64() && d.Int64() >= -1 && d.Int64() <= 1 {
			res.Tags = append(res.Tags, "time-at-horizon±1ms")
			break
		}
	}
	return res
}

// ---------------------------------------------------------------- ret vol

func execRetVol(f []string) Result {
	if len(f) != 3 {
		return Result{Out: "bad-op"}
	}
	gb, ok1 := retParseDec(f[0], 64)
	cnt, ok2 := retParseDec(f[1], 16)
	segs, ok3 := retParseSegs(f[2])
	if !ok1 || !ok2 || !ok3 || cnt >= 1000 {
		return Result{Out: "bad-op"}
	}
	ing := retInit()
	retReset(ing)
	defer retReset(ing)
	for _, s := range segs {
		s.real = s.latest
	}
	// segmeta.json in op order (logs), metricmeta.json is read into a map anyway
	retBuild(ing, segs)
	retention.VerifDoVolumeBasedDeletion(ing, gb, int(cnt))
	obs := retObserve(segs)
	res := Result{}
	var del []uint64
	kept := 0
	for _, s := range segs {
		if !obs.meta[s.segkey] {
			del = append(del, s.key)
		} else {
			kept++
		}
	}
	// the property: oldest first — nothing is deleted while a strictly older segment stays
	seen := map[string]bool{}
	for _, a := range segs {
		if obs.meta[a.segkey] {
			continue
		}
		for _, b := range segs {
			if !obs.meta[b.segkey] || b.trueMs().Cmp(a.trueMs()) >= 0 {
				continue
			}
			cls := "skipped-segment-does-not-stop-the-loop"
			two32 := big.NewInt(1 << 32)
			if (a.kind == 'm' && a.trueMs().Cmp(two32) >= 0) || (b.kind == 'm' && b.trueMs().Cmp(two32) >= 0) {
				cls = "metrics-sort-key-uint32-overflow"
			}
			if !seen[cls] {
				seen[cls] = true
				res.Fails = append(res.Fails, PropFail{Sig: "retention/vol-not-oldest-first/" + cls,
					Msg: fmt.Sprintf("volume pass deleted segment %d (%c, newest event %s ms) but kept the older segment %d (%c, newest event %s ms)", a.key, a.kind, a.trueMs(), b.key, b.kind, b.trueMs())})
			}
		}
	}
	retCheckStores(segs, obs, &res, "volume pass")
	res.Out = "del=" + retShowKeys(del)
	res.Nontrivial = len(del) > 0 && kept > 0
	res.Tags = []string{"vol", fmt.Sprintf("vol-segs<=%d", (len(segs)/4+1)*4)}
	if len(del) > 0 {
		res.Tags = append(res.Tags, "vol-deleted-some")
	}
	// input class: oldest first, the pass meets a segment that does not fit into what is still to be freed while a
	// NEWER segment would fit (the loop has to stop there: deleting the newer one would not be oldest-first)
	if ex, ok := retVolExcess(gb, int(cnt), segs); ok && ex > 0 {
		sorted := append([]*rseg{}, segs...)
		sort.SliceStable(sorted, func(i, j int) bool { return sorted[i].trueMs().Cmp(sorted[j].trueMs()) < 0 })
		rem := ex
		for i, s := range sorted {
			if s.size < rem {
				rem -= s.size
				continue
			}
			for _, t := range sorted[i+1:] {
				if t.size < rem {
					res.Tags = append(res.Tags, "vol-stops-at-oversized-old-with-smaller-newer-behind")
					break
				}
			}
			break
		}
	}
	return res
}

// retVolExcess: bytes the volume pass has to free (0: it does not delete), computed from the op line for the
// distribution tags only (org-0 log segments + all metrics segments count, as getSystemVolumeBytes does).
func retVolExcess(gb uint64, cnt int, segs []*rseg) (uint64, bool) {
	var system uint64
	for _, s := range segs {
		if s.kind == 'm' || s.org == 0 {
			system += s.size
		}
	}
	if gb > (1<<64-1)/1000000000 {
		return 0, false
	}
	allowed := gb * 1000000000
	if system <= allowed || cnt < 5 {
		return 0, true
	}
	return system - allowed, true
}

// ---------------------------------------------------------------- ret int

func execRetInt(f []string) Result {
	if len(f) != 4 {
		return Result{Out: "bad-op"}
	}
	cut, ok0 := retParseDec(f[0], 32)
	nowV, ok1 := retParseDec(f[1], 64)
	hours, ok2 := retParseHours(f[2])
	segs, ok3 := retParseSegs(f[3])
	if !ok0 || !ok1 || !ok2 || !ok3 || nowV >= retNowBound || cut >= 100000 {
		return Result{Out: "bad-op"}
	}
	for _, s := range segs {
		if s.kind == 'm' {
			return Result{Out: "bad-op"}
		}
	}
	ing := retInit()
	hv := retention.GetRetentionTimeMs(hours, time.UnixMilli(int64(nowV)))
	interrupted := func(all []*rseg) {
		// victims as the pass would read them: segmeta.json entries (no pqids), org 0, expired at T*
		byKey := map[string]*rseg{}
		for _, s := range all {
			byKey[s.segkey] = s
		}
		var vs []*structs.SegMeta
		hNow := retention.GetRetentionTimeMs(hours, time.Now())
		for _, m := range writer.ReadLocalSegmeta(false) {
			if s := byKey[m.SegmentKey]; s != nil && !s.probe && m.OrgId == 0 && m.LatestEpochMS <= hNow {
				vs = append(vs, m)
			}
		}
		n := uint64(len(vs))
		if n == 0 {
			return
		}
		toMap := func(l []*structs.SegMeta) map[string]*structs.SegMeta {
			m := map[string]*structs.SegMeta{}
			for _, v := range l {
				m[v.SegmentKey] = v
			}
			return m
		}
		firstN := func(k uint64) []*structs.SegMeta {
			if k > n {
				k = n
			}
			return vs[:k]
		}
		// DeleteSegmentData in the order the call-order fact DeleteSegmentData.order ties to the source:
		// ReadSfm (pqids of the victims) → emptyPqMeta files → blob → local files → in-memory metadata → segmeta.json;
		// one micro-step per (phase, victim), segmeta.json is one step
		defer retCrash()
		readSfm := func() {
			for _, v := range vs {
				if v.AllPQIDs == nil {
					if sfm, err := writer.ReadSfm(v.SegmentKey); err == nil {
						v.AllPQIDs = sfm.AllPQIDs
					}
				}
			}
		}
		if cut < n {
			// a crash inside the emptyPqMeta phase: the real step for `cut` of the victims
			readSfm()
			if cut > 0 {
				retention.VerifDeleteSegmentsFromEmptyPqMetaFiles(toMap(firstN(cut)))
			}
			return
		}
		if cut < 2*n {
			// a crash inside the blob phase of the REAL DeleteSegmentData: after `cut-n` segments' blob objects
			retBlobCalls, retBlobPanicAt = 0, int(cut-n)*2
			func() {
				defer func() {
					if r := recover(); r != nil {
						if _, ok := r.(retCrash_); !ok {
							panic(r)
						}
					}
				}()
				retention.DeleteSegmentData(toMap(vs))
			}()
			retBlobPanicAt = -1
			return
		}
		// later crash points: the callees of DeleteSegmentData in its order (tied by the call-order fact)
		readSfm()
		retention.VerifDeleteSegmentsFromEmptyPqMetaFiles(toMap(vs))
		for _, v := range vs { // blob phase complete
			fs, _ := hooks.GlobalHooks.GetAllFilesInDirectoryHook(path.Dir(v.SegmentKey) + "/")
			for _, fl := range fs {
				_, _ = hooks.GlobalHooks.DeleteBlobExtrasHook(fl)
			}
		}
		dirs := map[string]struct{}{}
		for _, v := range firstN(cut - 2*n) {
			d, _ := sutils.GetSegBaseDirFromFilename(v.SegmentKey)
			dirs[d] = struct{}{}
		}
		writer.RemoveSegBasedirs(dirs)
		if cut > 3*n {
			for _, v := range firstN(cut - 3*n) {
				segmetadata.DeleteSegmentKey(v.SegmentKey)
			}
		}
		if cut > 4*n {
			_ = writer.RemoveSegMetas(toMap(vs))
		}
	}
	obs, hStar, hEnd, all, status := retRunTimedPass(ing, segs, int64(nowV), hours, hv, interrupted)
	defer retReset(ing)
	res := Result{}
	if status != "ok" {
		res.Out = status
		return res
	}
	var blob, files, mem, sm []uint64
	var pq []string
	nv := 0
	for _, s := range segs {
		if obs.blob[s.segkey] {
			blob = append(blob, s.key)
		}
		if obs.files[s.segkey] {
			files = append(files, s.key)
		}
		if obs.mem[s.segkey] {
			mem = append(mem, s.key)
		}
		if obs.meta[s.segkey] {
			sm = append(sm, s.key)
		} else {
			nv++
		}
		if hv < 1<<62 && s.org == 0 {
			if s.realMs() <= hStar && obs.meta[s.segkey] {
				res.Fails = append(res.Fails, PropFail{Sig: "retention/interrupt-kept-expired", Msg: fmt.Sprintf("segment %d expired but still listed after an interrupted pass (cut %d) and a repeated pass", s.key, cut)})
			}
			if s.realMs() > hEnd && !obs.meta[s.segkey] {
				res.Fails = append(res.Fails, PropFail{Sig: "retention/interrupt-deleted-live", Msg: fmt.Sprintf("segment %d not expired but deleted after an interrupted pass (cut %d) and a repeated pass", s.key, cut)})
			}
		}
	}
	type pe struct{ p, k uint64 }
	var pes []pe
	for _, s := range segs {
		for _, p := range s.pqs {
			if obs.pq[fmt.Sprintf("%d/%s", p, s.segkey)] {
				pes = append(pes, pe{uint64(p), s.key})
			}
		}
	}
	sort.Slice(pes, func(i, j int) bool { return pes[i].p < pes[j].p || (pes[i].p == pes[j].p && pes[i].k < pes[j].k) })
	for _, e := range pes {
		pq = append(pq, fmt.Sprintf("%d/%d", e.p, e.k))
	}
	pqs := "-"
	if len(pq) > 0 {
		pqs = strings.Join(pq, ",")
	}
	retCheckStores(all, obs, &res, fmt.Sprintf("pass interrupted after %d micro-steps, then repeated", cut))
	res.Out = fmt.Sprintf("blob=%s files=%s mem=%s pq=%s sm=%s", retShowKeys(blob), retShowKeys(files), retShowKeys(mem), pqs, retShowKeys(sm))
	res.Nontrivial = nv > 0 && len(sm) > 0
	res.Tags = []string{"int", "int-cut-in-phase=" + func() string {
		if nv == 0 {
			return "no-victim"
		}
		p := cut / uint64(nv)
		if cut > 4*uint64(nv) {
			p = 5
		}
		return []string{"pqmeta", "blob", "files", "memory", "before-segmeta", "after-the-end"}[p]
	}()}
	if retSnapshotRetried {
		retSnapshotRetried = false
		res.Tags = append(res.Tags, "int-crash-while-listener-was-writing")
	}
	return res
}

// ---------------------------------------------------------------- ret rec

type retRec struct {
	pqid int
	key  uint64
}

func retParseRecs(s string) ([]retRec, bool) {
	if s == "-" {
		return nil, true
	}
	var out []retRec
	for _, tok := range strings.Split(s, ",") {
		f := strings.Split(tok, "/")
		if len(f) != 2 {
			return nil, false
		}
		p, ok1 := retParseDec(f[0], 16)
		k, ok2 := retParseDec(f[1], 32)
		if !ok1 || !ok2 || p >= 1000 {
			return nil, false
		}
		out = append(out, retRec{int(p), k})
	}
	return out, true
}

func retPqMetaDir() string {
	return filepath.Join(config.GetDataPath(), "querynodes", config.GetHostID(), "pqmeta")
}

func execRetRec(f []string) Result {
	if len(f) != 4 {
		return Result{Out: "bad-op"}
	}
	nowV, ok1 := retParseDec(f[0], 64)
	hours, ok2 := retParseHours(f[1])
	segs, ok3 := retParseSegs(f[2])
	recs, ok4 := retParseRecs(f[3])
	if !ok1 || !ok2 || !ok3 || !ok4 || nowV >= retNowBound {
		return Result{Out: "bad-op"}
	}
	byKey := map[uint64]*rseg{}
	for _, s := range segs {
		if s.kind == 'm' {
			return Result{Out: "bad-op"} // empty-PQ meta files only ever list log segments
		}
		byKey[s.key] = s
	}
	ing := retInit()
	hv := retention.GetRetentionTimeMs(hours, time.UnixMilli(int64(nowV)))
	obs, hStar, hEnd, all, status := retRunTimedPass(ing, segs, int64(nowV), hours, hv, nil)
	defer retReset(ing)
	res := Result{}
	if status != "ok" {
		res.Out = status
		return res
	}
	var del []uint64
	kept := 0
	hadEntries := false
	for _, s := range segs {
		if !obs.meta[s.segkey] {
			del = append(del, s.key)
		} else {
			kept++
		}
		if len(s.pqs) > 0 {
			hadEntries = true
		}
	}
	retCheckStores(all, obs, &res, "time pass")
	_, dirErr := os.Stat(retPqMetaDir())
	dirGone := dirErr != nil
	// after the pass: segments rotated since (keys that are not in <segs>), then the records, on the path a rotation
	// takes (segstore.go: `go AddToEmptyPqmetaChan(pqid, segstore.SegmentKey)` → pqsChan → BulkAddEmptyResults)
	var fresh []*rseg
	for _, rc := range recs {
		if byKey[rc.key] == nil {
			ns := &rseg{key: rc.key, kind: 'l', real: hEnd + 3600000, size: 1}
			byKey[rc.key] = ns
			fresh = append(fresh, ns)
		}
	}
	if len(fresh) > 0 {
		retBuild(ing, fresh)
	}
	for _, rc := range recs {
		writer.AddToEmptyPqmetaChan(retPqid(rc.pqid), byKey[rc.key].segkey)
	}
	writer.VerifDrainPqsRequests()
	listed := map[string]bool{}
	for _, m := range writer.ReadLocalSegmeta(false) {
		listed[m.SegmentKey] = true
	}
	pqids := map[int]bool{}
	bySegkey := map[string]uint64{}
	for _, s := range byKey {
		bySegkey[s.segkey] = s.key
		for _, p := range s.pqs {
			pqids[p] = true
		}
	}
	for _, rc := range recs {
		pqids[rc.pqid] = true
	}
	type pe struct{ p, k uint64 }
	var pes []pe
	have := map[pe]bool{}
	for p := range pqids {
		m, _ := pqsmeta.GetAllEmptySegmentsForPqid(retPqid(p))
		for sk := range m {
			if k, ok := bySegkey[sk]; ok {
				pes = append(pes, pe{uint64(p), k})
				have[pe{uint64(p), k}] = true
			}
		}
	}
	sort.Slice(pes, func(i, j int) bool { return pes[i].p < pes[j].p || (pes[i].p == pes[j].p && pes[i].k < pes[j].k) })
	var pq []string
	for _, e := range pes {
		pq = append(pq, fmt.Sprintf("%d/%d", e.p, e.k))
	}
	pqs := "-"
	if len(pq) > 0 {
		pqs = strings.Join(pq, ",")
	}
	// the property, independent of the model: a record made after the pass for a segment that is listed in segmeta.json
	// can be read back; the records do not disturb the entries of the survivors
	cls := "pass-left-other-entries"
	if dirGone {
		cls = "pass-removed-the-last-entry"
	}
	seenRec := map[retRec]bool{}
	for _, rc := range recs {
		if seenRec[rc] {
			continue
		}
		seenRec[rc] = true
		if listed[byKey[rc.key].segkey] && !have[pe{uint64(rc.pqid), rc.key}] {
			res.Fails = append(res.Fails, PropFail{Sig: "retention/pqmeta-record-lost/" + cls,
				Msg: fmt.Sprintf("after the pass an empty result of pqid %d was recorded for listed segment %d, but pqid %d's empty-results meta file does not list it (pqmeta directory existed after the pass: %v)", rc.pqid, rc.key, rc.pqid, !dirGone)})
		}
	}
	for _, s := range segs {
		if !listed[s.segkey] {
			continue
		}
		for _, p := range s.pqs {
			if !have[pe{uint64(p), s.key}] {
				res.Fails = append(res.Fails, PropFail{Sig: "retention/survivor-damaged/pqmeta", Msg: fmt.Sprintf("records after the pass: empty-PQ entry %d of surviving segment %d is gone", p, s.key)})
			}
		}
	}
	_ = hStar
	res.Out = fmt.Sprintf("h=%d del=%s pq=%s", hv, retShowKeys(del), pqs)
	res.Nontrivial = len(del) > 0 && len(recs) > 0
	res.Tags = []string{"rec"}
	if dirGone {
		res.Tags = append(res.Tags, "rec-after-pass-removed-the-last-pqmeta-entry")
	} else if hadEntries {
		res.Tags = append(res.Tags, "rec-after-pass-left-pqmeta-entries")
	} else {
		res.Tags = append(res.Tags, "rec-no-pqmeta-entries-before")
	}
	if len(fresh) > 0 {
		res.Tags = append(res.Tags, "rec-for-segment-rotated-after-the-pass")
	}
	if kept > 0 {
		res.Tags = append(res.Tags, "rec-with-survivors")
	}
	return res
}

func execRet(line string) Result {
	f := strings.Fields(line)
	if len(f) < 2 || f[0] != "ret" {
		return Result{Out: "bad-op"}
	}
	retLastIdxTags = nil
	res := Result{Out: "bad-op"}
	switch f[1] {
	case "time":
		res = execRetTime(f[2:])
	case "vol":
		res = execRetVol(f[2:])
	case "int":
		res = execRetInt(f[2:])
	case "rec":
		res = execRetRec(f[2:])
	}
	res.Tags = append(res.Tags, retLastIdxTags...) // distribution of the victims' index names (retIdxWords)
	return res
}

var retLastIdxTags []string

// ---------------------------------------------------------------- generator

func retFmtSeg(key uint64, kind byte, latest, size uint64, org int, pqs []int) string {
	p := "-"
	if len(pqs) > 0 {
		var ps []string
		for _, q := range pqs {
			ps = append(ps, fmt.Sprint(q))
		}
		p = strings.Join(ps, "+")
	}
	return fmt.Sprintf("%d:%c:%d:%d:%d:%s", key, kind, latest, size, org, p)
}

func retGenPqs(r *rand.Rand) []int {
	if r.Intn(3) != 0 {
		return nil
	}
	n := 1 + r.Intn(2)
	seen := map[int]bool{}
	var out []int
	for i := 0; i < n; i++ {
		p := 1 + r.Intn(3)
		if !seen[p] {
			seen[p] = true
			out = append(out, p)
		}
	}
	return out
}

func genRetTime(r *rand.Rand) string {
	now := int64(1790000000000) + r.Int63n(1000000000)
	hoursChoices := []int64{0, 1, 24, 24, 360, 360, 720, 8760, 87600}
	hours := hoursChoices[r.Intn(len(hoursChoices))]
	regime := r.Intn(20)
	nseg := 1 + r.Intn(10)
	var segs []string
	key := uint64(1 + r.Intn(5))
	switch {
	case regime == 0: // horizon before the epoch: uint64 wrap, everything goes
		hours = 500000 + r.Int63n(2000000)
	case regime == 1: // Duration overflow
		hours = 2562048 + r.Int63n(1<<40)
	case regime == 2: // negative retention
		hours = -1 - r.Int63n(100)
	}
	far := regime == 0 || regime == 1
	h := now - hours*3600000 // meaningful unless far
	near := []int64{0, 0, 1, -1, 1, -1, 2, -2, 999, -999, 1000, -1000, 1001, 3600000, -3600000, 86400000, -86400000}
	var prev int64
	for i := 0; i < nseg; i++ {
		org := 0
		if r.Intn(8) == 0 {
			org = 1 + r.Intn(2)
		}
		pqs := retGenPqs(r)
		size := uint64(r.Intn(1000))
		if r.Intn(10) < 7 {
			var latest int64
			if far {
				latest = now - 1000 - r.Int63n(1000000000000)
			} else {
				d := near[r.Intn(len(near))]
				if r.Intn(4) == 0 {
					d = r.Int63n(5000) - 2500
				}
				if i > 0 && r.Intn(6) == 0 {
					d = prev // tie
				}
				prev = d
				latest = h + d
			}
			segs = append(segs, retFmtSeg(key, 'l', uint64(latest), size, org, pqs))
		} else {
			var sec int64
			if far {
				sec = now/1000 - 10 - r.Int63n(1000000000)
			} else {
				ks := []int64{0, 0, 1, -1, 1, -1, 2, -2, 3600, -3600, 86400, -86400}
				k := ks[r.Intn(len(ks))]
				sec = retFloorDiv(h, 1000) + k
			}
			segs = append(segs, retFmtSeg(key, 'm', uint64(sec), size, org, nil))
		}
		key += uint64(1 + r.Intn(3))
	}
	return fmt.Sprintf("ret time %d %d %s", now, hours, strings.Join(segs, ";"))
}

// genRetVolOversized: by construction, oldest first, a few small segments, then one that is larger than what is
// still to be freed at that point, then smaller, newer ones (log and metrics mixed, distinct times).
func genRetVolOversized(r *rand.Rand) string {
	base := (uint64(1790000000000) - uint64(r.Int63n(20*86400000))) / 1000 * 1000 // whole seconds: a metrics segment's key never ties with a log segment's
	nBefore, nAfter := r.Intn(4), 1+r.Intn(5)
	type vs struct {
		kind   byte
		latest uint64
		size   uint64
	}
	var l []vs
	t := base
	next := func() (byte, uint64) {
		t += uint64(1000 * (1 + r.Intn(100000)))
		if r.Intn(4) == 0 {
			return 'm', t / 1000
		}
		return 'l', t + uint64(r.Intn(1000))
	}
	var freedBefore uint64
	for i := 0; i < nBefore; i++ {
		k, lt := next()
		sz := uint64(1 + r.Int63n(400000000))
		freedBefore += sz
		l = append(l, vs{k, lt, sz})
	}
	// to free in total: what the small old ones free plus `rest`; the oversized one is ≥ rest (= rest: boundary)
	rest := uint64(1 + r.Int63n(900000000))
	k, lt := next()
	big := rest + uint64(r.Int63n(3))*uint64(r.Int63n(2000000000))
	l = append(l, vs{k, lt, big})
	var after uint64
	for i := 0; i < nAfter; i++ {
		k, lt := next()
		sz := uint64(r.Int63n(int64(rest))) // would fit
		after += sz
		l = append(l, vs{k, lt, sz})
	}
	total := freedBefore + big + after
	// allowed = total - (freedBefore + rest) must be a whole number of GB: pad the newest segment
	excess := freedBefore + rest
	allowed := total - excess
	gb := allowed / 1000000000
	if pad := allowed - gb*1000000000; pad > 0 {
		// shrink the allowance to whole GB by enlarging the excess is not wanted: add a newest, large survivor instead
		k, lt := next()
		l = append(l, vs{k, lt, 1000000000 - pad + 3000000000})
		gb += 4
	}
	// file order is not age order: shuffle (metricmeta.json is a map anyway)
	idx := r.Perm(len(l))
	var segs []string
	key := uint64(1 + r.Intn(5))
	for _, i := range idx {
		segs = append(segs, retFmtSeg(key, l[i].kind, l[i].latest, l[i].size, 0, retGenPqs(r)))
		key += uint64(1 + r.Intn(3))
	}
	return fmt.Sprintf("ret vol %d %d %s", gb, 5+r.Intn(3), strings.Join(segs, ";"))
}

func genRetVol(r *rand.Rand) string {
	if r.Intn(4) == 0 {
		return genRetVolOversized(r)
	}
	nseg := 1 + r.Intn(14)
	allowTies := nseg <= 12
	logsOnly := r.Intn(3) == 0
	var segs []string
	key := uint64(1 + r.Intn(5))
	usedKeys := map[uint64]bool{}
	var total uint64
	base := uint64(1790000000000)
	var lastLatest uint64
	for i := 0; i < nseg; i++ {
		var size uint64
		switch r.Intn(6) {
		case 0:
			size = uint64(r.Intn(3))
		case 1:
			size = uint64(1+r.Intn(4))*1000000000 + uint64(r.Intn(3)) - 1
		case 2:
			size = uint64(1+r.Intn(4)) * 1000000000
		default:
			size = uint64(r.Int63n(3000000000))
		}
		total += size
		org := 0
		if r.Intn(10) == 0 {
			org = 1
		}
		kind := byte('l')
		if !logsOnly && r.Intn(10) < 3 {
			kind = 'm'
		}
		var latest, k uint64
		for tries := 0; ; tries++ {
			if kind == 'l' {
				switch r.Intn(8) {
				case 0:
					latest = uint64(r.Int63n(5000000000)) // tiny times (these tied with the wrapped uint32 metrics keys before the fix)
				case 1:
					if i > 0 {
						latest = lastLatest
					} else {
						latest = base
					}
				default:
					latest = base - uint64(r.Int63n(30*86400000))
				}
				k = latest
			} else {
				if r.Intn(5) == 0 {
					latest = uint64(r.Int63n(4294967)) // product fits into uint32 (old and new key agree)
				} else {
					latest = base/1000 - uint64(r.Int63n(30*86400))
				}
				k = latest * 1000 // the sort key uint64(LatestEpochSec) * 1000
			}
			if !usedKeys[k] || (allowTies && kind == 'l' && tries > 2) {
				break
			}
		}
		if kind == 'm' || !allowTies {
			// a metrics key must be unique (metricmeta.json is read into a map: ties would be ordered at random)
			if usedKeys[k] {
				kind, latest = 'l', base+uint64(i)*7+uint64(r.Intn(5))
				for usedKeys[latest] {
					latest++
				}
				k = latest
			}
		}
		usedKeys[k] = true
		if kind == 'l' {
			lastLatest = latest
		}
		segs = append(segs, retFmtSeg(key, kind, latest, size, org, retGenPqs(r)))
		key += uint64(1 + r.Intn(3))
	}
	// the limit: a few GB below the total
	tgb := total / 1000000000
	var gb uint64
	if tgb > 0 {
		gb = tgb - uint64(r.Intn(int(retMin64(tgb, 4))+1))
	}
	if r.Intn(12) == 0 {
		gb = tgb + uint64(r.Intn(2))
	}
	cnt := 5 + r.Intn(3)
	if r.Intn(10) == 0 {
		cnt = r.Intn(5)
	}
	return fmt.Sprintf("ret vol %d %d %s", gb, cnt, strings.Join(segs, ";"))
}

func retMin64(a, b uint64) uint64 {
	if a < b {
		return a
	}
	return b
}

func genRetInt(r *rand.Rand) string {
	now := int64(1790000000000) + r.Int63n(1000000000)
	hours := int64(24)
	h := now - hours*3600000
	nseg := 1 + r.Intn(6)
	var segs []string
	key := uint64(1 + r.Intn(5))
	nv := 0
	for i := 0; i < nseg; i++ {
		org := 0
		if r.Intn(8) == 0 {
			org = 1
		}
		d := int64(3600000) * int64(1+r.Intn(10))
		if r.Intn(5) < 3 {
			d = -d
			if org == 0 {
				nv++
			}
		}
		segs = append(segs, retFmtSeg(key, 'l', uint64(h+d), uint64(r.Intn(1000)), org, retGenPqs(r)))
		key += uint64(1 + r.Intn(3))
	}
	cut := r.Intn(4*nv + 3)
	return fmt.Sprintf("ret int %d %d %d %s", cut, now, hours, strings.Join(segs, ";"))
}

// genRetRec: a time-based pass and then records.  Mostly (by construction) the pass removes the LAST entry of the last
// pqmeta file: every segment that has empty-PQ entries is expired, segments without entries survive.
func genRetRec(r *rand.Rand) string {
	now := int64(1790000000000) + r.Int63n(1000000000)
	hours := int64(24)
	h := now - hours*3600000
	emptying := r.Intn(10) < 7
	nseg := 1 + r.Intn(5)
	var segs []string
	key := uint64(1 + r.Intn(5))
	var survivors []uint64
	somePq := false
	for i := 0; i < nseg; i++ {
		org := 0
		if r.Intn(10) == 0 {
			org = 1
		}
		expired := r.Intn(5) < 3
		if emptying && i == 0 {
			expired, org = true, 0
		}
		d := int64(1+r.Intn(5)) * []int64{1, 1000, 3600000}[r.Intn(3)]
		if expired {
			d = -d + 1
		}
		var pqs []int
		if emptying {
			if expired && org == 0 && (i == 0 || r.Intn(2) == 0) {
				pqs = []int{1 + r.Intn(3)}
				if r.Intn(3) == 0 {
					pqs = append(pqs, 4)
				}
			}
		} else {
			pqs = retGenPqs(r)
		}
		if len(pqs) > 0 {
			somePq = true
		}
		if !expired || org != 0 {
			survivors = append(survivors, key)
		}
		segs = append(segs, retFmtSeg(key, 'l', uint64(h+d), uint64(r.Intn(1000)), org, pqs))
		key += uint64(1 + r.Intn(3))
	}
	_ = somePq
	nrec := 1 + r.Intn(3)
	var recs []string
	for i := 0; i < nrec; i++ {
		p := 1 + r.Intn(5)
		k := key + uint64(r.Intn(3)) // a segment rotated after the pass
		if len(survivors) > 0 && r.Intn(2) == 0 {
			k = survivors[r.Intn(len(survivors))]
		}
		recs = append(recs, fmt.Sprintf("%d/%d", p, k))
	}
	return fmt.Sprintf("ret rec %d %d %s %s", now, hours, strings.Join(segs, ";"), strings.Join(recs, ","))
}

func genRet(r *rand.Rand, n int, tier string) []string {
	var out []string
	// deliberate boundary cases first
	out = append(out,
		"ret time 1790000000000 24 1:l:1789913600000:10:0:-;2:l:1789913600001:10:0:-;3:l:1789913599999:10:0:-;4:m:1789913600:10:0:-;5:m:1789913601:10:0:-;6:m:1789913599:10:0:-",
		"ret time 1790000000123 24 1:m:1789913600:10:0:-;2:m:1789913601:10:0:-;3:l:1789913600123:5:0:1;4:l:1789913600124:5:0:1+2",
		"ret vol 0 5 1:l:1000:10:0:-;2:l:2000:1:0:-",
		"ret vol 0 5 1:l:1789000000000:5:0:-;2:m:1789990000:5:0:-;3:l:1789999999000:100:0:-",
		"ret int 0 1790000000000 24 1:l:1789900000000:1:0:1;2:l:1789990000000:1:0:1",
		"ret rec 1790000000000 24 1:l:1789900000000:1:0:1;2:l:1789990000000:1:0:- 1/2,2/3",
		"ret rec 1790000000000 24 1:l:1789900000000:1:0:1;2:l:1789990000000:1:0:1 1/2,2/2",
	)
	for len(out) < n {
		x := r.Intn(100)
		switch {
		case x < 36:
			out = append(out, genRetTime(r))
		case x < 64:
			out = append(out, genRetVol(r))
		case x < 83:
			out = append(out, genRetInt(r))
		case x < 94:
			out = append(out, genRetRec(r))
		default:
			bad := []string{
				"ret", "ret time", "ret time 1790000000000 24", "ret time x 24 -", "ret time 1790000000000 24 1:l:5:1:0", "ret time 1790000000000 24 1:l:5:1:0:-;1:l:6:1:0:-",
				"ret time 1790000000000 24 1:m:4294967296:1:0:-", "ret time 1790000000000 9223372036854775808 -", "ret time 1790000000000 -0 -", "ret time 1790000000000 +5 -",
				"ret vol 1 5 1:q:5:1:0:-", "ret vol 1 5", "ret vol -1 5 -", "ret int 1 1790000000000 24 1:m:5:1:0:-", "ret int a 1790000000000 24 -", "ret foo 1 2 3",
				"ret time 1790000000000 24 1:l:18446744073709551616:1:0:-", "ret time 1790000000000 24 1:l:5:1:0:1+x", "ret time 9007199254740992 24 -", "ret time 1790000000000 24 -", "ret vol 3 5 -", "ret int 3 1790000000000 24 -",
				"ret time 1790000000000 -9223372036854775808 -",
				"ret rec 1790000000000 24 1:l:5:1:0:-", "ret rec 1790000000000 24 1:l:5:1:0:- 1/x", "ret rec 1790000000000 24 1:m:5:1:0:- 1/2", "ret rec 1790000000000 24 - 1000/1", "ret rec 1790000000000 24 - -",
			}
			out = append(out, bad[r.Intn(len(bad))])
		}
	}
	return out[:n]
}

// ---------------------------------------------------------------- suite rete2e: real segments

// ret e2e <hours> <key>:<offsetMs>:<count>;…   one index per key; <count> events whose newest timestamp is
// horizon+offset; → del=<keys> hits=<key>=<n>,…   (hits of `*` per index after the pass)

func init() {
	register(&Suite{Name: "rete2e", Gen: genRetE2E, Exec: execRetE2E,
		Rule: "2..5 real rotated segments (one index each, 1..6 events with explicit timestamps) at offsets 0, +1 ms, ±seconds, ±hours from the horizon; real DoRetentionBasedDeletion, then `*` search per index, segmeta.json and directory listing; non-trivial = at least one victim and one survivor"})
}

var retE2ESeq = 0
var retE2ELead = int64(500)

func genRetE2E(r *rand.Rand, n int, tier string) []string {
	out := []string{"ret e2e 24 1:0:3;2:1:3;3:-3600000:2;4:3600000:2"}
	offs := []int64{0, 1, -1, -1000, 1000, 2000, -60000, 60000, -3600000, 3600000, -86400000, 86400000}
	for len(out) < n {
		k := 2 + r.Intn(4)
		var segs []string
		for i := 0; i < k; i++ {
			segs = append(segs, fmt.Sprintf("%d:%d:%d", i+1, offs[r.Intn(len(offs))], 1+r.Intn(6)))
		}
		hours := []int{1, 24, 360}[r.Intn(3)]
		out = append(out, fmt.Sprintf("ret e2e %d %s", hours, strings.Join(segs, ";")))
	}
	return out[:n]
}

type e2eSeg struct {
	key    uint64
	off    int64
	count  int
	idx    string
	latest uint64
	segkey string
	base   string
}

func retE2ESearch(idx string, end uint64) (int, string) {
	body := map[string]interface{}{
		"searchText": "*", "startEpoch": float64(1), "endEpoch": float64(end),
		"indexName": idx, "queryLanguage": "Splunk QL", "size": float64(100), "from": float64(0),
	}
	retE2ESeq++
	resp, _, _, err := pipesearch.ParseAndExecutePipeRequest(body, uint64(900000+retE2ESeq), 0, time.Now(), "", nil)
	if err != nil {
		return -1, err.Error()
	}
	if resp == nil {
		return -1, "nil response"
	}
	return len(resp.Hits.Hits), ""
}

func execRetE2E(line string) Result {
	f := strings.Fields(line)
	if len(f) != 4 || f[0] != "ret" || f[1] != "e2e" {
		return Result{Out: "bad-op"}
	}
	hours64, ok := retParseDec(f[2], 20)
	if !ok {
		return Result{Out: "bad-op"}
	}
	hours := int(hours64)
	var segs []*e2eSeg
	seen := map[uint64]bool{}
	for _, tok := range strings.Split(f[3], ";") {
		q := strings.Split(tok, ":")
		if len(q) != 3 {
			return Result{Out: "bad-op"}
		}
		k, ok1 := retParseDec(q[0], 32)
		off, err := strconv.ParseInt(q[1], 10, 40)
		c, ok3 := retParseDec(q[2], 8)
		if !ok1 || err != nil || !ok3 || c == 0 || c > 50 || seen[k] || strings.HasPrefix(q[1], "+") || q[1] == "-0" {
			return Result{Out: "bad-op"}
		}
		seen[k] = true
		segs = append(segs, &e2eSeg{key: k, off: off, count: int(c)})
	}
	bootEngine()
	query.VerifFreezeMetaRefresh()
	ing := config.GetCurrentNodeIngestDir()
	tsKey := config.GetTimeStampKey()
	var stack [64]byte
	res := Result{}
	for attempt := 0; attempt < 8; attempt++ {
		lead := retE2ELead
		tBuild := time.Now()
		retE2ESeq++
		run := retE2ESeq
		tStar := time.Now().UnixMilli() + lead
		hStar := retention.GetRetentionTimeMs(hours, time.UnixMilli(tStar))
		all := append([]*e2eSeg{}, segs...)
		all = append(all, &e2eSeg{key: 4000000001, off: 0, count: 1}, &e2eSeg{key: 4000000002, off: 1, count: 1})
		for _, s := range all {
			s.segkey, s.base = "", ""
			s.idx = fmt.Sprintf("rete%d_%d", run, s.key)
			s.latest = uint64(int64(hStar) + s.off)
			var ples []*writer.ParsedLogEvent
			for j := 0; j < s.count; j++ {
				doc := fmt.Sprintf(`{"%s":%d,"k":"v%d","n":%d}`, tsKey, s.latest-uint64(j), s.key, j)
				ple, err := writer.GetNewPLE([]byte(doc), uint64(time.Now().UnixMilli()), s.idx, &tsKey, stack[:])
				if err != nil {
					return Result{Out: "ingest-error " + err.Error()}
				}
				ples = append(ples, ple)
			}
			if err := eswriter.ProcessIndexRequestPle(uint64(time.Now().UnixMilli()), s.idx, false, map[string]string{}, 0, 0, map[string]string{}, map[uint64]string{}, stack[:], ples); err != nil {
				return Result{Out: "ingest-error " + err.Error()}
			}
			writer.ReleasePLEs(ples)
		}
		tIng := time.Now()
		writer.ForceRotateSegmentsForTest()
		if os.Getenv("RET_DEBUG") != "" {
			fmt.Fprintf(os.Stderr, "attempt %d lead %d ingest %v rotate %v\n", attempt, lead, tIng.Sub(time.UnixMilli(tStar-lead)), time.Since(tIng))
		}
		byIdx := map[string]*e2eSeg{}
		for _, s := range all {
			byIdx[s.idx] = s
		}
		for _, m := range writer.ReadLocalSegmeta(false) {
			if s := byIdx[m.VirtualTableName]; s != nil {
				if s.segkey != "" {
					return Result{Out: "harness: two segments for index " + s.idx}
				}
				s.segkey, s.base = m.SegmentKey, m.SegbaseDir
				if m.LatestEpochMS != s.latest {
					return Result{Out: fmt.Sprintf("harness: segment %d latest %d, planned %d", s.key, m.LatestEpochMS, s.latest)}
				}
			}
		}
		for _, s := range all {
			if s.segkey == "" {
				return Result{Out: "harness: no rotated segment for index " + s.idx}
			}
			if n, e := retE2ESearch(s.idx, uint64(tStar)+1e10); n != s.count {
				return Result{Out: fmt.Sprintf("harness: before the pass index %s answers %d hits (%s), ingested %d", s.idx, n, e, s.count)}
			}
		}
		if os.Getenv("RET_DEBUG") != "" {
			fmt.Fprintf(os.Stderr, "  searched; slack %d ms\n", tStar-time.Now().UnixMilli())
		}
		// plan the next build from what this one took
		retE2ELead = time.Since(tBuild).Milliseconds()*3/2 + 150
		if time.Now().UnixMilli() >= tStar {
			continue
		}
		retWaitUntil(tStar)
		tPass := time.Now()
		retention.DoRetentionBasedDeletion(ing, hours, 0)
		hEnd := retention.GetRetentionTimeMs(hours, time.Now())
		if os.Getenv("RET_DEBUG") != "" {
			fmt.Fprintf(os.Stderr, "  pass %v\n", time.Since(tPass))
			defer func() { fmt.Fprintf(os.Stderr, "  after-pass checks %v\n", time.Since(tPass)) }()
		}
		listed := map[string]bool{}
		for _, m := range writer.ReadLocalSegmeta(false) {
			listed[m.SegmentKey] = true
		}
		p0, p1 := all[len(all)-2], all[len(all)-1]
		if listed[p0.segkey] {
			res.Fails = append(res.Fails, PropFail{Sig: "retention/time-kept-expired", Msg: fmt.Sprintf("e2e: a real segment whose newest event is exactly at the horizon %d survived a pass that ran at or after that instant", hStar)})
		} else if !listed[p1.segkey] {
			// the pass read a later clock value; repeat with fresh indexes if the outcome could depend on it
			sensitive := false
			for _, s := range segs {
				if s.latest > hStar && s.latest <= hEnd {
					sensitive = true
				}
			}
			if sensitive {
				continue
			}
		}
		var del []uint64
		var hits []string
		kept := 0
		for _, s := range segs {
			gone := !listed[s.segkey]
			if gone {
				del = append(del, s.key)
			} else {
				kept++
			}
			if s.latest <= hStar && !gone {
				res.Fails = append(res.Fails, PropFail{Sig: "retention/time-kept-expired", Msg: fmt.Sprintf("e2e: segment %d newest event %d ≤ horizon %d survived", s.key, s.latest, hStar)})
			}
			if s.latest > hEnd && gone {
				res.Fails = append(res.Fails, PropFail{Sig: "retention/time-deleted-live", Msg: fmt.Sprintf("e2e: segment %d newest event %d > horizon %d deleted", s.key, s.latest, hEnd)})
			}
			n, e := retE2ESearch(s.idx, uint64(tStar)+1e10)
			if n < 0 {
				hits = append(hits, fmt.Sprintf("%d=err", s.key))
			} else {
				hits = append(hits, fmt.Sprintf("%d=%d", s.key, n))
			}
			files, _ := os.ReadDir(s.base)
			_, inMem := segmetadata.GetAllSegKeys()[s.segkey]
			if gone {
				if n > 0 {
					res.Fails = append(res.Fails, PropFail{Sig: "retention/e2e-deleted-still-searchable", Msg: fmt.Sprintf("segment %d was deleted but `*` on its index still returns %d events", s.key, n)})
				}
				if len(files) > 0 {
					res.Fails = append(res.Fails, PropFail{Sig: "retention/victim-leftover/files", Msg: fmt.Sprintf("e2e: deleted segment %d still has %d files", s.key, len(files))})
				}
				if inMem {
					res.Fails = append(res.Fails, PropFail{Sig: "retention/victim-leftover/memory", Msg: fmt.Sprintf("e2e: deleted segment %d still in the in-memory metadata", s.key)})
				}
			} else {
				if n != s.count {
					res.Fails = append(res.Fails, PropFail{Sig: "retention/e2e-survivor-not-fully-searchable", Msg: fmt.Sprintf("surviving segment %d holds %d events, `*` returns %d (%s)", s.key, s.count, n, e)})
				}
				if len(files) == 0 {
					res.Fails = append(res.Fails, PropFail{Sig: "retention/survivor-damaged/files", Msg: fmt.Sprintf("e2e: surviving segment %d lost its files", s.key)})
				}
				if !inMem {
					res.Fails = append(res.Fails, PropFail{Sig: "retention/survivor-damaged/memory", Msg: fmt.Sprintf("e2e: surviving segment %d not in the in-memory metadata", s.key)})
				}
			}
		}
		res.Out = fmt.Sprintf("del=%s hits=%s", retShowKeys(del), strings.Join(hits, ","))
		res.Nontrivial = len(del) > 0 && kept > 0
		res.Tags = []string{fmt.Sprintf("e2e-segs=%d", len(segs))}
		return res
	}
	res.Out = "clock-unstable"
	return res
}

var _ = filepath.Join
