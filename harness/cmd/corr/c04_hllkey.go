package main

// suite "hllkey" (properties C04 / C03, kernel slice): the DISTINCT-VALUE KEY — the bytes under which one value of a column
// enters the HyperLogLog sketch of the column's statistics — on the two paths whose sketches one `stats dc(f)` query merges:
// the ingest-time statistics stored in the .sst file (a rotated segment the query's time range encloses) and the statistics
// computed from the records at query time (a segment the range cuts through, any search with a filter).
// Model: lean/SigModel/Model/HllKey.lean, oracle lean/Oracle/C04H.lean, theorems Props/C04.lean §C04.H.
//
//	hkey <vals>      <vals> as in suite stats: i<int64> | d<decimal> | s<hex> | z (field absent), comma separated
//
// Out: per value `<ingest key hex>/<query key hex>`, then dcI= dcQ= dcM= (distinct counts of the ingest-path sketch after
// the .sst record round trip, of the query-path sketch, and of their MERGE: the same values held by two segments).
// The key a REAL path used is identified through the real sketch: the path is run on the single value
// (wstats.AddSegStatsNums / AddSegStatsStr; writer.addSegStatsNums / addSegStatsStrIngestion through the overlay hooks of
// suite stats) and its sketch is compared with the sketch of one InsertIntoHll(candidate) for the candidate encodings of
// the value (int64 LE, float64 LE of the value, the text, float64 LE of the number a text denotes); no candidate = `?`.
// Ingest-time numbers: doLogEventFilling hands addSegStatsNums the 8 value bytes of the column encoding
// (ple.allCvalsTypeLen[i][1:9]); the harness builds them with the same utils.*ToBytesLittleEndianInplace (the end-to-end
// suites e2e_c03 / e2e_c04, tag sst-and-raw-in-one-query, run the real ingest).
//
// PropFail (the statement itself: pre-aggregated statistics used or not, the answer is the same; dc counts a value once):
// the merged sketch of the two paths over the SAME values must count what each path counts alone.
//   stats/hll-key/value-counted-twice-across-sst-and-records      lists without numeric text
//   stats/hll-key/numeric-text-counted-twice                       lists with a string that FastParseFloat reads as a number
//                                                                  (the defect found with this suite: AddSegStatsStr fed the
//                                                                  sketch the float64 image of the number; repaired by patch
//                                                                  c04-16, the detector stays)

import (
	"bytes"
	"encoding/hex"
	"fmt"
	"math"
	"math/rand"
	"strconv"
	"strings"

	"github.com/siglens/siglens/pkg/segment/structs"
	"github.com/siglens/siglens/pkg/segment/writer"
	wstats "github.com/siglens/siglens/pkg/segment/writer/stats"
	"github.com/siglens/siglens/pkg/utils"
)

func init() {
	register(&Suite{Name: "hllkey", Gen: hkGen, Exec: hkExec,
		Rule: "lists of 1..8 values with repetitions (ints: small, negative, 0, ±2^53+1, int64 bounds; floats: dyadic, integer-valued, non-dyadic decimals; " +
			"numeric text of every FastParseFloat shape incl. 8-byte texts, other text, empty string, absent): per value the sketch key of the ingest-time and of the " +
			"query-time statistics, distinct counts of each path and of the merged sketch; non-trivial = ≥ 2 values"})
}

func hkSketch(key []byte) []byte {
	s := &structs.SegStats{}
	s.CreateNewHll()
	s.InsertIntoHll(key)
	return s.GetHllBytes()
}

func hkLE64(u uint64) []byte {
	b := make([]byte, 8)
	utils.Uint64ToBytesLittleEndianInplace(u, b)
	return b
}

// ingest-time fold with the bytes doLogEventFilling passes
func hkFoldI(vals []st4Val) map[string]*structs.SegStats {
	m := map[string]*structs.SegStats{}
	for _, v := range vals {
		b := make([]byte, 8)
		switch v.kind {
		case 'i':
			utils.Int64ToBytesLittleEndianInplace(v.i, b)
			writer.VerifC04AddNumIngest(m, st4Col, false, v.i, 0, b)
		case 'd':
			utils.Float64ToBytesLittleEndianInplace(v.f, b)
			writer.VerifC04AddNumIngest(m, st4Col, true, 0, v.f, b)
		case 's':
			writer.VerifC04AddStrIngest(m, st4Col, append([]byte{}, v.s...))
		}
	}
	return m
}

func hkKeyOf(m map[string]*structs.SegStats, v st4Val) string {
	s, ok := m[st4Col]
	if !ok {
		return "-"
	}
	got := s.GetHllBytes()
	var cands [][]byte
	switch v.kind {
	case 'i':
		cands = [][]byte{hkLE64(uint64(v.i)), hkLE64(math.Float64bits(float64(v.i))), []byte(strconv.FormatInt(v.i, 10))}
	case 'd':
		cands = [][]byte{hkLE64(math.Float64bits(v.f)), hkLE64(uint64(int64(v.f))), []byte(strconv.FormatFloat(v.f, 'f', -1, 64))}
	case 's':
		cands = [][]byte{v.s}
		if f, err := strconv.ParseFloat(string(v.s), 64); err == nil {
			cands = append(cands, hkLE64(math.Float64bits(f)), hkLE64(uint64(int64(f))))
		}
		if f, err := utils.FastParseFloat(v.s); err == nil {
			cands = append(cands, hkLE64(math.Float64bits(f)))
		}
	}
	for _, c := range cands {
		if bytes.Equal(got, hkSketch(c)) {
			if len(c) == 0 {
				return "e"
			}
			return hex.EncodeToString(c)
		}
	}
	return "?"
}

func hkCard(m map[string]*structs.SegStats) uint64 {
	if s, ok := m[st4Col]; ok {
		return s.GetHllCardinality()
	}
	return 0
}

func hkExec(line string) Result {
	f := strings.Fields(line)
	if len(f) != 2 || f[0] != "hkey" {
		return Result{Out: "bad-op"}
	}
	vals, ok := st4ParseVals(f[1])
	if !ok {
		return Result{Out: "bad-op"}
	}
	var per []string
	numText := false
	tags := map[string]bool{}
	for _, v := range vals {
		if v.kind == 'z' {
			per = append(per, "-/-")
			tags["absent"] = true
			continue
		}
		per = append(per, hkKeyOf(hkFoldI([]st4Val{v}), v)+"/"+hkKeyOf(st4FoldQ([]st4Val{v}), v))
		switch v.kind {
		case 'i':
			tags["int"] = true
			if v.i > 1<<53 || v.i < -(1<<53) {
				tags["int-beyond-2^53"] = true
			}
		case 'd':
			tags["float"] = true
			if v.f == math.Trunc(v.f) {
				tags["integer-valued-float"] = true
			}
		case 's':
			if e2eNumStrRe.Match(v.s) {
				numText = true
				tags["numeric-text"] = true
				if len(v.s) == 8 {
					tags["numeric-text-of-8-bytes"] = true
				}
			} else {
				tags["text"] = true
			}
		}
	}
	mi, e := st4SstRT(hkFoldI(vals))
	if e != "" {
		return Result{Out: "sst-" + e}
	}
	mq := st4FoldQ(vals)
	dcI, dcQ := hkCard(mi), hkCard(mq)
	// the same values once more in a second segment: one answered from its .sst record, one from its records
	mi2, _ := st4SstRT(hkFoldI(vals))
	dcM := hkCard(wstats.MergeSegStats(mi2, st4FoldQ(vals)))
	res := Result{Out: strings.Join(per, " ") + fmt.Sprintf(" dcI=%d dcQ=%d dcM=%d", dcI, dcQ, dcM), Nontrivial: len(vals) >= 2}
	if dcM != dcI || dcM != dcQ {
		sig := "stats/hll-key/value-counted-twice-across-sst-and-records"
		if numText {
			sig = "stats/hll-key/numeric-text-counted-twice"
		}
		res.Fails = append(res.Fails, PropFail{Sig: sig, Msg: fmt.Sprintf("values %s: distinct count %d from the ingest-time statistics (.sst), %d from the query-time statistics, %d when a segment answered from .sst and a segment recomputed from records hold these same values; keys (ingest/query) %s",
			f[1], dcI, dcQ, dcM, strings.Join(per, " "))})
	}
	for t := range tags {
		res.Tags = append(res.Tags, t)
	}
	return res
}

func hkGen(r *rand.Rand, n int, tier string) []string {
	ints := []int64{0, 1, 5, 7, -1, -3, 12, 255, 256, 65536, 1 << 31, -(1 << 31), 1<<53 + 1, -(1<<53 + 1), 1 << 62, math.MaxInt64, math.MinInt64}
	decs := []string{"0.5", "1.5", "2.25", "-7.25", "5.0", "5", "7", "12.0", "0.1", "3.3", "1000000.125", "-0.75", "9007199254740992", "100"}
	ntxt := []string{"7", "007", "5", "5.0", "+5", "1e3", "1E2", ".5", "5.", "2.50", "-3", "12345678", "-1234.5", "00000005", "0.500000", "12", "1e0", "+.5e1"}
	txt := []string{"abc", "", "n/a", "12a", "1e", "-", "e5", "0x10", "nan", "1_000", "5 ", "abcdefgh", "Hello"}
	out := []string{
		"hkey i7", "hkey i7,i7,d7", "hkey s37", "hkey s37,s303037", "hkey s3132333435363738", "hkey i5,d5.0,s35,s352e30", "hkey z", "hkey z,i1,z", "hkey s", "hkey i-1,i9223372036854775807,i-9223372036854775808",
		"hkey", "hkey i7 i8", "hkey x7", "hkey i7,,i8",
	}
	for len(out) < n {
		k := 1 + r.Intn(8)
		var vs []string
		mode := r.Intn(4) // 0 numbers only, 1 numbers + text, 2 everything, 3 numeric text only
		for len(vs) < k {
			if len(vs) > 0 && r.Intn(3) == 0 {
				vs = append(vs, vs[r.Intn(len(vs))]) // a repeated value
				continue
			}
			c := r.Intn(5)
			switch {
			case mode == 3:
				c = 2
			case mode == 0 && c >= 2:
				c = r.Intn(2)
			case mode == 1 && c == 2:
				c = 3
			}
			switch c {
			case 0:
				v := ints[r.Intn(len(ints))]
				if r.Intn(3) == 0 {
					v = int64(r.Intn(40) - 10)
				}
				vs = append(vs, fmt.Sprintf("i%d", v))
			case 1:
				vs = append(vs, "d"+decs[r.Intn(len(decs))])
			case 2:
				vs = append(vs, "s"+hexs(ntxt[r.Intn(len(ntxt))]))
			case 3:
				vs = append(vs, "s"+hexs(txt[r.Intn(len(txt))]))
			default:
				vs = append(vs, "z")
			}
		}
		out = append(out, "hkey "+strings.Join(vs, ","))
	}
	return out
}
