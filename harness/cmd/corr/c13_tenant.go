package main

import (
	"encoding/hex"
	"fmt"
	"math/rand"
	"sort"
	"strconv"
	"strings"

	"github.com/cespare/xxhash"
	dtu "github.com/siglens/siglens/pkg/common/dtypeutils"
	"github.com/siglens/siglens/pkg/segment/metadata"
	"github.com/siglens/siglens/pkg/segment/structs"
	"github.com/siglens/siglens/pkg/segment/writer"
	"github.com/siglens/siglens/pkg/utils"
	vtable "github.com/siglens/siglens/pkg/virtualtable"
)

// suite "tenant" (C13). Names/expressions are hex-encoded ASCII, "-" = the empty string; orgs are 0..3.
//
//	tn expand <org> <es 0|1> <expr> T=<org:name,…> A=<org:alias>idx+idx,…>  → n=<count> r=<name;name;…>
//	tn glob <pattern> <name>                                               → impl=<m|n|e> spec=<0|1>
//	tn sel <org> <qlo> <qhi> N=<name,…> R=<key:org:table:lo:hi,…> U=<…> D=<org:table,…> → rot=<keys> unrot=<keys>
//	tn del <org> <name> T=<org:name,…>                                     → 0=<names> 1=<names> 2=<names> 3=<names>
//	tn sid P=<org:index,…> (any int64 org)                                 → fmt=ok c=<position of the first pair with the same stream id>
//
// Exec creates REAL virtual tables / aliases / segment metadata in the in-process engine (reset before
// every case through the overlay hooks) and calls the real ExpandAndReturnIndexNames,
// FilterSegmentsByTime, FilterUnrotatedSegmentsInQuery, metadata.DeleteVirtualTable, vtable.DeleteVirtualTable.
func init() {
	register(&Suite{Name: "tenant", Gen: genTenant, Exec: execTenant,
		Rule: "index expressions (literals, wildcards at start/middle/end, regex metacharacters, comma lists with spaces, cluster: prefixes, *, empty) over 0..7 tables and 0..4 aliases of 3-4 orgs with prefix-related / shared names; segment selection over ≤ 24 rotated segments (1..7 per hot (org,index), same-named indexes of other orgs adjacent or interleaved) + ≤ 6 unrotated segments with index deletions; stream ids of adversarial (org,index) pairs (digit-prefixed names × multi-digit orgs); table-list deletion; distinct = sha1(op line); non-trivial = a wildcard or alias is involved, or ≥ 2 orgs hold segments/tables"})
}

var tnOrgs = []int64{0, 1, 2, 3}

// ---------------------------------------------------------------- encoding

func tnHex(s string) string {
	if s == "" {
		return "-"
	}
	return hex.EncodeToString([]byte(s))
}

func tnUnhex(s string) (string, bool) {
	if s == "-" {
		return "", true
	}
	if s == "" {
		return "", false
	}
	b, err := hex.DecodeString(s)
	if err != nil {
		return "", false
	}
	for _, c := range b {
		if c >= 128 {
			return "", false
		}
	}
	return string(b), true
}

func tnOrg(s string) (int64, bool) {
	for _, c := range s {
		if c < '0' || c > '9' {
			return 0, false
		}
	}
	n, err := strconv.ParseUint(s, 10, 32)
	if err != nil || n > 3 {
		return 0, false
	}
	return int64(n), true
}

func tnNat(s string) (uint64, bool) {
	if s == "" {
		return 0, false
	}
	for _, c := range s {
		if c < '0' || c > '9' {
			return 0, false
		}
	}
	n, err := strconv.ParseUint(s, 10, 63)
	return n, err == nil
}

func tnList(key, s string) ([]string, bool) {
	if !strings.HasPrefix(s, key+"=") {
		return nil, false
	}
	body := s[len(key)+1:]
	if body == "" {
		return []string{}, true
	}
	return strings.Split(body, ","), true
}

type tnTable struct {
	org  int64
	name string
}

type tnAlias struct {
	org     int64
	alias   string
	targets []string
}

type tnSeg struct {
	key    uint64
	org    int64
	table  string
	lo, hi uint64
}

func tnParseTable(s string) (tnTable, bool) {
	p := strings.Split(s, ":")
	if len(p) != 2 {
		return tnTable{}, false
	}
	o, ok1 := tnOrg(p[0])
	n, ok2 := tnUnhex(p[1])
	return tnTable{o, n}, ok1 && ok2
}

func tnParseAlias(s string) (tnAlias, bool) {
	p := strings.Split(s, ":")
	if len(p) != 2 {
		return tnAlias{}, false
	}
	o, ok := tnOrg(p[0])
	if !ok {
		return tnAlias{}, false
	}
	q := strings.Split(p[1], ">")
	if len(q) != 2 {
		return tnAlias{}, false
	}
	a, ok := tnUnhex(q[0])
	if !ok {
		return tnAlias{}, false
	}
	res := tnAlias{org: o, alias: a}
	if q[1] != "" {
		for _, t := range strings.Split(q[1], "+") {
			n, ok := tnUnhex(t)
			if !ok {
				return tnAlias{}, false
			}
			res.targets = append(res.targets, n)
		}
	}
	return res, true
}

func tnParseSeg(s string) (tnSeg, bool) {
	p := strings.Split(s, ":")
	if len(p) != 5 {
		return tnSeg{}, false
	}
	k, ok1 := tnNat(p[0])
	o, ok2 := tnOrg(p[1])
	t, ok3 := tnUnhex(p[2])
	lo, ok4 := tnNat(p[3])
	hi, ok5 := tnNat(p[4])
	return tnSeg{k, o, t, lo, hi}, ok1 && ok2 && ok3 && ok4 && ok5
}

// ---------------------------------------------------------------- the modelled fragment (mirror of Model/Tenant.lean)

func tnAlnum(c byte) bool {
	return (c >= 'a' && c <= 'z') || (c >= 'A' && c <= 'Z') || (c >= '0' && c <= '9')
}

func tnInAlphabet(c byte) bool {
	return tnAlnum(c) || strings.IndexByte("-_.*+?()[]|^$\\{},: ", c) >= 0
}

func tnAllAlpha(s string) bool {
	for i := 0; i < len(s); i++ {
		if !tnInAlphabet(s[i]) {
			return false
		}
	}
	return true
}

func tnTblOk(s string) bool { return s != "" && tnAllAlpha(s) }

// table names and alias targets are index names: additionally a simple file name (the code rejects
// "", ".", ".." and names with a path separator since the path-safety fix)
func tnIdxOk(s string) bool {
	return tnTblOk(s) && !strings.Contains(s, "\\") && s != "." && s != ".."
}

func tnStrip(expr string) string {
	if i := strings.Index(expr, ":"); i != -1 {
		return expr[i+1:]
	}
	return expr
}

// expressions: modelled alphabet only (every wildcard element is quoted by the code)
func tnExprInFragment(expr string) bool { return tnAllAlpha(expr) }

// SPEC glob: `*` matches any string, everything else is literal (independent of the model and of the code)
func tnGlob(p, s string) bool {
	if p == "" {
		return s == ""
	}
	if p[0] == '*' {
		for i := 0; i <= len(s); i++ {
			if tnGlob(p[1:], s[i:]) {
				return true
			}
		}
		return false
	}
	return s != "" && p[0] == s[0] && tnGlob(p[1:], s[1:])
}

func tnHasMeta(elem string) bool {
	return strings.ContainsAny(strings.ReplaceAll(elem, "*", ""), ".+?()[]|^$\\{}")
}

// ---------------------------------------------------------------- exec

func execTenant(line string) Result {
	f := strings.Fields(line)
	if len(f) < 2 || f[0] != "tn" {
		return Result{Out: "bad-op"}
	}
	switch f[1] {
	case "expand":
		return tnExecExpand(f[2:])
	case "glob":
		return tnExecGlob(f[2:])
	case "sel":
		return tnExecSel(f[2:])
	case "del":
		return tnExecDel(f[2:])
	case "sid":
		return tnExecSid(f[2:])
	}
	return Result{Out: "bad-op"}
}

func tnSetup(tables []tnTable, aliases []tnAlias) {
	bootEngine()
	vtable.VerifResetTables(tnOrgs)
	for _, t := range tables {
		n := t.name
		if err := vtable.AddVirtualTable(&n, t.org); err != nil {
			panic(fmt.Sprintf("harness: AddVirtualTable(%q,%d): %v", n, t.org, err))
		}
	}
	for _, a := range aliases {
		if len(a.targets) == 0 {
			// alias that is still present but has lost its last index (AddAliases then RemoveAliases)
			if err := vtable.AddAliases("verif-tmp-index", []string{a.alias}, a.org); err != nil {
				panic(fmt.Sprintf("harness: AddAliases: %v", err))
			}
			if err := vtable.RemoveAliases("verif-tmp-index", []string{a.alias}, a.org); err != nil {
				panic(fmt.Sprintf("harness: RemoveAliases: %v", err))
			}
			continue
		}
		for _, t := range a.targets {
			if err := vtable.AddAliases(t, []string{a.alias}, a.org); err != nil {
				panic(fmt.Sprintf("harness: AddAliases(%q,%q,%d): %v", t, a.alias, a.org, err))
			}
		}
	}
}

func tnShowNames(names []string) string {
	h := make([]string, len(names))
	for i, n := range names {
		h[i] = tnHex(n)
	}
	return strings.Join(h, ";")
}

func tnExecExpand(a []string) Result {
	if len(a) != 5 {
		return Result{Out: "bad-op"}
	}
	org, ok := tnOrg(a[0])
	if !ok || (a[1] != "0" && a[1] != "1") {
		return Result{Out: "bad-op"}
	}
	es := a[1] == "1"
	expr, ok := tnUnhex(a[2])
	if !ok {
		return Result{Out: "bad-op"}
	}
	tl, ok1 := tnList("T", a[3])
	al, ok2 := tnList("A", a[4])
	if !ok1 || !ok2 {
		return Result{Out: "bad-op"}
	}
	var tables []tnTable
	var aliases []tnAlias
	for _, s := range tl {
		t, ok := tnParseTable(s)
		if !ok {
			return Result{Out: "bad-op"}
		}
		tables = append(tables, t)
	}
	for _, s := range al {
		x, ok := tnParseAlias(s)
		if !ok {
			return Result{Out: "bad-op"}
		}
		aliases = append(aliases, x)
	}
	inFrag := tnExprInFragment(expr)
	for _, t := range tables {
		inFrag = inFrag && tnIdxOk(t.name)
	}
	for _, x := range aliases {
		inFrag = inFrag && tnIdxOk(x.alias) // since patch c20-14 AddAliases refuses an alias that is no valid index name
		for _, t := range x.targets {
			inFrag = inFrag && tnIdxOk(t)
		}
	}
	if !inFrag {
		return Result{Out: "out-of-fragment", Tags: []string{"out-of-fragment"}}
	}
	tnSetup(tables, aliases)
	got := vtable.ExpandAndReturnIndexNames(expr, org, es, nil)
	res := Result{Out: fmt.Sprintf("n=%d r=%s", len(got), tnShowNames(got))}

	// ---- the property itself, on the real result
	stripped := tnStrip(expr)
	elems := strings.Split(stripped, ",")
	own := map[string]bool{}
	other := map[string]bool{}
	for _, t := range tables {
		if t.org == org {
			own[t.name] = true
		} else {
			other[t.name] = true
		}
	}
	ownAliasTargets := map[string][]string{}
	for _, x := range aliases {
		for _, t := range x.targets {
			if x.org == org {
				own[t] = true
				ownAliasTargets[x.alias] = append(ownAliasTargets[x.alias], t)
			} else {
				other[t] = true
			}
		}
	}
	verbatim := map[string]bool{}
	for _, e := range elems {
		if !strings.Contains(e, "*") {
			verbatim[e] = true
		}
	}
	fallback := len(got) == 1 && got[0] == stripped
	hasWild, hasMeta, usesAlias := false, false, false
	for _, e := range elems {
		if strings.Contains(e, "*") {
			hasWild = true
			if tnHasMeta(e) {
				hasMeta = true
			}
		}
		if _, ok := ownAliasTargets[e]; ok {
			usesAlias = true
		}
	}
	for _, x := range got {
		if !(own[x] || verbatim[x] || fallback) {
			if other[x] {
				res.Fails = append(res.Fails, PropFail{Sig: "index-expansion/other-org", Msg: fmt.Sprintf("org %d, expression %q: returned %q which belongs to another organisation only", org, expr, x)})
			} else {
				res.Fails = append(res.Fails, PropFail{Sig: "index-expansion/not-own", Msg: fmt.Sprintf("org %d, expression %q: returned %q which is neither a table nor an alias target of the organisation nor an element of the expression", org, expr, x)})
			}
		}
		named := fallback || stripped == "*"
		for _, e := range elems {
			if named {
				break
			}
			if tnGlob(e, x) {
				named = true
				break
			}
			for al, ts := range ownAliasTargets {
				if tnGlob(e, al) {
					for _, t := range ts {
						if t == x {
							named = true
						}
					}
				}
			}
		}
		if !named {
			cls := "not-named"
			if hasMeta {
				cls = "regex-metachar-in-literal"
			}
			res.Fails = append(res.Fails, PropFail{Sig: "index-expansion/" + cls, Msg: fmt.Sprintf("org %d, expression %q: returned %q which no element of the expression names (glob semantics)", org, expr, x)})
		}
	}
	res.Nontrivial = hasWild || usesAlias
	switch {
	case stripped == "*":
		res.Tags = append(res.Tags, "expand:star")
	case hasMeta:
		res.Tags = append(res.Tags, "expand:wildcard+metachar")
	case hasWild:
		res.Tags = append(res.Tags, "expand:wildcard")
	case usesAlias:
		res.Tags = append(res.Tags, "expand:alias")
	default:
		res.Tags = append(res.Tags, "expand:literal")
	}
	if len(got) == 0 {
		res.Tags = append(res.Tags, "expand:empty-result")
	}
	if fallback && hasWild {
		res.Tags = append(res.Tags, "expand:fallback")
	}
	if len(elems) > 1 {
		res.Tags = append(res.Tags, "expand:comma-list")
	}
	if stripped != expr {
		res.Tags = append(res.Tags, "expand:colon")
	}
	return res
}

func tnExecGlob(a []string) Result {
	if len(a) != 2 {
		return Result{Out: "bad-op"}
	}
	pat, ok1 := tnUnhex(a[0])
	name, ok2 := tnUnhex(a[1])
	if !ok1 || !ok2 {
		return Result{Out: "bad-op"}
	}
	if !tnExprInFragment(pat) || !tnIdxOk(name) {
		return Result{Out: "out-of-fragment", Tags: []string{"out-of-fragment"}}
	}
	tnSetup([]tnTable{{0, name}}, nil)
	got := vtable.ExpandAndReturnIndexNames(pat, 0, true, nil)
	impl := "n"
	if len(got) == 0 {
		impl = "e"
	} else {
		for _, g := range got {
			if g == name {
				impl = "m"
			}
		}
	}
	spec := 0
	if tnGlob(pat, name) {
		spec = 1
	}
	res := Result{Out: fmt.Sprintf("impl=%s spec=%d", impl, spec), Nontrivial: strings.Contains(pat, "*")}
	isWild := strings.Contains(pat, "*") && !strings.ContainsAny(pat, ",:")
	if isWild && impl == "m" && spec == 0 {
		res.Tags = append(res.Tags, "glob:impl-matches-spec-does-not")
		res.Fails = append(res.Fails, PropFail{Sig: "index-expansion/regex-metachar-in-literal", Msg: fmt.Sprintf("pattern %q selects index %q although the glob pattern does not match it", pat, name)})
	} else if isWild && impl != "m" && spec == 1 {
		res.Tags = append(res.Tags, "glob:spec-matches-impl-does-not")
	} else {
		res.Tags = append(res.Tags, "glob:agree")
	}
	if impl == "e" {
		res.Tags = append(res.Tags, "glob:compile-error-or-excluded")
	}
	return res
}

func tnKeys(m map[uint64]bool) string {
	ks := make([]uint64, 0, len(m))
	for k := range m {
		ks = append(ks, k)
	}
	sort.Slice(ks, func(i, j int) bool { return ks[i] < ks[j] })
	s := make([]string, len(ks))
	for i, k := range ks {
		s[i] = strconv.FormatUint(k, 10)
	}
	return strings.Join(s, ",")
}

func tnOverlap(qlo, qhi, lo, hi uint64) bool {
	return (lo >= qlo && lo <= qhi) || (hi >= qlo && hi <= qhi) || (lo <= qlo && hi >= qhi)
}

func tnExecSel(a []string) Result {
	if len(a) != 7 {
		return Result{Out: "bad-op"}
	}
	org, ok0 := tnOrg(a[0])
	qlo, ok1 := tnNat(a[1])
	qhi, ok2 := tnNat(a[2])
	nl, ok3 := tnList("N", a[3])
	rl, ok4 := tnList("R", a[4])
	ul, ok5 := tnList("U", a[5])
	dl, ok6 := tnList("D", a[6])
	if !(ok0 && ok1 && ok2 && ok3 && ok4 && ok5 && ok6) {
		return Result{Out: "bad-op"}
	}
	var names []string
	for _, s := range nl {
		n, ok := tnUnhex(s)
		if !ok {
			return Result{Out: "bad-op"}
		}
		names = append(names, n)
	}
	parseSegs := func(l []string) ([]tnSeg, bool) {
		var out []tnSeg
		seen := map[uint64]bool{}
		for _, s := range l {
			sg, ok := tnParseSeg(s)
			if !ok {
				return nil, false
			}
			if seen[sg.key] {
				return nil, false
			}
			seen[sg.key] = true
			out = append(out, sg)
		}
		return out, true
	}
	rs, okr := parseSegs(rl)
	us, oku := parseSegs(ul)
	var ds []tnTable
	for _, s := range dl {
		t, ok := tnParseTable(s)
		if !ok || t.name == "" {
			return Result{Out: "bad-op"}
		}
		ds = append(ds, t)
	}
	if !okr || !oku {
		return Result{Out: "bad-op"}
	}
	bootEngine()
	metadata.ResetGlobalMetadataForTest()
	writer.VerifResetUnrotated()
	var smis []*metadata.SegmentMicroIndex
	for _, s := range rs {
		smis = append(smis, metadata.InitSegmentMicroIndex(&structs.SegMeta{SegmentKey: fmt.Sprintf("r%d", s.key), VirtualTableName: s.table,
			OrgId: s.org, EarliestEpochMS: s.lo, LatestEpochMS: s.hi}, false))
	}
	metadata.BulkAddSegmentMicroIndex(smis)
	for _, s := range us {
		writer.VerifAddUnrotated(fmt.Sprintf("u%d", s.key), s.table, s.org, s.lo, s.hi)
	}
	for _, d := range ds {
		metadata.DeleteVirtualTable(d.name, d.org)
	}
	tr := &dtu.TimeRange{StartEpochMs: qlo, EndEpochMs: qhi}
	rotRes, _, _ := metadata.FilterSegmentsByTime(tr, names, org)
	unrotRes, _, _ := writer.FilterUnrotatedSegmentsInQuery(tr, names, org)
	rot := map[uint64]bool{}
	unrot := map[uint64]bool{}
	for _, m := range rotRes {
		for k := range m {
			n, _ := strconv.ParseUint(k[1:], 10, 64)
			rot[n] = true
		}
	}
	for _, m := range unrotRes {
		for k := range m {
			n, _ := strconv.ParseUint(k[1:], 10, 64)
			unrot[n] = true
		}
	}
	res := Result{Out: fmt.Sprintf("rot=%s unrot=%s", tnKeys(rot), tnKeys(unrot))}
	metadata.ResetGlobalMetadataForTest()
	writer.VerifResetUnrotated()

	// ---- the property itself
	inNames := func(t string) bool {
		for _, n := range names {
			if n == t {
				return true
			}
		}
		return false
	}
	deleted := func(s tnSeg) bool {
		for _, d := range ds {
			if d.org == s.org && d.name == s.table {
				return true
			}
		}
		return false
	}
	check := func(kind string, segs []tnSeg, got map[uint64]bool, withDeletes bool) {
		for _, s := range segs {
			want := inNames(s.table) && s.org == org && tnOverlap(qlo, qhi, s.lo, s.hi)
			if got[s.key] {
				switch {
				case s.org != org:
					res.Fails = append(res.Fails, PropFail{Sig: "segment-select/other-org", Msg: fmt.Sprintf("%s segment %d of org %d (table %q) selected for a query of org %d", kind, s.key, s.org, s.table, org)})
				case !inNames(s.table):
					res.Fails = append(res.Fails, PropFail{Sig: "segment-select/other-index", Msg: fmt.Sprintf("%s segment %d of table %q selected although the table is not among the requested names", kind, s.key, s.table)})
				case withDeletes && deleted(s):
					res.Fails = append(res.Fails, PropFail{Sig: "index-delete/still-visible", Msg: fmt.Sprintf("%s segment %d of deleted index %q (org %d) is still selected", kind, s.key, s.table, s.org)})
				}
			} else if want && withDeletes && len(ds) > 0 && !deleted(s) {
				sameName := false
				for _, d := range ds {
					if d.name == s.table && d.org != s.org {
						sameName = true
					}
				}
				if sameName {
					res.Fails = append(res.Fails, PropFail{Sig: "index-delete/other-org-same-name", Msg: fmt.Sprintf("%s segment %d of index %q of org %d is no longer selected after ANOTHER organisation deleted its index of the same name", kind, s.key, s.table, s.org)})
				} else {
					res.Fails = append(res.Fails, PropFail{Sig: "index-delete/removed-other-data", Msg: fmt.Sprintf("%s segment %d of index %q of org %d is no longer selected after deleting other indexes", kind, s.key, s.table, s.org)})
				}
			}
		}
	}
	check("rotated", rs, rot, true)
	check("unrotated", us, unrot, false)
	orgsSeen := map[int64]bool{}
	for _, s := range rs {
		orgsSeen[s.org] = true
	}
	for _, s := range us {
		orgsSeen[s.org] = true
	}
	res.Nontrivial = len(orgsSeen) >= 2
	if len(ds) > 0 {
		res.Tags = append(res.Tags, "sel:with-delete")
	} else {
		res.Tags = append(res.Tags, "sel:plain")
	}
	if len(rot)+len(unrot) == 0 {
		res.Tags = append(res.Tags, "sel:nothing-selected")
	}
	return res
}

func tnExecDel(a []string) Result {
	if len(a) != 3 {
		return Result{Out: "bad-op"}
	}
	org, ok0 := tnOrg(a[0])
	name, ok1 := tnUnhex(a[1])
	tl, ok2 := tnList("T", a[2])
	if !(ok0 && ok1 && ok2) {
		return Result{Out: "bad-op"}
	}
	var tables []tnTable
	for _, s := range tl {
		t, ok := tnParseTable(s)
		if !ok {
			return Result{Out: "bad-op"}
		}
		tables = append(tables, t)
	}
	inFrag := tnIdxOk(name)
	for _, t := range tables {
		inFrag = inFrag && tnIdxOk(t.name)
	}
	if !inFrag {
		return Result{Out: "out-of-fragment", Tags: []string{"out-of-fragment"}}
	}
	tnSetup(tables, nil)
	before := map[int64]map[string]bool{}
	for _, o := range tnOrgs {
		m, _ := vtable.GetVirtualTableNames(o)
		before[o] = m
	}
	// DeleteVirtualTable needs the org's table file to exist (it reports an error otherwise and changes nothing)
	_ = vtable.DeleteVirtualTable(&name, org)
	var parts []string
	res := Result{}
	orgsSeen := map[int64]bool{}
	for _, t := range tables {
		orgsSeen[t.org] = true
	}
	for _, o := range tnOrgs {
		m, _ := vtable.GetVirtualTableNames(o)
		var ns []string
		for n := range m {
			ns = append(ns, n)
		}
		sort.Strings(ns)
		parts = append(parts, fmt.Sprintf("%d=%s", o, tnShowNames(ns)))
		for n := range before[o] {
			if !m[n] && !(o == org && n == name) {
				res.Fails = append(res.Fails, PropFail{Sig: "index-delete/table-list-not-exact", Msg: fmt.Sprintf("deleting index %q of org %d also removed index %q of org %d from the table list", name, org, n, o)})
			}
		}
		for n := range m {
			if !before[o][n] || (o == org && n == name) {
				res.Fails = append(res.Fails, PropFail{Sig: "index-delete/table-list-not-exact", Msg: fmt.Sprintf("after deleting index %q of org %d the table list of org %d contains %q", name, org, o, n)})
			}
		}
	}
	res.Out = strings.Join(parts, " ")
	res.Nontrivial = len(orgsSeen) >= 2
	res.Tags = append(res.Tags, "del")
	return res
}

// tn sid: the real utils.CreateStreamId on a list of (org, index) pairs. The answer says whether every id has
// the coded shape <shard>-<org>-<xxhash(index)> and which pairs share an id (shard aside).
func tnExecSid(a []string) Result {
	if len(a) != 1 {
		return Result{Out: "bad-op"}
	}
	pl, ok := tnList("P", a[0])
	if !ok {
		return Result{Out: "bad-op"}
	}
	type pair struct {
		org   int64
		index string
	}
	var ps []pair
	for _, s := range pl {
		p := strings.Split(s, ":")
		if len(p) != 2 {
			return Result{Out: "bad-op"}
		}
		o, err := strconv.ParseInt(p[0], 10, 64)
		n, okn := tnUnhex(p[1])
		if err != nil || !okn || strings.HasPrefix(p[0], "+") {
			return Result{Out: "bad-op"}
		}
		ps = append(ps, pair{o, n})
	}
	res := Result{Nontrivial: len(ps) >= 2, Tags: []string{"sid"}}
	ids := make([]string, len(ps))
	fmtOk := true
	for i, p := range ps {
		id := utils.CreateStreamId(p.index, p.org)
		k := strings.Index(id, "-")
		if k <= 0 {
			fmtOk = false
			ids[i] = id
			continue
		}
		if sh, err := strconv.Atoi(id[:k]); err != nil || sh < 0 || sh >= utils.MAX_SHARDS {
			fmtOk = false
		}
		ids[i] = id[k+1:] // shard aside
		if ids[i] != fmt.Sprintf("%d-%d", p.org, xxhash.Sum64String(p.index)) {
			fmtOk = false
		}
	}
	cls := make([]string, len(ps))
	for i := range ps {
		first := i
		for j := 0; j < i; j++ {
			if ids[j] == ids[i] {
				first = j
				break
			}
		}
		cls[i] = strconv.Itoa(first)
		if first != i && ps[first] != ps[i] {
			res.Fails = append(res.Fails, PropFail{Sig: "stream-id/preimage-collision", Msg: fmt.Sprintf("CreateStreamId gives (org %d, index %q) and (org %d, index %q) the same stream id %q: the two would share one open segment store", ps[first].org, ps[first].index, ps[i].org, ps[i].index, ids[i])})
		}
	}
	f := "ok"
	if !fmtOk {
		f = "other"
	}
	res.Out = fmt.Sprintf("fmt=%s c=%s", f, strings.Join(cls, ","))
	return res
}

// ---------------------------------------------------------------- generator

var tnPool = []string{
	"logs", "logs2", "logs.2024", "logsX2024", "logs-2024", "logs_2024", "log", "l", "ab", "aab", "a.b", "a+b", "a?b", "a|b",
	"app(1)", "x[1]", "x1", "m^2", "cost$", "a{2}", "traces", "red-traces", "service-dependency", ".kibana_1", "my.kibana",
	"a b", "prod_logs", "LOGS", "a*b", "logs.2", "2024", "X", "metrics.cpu", "metrics-cpu",
}

// (alias names that are no valid index names — ".", a name with a backslash — are refused by AddAliases since patch c20-14)
var tnAliasPool = []string{"all", "al", "logs", "cur", "cur.logs", "logs-alias", "a.l", "shared", "b(a)ck+slash", ".a"}

const tnAlphabet = "abclogsX012.-_*+?()[]|^$\\{},: "

func tnRandName(r *rand.Rand) string {
	if r.Intn(8) != 0 {
		return tnPool[r.Intn(len(tnPool))]
	}
	n := 1 + r.Intn(6)
	b := make([]byte, n)
	for i := range b {
		b[i] = tnAlphabet[r.Intn(len(tnAlphabet)-3)] // no , : space in random names
		if b[i] == '\\' {
			b[i] = '$'
		}
	}
	if s := string(b); s == "." || s == ".." {
		return "a.b"
	}
	return string(b)
}

// a wildcard pattern derived from a name: a random substring replaced by `*`
func tnWildFrom(r *rand.Rand, name string) string {
	if name == "" {
		return "*"
	}
	i := r.Intn(len(name) + 1)
	j := i + r.Intn(len(name)-i+1)
	p := name[:i] + "*" + name[j:]
	switch r.Intn(10) {
	case 0: // second star
		k := r.Intn(len(p) + 1)
		p = p[:k] + "*" + p[k:]
	case 1: // a metacharacter somewhere
		k := r.Intn(len(p) + 1)
		p = p[:k] + string(".+?|()[]^$\\{}"[r.Intn(13)]) + p[k:]
	case 2: // replace a character by `.` or `?`
		if len(p) > 0 {
			k := r.Intn(len(p))
			if p[k] != '*' {
				p = p[:k] + string(".?"[r.Intn(2)]) + p[k+1:]
			}
		}
	case 3, 4: // replace a character c by a regex construct that (mostly) still matches c
		if len(p) > 0 {
			k := r.Intn(len(p))
			if c := string(p[k]); p[k] != '*' {
				alt := []string{"[" + c + "]", "[a-z]", "[^" + c + "]", "[" + c + "-z]", "[z-" + c + "]", "(" + c + ")", "(" + c + "|x)", c + "?", c + "+", c + "+?", "\\" + c,
					c + "|", "(" + c, c + ")", "[" + c, c + "]", "[]" + c + "]", "[^]" + c + "]", "[" + c + "-]", "()" + c, "(|" + c + ")", c + "??", c + "?+", "^" + c, c + "$", "[\\" + c + "]", "[a\\-" + c + "]"}
				p = p[:k] + alt[r.Intn(len(alt))] + p[k+1:]
			}
		}
	}
	return p
}

func tnRandElem(r *rand.Rand, tables []tnTable, aliases []tnAlias, org int64) string {
	pickTable := func(own bool) string {
		var c []string
		for _, t := range tables {
			if (t.org == org) == own {
				c = append(c, t.name)
			}
		}
		if len(c) == 0 {
			return tnRandName(r)
		}
		return c[r.Intn(len(c))]
	}
	switch r.Intn(16) {
	case 0, 1:
		return pickTable(true)
	case 2:
		return pickTable(false)
	case 3:
		if len(aliases) > 0 {
			return aliases[r.Intn(len(aliases))].alias
		}
		return tnRandName(r)
	case 4, 5, 6, 7:
		return tnWildFrom(r, pickTable(true))
	case 8:
		return tnWildFrom(r, pickTable(false))
	case 9:
		if len(aliases) > 0 {
			return tnWildFrom(r, aliases[r.Intn(len(aliases))].alias)
		}
		return tnWildFrom(r, tnRandName(r))
	case 10:
		return tnRandName(r)
	case 11:
		return []string{"*", "**", "l*", "*s", "*.*", "logs*", "logs.*", "logs.2*", "*2024", "tr*", "traces*", "*traces", "red-*", "*kibana*", "a*b", "a.b*", "*|*", "*\\", "\\*", "[a-l]*", "[^l]*", "(a|l)*", "l+*", "lo?*", "*$", "^*", "a{2}*", "(?i)l*", "\\d*", "[[:alpha:]]*", "l{1,2}*"}[r.Intn(31)]
	default: // random string over the alphabet with a star
		n := 1 + r.Intn(7)
		b := make([]byte, n)
		for i := range b {
			b[i] = tnAlphabet[r.Intn(len(tnAlphabet)-3)]
		}
		b[r.Intn(n)] = '*'
		return string(b)
	}
}

func tnGenState(r *rand.Rand) ([]tnTable, []tnAlias) {
	var tables []tnTable
	var aliases []tnAlias
	nt := r.Intn(8)
	base := tnRandName(r)
	for i := 0; i < nt; i++ {
		org := int64(r.Intn(3))
		if r.Intn(12) == 0 {
			org = 3
		}
		name := tnRandName(r)
		switch r.Intn(6) {
		case 0: // same name in another org
			if len(tables) > 0 {
				name = tables[r.Intn(len(tables))].name
			}
		case 1: // prefix-related
			name = base + []string{"", "2", ".2024", "X2024", "-old", "s"}[r.Intn(6)]
		}
		if name == "" {
			name = "l"
		}
		tables = append(tables, tnTable{org, name})
	}
	na := r.Intn(5)
	for i := 0; i < na; i++ {
		org := int64(r.Intn(3))
		al := tnAliasPool[r.Intn(len(tnAliasPool))]
		x := tnAlias{org: org, alias: al}
		if r.Intn(10) != 0 {
			nt := 1 + r.Intn(2)
			for j := 0; j < nt; j++ {
				if len(tables) > 0 && r.Intn(4) != 0 {
					x.targets = append(x.targets, tables[r.Intn(len(tables))].name)
				} else {
					x.targets = append(x.targets, tnRandName(r))
				}
			}
		}
		// one entry per (org, alias): merge
		merged := false
		for k := range aliases {
			if aliases[k].org == x.org && aliases[k].alias == x.alias {
				merged = true
			}
		}
		if !merged {
			// de-duplicate targets
			seen := map[string]bool{}
			var ts []string
			for _, t := range x.targets {
				if !seen[t] {
					seen[t] = true
					ts = append(ts, t)
				}
			}
			x.targets = ts
			aliases = append(aliases, x)
		}
	}
	return tables, aliases
}

func tnFmtState(tables []tnTable, aliases []tnAlias) (string, string) {
	var ts, as []string
	for _, t := range tables {
		ts = append(ts, fmt.Sprintf("%d:%s", t.org, tnHex(t.name)))
	}
	for _, a := range aliases {
		var h []string
		for _, t := range a.targets {
			h = append(h, tnHex(t))
		}
		as = append(as, fmt.Sprintf("%d:%s>%s", a.org, tnHex(a.alias), strings.Join(h, "+")))
	}
	return "T=" + strings.Join(ts, ","), "A=" + strings.Join(as, ",")
}

func tnGenExpand(r *rand.Rand) string {
	tables, aliases := tnGenState(r)
	org := int64(r.Intn(3))
	var expr string
	for try := 0; try < 20; try++ {
		switch r.Intn(20) {
		case 0:
			expr = ""
		case 1:
			expr = "*"
		case 2:
			expr = []string{"*:*", "remote:*", ":", ",", "*,", ",*", "c:logs*", "a:b:c*", " *", "* "}[r.Intn(10)]
		default:
			n := 1
			if r.Intn(3) == 0 {
				n = 2 + r.Intn(2)
			}
			var es []string
			for i := 0; i < n; i++ {
				es = append(es, tnRandElem(r, tables, aliases, org))
			}
			sep := ","
			if r.Intn(4) == 0 {
				sep = ", "
			}
			expr = strings.Join(es, sep)
			if r.Intn(12) == 0 {
				expr = "cluster:" + expr
			}
		}
		if tnExprInFragment(expr) {
			break
		}
		expr = "*"
	}
	t, a := tnFmtState(tables, aliases)
	return fmt.Sprintf("tn expand %d %d %s %s %s", org, r.Intn(2), tnHex(expr), t, a)
}

func tnGenGlob(r *rand.Rand) string {
	name := tnRandName(r)
	if name == "" {
		name = "l"
	}
	var pat string
	for try := 0; try < 20; try++ {
		switch r.Intn(4) {
		case 0, 1:
			pat = tnWildFrom(r, name)
		case 2:
			pat = tnWildFrom(r, tnRandName(r))
		default:
			n := 1 + r.Intn(8)
			b := make([]byte, n)
			for i := range b {
				b[i] = tnAlphabet[r.Intn(len(tnAlphabet)-3)]
			}
			b[r.Intn(n)] = '*'
			pat = string(b)
		}
		if tnExprInFragment(pat) {
			break
		}
		pat = "*"
	}
	return fmt.Sprintf("tn glob %s %s", tnHex(pat), tnHex(name))
}

func tnGenSel(r *rand.Rand) string {
	base := []string{"logs", "logs2", "log", "logs.2024", "a", ""}
	nb := 2 + r.Intn(3) // few distinct names per case so that orgs and queries collide on them
	pick := func() string { return base[r.Intn(nb)] }
	pickNamed := func() string {
		if n := pick(); n != "" {
			return n
		}
		return "logs"
	}
	org := r.Intn(3)
	qlo := uint64(r.Intn(50))
	qhi := qlo + uint64(r.Intn(60))
	switch r.Intn(10) {
	case 0:
		qhi = qlo
	case 1, 2, 3, 4, 5, 6:
		qlo, qhi = 0, 1000
	}
	type so struct {
		org   int
		table string
	}
	// rotated segments: 1-3 "hot" (org, index) pairs with 1..7 segments each, the same index name held by
	// other organisations with 0..3 segments, plus a few strays; then shuffled or kept in blocks (the
	// per-table lists are sorted by latest timestamp, so the timestamps decide adjacency)
	var owners []so
	var ds []string
	nhot := 1 + r.Intn(3)
	for h := 0; h < nhot; h++ {
		hot := so{r.Intn(3), pickNamed()}
		for i, n := 0, 1+r.Intn(7); i < n; i++ {
			owners = append(owners, hot)
		}
		for o := 0; o < 3; o++ {
			if o != hot.org && r.Intn(2) == 0 {
				for i, n := 0, 1+r.Intn(3); i < n; i++ {
					owners = append(owners, so{o, hot.table})
				}
			}
		}
		if r.Intn(3) != 0 {
			ds = append(ds, fmt.Sprintf("%d:%s", hot.org, tnHex(hot.table)))
		}
	}
	for i, n := 0, r.Intn(4); i < n; i++ {
		owners = append(owners, so{r.Intn(3), pick()})
	}
	if len(owners) > 24 {
		owners = owners[:24]
	}
	blocks := r.Intn(2) == 0 // blocks: segments of one (org,index) are neighbours in time; else interleaved
	if !blocks {
		r.Shuffle(len(owners), func(i, j int) { owners[i], owners[j] = owners[j], owners[i] })
	}
	var rs []string
	for i, ow := range owners {
		lo := uint64(5 * i)
		hi := lo + uint64(1+r.Intn(4))
		if r.Intn(6) == 0 { // equal latest timestamps
			hi = lo + 2
		}
		rs = append(rs, fmt.Sprintf("%d:%d:%s:%d:%d", i+1, ow.org, tnHex(ow.table), lo, hi))
	}
	if r.Intn(8) == 0 {
		ds = append(ds, fmt.Sprintf("%d:%s", r.Intn(3), tnHex(pickNamed())))
	}
	var names []string
	nn := 1 + r.Intn(3)
	if r.Intn(10) == 0 {
		nn = 0
	}
	for i := 0; i < nn; i++ {
		if len(owners) > 0 && r.Intn(3) != 0 {
			names = append(names, tnHex(owners[r.Intn(len(owners))].table))
		} else {
			names = append(names, tnHex(pick()))
		}
	}
	var us []string
	for i, n := 0, r.Intn(7); i < n; i++ {
		lo := uint64(r.Intn(100))
		hi := lo + uint64(r.Intn(40))
		us = append(us, fmt.Sprintf("%d:%d:%s:%d:%d", i+1, r.Intn(3), tnHex(pick()), lo, hi))
	}
	if len(owners) > 0 && r.Intn(2) == 0 {
		org = owners[r.Intn(len(owners))].org
	}
	return fmt.Sprintf("tn sel %d %d %d N=%s R=%s U=%s D=%s", org, qlo, qhi, strings.Join(names, ","), strings.Join(rs, ","), strings.Join(us, ","), strings.Join(ds, ","))
}

// adversarial (org, index) pairs for the stream id: every way of cutting a digit string between the decimal
// organisation id and a digit-prefixed index name, separators inside names, negative organisations
func tnGenSid(r *rand.Rand) string {
	var ps []string
	add := func(o int64, n string) { ps = append(ps, fmt.Sprintf("%d:%s", o, tnHex(n))) }
	for f, nf := 0, 1+r.Intn(3); f < nf; f++ {
		nd := 2 + r.Intn(4)
		d := make([]byte, nd)
		for i := range d {
			d[i] = byte('0' + r.Intn(10))
		}
		if d[0] == '0' {
			d[0] = '1'
		}
		base := []string{"app", "-logs", "logs", "", "-", "7-logs", "x-1", ".2024"}[r.Intn(8)]
		for cut := 1; cut <= nd; cut++ {
			o, _ := strconv.ParseInt(string(d[:cut]), 10, 64)
			add(o, string(d[cut:])+base)
			if r.Intn(6) == 0 {
				add(-o, string(d[cut:])+base)
			}
			if r.Intn(6) == 0 {
				add(o, "-"+string(d[cut:])+base)
			}
		}
	}
	for i, n := 0, r.Intn(4); i < n; i++ {
		add(int64(r.Intn(30)), tnRandName(r))
	}
	if len(ps) > 1 && r.Intn(3) == 0 { // a genuine repetition
		ps = append(ps, ps[r.Intn(len(ps))])
	}
	if r.Intn(20) == 0 {
		add(9223372036854775807, "max")
		add(-9223372036854775808, "min")
	}
	r.Shuffle(len(ps), func(i, j int) { ps[i], ps[j] = ps[j], ps[i] })
	return "tn sid P=" + strings.Join(ps, ",")
}

func tnGenDel(r *rand.Rand) string {
	tables, _ := tnGenState(r)
	org := int64(r.Intn(3))
	name := tnRandName(r)
	if len(tables) > 0 && r.Intn(5) != 0 {
		t := tables[r.Intn(len(tables))]
		name = t.name
		if r.Intn(3) != 0 {
			org = t.org
		}
	}
	if name == "" {
		name = "l"
	}
	t, _ := tnFmtState(tables, nil)
	return fmt.Sprintf("tn del %d %s %s", org, tnHex(name), t)
}

func genTenant(r *rand.Rand, n int, tier string) []string {
	out := make([]string, 0, n)
	for i := 0; i < n; i++ {
		switch k := r.Intn(100); {
		case k < 50:
			out = append(out, tnGenExpand(r))
		case k < 68:
			out = append(out, tnGenGlob(r))
		case k < 86:
			out = append(out, tnGenSel(r))
		case k < 92:
			out = append(out, tnGenDel(r))
		case k < 97:
			out = append(out, tnGenSid(r))
		case k < 98: // outside the modelled fragment
			out = append(out, fmt.Sprintf("tn glob %s %s", tnHex([]string{"a/b*", "l*#", "\"l*\"", "l*\tx", "l*/x"}[r.Intn(5)]), tnHex("logs")))
		default: // malformed
			out = append(out, []string{"tn", "tn expand 0 1 zz T= A=", "tn glob 6c", "tn sel 0 1 2 N= R=1:0:6c:1 U= D=", "tn del 9 6c T=", "tn expand 7 0 6c T= A=", "tn frob", "tn sel 0 1 2 N= R=1:0:6c:1:2,1:0:6c:1:2 U= D=", "tn sid P=1", "tn sid P=x:6c"}[r.Intn(10)])
		}
	}
	return out
}
