// C17 — "every query ends in exactly one terminal state (complete, error, cancelled, timed out), after which no entry in
// the running or waiting tables and NO GOROUTINE of it remains": line kind `gl` of suite "alive" (c17_alive.go).
//
//	gl <complete|error|cancelled|timeout> <route id> <hex of the request bytes>
//
// The request (a synchronous search: POST /api/search with one of a few query shapes, or a PromQL range query for the
// state complete) goes to the real server over TCP like every other line of the suite.  Before it the parent asks the
// worker for its goroutine CENSUS (command `census`, c17gCensus: runtime.Stack of all goroutines; a goroutine counts when
// its stack holds a function of the code a query owns — the state multiplexer, RunQueryForNewPipeline, the query
// pipeline stages, the segment search, the metrics result functions, the timeout goroutine — and is filed under the
// function that CREATED it) and steers the query into the terminal state of the line:
//
//	complete    nothing
//	error       the segment lookup of the query fails          (hooks.GlobalHooks.FilterQsrsHook returns an error)
//	cancelled   the segment lookup takes 700 ms, after 200 ms every running query is cancelled (query.CancelQuery)
//	timeout     the query timeout is 1 s (config.SetQueryTimeoutSecs) and the segment lookup takes 1.4 s
//
// After the answer the hook and the timeout are put back and the census is repeated every 100 ms for up to
// c17gDeadline.  Verdict (the property statement itself, no model): some census shows every creation site at or below
// its count before the request and the running / waiting tables at or below their sizes before it.  A site that stayed
// ABOVE its baseline in every census until the deadline is
//
//	PropFail query-lifecycle/goroutine-remains/<terminal state>/<creation site>
//	PropFail query-lifecycle/table-entry-remains/<terminal state>/<running|waiting>
//
// Only growth is judged: goroutines of earlier lines that end meanwhile lower a count and are no finding.
package main

import (
	"bytes"
	"encoding/hex"
	"fmt"
	"io"
	"math/rand"
	"runtime"
	"sort"
	"strconv"
	"strings"
	"time"

	"github.com/siglens/siglens/pkg/config"
	"github.com/siglens/siglens/pkg/hooks"
	"github.com/siglens/siglens/pkg/segment/query"
)

const c17gDeadline = 6 * time.Second

// ---------------------------------------------------------------- worker side

// functions of the code a query owns (substrings of the fully qualified function names in a goroutine trace)
var c17gOwned = []string{
	"/pkg/ast/pipesearch/multiplexer.",
	"/pkg/ast/pipesearch.RunQueryForNewPipeline",
	"/pkg/ast/pipesearch.ParseAndExecutePipeRequest",
	"/pkg/segment.ExecuteQueryInternalNewPipeline",
	"/pkg/segment.ExecuteQuery",
	"/pkg/segment.executeQuery",
	"/pkg/segment.ExecuteMetricsQuery",
	"/pkg/segment.ExecuteMultipleMetricsQuery",
	"/pkg/segment.manageStateForMetricsQuery",
	"/pkg/segment/query/processor.",
	"/pkg/segment/query.setupTimeoutCancelFunc",
	"/pkg/segment/query.ApplyFilterOperator",
	"/pkg/segment/query.ApplyMetricsQuery",
	"/pkg/segment/query.applyFopAllRequests",
	"/pkg/segment/query.applyFilterOperator",
	"/pkg/segment/search.",
	"/pkg/segment/results/mresults.",
}

func c17gShortFn(fn string) string {
	fn = strings.TrimPrefix(fn, "github.com/siglens/siglens/")
	if k := strings.LastIndex(fn, "/"); k >= 0 {
		fn = fn[k+1:]
	}
	return strings.NewReplacer(" ", "", "=", "", ";", "", ",", "").Replace(fn)
}

// c17gCensus: query-owned goroutines by creation site
func c17gCensus() map[string]int {
	buf := make([]byte, 1<<20)
	for {
		n := runtime.Stack(buf, true)
		if n < len(buf) {
			buf = buf[:n]
			break
		}
		buf = make([]byte, 2*len(buf))
	}
	res := map[string]int{}
	for _, g := range strings.Split(string(buf), "\n\n") {
		if strings.Contains(g, "c17gCensus") { // this goroutine
			continue
		}
		owned := ""
		for _, l := range strings.Split(g, "\n") {
			if strings.HasPrefix(l, "\t") || strings.HasPrefix(l, "goroutine ") || strings.HasPrefix(l, "created by ") {
				continue
			}
			for _, o := range c17gOwned {
				if strings.Contains(l, o) {
					if k := strings.LastIndex(l, "("); k > 0 {
						l = l[:k]
					}
					owned = l
				}
			}
		}
		if owned == "" {
			continue
		}
		site := ""
		if k := strings.Index(g, "\ncreated by "); k >= 0 {
			c := g[k+len("\ncreated by "):]
			if e := strings.IndexAny(c, "\n"); e >= 0 {
				c = c[:e]
			}
			if e := strings.Index(c, " in goroutine"); e >= 0 {
				c = c[:e]
			}
			if strings.Contains(c, "github.com/siglens/siglens/") {
				site = c17gShortFn(c)
			}
		}
		if site == "" { // created outside siglens (the HTTP server's worker): the outermost owned function it runs
			site = "request:" + c17gShortFn(owned)
		}
		res[site]++
	}
	return res
}

func c17gWorkerCommand(f []string) (string, bool) {
	if len(f) == 0 {
		return "", false
	}
	switch f[0] {
	case "census":
		c := c17gCensus()
		keys := make([]string, 0, len(c))
		for k := range c {
			keys = append(keys, k)
		}
		sort.Strings(keys)
		parts := []string{fmt.Sprintf("running=%d", query.GetActiveQueryCount()), fmt.Sprintf("waiting=%d", query.VerifWaitingLen())}
		for _, k := range keys {
			parts = append(parts, fmt.Sprintf("g:%s=%d", k, c[k]))
		}
		return "census " + strings.Join(parts, " "), true
	case "qtimeout":
		if len(f) == 2 {
			if n, err := strconv.Atoi(f[1]); err == nil && n >= 0 {
				config.SetQueryTimeoutSecs(n)
				return "ok", true
			}
		}
		return "bad", true
	case "qhook":
		if len(f) == 3 {
			ms, err := strconv.Atoi(f[1])
			if err == nil && ms >= 0 && (f[2] == "0" || f[2] == "1") {
				if ms == 0 && f[2] == "0" {
					hooks.GlobalHooks.FilterQsrsHook = nil
					return "ok", true
				}
				failing := f[2] == "1"
				hooks.GlobalHooks.FilterQsrsHook = func(qsrs interface{}, queryInfo interface{}, isRotated bool) (interface{}, error) {
					time.Sleep(time.Duration(ms) * time.Millisecond)
					if failing {
						return nil, fmt.Errorf("c17g: the segment lookup failed")
					}
					return qsrs, nil
				}
				return "ok", true
			}
		}
		return "bad", true
	case "qcancel":
		qids := query.VerifRunningQids()
		for _, q := range qids {
			query.CancelQuery(q)
		}
		return fmt.Sprintf("ok %d", len(qids)), true
	}
	return "", false
}

// ---------------------------------------------------------------- parent side

func (s *c17aSB) command(cmd string, deadline time.Duration) (string, error) {
	if _, err := io.WriteString(s.stdin, cmd+"\n"); err != nil {
		return "", err
	}
	select {
	case l, ok := <-s.lines:
		if !ok {
			return "", fmt.Errorf("%s: the worker is gone", cmd)
		}
		return l, nil
	case <-time.After(deadline):
		return "", fmt.Errorf("%s: no answer of the worker", cmd)
	}
}

func (s *c17aSB) census() (map[string]int, error) {
	l, err := s.command("census", 10*time.Second)
	if err != nil {
		return nil, err
	}
	f := strings.Fields(l)
	if len(f) == 0 || f[0] != "census" {
		return nil, fmt.Errorf("census: worker answered %q", trunc(l, 100))
	}
	res := map[string]int{}
	for _, kv := range f[1:] {
		if k := strings.LastIndex(kv, "="); k > 0 {
			n, _ := strconv.Atoi(kv[k+1:])
			res[kv[:k]] = n
		}
	}
	return res, nil
}

var c17gStates = []string{"complete", "error", "cancelled", "timeout"}

// query shapes of the synchronous search route: plain records, a pipeline of several stages, statistics
var c17gTexts = []string{"*", "a=1 | stats count by b", "* | eval x=a+1 | where x>1 | head 5", "* | sort -a | dedup b | fields a, b", "* | stats avg(a), max(a) by c | sort c", "b=x* | timechart span=1m count", "* | streamstats count | tail 3"}

func c17gSearchReq(text, index string) []byte {
	body := c17aJSON(map[string]interface{}{"searchText": text, "indexName": index, "startEpoch": "now-1h", "endEpoch": "now", "queryLanguage": "Splunk QL", "size": 100, "from": 0, "state": "query"})
	return c17aReqBytes("POST", "/api/search", [][2]string{{"Content-Type", c17aJ}}, body)
}

func c17gGenLine(r *rand.Rand, state string) string {
	route, raw := "POST/api/search", c17gSearchReq(c17gTexts[r.Intn(len(c17gTexts))], []string{"ind-0", "c17boot", "ind-*"}[r.Intn(3)])
	if state == "complete" && r.Intn(3) == 0 {
		q := []string{"rate(c17m[5m])", "avg by (host) (cpu)", "quantile_over_time(0.5, c17d[2m])", "max_over_time(cpu[10m:30s])"}[r.Intn(4)]
		route = "GET/promql/api/v1/query_range"
		raw = c17aReqBytes("GET", "/promql/api/v1/query_range?"+c17aEncQS([]c17aParam{{k: "start", v: fmt.Sprint(c17aTs - 600)}, {k: "end", v: fmt.Sprint(c17aTs + 600)}, {k: "step", v: "60"}, {k: "query", v: q}}), nil, nil)
	}
	return "gl " + state + " " + route + " " + hex.EncodeToString(raw) + " #gor:" + state
}

// c17gExec: one `gl` line on the slot's server (f = gl <state> <route> <hex>)
func c17gExec(f []string, ticket int, classTags []string) Result {
	ok := len(f) == 4 && c17aRouteIDRe.MatchString(f[2])
	if ok {
		ok = false
		for _, st := range c17gStates {
			ok = ok || st == f[1]
		}
	}
	payload, err := hex.DecodeString(f[len(f)-1])
	if !ok || err != nil || len(payload) == 0 {
		return Result{Out: "bad-op"}
	}
	state, route := f[1], f[2]
	sl := c17aAcquire(ticket)
	defer sl.release(ticket)
	s, err := sl.server()
	if err != nil {
		return Result{Out: "boot-failed", Fails: []PropFail{{Sig: "alive/boot-failed", Msg: err.Error()}}, Tags: []string{"boot-failed"}}
	}
	res := Result{Out: "ok", Nontrivial: true}
	tags := append([]string{"route:" + route, "gor:state:" + state}, classTags...)
	defer func() { res.Tags = tags }()
	fail := func(sig, msg string) { res.Fails = append(res.Fails, PropFail{Sig: sig, Msg: msg}) }
	if s.hasExited() {
		suffix, msg := s.died()
		fail("alive/"+s.lastRoute+"/process-died-late"+suffix, msg+"; AFTER it had answered its last requests (newest last): "+strings.Join(s.recent, " | "))
		tags = append(tags, "died-late")
		s.kill()
		if s, err = sl.server(); err != nil {
			res.Out = "boot-failed"
			fail("alive/boot-failed", err.Error())
			return res
		}
	}
	witness := trunc(strconv.Quote(string(payload)), 800)
	// the goroutines of earlier requests get a moment to end, then the baseline is taken
	var base map[string]int
	for i := 0; i < 4; i++ {
		if base, err = s.census(); err != nil {
			tags = append(tags, "gor:census-failed")
			return res
		}
		busy := 0
		for k, n := range base {
			if strings.HasPrefix(k, "g:") {
				busy += n
			}
		}
		if busy == 0 {
			break
		}
		time.Sleep(100 * time.Millisecond)
	}
	for k, n := range base {
		if strings.HasPrefix(k, "g:") && n > 0 {
			tags = append(tags, "gor:baseline-not-empty")
			break
		}
	}
	cmd := func(c string) {
		if l, err := s.command(c, 10*time.Second); err != nil || !strings.HasPrefix(l, "ok") {
			tags = append(tags, "gor:command-failed")
		}
	}
	switch state {
	case "error":
		cmd("qhook 0 1")
	case "cancelled":
		cmd("qhook 700 0")
	case "timeout":
		cmd("qtimeout 1")
		cmd("qhook 1400 0")
	}
	raw := s.subst(payload)
	ansCh := make(chan c17aAns, 1)
	t0 := time.Now()
	go func() { ansCh <- c17aHTTP(s.qport, raw, c17aAnswerDeadline) }()
	cancelled := 0
	if state == "cancelled" {
		for i := 0; i < 4 && cancelled == 0; i++ {
			time.Sleep(200 * time.Millisecond)
			if l, err := s.command("qcancel", 10*time.Second); err == nil {
				if g := strings.Fields(l); len(g) == 2 {
					cancelled, _ = strconv.Atoi(g[1])
				}
			}
		}
	}
	a := <-ansCh
	dt := time.Since(t0)
	// back to normal, whatever happened
	if !s.hasExited() {
		cmd("qhook 0 0")
		cmd("qtimeout 20")
	}
	s.nreq++
	s.lastRoute = route
	s.recent = append(s.recent, fmt.Sprintf("%s(%dB,gl:%s)", route, len(raw), state))
	if len(s.recent) > 6 {
		s.recent = s.recent[1:]
	}
	if a.err == "" {
		tags = append(tags, fmt.Sprintf("status:%dxx", a.status/100))
	} else {
		tags = append(tags, "no-status")
	}
	if s.hasExited() || (a.err != "" && c17aGone(s, s.qport)) {
		suffix, msg := s.died()
		fail("alive/"+route+"/process-died"+suffix, msg+"; request (gl "+state+"): "+witness)
		tags = append(tags, "died")
		s.kill()
		return res
	}
	if a.err != "" && dt >= c17aAnswerDeadline-time.Second {
		fail("alive/"+route+"/no-answer", fmt.Sprintf("no answer within %v (%s); request (gl %s): %s", c17aAnswerDeadline, a.err, state, witness))
		tags = append(tags, "no-answer")
		s.kill()
		return res
	}
	// did the query reach the state the line asked for? (distribution only: whatever terminal state it reached, nothing of it may remain)
	reached := false
	switch state {
	case "complete":
		reached = a.status == 200
	case "error":
		reached = a.status >= 400 || bytes.Contains(a.body, []byte("error"))
	case "cancelled":
		reached = cancelled > 0
	case "timeout":
		reached = bytes.Contains(a.body, []byte("timed out"))
	}
	if reached {
		tags = append(tags, "gor:reached:"+state)
	} else {
		tags = append(tags, "gor:not-reached:"+state)
	}
	// the census until every site is back at its baseline
	minExcess := map[string]int{}
	var last map[string]int
	polls := 0
	end := time.Now().Add(c17gDeadline)
	for {
		cur, err := s.census()
		if err != nil {
			tags = append(tags, "gor:census-failed")
			return res
		}
		polls++
		last = cur
		above := false
		for k, n := range cur {
			ex := n - base[k]
			if m, seen := minExcess[k]; seen {
				if ex < m {
					minExcess[k] = ex
				}
			} else if polls == 1 {
				minExcess[k] = ex
			} else { // absent from the earlier censuses
				minExcess[k] = -base[k]
			}
			if ex > 0 {
				above = true
			}
		}
		for k := range minExcess {
			if _, present := cur[k]; !present && minExcess[k] > -base[k] {
				minExcess[k] = -base[k]
			}
		}
		if !above {
			tags = append(tags, "gor:back-at-baseline")
			return res
		}
		if time.Now().After(end) {
			break
		}
		time.Sleep(100 * time.Millisecond)
	}
	keys := make([]string, 0, len(minExcess))
	for k, ex := range minExcess {
		if ex > 0 {
			keys = append(keys, k)
		}
	}
	sort.Strings(keys)
	if len(keys) == 0 {
		tags = append(tags, "gor:fluctuating")
		return res
	}
	for _, k := range keys {
		what := fmt.Sprintf("%d before the request, %d still %v after its answer (%d censuses, never fewer than %d)", base[k], last[k], c17gDeadline, polls, base[k]+minExcess[k])
		if strings.HasPrefix(k, "g:") {
			fail("query-lifecycle/goroutine-remains/"+state+"/"+k[2:], fmt.Sprintf("goroutines created by %s that run query-owned code: %s; the query was steered into the state %s (answer: status %d %s); request: %s", k[2:], what, state, a.status, trunc(string(a.body), 160), witness))
		} else {
			fail("query-lifecycle/table-entry-remains/"+state+"/"+k, fmt.Sprintf("entries of the %s table: %s; the query was steered into the state %s; request: %s", k, what, state, witness))
		}
	}
	tags = append(tags, "gor:remains")
	// (the goroutines that remained stay with this server: only GROWTH over the baseline of a line is judged)
	return res
}
