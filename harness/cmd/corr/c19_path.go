// C19 — user-supplied names cannot reach files outside the data directory.
//
// suite "path":
//
//	pclean <hex|->            real filepath.Clean                     → <hex|->
//	pjoin  <hex|-> <hex|->    real filepath.Join                      → <hex|->
//	pbuild <builder> <hex|->  the REAL path builder function of /repo → accept:<hex of path relative to the data dir> | reject
//	preal  <builder> <hex|->  the REAL operation (handler / store function) inside a sandbox; the path is what the
//	                          file system shows afterwards (created / deleted / read file)  → accept:… | reject | unsafe
//
//	pdecode <hex|->           real url.PathUnescape                   → <hex|-> | err
//	ptags <same|prom|fresh> <n> <hex|-> …   n samples of ONE series with these tag keys through the real metrics entry
//	                          point: `same` = one TagsHolder for all samples (what prometheus remote write does), `prom` = a
//	                          real remote-write request through HandlePutMetrics, `fresh` = one holder per sample (OTSDB)
//	                          → acc=<k> rej=<m>; afterwards the tags trees are flushed and the sandbox is inspected
//	pdel <hex>                the REAL ProcessDeleteIndex on a request value, table = two freshly ingested indexes @A@, @B@,
//	                          victim directories beside the data dir → <status> <removed directories|-> | unsafe
//
// Sandbox: /tmp/c19-XXXX/o/data/ is the data dir; everything in /tmp/c19-XXXX but not below o/data is "outside".
// A real operation is only executed when its target stays inside /tmp/c19-XXXX (otherwise `unsafe`, not executed).
// PropFail (independent of the Lean model): the path built / the file touched by the real code is not inside the data dir.
package main

import (
	"bytes"
	"compress/gzip"
	"crypto/sha1"
	"encoding/hex"
	"encoding/json"
	"fmt"
	"io/fs"
	"math/rand"
	"mime/multipart"
	"net/url"
	"os"
	"path/filepath"
	"regexp"
	"sort"
	"strings"
	"sync"

	"github.com/buger/jsonparser"
	"github.com/fasthttp/router"
	"github.com/gogo/protobuf/proto"
	"github.com/golang/snappy"
	"github.com/prometheus/prometheus/prompb"
	"github.com/siglens/siglens/pkg/config"
	"github.com/siglens/siglens/pkg/dashboards"
	eswriter "github.com/siglens/siglens/pkg/es/writer"
	prometheuswriter "github.com/siglens/siglens/pkg/integrations/prometheus/ingest"
	"github.com/siglens/siglens/pkg/lookups"
	"github.com/siglens/siglens/pkg/scroll"
	"github.com/siglens/siglens/pkg/segment/memory/limit"
	"github.com/siglens/siglens/pkg/segment/query/processor"
	"github.com/siglens/siglens/pkg/segment/reader/metrics/tagstree"
	"github.com/siglens/siglens/pkg/segment/sortindex"
	sutils "github.com/siglens/siglens/pkg/segment/utils"
	"github.com/siglens/siglens/pkg/segment/writer"
	"github.com/siglens/siglens/pkg/segment/writer/metrics"
	serverutils "github.com/siglens/siglens/pkg/server/utils"
	"github.com/siglens/siglens/pkg/utils"
	vtable "github.com/siglens/siglens/pkg/virtualtable"
	"github.com/valyala/fasthttp"
)

func init() {
	register(&Suite{Name: "path", Gen: c19Gen, Exec: c19Exec,
		Rule: "kernel: filepath.Clean/Join vs model on strings over path metacharacters; every path builder that takes a client value (real function, or real handler/store operation in a sandbox with the touched file read back from the file system) vs its model; PropFail: built/touched path outside the data dir"})
}

const c19SID = "0-0-7"
const c19MID = "0"

var c19PureBuilders = []string{"baseSegDir", "baseVTableDir", "suffixFile", "tagsTreeFile", "dashboardDetails", "scrollResults", "sortIndexFile", "sortIndexFile"}
var c19RealBuilders = []string{"lookupUpload", "lookupGet", "lookupDelete", "inputlookup", "aliasFile", "mappingFile", "suffixFile", "baseSegDir", "tagsTreeFile", "tagsTreeRead", "tagsTreeRead"}

// ---------------------------------------------------------------- generator

func c19Hex(s string) string {
	if s == "" {
		return "-"
	}
	return hex.EncodeToString([]byte(s))
}

func c19Unhex(s string) (string, bool) {
	if s == "-" {
		return "", true
	}
	b, err := hex.DecodeString(s)
	if err != nil || len(b) == 0 {
		return "", false
	}
	return string(b), true
}

var c19Atoms = []string{"a", "b", "x", ".", "..", "...", "/", "/", "//", "\\", "%2e", "%2e%2e", "%2f", "..%2f", "é", "日本", " ",
	"x.csv", ".csv", ".csv.gz", "X.CSV", "s.csv", ".json", "-", "_", "~", "..\\", "lookups", "data", "H", "final"}
var c19Plain = []string{"a", "b", "x", "é", "日本", "%2e%2e", "%2f", "a b", "...", "..a", "a..", "\\", "..\\..\\a", "lookups", "H"}
var c19Ext = []string{"", "", ".csv", ".csv", ".csv.gz", ".CSV", ".Csv.GZ", ".json", ".suffix", ".csv/", "/"}
var c19Sep = []string{"/", "/", "/", "//", "/./", "///"}

func c19Pick(r *rand.Rand, l []string) string { return l[r.Intn(len(l))] }

// names that are valid today and must keep working
var c19Valid = []string{"a", "test", "evts", "my-index", "metrics.cpu", "host", "host.name", "logs.2024-06", "x_y", "évts", "日本", "a b", "A1",
	"...", "..a", "a..", ".hidden", "%2e%2e", "%2f", "idx-0", "k8s.pod.name", "x.csv", "x.csv.gz", "~tmp", "a:b", "a*b"}

func c19Name(r *rand.Rand) string {
	switch r.Intn(15) {
	case 12, 13, 14:
		return c19Pick(r, c19Valid) + c19Pick(r, []string{"", "", "", "1", ".csv", ".v2"})
	case 0, 1, 2, 3: // structured escape
		k := r.Intn(7)
		if r.Intn(10) == 0 {
			k = 7 + r.Intn(8)
		}
		var sb strings.Builder
		if r.Intn(8) == 0 {
			sb.WriteString(c19Pick(r, c19Plain) + c19Pick(r, c19Sep))
		}
		for i := 0; i < k; i++ {
			sb.WriteString("..")
			sb.WriteString(c19Pick(r, c19Sep))
		}
		for i := r.Intn(3); i > 0; i-- {
			sb.WriteString(c19Pick(r, c19Plain) + c19Pick(r, c19Sep))
		}
		sb.WriteString(c19Pick(r, c19Plain) + c19Pick(r, c19Ext))
		return sb.String()
	case 4, 5, 6: // random atoms
		var sb strings.Builder
		for i := r.Intn(9); i > 0; i-- {
			sb.WriteString(c19Pick(r, c19Atoms))
		}
		return sb.String()
	case 7: // absolute
		return "/" + c19Pick(r, []string{"etc/passwd", "tmp/x.csv", "", "a/../../b", "/a", "./a.csv", "../x"})
	case 8: // benign
		return c19Pick(r, []string{"a", "test", "evts", "my-index", "metrics.cpu", "host", "x.csv", "x.csv.gz"}) + c19Pick(r, []string{"", "", "1", ".csv"})
	case 9: // degenerate
		return c19Pick(r, []string{"", ".", "..", "/", "//", "./", "../", "a/", "a/.", "a/..", "a/../..", "./..", ".csv", "..csv", "/.csv", "../.csv", ".../x", "a/./b/../../c"})
	case 10: // very long
		switch r.Intn(3) {
		case 0:
			return strings.Repeat("a", 200+r.Intn(5000))
		case 1:
			return strings.Repeat("../", 20+r.Intn(300)) + "x.csv"
		default:
			return strings.Repeat("a/", 50+r.Intn(300)) + strings.Repeat("../", r.Intn(400)) + "y"
		}
	default: // dot-dot in the middle
		return c19Pick(r, c19Plain) + "/" + strings.Repeat("../", 1+r.Intn(5)) + c19Pick(r, c19Plain) + c19Pick(r, c19Ext)
	}
}

// names for the real operations: short, mostly shallow (≤ 2 levels above the data dir stays inside the sandbox)
func c19RealName(r *rand.Rand, b string) string {
	route := b == "lookupGet" || b == "lookupDelete" || b == "mappingFile"
	if !route && r.Intn(5) == 0 { // the escape spelled with percent-escapes: passes a check of the raw string
		return c19Encode(r, c19RealNameRaw(r, b))
	}
	return c19RealNameRaw(r, b)
}

func c19RealNameRaw(r *rand.Rand, b string) string {
	route := b == "lookupGet" || b == "lookupDelete" || b == "mappingFile"
	if route && r.Intn(10) < 7 {
		return c19Pick(r, []string{"..", ".", "a", "a.csv", "s.csv", "%2e%2e%2fa", "..%2f..%2fa.csv", "é", "...", "..a", "a\\..\\b", "x.csv.gz", "%2e%2e", "..\\", ".csv"})
	}
	if r.Intn(12) == 0 {
		return c19Pick(r, []string{"", ".", "..", "/", "a/", "../", "a", "x.csv", "../x.csv", "../../x.csv", "../../../x.csv", "../../../../x.csv", "../../../../../x.csv"})
	}
	if !route && r.Intn(3) == 0 { // valid today, must keep working
		n := c19Pick(r, c19Valid)
		switch b {
		case "inputlookup":
			n += c19Pick(r, []string{".csv", ".csv", ".csv.gz", ""})
		case "lookupUpload":
			n += c19Pick(r, []string{".csv", "", ".csv.gz", ".CSV"})
		}
		return n
	}
	joinBased := b == "lookupUpload" || b == "inputlookup" || b == "suffixFile" || b == "baseSegDir"
	var sb strings.Builder
	// ups needed to reach the data dir from the directory the name is appended to
	depth := map[string]int{"lookupUpload": 1, "inputlookup": 1, "lookupGet": 1, "lookupDelete": 1, "aliasFile": 4, "mappingFile": 4, "suffixFile": 2, "baseSegDir": 2, "tagsTreeFile": 5, "tagsTreeRead": 5}[b]
	k := r.Intn(depth + 1)
	if r.Intn(2) == 0 {
		k = depth + r.Intn(3) // data dir itself, one above, sandbox root
	}
	if r.Intn(10) == 0 {
		k = depth + 3 + r.Intn(5) // beyond the sandbox: not executed
	}
	if joinBased && r.Intn(6) == 0 {
		sb.WriteString(c19Pick(r, []string{"p", "q", "é"}) + c19Pick(r, c19Sep))
	}
	for i := 0; i < k; i++ {
		sb.WriteString("..")
		sb.WriteString(c19Pick(r, c19Sep))
	}
	if joinBased && r.Intn(4) == 0 {
		sb.WriteString(c19Pick(r, []string{"p", "q", "lookups", "o"}) + c19Pick(r, c19Sep))
	}
	sb.WriteString(c19Pick(r, []string{"a", "b", "s", "é", "%2e%2e", "...", "a b"}))
	switch b {
	case "inputlookup":
		sb.WriteString(c19Pick(r, []string{".csv", ".csv", ".csv", ".csv.gz", ".CSV", "", ".json"}))
	case "lookupUpload":
		sb.WriteString(c19Pick(r, []string{".csv", "", ".csv.gz", ".CSV", ".txt"}))
	default:
		sb.WriteString(c19Pick(r, []string{"", "", ".csv", ".json"}))
	}
	return sb.String()
}

// percent-encode some or all of the separators and dots of a name (what a client does to get a name past a check that
// looks at the raw string)
func c19Encode(r *rand.Rand, v string) string {
	mode := r.Intn(4)
	var sb strings.Builder
	for i := 0; i < len(v); i++ {
		c := v[i]
		enc := false
		switch mode {
		case 0:
			enc = c == '/'
		case 1:
			enc = c == '/' || c == '.'
		case 2:
			enc = (c == '/' || c == '.') && r.Intn(2) == 0
		default:
			enc = r.Intn(6) == 0
		}
		if enc && c < 0x80 { // bytes of a multi-byte rune stay as they are: the result is valid UTF-8 (names travel inside JSON)
			fmt.Fprintf(&sb, c19Pick(r, []string{"%%%02x", "%%%02X"}), c)
		} else {
			sb.WriteByte(c)
		}
	}
	if r.Intn(12) == 0 {
		sb.WriteString(c19Pick(r, []string{"%", "%2", "%zz", "%%"}))
	}
	return sb.String()
}

func c19PathString(r *rand.Rand) string {
	if r.Intn(3) == 0 {
		return c19Name(r)
	}
	var sb strings.Builder
	if r.Intn(3) == 0 {
		sb.WriteString(c19Pick(r, []string{"/", "//", "/./", "/../"}))
	}
	for i := r.Intn(10); i > 0; i-- {
		sb.WriteString(c19Pick(r, []string{"a", "b", "c", ".", "..", "..", "...", "", "é", "%2e", "\\", "a.b", ".a", "a."}))
		if i > 1 || r.Intn(3) == 0 {
			sb.WriteString(c19Pick(r, c19Sep))
		}
	}
	return sb.String()
}

func c19Gen(r *rand.Rand, n int, tier string) []string {
	out := make([]string, 0, n)
	fixed := []string{
		"pclean -", "pclean " + c19Hex("/"), "pclean " + c19Hex("//"), "pclean " + c19Hex("/.."), "pclean " + c19Hex("a/.."),
		"pclean " + c19Hex("../../a/../.."), "pclean " + c19Hex("/a/b/../../../c"), "pclean " + c19Hex("a//b/./c/"),
		"pjoin - -", "pjoin - " + c19Hex("a"), "pjoin " + c19Hex("a") + " -", "pjoin " + c19Hex("/d") + " " + c19Hex("/etc/passwd"),
		"pjoin " + c19Hex("/d/l") + " " + c19Hex("../l/x"), "pclean zz", "pbuild nosuch " + c19Hex("a"), "pbuild baseSegDir", "preal lookupUpload zz",
	}
	for _, b := range c19PureBuilders {
		for _, v := range []string{"", "a", "..", "../x", "../../../../../../../../x", "a/../../b", "/abs"} {
			fixed = append(fixed, "pbuild "+b+" "+c19Hex(v))
		}
	}
	for _, b := range c19RealBuilders {
		for _, v := range []string{"", "a", "a.csv", "..", "../x.csv", "../../x.csv", "../../../x.csv", "../../../../x.csv", "../../../../../x.csv", "a/b.csv"} {
			fixed = append(fixed, "preal "+b+" "+c19Hex(v))
		}
	}
	for _, l := range fixed {
		if len(out) < n {
			out = append(out, l)
		}
	}
	for _, l := range []string{"pdecode -", "pdecode " + c19Hex("..%2F..%2Fx"), "pdecode " + c19Hex("a%2"), "pdecode " + c19Hex("%zz"), "pdecode " + c19Hex("a+b%41%2f"), "pdecode zz",
		"ptags same 3 " + c19Hex("host") + " " + c19Hex("../../../../../../x"), "ptags prom 3 " + c19Hex("../../../../../../../x"), "ptags fresh 2 " + c19Hex("../x"),
		"ptags same 2", "ptags same 0 " + c19Hex("a"), "ptags nosuch 2 " + c19Hex("a"), "ptags prom 4 " + c19Hex("host") + " " + c19Hex("k8s.pod.name"), "ptags same 2 -",
		"pdel " + c19Hex("@A@"), "pdel " + c19Hex("../../../victim"), "pdel " + c19Hex("@A@,../../../victim"), "pdel " + c19Hex("cluster:../../../victim"), "pdel " + c19Hex("*"), "pdel " + c19Hex("@A@,@B@,@A@"),
		"pdel " + c19Hex("nosuch"), "pdel " + c19Hex("traces"), "pdel " + c19Hex("../../../../../x"), "pdel zz", "pdel -",
		"preal lookupUpload " + c19Hex("..%2F..%2Fx"), "preal lookupUpload " + c19Hex("%2e%2e%2fx.csv"), "preal lookupUpload " + c19Hex("..%2Fq")} {
		if len(out) < n {
			out = append(out, l)
		}
	}
	for len(out) < n {
		switch k := r.Intn(112); {
		case k >= 100 && k < 103:
			out = append(out, "pdecode "+c19Hex(c19Encode(r, c19Name(r))))
		case k >= 103 && k < 108: // a series of 2..5 samples; one hostile key among ordinary ones, mostly NOT in first place
			mode := c19Pick(r, []string{"same", "same", "prom", "prom", "fresh"})
			nk := 1 + r.Intn(3)
			keys := make([]string, nk)
			for i := range keys {
				keys[i] = c19Hex(c19Pick(r, []string{"host", "job", "k8s.pod.name", "a b", "...", "..a", "é", "%2e%2e", "region"}))
			}
			if r.Intn(4) > 0 {
				h := strings.Repeat("../", r.Intn(9)) + c19Pick(r, []string{"x", "victim", "outside.txt", "..", "", "a/b"})
				if r.Intn(5) == 0 {
					h = c19RealName(r, "tagsTreeFile")
				}
				keys[r.Intn(nk)] = c19Hex(h)
			}
			out = append(out, fmt.Sprintf("ptags %s %d %s", mode, 2+r.Intn(4), strings.Join(keys, " ")))
		case k >= 108:
			var parts []string
			for i := 1 + r.Intn(3); i > 0; i-- {
				switch r.Intn(6) {
				case 0:
					parts = append(parts, "@A@")
				case 1:
					parts = append(parts, "@B@")
				case 2:
					parts = append(parts, c19Pick(r, []string{"nosuch", "@A@x", "x@B@", "..", ".", "é"}))
				default:
					parts = append(parts, c19Pick(r, []string{"", "@A@/", "p/"})+strings.Repeat("../", r.Intn(6))+c19Pick(r, []string{"victim", "victim/", "outside.txt", "@A@", "", ".."}))
				}
			}
			req := strings.Join(parts, ",")
			if r.Intn(5) == 0 {
				req = c19Pick(r, []string{"cluster:", "c:", ":", "a:b:"}) + req
			}
			if r.Intn(20) == 0 {
				req = c19Pick(r, []string{"traces", ",", "", "@A@,@B@"})
			}
			out = append(out, "pdel "+c19Hex(req))
		case k < 22:
			out = append(out, "pclean "+c19Hex(c19PathString(r)))
		case k < 32:
			base := c19Pick(r, []string{"", "/", "/d", "/d/data/", "/d/data/lookups", "rel", "rel/x/", ".", "..", "/d/../e", "//d//"})
			if r.Intn(4) == 0 {
				base = c19PathString(r)
			}
			out = append(out, "pjoin "+c19Hex(base)+" "+c19Hex(c19Name(r)))
		case k < 84:
			out = append(out, "pbuild "+c19Pick(r, c19PureBuilders)+" "+c19Hex(c19Name(r)))
		default:
			b := c19Pick(r, c19RealBuilders)
			out = append(out, "preal "+b+" "+c19Hex(c19RealName(r, b)))
		}
	}
	return out
}

// ---------------------------------------------------------------- sandbox

type c19Sandbox struct {
	root      string // /tmp/c19-XXXX
	data      string // root/o/data/  (config data path, trailing slash)
	dataClean string // root/o/data
	routes    map[string][2]string
	routeSrc  map[string]string
	counter   int
}

var c19sb *c19Sandbox
var c19Once sync.Once

func c19Env() *c19Sandbox {
	c19Once.Do(func() {
		root, err := os.MkdirTemp("/tmp", "c19-")
		if err != nil {
			panic(err)
		}
		if real, err := filepath.EvalSymlinks(root); err != nil || real != root || strings.Count(root, "/") != 2 {
			panic("c19: sandbox root must be /tmp/<name> without symlinks, got " + root)
		}
		s := &c19Sandbox{root: root, data: root + "/o/data/", dataClean: root + "/o/data", routes: map[string][2]string{}, routeSrc: map[string]string{}}
		if err := os.MkdirAll(s.data, 0o755); err != nil {
			panic(err)
		}
		exitHooks = append(exitHooks, func() { os.RemoveAll(root) })
		config.InitializeTestingConfig(s.data)
		config.SetHostIDForTestOnly("H")
		limit.InitMemoryLimiter()
		if err := vtable.InitVTable(serverutils.GetMyIds); err != nil {
			panic(err)
		}
		s.loadRoutes()
		c19sb = s
	})
	return c19sb
}

// route patterns are read from the server sources of the checked repo (fallback: the patterns of the reference tree)
func (s *c19Sandbox) loadRoutes() {
	repo := os.Getenv("VERIF_REPO")
	if repo == "" {
		repo = "/repo"
	}
	type rt struct{ key, file, method, handler, fbPrefix, fbPattern string }
	for _, t := range []rt{
		{"lookupGet", "pkg/server/query/server.go", "GET", "getLookupFileHandler", serverutils.API_PREFIX, "/lookup-files/{lookupFilename}"},
		{"lookupDelete", "pkg/server/query/server.go", "DELETE", "deleteLookupFileHandler", serverutils.API_PREFIX, "/lookup-files/{lookupFilename}"},
		{"dashboardDetails", "pkg/server/query/server.go", "GET", "getDashboardIdHandler", serverutils.API_PREFIX, "/dashboards/{dashboard-id}"},
		{"mappingFile", "pkg/server/ingest/server.go", "PUT", "EsPutIndexHandler", serverutils.ELASTIC_PREFIX, "/{indexName}"},
	} {
		prefix, pattern, src := t.fbPrefix, t.fbPattern, "fallback"
		if b, err := os.ReadFile(filepath.Join(repo, t.file)); err == nil {
			re := regexp.MustCompile(`\.` + t.method + `\(server_utils\.(API_PREFIX|ELASTIC_PREFIX)\+"([^"\n]*)",[^\n]*\b` + t.handler + `\(\)`)
			if m := re.FindSubmatch(b); m != nil {
				if string(m[1]) == "API_PREFIX" {
					prefix = serverutils.API_PREFIX
				} else {
					prefix = serverutils.ELASTIC_PREFIX
				}
				pattern, src = string(m[2]), "source"
			}
		}
		s.routes[t.key] = [2]string{t.method, prefix + pattern}
		s.routeSrc[t.key] = src
	}
}

// dispatch runs the real fasthttp/router on method + pattern with the client value substituted for the (single) parameter.
// It returns whether the handler was invoked.
func (s *c19Sandbox) dispatch(key, v string, h func(ctx *fasthttp.RequestCtx, param string)) (invoked bool, ctx *fasthttp.RequestCtx) {
	mp := s.routes[key]
	method, pattern := mp[0], mp[1]
	i, j := strings.Index(pattern, "{"), strings.LastIndex(pattern, "}")
	if i < 0 || j < i {
		return false, nil
	}
	pname := strings.TrimRight(strings.SplitN(pattern[i+1:j], ":", 2)[0], "?")
	uri := pattern[:i] + v + pattern[j+1:]
	r := router.New()
	r.Handle(method, pattern, func(c *fasthttp.RequestCtx) {
		invoked = true
		p, _ := c.UserValue(pname).(string)
		h(c, p)
	})
	ctx = &fasthttp.RequestCtx{}
	ctx.Request.Header.SetMethod(method)
	ctx.Request.SetRequestURI(uri)
	ctx.Request.Header.SetHost("localhost")
	r.Handler(ctx)
	return invoked, ctx
}

func (s *c19Sandbox) reset() {
	ents, _ := os.ReadDir(s.root)
	for _, e := range ents {
		os.RemoveAll(filepath.Join(s.root, e.Name()))
	}
	must(os.MkdirAll(s.data+"lookups", 0o755))
	must(os.MkdirAll(s.data+"H", 0o755))
	must(vtable.CreateVirtTableBaseDirs(vtable.VTableBaseDir, vtable.VTableMappingsDir, vtable.VTableTemplatesDir, vtable.VTableAliasesDir))
	must(os.WriteFile(s.root+"/outside.txt", []byte("outside-0"), 0o644))
	must(os.WriteFile(s.root+"/o/outside.txt", []byte("outside-1"), 0o644))
	must(os.WriteFile(s.data+"inside.txt", []byte("inside"), 0o644))
}

func (s *c19Sandbox) inRoot(p string) bool {
	p = filepath.Clean(p)
	return p == s.root || strings.HasPrefix(p, s.root+"/")
}

// rel: path relative to the data dir, computed with the real filepath.Rel on the real cleaned path
func (s *c19Sandbox) rel(p string) string {
	r, err := filepath.Rel(s.dataClean, filepath.Clean(p))
	if err != nil {
		return "rel-error"
	}
	return r
}

func c19Escapes(rel string) bool { return rel == ".." || strings.HasPrefix(rel, "../") }

func (s *c19Sandbox) snapshot() map[string]string {
	m := map[string]string{}
	filepath.WalkDir(s.root, func(p string, d fs.DirEntry, err error) error {
		if err != nil {
			return nil
		}
		if d.IsDir() {
			m[p] = "dir"
		} else if b, err := os.ReadFile(p); err == nil {
			h := sha1.Sum(b)
			m[p] = hex.EncodeToString(h[:])
		}
		return nil
	})
	return m
}

type c19Change struct{ kind, path string }

func c19Diff(before, after map[string]string) []c19Change {
	var res []c19Change
	for p, h := range after {
		if bh, ok := before[p]; !ok {
			res = append(res, c19Change{"created", p})
		} else if bh != h {
			res = append(res, c19Change{"modified", p})
		}
	}
	for p := range before {
		if _, ok := after[p]; !ok {
			res = append(res, c19Change{"deleted", p})
		}
	}
	sort.Slice(res, func(i, j int) bool { return res[i].path < res[j].path })
	return res
}

func (s *c19Sandbox) marker() string {
	s.counter++
	return fmt.Sprintf("mk%dq", s.counter)
}

func c19IsDir(p string) bool {
	st, err := os.Stat(p)
	return err == nil && st.IsDir()
}

// mirror of UploadLookupFile's name completion — used ONLY to decide whether the real upload may be executed safely
// and which parent directory to prepare; the reported path is read back from the file system.
func c19UploadNameMirror(v string) string {
	l := strings.ToLower(v)
	if strings.HasSuffix(l, ".csv") || strings.HasSuffix(l, ".csv.gz") {
		return v
	}
	return v + ".csv"
}

// ---------------------------------------------------------------- exec

func c19Exec(line string) Result {
	tok := strings.Fields(line)
	bad := Result{Out: "bad-op", Tags: []string{"bad-op"}}
	if len(tok) == 0 {
		return bad
	}
	switch tok[0] {
	case "pclean":
		if len(tok) != 2 {
			return bad
		}
		p, ok := c19Unhex(tok[1])
		if !ok {
			return bad
		}
		return Result{Out: c19Hex(filepath.Clean(p)), Nontrivial: strings.ContainsAny(p, "/."), Tags: []string{"pclean"}}
	case "pjoin":
		if len(tok) != 3 {
			return bad
		}
		a, ok1 := c19Unhex(tok[1])
		b, ok2 := c19Unhex(tok[2])
		if !ok1 || !ok2 {
			return bad
		}
		return Result{Out: c19Hex(filepath.Join(a, b)), Nontrivial: true, Tags: []string{"pjoin"}}
	case "pdecode":
		if len(tok) != 2 {
			return bad
		}
		v, ok := c19Unhex(tok[1])
		if !ok {
			return bad
		}
		d, err := url.PathUnescape(v)
		if err != nil {
			return Result{Out: "err", Nontrivial: true, Tags: []string{"pdecode", "pdecode:err"}}
		}
		return Result{Out: c19Hex(d), Nontrivial: strings.Contains(v, "%"), Tags: []string{"pdecode"}}
	case "ptags":
		return c19Tags(tok)
	case "pdel":
		if len(tok) != 2 {
			return bad
		}
		v, ok := c19Unhex(tok[1])
		if !ok {
			return bad
		}
		return c19Del(v)
	case "pbuild", "preal":
		if len(tok) != 3 {
			return bad
		}
		v, ok := c19Unhex(tok[2])
		if !ok {
			return bad
		}
		s := c19Env()
		var out string
		var fails []PropFail
		var tags []string
		known := false
		if tok[0] == "pbuild" {
			out, fails, tags, known = c19Pure(s, tok[1], v)
		} else {
			out, fails, tags, known = c19Real(s, tok[1], v)
		}
		if !known {
			return bad
		}
		tags = append(tags, tok[0]+":"+tok[1])
		if strings.Contains(v, "..") {
			tags = append(tags, "has-dotdot")
		}
		if strings.HasPrefix(v, "/") {
			tags = append(tags, "absolute")
		}
		if len(v) > 255 {
			tags = append(tags, "long")
		}
		if len(fails) > 0 {
			tags = append(tags, "escape")
		}
		return Result{Out: out, Fails: fails, Nontrivial: strings.ContainsAny(v, "/.\\%"), Tags: tags}
	}
	return bad
}

func (s *c19Sandbox) acceptLine(p string) string { return "accept:" + c19Hex(s.rel(p)) }

func (s *c19Sandbox) checkBuilt(b, v, p string) []PropFail {
	rel := s.rel(p)
	if c19Escapes(rel) {
		return []PropFail{{Sig: "path-escape/" + b, Msg: fmt.Sprintf("builder %s maps the client value %q to %q (relative to the data dir), which is outside the data dir", b, v, rel)}}
	}
	return nil
}

// pure builders: call the real function, report Clean(result) relative to the data dir
func c19Pure(s *c19Sandbox, b, v string) (string, []PropFail, []string, bool) {
	var p string
	switch b {
	// The three index-name builders and the tags-tree builder validate nothing themselves: the name is checked where it
	// enters (ProcessIndexRequestPle / AddVirtualTable resp. EncodeDatapoint). Here the gate is the REAL validator
	// function those entry points call; that the entry points do call it is checked by the `preal` operations.
	case "baseSegDir":
		if !vtable.IsValidIndexName(v) {
			return "reject", nil, []string{"reject", "gate:validator"}, true
		}
		p = config.GetBaseSegDir(c19SID, v, 0)
	case "baseVTableDir":
		if !vtable.IsValidIndexName(v) {
			return "reject", nil, []string{"reject", "gate:validator"}, true
		}
		p = config.GetBaseVTableDir(c19SID, v)
	case "suffixFile":
		if !vtable.IsValidIndexName(v) {
			return "reject", nil, []string{"reject", "gate:validator"}, true
		}
		p = config.GetSuffixFile(v, c19SID)
	case "tagsTreeFile":
		if !metrics.VerifTagKeyAccepted(v) {
			return "reject", nil, []string{"reject", "gate:validator"}, true
		}
		p = metrics.VerifTagsTreeFileName(v, metrics.GetFinalTagsTreeDir(c19MID, 0))
	case "sortIndexFile":
		// the sort index of COLUMN v (event key / sort-columns request / sort column of a query) of a segment of index c19i;
		// the builder validates the name itself (since the repair): its error is the rejection
		got, err := sortindex.VerifSortIndexFilename(config.GetSegKey(c19SID, "c19i", 0), v, sortindex.SortAsAuto)
		if err != nil {
			return "reject", nil, []string{"reject", "gate:builder"}, true
		}
		p = got
	case "dashboardDetails":
		var got string
		invoked, _ := s.dispatch("dashboardDetails", v, func(_ *fasthttp.RequestCtx, param string) {
			got = dashboards.VerifDashboardDetailsPath(param)
		})
		if !invoked {
			return "reject", nil, []string{"reject", "route:" + s.routeSrc["dashboardDetails"]}, true
		}
		p = got
	case "scrollResults":
		rec := scroll.GetScrollRecord(v, "1m", 10)
		if rec == nil {
			return "reject", nil, []string{"reject"}, true
		}
		p = scroll.VerifScrollResultsFilename(rec.Scroll_id)
		if rec.Scroll_id != v {
			p = strings.Replace(p, rec.Scroll_id, "U", 1)
		}
	default:
		return "", nil, nil, false
	}
	return s.acceptLine(p), s.checkBuilt(b, v, p), nil, true
}

// the READER of the tags tree: the tag key of a tag filter of a metrics query, as the two functions of
// pkg/segment/reader/metrics/tagstree that build a file name from it see it (overlay hook VerifC19Probe).  A valid (empty)
// tags tree file is put where baseDir + key points (the code concatenates; every directory on the way is made to exist so
// that lexical and OS resolution agree); "accepted" = the real code found or opened it.
func c19RealTagTreeRead(s *c19Sandbox, v string) (string, []PropFail, []string, bool) {
	const b = "tagsTreeRead"
	base := metrics.GetFinalTagsTreeDir(c19MID, 0)
	target := base + v
	if strings.ContainsRune(v, 0) {
		return "bad-op", nil, nil, true
	}
	if s.inRoot(target) {
		for _, c := range c19Variants(v) {
			if !s.inRoot(base + c) {
				if !utils.IsSimpleFileName(v) {
					return "reject", nil, []string{"reject", "gate:validator", "decoded-spelling-leaves-sandbox"}, true
				}
				return s.acceptLine(target), s.checkBuilt(b, v, target), []string{"not-executed", "decoded-spelling-leaves-sandbox"}, true
			}
		}
	} else {
		if !utils.IsSimpleFileName(v) {
			return "reject", nil, []string{"reject", "gate:validator"}, true
		}
		return "unsafe", nil, []string{"unsafe"}, true
	}
	s.reset()
	must(os.MkdirAll(base, 0o755))
	for i := 0; i < len(target); i++ {
		if target[i] == '/' {
			if d := filepath.Clean(target[:i+1]); s.inRoot(d) {
				os.MkdirAll(d, 0o755)
			}
		}
	}
	ct := filepath.Clean(target)
	made := false
	if _, err := os.Lstat(ct); err != nil && !strings.HasSuffix(target, "/") {
		// version byte + size of the (empty) metadata section: a tags tree without metrics
		made = os.WriteFile(ct, []byte{sutils.VERSION_TAGSTREE[0], 5, 0, 0, 0}, 0o644) == nil
	}
	exists, opened := tagstree.VerifC19Probe(base, v)
	if made {
		os.Remove(ct)
	}
	tags := []string{"executed"}
	if opened {
		tags = append(tags, "opened")
	}
	if !exists && !opened {
		return "reject", nil, append(tags, "reject"), true
	}
	return s.acceptLine(target), s.checkBuilt(b, v, target), tags, true
}

// real operations
func c19Real(s *c19Sandbox, b, v string) (string, []PropFail, []string, bool) {
	if b == "tagsTreeRead" {
		return c19RealTagTreeRead(s, v)
	}
	lp := config.GetLookupPath()
	var target string // where the operation is expected to land (safety decision + preparation only)
	concat := false   // the code concatenates strings and leaves path resolution to the OS
	switch b {
	case "lookupGet", "lookupDelete", "mappingFile": // the router decides first, without touching any file
		param := ""
		invoked, _ := s.dispatch(b, v, func(_ *fasthttp.RequestCtx, p string) { param = p })
		if !invoked {
			return "reject", nil, []string{"reject", "route:" + s.routeSrc[b]}, true
		}
		if param != v {
			return "route-param-differs", nil, []string{"route-param-differs"}, true
		}
	}
	targetOf := func(v string) (string, bool, bool) {
		switch b {
		case "lookupUpload":
			return filepath.Join(lp, c19UploadNameMirror(v)), false, true
		case "lookupGet", "lookupDelete", "inputlookup":
			return filepath.Join(lp, v), false, true
		case "aliasFile":
			return vtable.VTableAliasesDir + v + ".json", true, true
		case "mappingFile":
			return vtable.VTableMappingsDir + v + ".json", true, true
		case "suffixFile", "baseSegDir": // same depth below the data dir: <data>/H/suffix/<v>/… and <data>/H/final/<v>/…
			return config.GetSuffixFile(v, c19SID), true, true
		case "tagsTreeFile":
			return metrics.GetFinalTagsTreeDir(c19MID, 0) + v, true, true
		}
		return "", false, false
	}
	var knownB bool
	if target, concat, knownB = targetOf(v); !knownB {
		return "", nil, nil, false
	}
	if strings.ContainsRune(v, 0) {
		return "bad-op", nil, nil, true
	}
	if s.inRoot(target) {
		// the harness must stay inside its sandbox even when the code under test DECODES the name before it joins it
		// (percent-escapes, backslashes): such a name is executed only if its decoded spellings stay inside, too.
		// Otherwise the answer is what the real validator + the real builder say, without touching the file system.
		for _, c := range c19Variants(v) {
			if t, _, _ := targetOf(c); !s.inRoot(t) {
				refused := false
				switch b {
				case "lookupUpload":
					refused = !utils.IsSimpleFileName(v)
				case "lookupGet", "lookupDelete":
				case "inputlookup":
					refused = !utils.IsSimpleFileName(v) || !(strings.HasSuffix(v, ".csv") || strings.HasSuffix(v, ".csv.gz"))
				case "aliasFile", "mappingFile", "suffixFile", "baseSegDir":
					refused = !vtable.IsValidIndexName(v)
				case "tagsTreeFile":
					refused = !metrics.VerifTagKeyAccepted(v)
				}
				if refused {
					return "reject", nil, []string{"reject", "gate:validator", "decoded-spelling-leaves-sandbox"}, true
				}
				built := target
				if b == "baseSegDir" {
					built = config.GetBaseSegDir(c19SID, v, 0)
				}
				return s.acceptLine(built), s.checkBuilt(b, v, built), []string{"not-executed", "decoded-spelling-leaves-sandbox"}, true
			}
		}
	}
	if !s.inRoot(target) {
		// outside the sandbox the operation itself is never executed; whether the name is refused is asked of the real
		// validator the operation calls (that it calls it is exercised inside the sandbox)
		refused := false
		switch b {
		case "inputlookup": // read-only operation: the real code itself says whether it rejects the name
			_, err := processor.VerifInputLookup(v, "c19m")
			refused = err != nil && (strings.Contains(err.Error(), "Only .csv and .csv.gz formats") || strings.Contains(err.Error(), "Invalid lookup file name"))
		case "lookupUpload":
			refused = !utils.IsSimpleFileName(v)
		case "aliasFile", "mappingFile", "suffixFile", "baseSegDir":
			refused = !vtable.IsValidIndexName(v)
		case "tagsTreeFile":
			refused = !metrics.VerifTagKeyAccepted(v)
		}
		if refused {
			return "reject", nil, []string{"reject", "gate:validator"}, true
		}
		return "unsafe", nil, []string{"unsafe"}, true
	}
	ctarget := filepath.Clean(target)
	s.reset()
	mk := s.marker()
	tags := []string{}
	if concat {
		// every directory the OS has to walk through exists in a live system or is made to exist here, so that
		// lexical and OS resolution agree (no symlinks in the sandbox)
		for i := 0; i < len(target); i++ {
			if target[i] == '/' {
				if d := filepath.Clean(target[:i+1]); s.inRoot(d) {
					os.MkdirAll(d, 0o755)
				}
			}
		}
	}
	prepareParent := func() {
		d := filepath.Dir(ctarget)
		if s.inRoot(d) {
			os.MkdirAll(d, 0o755)
		}
	}
	// the expected file gets the marker <mk>M; decoy files <mk>D<i> are put where the name would land if the code
	// decoded it (percent-decoding, backslashes) before joining — so a read/delete of another file is seen as such
	decoys := map[string]string{}
	placeMarker := func(content func(marker, name string) []byte) {
		prepareParent()
		if !c19IsDir(ctarget) {
			os.WriteFile(ctarget, content(mk+"M", v), 0o644)
		}
		for i, c := range c19Variants(v) {
			t := filepath.Join(lp, c)
			if _, err := os.Lstat(t); err == nil || !s.inRoot(t) || !s.inRoot(filepath.Dir(t)) {
				continue
			}
			dm := fmt.Sprintf("%sD%d", mk, i)
			if os.MkdirAll(filepath.Dir(t), 0o755) == nil && os.WriteFile(t, content(dm, c), 0o644) == nil {
				decoys[dm] = t
			}
		}
	}
	plainContent := func(marker, _ string) []byte { return []byte("c19m\n" + marker + "\n") }
	whichRead := func(got func(marker string) bool) string {
		for dm, t := range decoys {
			if got(dm) {
				return t
			}
		}
		if got(mk + "M") {
			return ctarget
		}
		return ""
	}
	targetWasDir := false
	rejected := false
	canonFrom, canonTo := "", "" // server-generated id in the observed path → the id the model uses
	var canonRe *regexp.Regexp   // server-chosen shard/suffix directories → the ones the model uses
	var effects []c19Change      // files the real code touched
	var readPath string          // file the real code demonstrably read
	run := func(op func()) {
		targetWasDir = c19IsDir(ctarget)
		before := s.snapshot()
		op()
		effects = c19Diff(before, s.snapshot())
	}
	switch b {
	case "lookupUpload":
		prepareParent()
		var body bytes.Buffer
		w := multipart.NewWriter(&body)
		w.WriteField("name", v)
		fw, _ := w.CreateFormFile("file", "up.csv")
		fw.Write([]byte("c19m\n" + mk + "\n"))
		w.Close()
		ctx := &fasthttp.RequestCtx{}
		ctx.Request.Header.SetMethod("POST")
		ctx.Request.Header.SetContentType(w.FormDataContentType())
		ctx.Request.SetBody(body.Bytes())
		run(func() { callLookupHandler(lookups.UploadLookupFile, ctx, 0) })
		if ctx.Response.StatusCode() == fasthttp.StatusBadRequest && len(effects) == 0 {
			rejected = true
		}
		effects = c19Filter(effects, func(c c19Change) bool { return c19FileContains(c.path, mk) })
	case "lookupGet":
		placeMarker(plainContent)
		var invoked bool
		var ctx *fasthttp.RequestCtx
		run(func() {
			invoked, ctx = s.dispatch("lookupGet", v, func(c *fasthttp.RequestCtx, _ string) { callLookupHandler(lookups.GetLookupFile, c, 0) })
		})
		tags = append(tags, "route:"+s.routeSrc["lookupGet"])
		if !invoked {
			rejected = true
		} else {
			readPath = whichRead(func(m string) bool { return bytes.Contains(ctx.Response.Body(), []byte(m+"\n")) })
			// a file stands at the place the name leads to: "File not found" without a read is the handler refusing the name
			// (patch c13-1: a name without .csv / .csv.gz is no lookup file)
			if readPath == "" && ctx.Response.StatusCode() == fasthttp.StatusNotFound {
				rejected = true
			}
		}
		effects = nil
	case "lookupDelete":
		placeMarker(plainContent)
		var invoked bool
		var ctx *fasthttp.RequestCtx
		run(func() {
			invoked, ctx = s.dispatch("lookupDelete", v, func(c *fasthttp.RequestCtx, _ string) { callLookupHandler(lookups.DeleteLookupFile, c, 0) })
		})
		tags = append(tags, "route:"+s.routeSrc["lookupDelete"])
		effects = c19Filter(effects, func(c c19Change) bool { return c.kind == "deleted" })
		if !invoked || (len(effects) == 0 && ctx.Response.StatusCode() == fasthttp.StatusNotFound) {
			rejected = true
		}
	case "inputlookup":
		placeMarker(func(marker, name string) []byte {
			content := plainContent(marker, name)
			if strings.HasSuffix(name, ".csv.gz") {
				var zb bytes.Buffer
				zw := gzip.NewWriter(&zb)
				zw.Write(content)
				zw.Close()
				content = zb.Bytes()
			}
			return content
		})
		var vals []string
		var err error
		run(func() { vals, err = processor.VerifInputLookup(v, "c19m") })
		if err != nil && (strings.Contains(err.Error(), "Only .csv and .csv.gz formats") || strings.Contains(err.Error(), "Invalid lookup file name")) {
			rejected = true
		}
		readPath = whichRead(func(m string) bool {
			for _, x := range vals {
				if x == m {
					return true
				}
			}
			return false
		})
		effects = nil
	case "aliasFile":
		var err error
		run(func() { err = vtable.AddAliases(v, []string{mk}, 0) })
		if err != nil && (err.Error() == "indexName is null" || err.Error() == "indexName is invalid") {
			rejected = true
		}
		effects = c19Filter(effects, func(c c19Change) bool { return c19FileContains(c.path, mk) })
		if len(effects) == 1 { // the same unvalidated name also deletes
			before := s.snapshot()
			_ = vtable.RemoveAliases(v, []string{mk}, 0)
			for _, c := range c19Diff(before, s.snapshot()) {
				if c.kind == "deleted" && c.path == effects[0].path {
					tags = append(tags, "alias-delete-confirmed")
				}
			}
		}
	case "mappingFile":
		var invoked bool
		run(func() {
			invoked, _ = s.dispatch("mappingFile", v, func(_ *fasthttp.RequestCtx, param string) {
				m := `{"marker":"` + mk + `"}`
				if err := vtable.AddMapping(&param, &m, 0); err != nil && strings.Contains(err.Error(), "invalid index name") {
					rejected = true
				}
			})
		})
		tags = append(tags, "route:"+s.routeSrc["mappingFile"])
		if !invoked {
			rejected = true
		}
		effects = c19Filter(effects, func(c c19Change) bool { return c19FileContains(c.path, mk) })
	case "suffixFile", "baseSegDir":
		// the ingest entry point shared by all protocols, with no events: it registers the index, picks the stream,
		// creates the segment store = suffix file + segment base directory (first file operations of a new index)
		sid := fmt.Sprintf("0-0-%d", 1000+s.counter) // a fresh stream id each time = a fresh segment store
		canonFrom, canonTo = sid, c19SID
		var err error
		var stackBuf [4096]byte
		run(func() {
			err = eswriter.ProcessIndexRequestPle(1700000000000, v, false, map[string]string{}, 0, 0,
				map[string]string{v: sid}, map[uint64]string{}, stackBuf[:], nil)
		})
		if err != nil && strings.Contains(err.Error(), "invalid index name") {
			rejected = true
		}
		if s.inRoot(config.GetDataPath() + config.GetHostID() + "/active/" + v) {
			writer.DeleteVirtualTableSegStore(v)
		}
		if b == "suffixFile" {
			effects = c19Filter(effects, func(c c19Change) bool { return c.kind == "created" && filepath.Base(c.path) == sid+".suffix" })
		} else {
			effects = c19Filter(effects, func(c c19Change) bool {
				return c.kind == "created" && filepath.Base(c.path) == "0" && filepath.Base(filepath.Dir(c.path)) == sid
			})
		}
	case "tagsTreeFile":
		// a datapoint with this tag key through the entry point shared by all metrics protocols, then a flush
		var encErr error
		run(func() {
			key, _ := json.Marshal(v)
			payload := []byte(`{"metric":"m","tags":{` + string(key) + `:"` + mk + `"},"timestamp":1700000000,"value":1}`)
			th := metrics.GetTagsHolder()
			mName, dp, ts, err := metrics.ExtractOTSDBPayload(payload, th)
			if err != nil {
				encErr = err
				return
			}
			if encErr = metrics.EncodeDatapoint(mName, th, dp, ts, uint64(len(payload)), 0); encErr != nil {
				return
			}
			metrics.ForceFlushMetricsBlock()
		})
		if encErr != nil && strings.Contains(encErr.Error(), "invalid tag key") {
			rejected = true
		}
		effects = c19Filter(effects, func(c c19Change) bool {
			return c.kind != "deleted" && !strings.Contains(c.path, "/wal-ts/") && c19FileContains(c.path, mk)
		})
		canonRe = c19TthRe
	}
	if rejected {
		return "reject", nil, append(tags, "reject"), true
	}
	var touched string
	kind := ""
	switch {
	case readPath != "":
		touched, kind = readPath, "read"
	case len(effects) == 1:
		touched, kind = effects[0].path, effects[0].kind
	case len(effects) > 1:
		var l []string
		for _, c := range effects {
			l = append(l, c.kind+":"+s.rel(c.path))
		}
		return "multiple-effects:" + strings.Join(l, ","), nil, append(tags, "multiple-effects"), true
	case targetWasDir:
		// the name resolves to an existing directory: nothing can be read back; report the expected location
		return s.acceptLine(ctarget), s.checkBuilt(b, v, ctarget), append(tags, "dir-target-unconfirmed"), true
	default:
		return "noeffect", nil, append(tags, "noeffect"), true
	}
	tags = append(tags, "fs-confirmed:"+kind)
	var fails []PropFail
	rel := s.rel(touched)
	if c19Escapes(rel) {
		fails = append(fails, PropFail{Sig: "path-escape/" + b, Msg: fmt.Sprintf("real operation %s with client value %q %s the file %q (relative to the data dir), outside the data dir — confirmed on the file system", b, v, kind, rel)})
		tags = append(tags, "exploit-confirmed")
	}
	printed := touched
	if canonFrom != "" {
		printed = strings.Replace(printed, canonFrom, canonTo, 1)
	}
	if canonRe != nil {
		printed = canonRe.ReplaceAllString(printed, "${1}"+c19MID+"/0/")
	}
	return s.acceptLine(printed), fails, tags, true
}

// other spellings a name could be turned into by decoding before it is joined
func c19Variants(v string) []string {
	seen := map[string]bool{v: true, "": true}
	var res []string
	add := func(x string) {
		if !seen[x] && !strings.ContainsRune(x, 0) {
			seen[x] = true
			res = append(res, x)
		}
	}
	if d, err := url.PathUnescape(v); err == nil {
		add(d)
	}
	if d, err := url.QueryUnescape(v); err == nil {
		add(d)
		if d2, err := url.QueryUnescape(d); err == nil {
			add(d2)
			add(strings.ReplaceAll(d2, "\\", "/"))
		}
		add(strings.ReplaceAll(d, "\\", "/"))
	}
	add(strings.ReplaceAll(v, "\\", "/"))
	add(strings.TrimSpace(v))
	return res
}

// <data>/H/final/tth/<shard>/<suffix>/ — shard and suffix are chosen by the server
var c19TthRe = regexp.MustCompile(`^(.*/H/final/tth/)\d+/\d+/`)

func c19Filter(l []c19Change, keep func(c19Change) bool) []c19Change {
	var res []c19Change
	for _, c := range l {
		if keep(c) {
			res = append(res, c)
		}
	}
	return res
}

func c19FileContains(p, mk string) bool {
	b, err := os.ReadFile(p)
	return err == nil && bytes.Contains(b, []byte(mk))
}

// ---------------------------------------------------------------- ptags: a multi-sample series through the real TagsHolder

func c19Tags(tok []string) Result {
	bad := Result{Out: "bad-op", Tags: []string{"bad-op"}}
	// at least one key: what the engine does with a datapoint WITHOUT tags is not this property's business
	if len(tok) < 4 || (tok[1] != "same" && tok[1] != "prom" && tok[1] != "fresh") {
		return bad
	}
	mode := tok[1]
	var n int
	if _, err := fmt.Sscanf(tok[2], "%d", &n); err != nil || fmt.Sprint(n) != tok[2] || n < 1 || n > 16 {
		return bad
	}
	var keys []string
	for _, h := range tok[3:] {
		k, ok := c19Unhex(h)
		if !ok {
			return bad
		}
		keys = append(keys, k)
	}
	s := c19Env()
	tags := []string{"ptags:" + mode, fmt.Sprintf("ptags:samples=%d", n)}
	allSimple := true
	hostileAt := -1
	for i, k := range keys {
		if !utils.IsSimpleFileName(k) {
			allSimple = false
			if hostileAt < 0 {
				hostileAt = i
			}
		}
	}
	if !allSimple {
		tags = append(tags, "ptags:hostile-key", fmt.Sprintf("ptags:hostile-at=%d", hostileAt))
	}
	answer := func(acc, rej int) string { return fmt.Sprintf("acc=%d rej=%d", acc, rej) }
	// stay inside the sandbox whatever the code does with the key
	for _, k := range keys {
		for _, c := range append([]string{k}, c19Variants(k)...) {
			if strings.ContainsRune(c, 0) || !s.inRoot(metrics.GetFinalTagsTreeDir(c19MID, 0)+c) {
				ok := true
				for _, k2 := range keys {
					ok = ok && metrics.VerifTagKeyAccepted(k2)
				}
				if ok {
					return Result{Out: answer(n, 0), Nontrivial: true, Tags: append(tags, "gate:validator")}
				}
				return Result{Out: answer(0, n), Nontrivial: true, Tags: append(tags, "gate:validator")}
			}
		}
	}
	s.reset()
	mk := s.marker()
	// every directory a hostile key would walk through exists (as in a live system)
	for _, k := range keys {
		t := metrics.GetFinalTagsTreeDir(c19MID, 0) + k
		for i := 0; i < len(t); i++ {
			if t[i] == '/' {
				if d := filepath.Clean(t[:i+1]); s.inRoot(d) {
					os.MkdirAll(d, 0o755)
				}
			}
		}
	}
	mName := []byte("c19m" + mk)
	before := s.snapshot()
	acc, rej := 0, 0
	other := ""
	switch mode {
	case "same":
		th := metrics.GetTagsHolder()
		for _, k := range keys {
			th.Insert(k, []byte(mk), jsonparser.String)
		}
		for i := 0; i < n; i++ {
			err := metrics.EncodeDatapoint(mName, th, float64(i+1), uint32(1700000000+i), 10, 0)
			switch {
			case err == nil:
				acc++
			case strings.Contains(err.Error(), "invalid tag key"):
				rej++
			default:
				other = err.Error()
			}
		}
	case "prom":
		ts := prompb.TimeSeries{Labels: []prompb.Label{{Name: "__name__", Value: string(mName)}}}
		for _, k := range keys {
			ts.Labels = append(ts.Labels, prompb.Label{Name: k, Value: mk})
		}
		for i := 0; i < n; i++ {
			ts.Samples = append(ts.Samples, prompb.Sample{Value: float64(i + 1), Timestamp: int64(1700000000+i) * 1000})
		}
		b, _ := proto.Marshal(&prompb.WriteRequest{Timeseries: []prompb.TimeSeries{ts}})
		ok, failed, err := prometheuswriter.HandlePutMetrics(snappy.Encode(nil, b), 0)
		if err != nil {
			other = err.Error()
		}
		acc, rej = int(ok), int(failed)
	case "fresh":
		tagObj := map[string]string{}
		for _, k := range keys {
			tagObj[k] = mk
		}
		if len(tagObj) != len(keys) {
			tags = append(tags, "ptags:duplicate-keys")
		}
		for i := 0; i < n; i++ {
			tj, _ := json.Marshal(tagObj)
			payload := []byte(fmt.Sprintf(`{"metric":%q,"tags":%s,"timestamp":%d,"value":%d}`, mName, tj, 1700000000+i, i+1))
			th := metrics.GetTagsHolder()
			m2, dp, ts, err := metrics.ExtractOTSDBPayload(payload, th)
			if err == nil {
				err = metrics.EncodeDatapoint(m2, th, dp, ts, uint64(len(payload)), 0)
			}
			switch {
			case err == nil:
				acc++
			case strings.Contains(err.Error(), "invalid tag key"):
				rej++
			default:
				other = err.Error()
			}
		}
	}
	metrics.ForceFlushMetricsBlock()
	var fails []PropFail
	for _, c := range c19Diff(before, s.snapshot()) {
		// only files that carry THIS series' tag value: the engine keeps its tags trees in memory, so a file a former
		// operation is responsible for would be written again by every later flush
		if c.kind != "deleted" && !c19IsDir(c.path) && c19Escapes(s.rel(c.path)) && c19FileContains(c.path, mk) {
			fails = append(fails, PropFail{Sig: "path-escape/tagsTreeFile", Msg: fmt.Sprintf("series of %d samples (%s) with tag keys %q: after the flush the file %q (relative to the data dir) was %s — outside the data dir, confirmed on the file system", n, mode, keys, s.rel(c.path), c.kind)})
			tags = append(tags, "exploit-confirmed")
			break
		}
	}
	if acc > 0 && !allSimple {
		fails = append(fails, PropFail{Sig: "tagkey-accepted/" + mode, Msg: fmt.Sprintf("series of %d samples (%s) with tag keys %q: %d datapoint(s) were accepted although a key is not a simple file name (tag keys become tags-tree file names)", n, mode, keys, acc)})
	}
	out := answer(acc, rej)
	if other != "" {
		out = "error:" + other
	}
	return Result{Out: out, Fails: fails, Nontrivial: !allSimple || n > 1, Tags: tags}
}

// ---------------------------------------------------------------- pdel: the real delete-index handler

// mirror of the candidate expansion, ONLY to decide whether the request may be executed inside the sandbox
func c19DelCands(v string) []string {
	if i := strings.Index(v, ":"); i >= 0 {
		v = v[i+1:]
	}
	return strings.Split(v, ",")
}

func c19Del(v string) Result {
	s := c19Env()
	tags := []string{"pdel"}
	if strings.ContainsRune(v, 0) || strings.Contains(v, "*") {
		return Result{Out: "bad-op", Tags: []string{"bad-op"}}
	}
	final := config.GetDataPath() + config.GetHostID() + "/final/"
	for _, c := range c19DelCands(v) {
		if !s.inRoot(final + c + "/") {
			return Result{Out: "unsafe", Tags: append(tags, "unsafe"), Nontrivial: true}
		}
		for _, c2 := range c19Variants(c) {
			if !s.inRoot(final + c2 + "/") {
				return Result{Out: "skipped-decoded-spelling-leaves-sandbox", Tags: append(tags, "skipped")}
			}
		}
	}
	s.reset()
	s.counter++
	a, b := fmt.Sprintf("c19a%d", s.counter), fmt.Sprintf("c19b%d", s.counter)
	for _, idx := range []string{a, b} {
		var stackBuf [4096]byte
		tsKey := config.GetTimeStampKey()
		ple, err := writer.GetNewPLE([]byte(`{"m":"c19"}`), 1700000000000, idx, &tsKey, stackBuf[:])
		if err != nil {
			return Result{Out: "harness-error:" + err.Error()}
		}
		err = eswriter.ProcessIndexRequestPle(1700000000000, idx, true, map[string]string{}, 0, 0, map[string]string{}, map[uint64]string{}, stackBuf[:], []*writer.ParsedLogEvent{ple})
		writer.ReleasePLEs([]*writer.ParsedLogEvent{ple})
		if err != nil {
			return Result{Out: "harness-error:" + err.Error()}
		}
	}
	// victims beside the data dir, and every directory a hostile name walks through
	must(os.MkdirAll(s.root+"/victim", 0o755))
	must(os.WriteFile(s.root+"/victim/important.txt", []byte("x"), 0o644))
	must(os.MkdirAll(s.root+"/o/victim", 0o755))
	must(os.WriteFile(s.root+"/o/victim/important.txt", []byte("x"), 0o644))
	req := strings.ReplaceAll(strings.ReplaceAll(v, "@A@", a), "@B@", b)
	for _, c := range c19DelCands(req) {
		t := final + c + "/"
		for i := len(final); i < len(t); i++ {
			if t[i] == '/' {
				if d := filepath.Clean(t[:i+1]); s.inRoot(d) && !strings.HasSuffix(filepath.Clean(t[:i]), "..") {
					if _, err := os.Lstat(d); err != nil && !strings.Contains(d, "victim") {
						os.MkdirAll(d, 0o755)
					}
				}
			}
		}
	}
	before := s.snapshot()
	ctx := &fasthttp.RequestCtx{}
	ctx.Request.Header.SetMethod("DELETE")
	ctx.SetUserValue("indexName", req)
	eswriter.ProcessDeleteIndex(ctx, 0)
	status := ctx.Response.StatusCode()
	after := s.snapshot()
	var removed []string
	var fails []PropFail
	for _, c := range c19Diff(before, after) {
		if c.kind != "deleted" {
			continue
		}
		if _, parentGone := before[filepath.Dir(c.path)]; parentGone {
			if _, still := after[filepath.Dir(c.path)]; !still {
				continue // reported through its parent
			}
		}
		rel := s.rel(c.path)
		if c19Escapes(rel) {
			fails = append(fails, PropFail{Sig: "path-escape/deleteIndex", Msg: fmt.Sprintf("DELETE index %q removed %q (relative to the data dir), outside the data dir — confirmed on the file system", v, rel)})
			tags = append(tags, "exploit-confirmed")
		}
		if before[c.path] == "dir" && (c19Escapes(rel) || strings.HasPrefix(rel, "H/final/")) {
			rel = strings.ReplaceAll(strings.ReplaceAll(rel, a, "@A@"), b, "@B@")
			removed = append(removed, c19Hex(rel))
		}
	}
	sort.Strings(removed)
	// leave no segment stores of the two indexes behind
	writer.DeleteVirtualTableSegStore(a)
	writer.DeleteVirtualTableSegStore(b)
	out := fmt.Sprintf("%d ", status)
	if len(removed) == 0 {
		out += "-"
	} else {
		out += strings.Join(removed, ",")
	}
	hostile := strings.Contains(v, "..") || strings.Contains(v, "/")
	if hostile {
		tags = append(tags, "pdel:hostile")
	}
	return Result{Out: out, Fails: fails, Nontrivial: hostile, Tags: tags}
}
