package main

// C10 — metrics write-ahead log, RECOVERY layer.   Suite "walrecover".
//
//	walrecover sh=<nShards> cap=<WAL_BLOCK_FLUSH_SIZE> ser=<shard of series 0,1,…> bsh=<shard of metric "bulk"> ops=<op;op;…>
//	  op ::= d<s>:<ts>:<value bits, 16 hex>:<r>      one datapoint of series s (metric m<s>, tag k=v<s>)
//	       | g<seed>:<n>:<k>:<ts0>:<r>               n generated datapoints over the k series bulk{i=<j>} (ids 1000+j)
//	       | f<r>                                    one pass of timeBasedWalDPSFlush            (all shards)
//	       | b                                       one pass of timeBasedMetricsFlush (block rotation, all shards)
//	       | s<shard>                                size-triggered CheckAndRotate(false) of one shard (segment rotation)
//	       | n                                       one pass of timeBasedMNameWalFlush
//	       | e                                       one pass of timeBasedMetaEntryWalFlush
//	  r ::= 0 | 1   outcome of `GetWALStats() > MAX_WAL_FILE_SIZE_BYTES` for the appends of this op (the harness sets
//	                MAX_WAL_FILE_SIZE_BYTES to 2^62 resp. 0 before the op): 1 = every append is followed by a roll-over
//	       | xb:<m> | xr:<m> | xe:<m> | xn:<m> | xf:<m> | xs:<m>   only as the LAST op and with one shard: a crash INSIDE an operation —
//	                xs: a size-triggered segment rotation of shard 0 (like s0) that dies right after the m-th completed step of
//	                    rotateSegment (FlushMetricNames ; DeleteWAL of each datapoint-WAL file ; initNewDpWal ; DeleteWAL of the
//	                    name WAL ; initNewMNameWAL ; AddMetricsMetaEntry) — the block rotation in front of it has completed;
//	                xb: a block-rotation pass (like b) that dies right after the m-th completed step of rotateBlock
//	                    (flushBlock ; DeleteWAL of each WAL file ; initNewDpWal); xe: a meta-WAL write (like e) that dies
//	                    right after the m-th step of Wal.Write (OpenFile of the temp file ; writeBlockToFile ; Sync ; Rename);
//	                    xr: the writer crashes between two ops as usual, the FIRST restart dies right after the m-th
//	                    completed step of RecoverWALData (flushBlock of the group ; deleteWalFile of each file — or only
//	                    the deleteWalFiles of a group whose first WAL file is gone), a second restart recovers completely;
//	                    xn: likewise, the FIRST restart dies right after the m-th step of RecoverMNameWALData (FlushMetricNames of
//	                    the segment ; deleteWalFile of its name WAL — before the repair c10-5 in the opposite order);
//	                    xf: likewise, the FIRST restart dies BETWEEN THE SYSTEM CALLS of the flushBlock inside RecoverWALData, right
//	                    after the m-th of FlushSummary (.mbsu append) ; OpenFile(.tso, O_TRUNC) ; OpenFile(.tsg, O_TRUNC) ;
//	                    Write(.tso) ; Write(.tsg) — the block files are empty or half written then, the WAL files still there.  With fewer than m
//	                    steps the operation runs to its end.  The steps are found with the crash points that overlaygen
//	                    inserts into copies of the current source (utils.VerifCrashPoint, as for C07): a first run on a
//	                    scratch copy logs the points, the real run is killed at the chosen one (VERIF_CRASH_AT).
//	The end of the history is the CRASH.
//
// Every case runs in its own two processes (the engine keeps global state):
//
//	child 1 (`corr c10rworker write <dir>`)   initOrgMetrics with <nShards> shards, executes the history through the
//	        repo's own entry points (EncodeDatapoint, the bodies of the timer loops copied textually from the source
//	        by overlaygen, CheckAndRotate), reports the observable state of every shard after every op, and exits
//	        without any shutdown code.
//	child 2 (`corr c10rworker recover <dir>`) same data dir: lists the WAL directory and reads every WAL file with the
//	        real reader, runs extractWALFileInfo, reads every block file (segment, block) through the real series
//	        reader, then — as cmd/startup does — RecoverWALData, RecoverMNameWALData, RecoverMEntryWALData, and reads
//	        everything again (+ .mnm files, metricmeta.json).
//
// Out (must equal the Lean model's answer, SigModel.WalRecover.sys…):
//
//	dir=<file>:<datapoints>,…  order=<group key>:<wal index>,…;…  disk=<shard>/<seg>/<blk>:<series>=<n>:<fnv64>,…;…
//	names=<shard>/<seg>:<name id>,…;…  meta=<shard>/<seg>:<blocks>:<datapoints>;…
//
// PropFail (independent of the model; the expectation is kept from what child 1 OBSERVED: a datapoint is
// "completed" when the buffer it sat in was handed to Wal.Append — dpIdx fell back — or when its block was rotated):
//
//	walrecover/completed-append-lost        a completed datapoint of the block that was open at the crash is missing
//	walrecover/replay-order                 same datapoints, different order within a series
//	walrecover/phantom-datapoints           datapoints that were never completed (or never written) came back
//	walrecover/rotated-block-damaged        a block file rotated before the crash differs after recovery
//	walrecover/replayed-into-wrong-segment  … and that block belongs to a segment that was not open at the crash, or a
//	                                        block appeared in such a segment
//	walrecover/metric-name-lost             a metric name whose name-WAL append / segment rotation completed is not in .mnm
//	walrecover/meta-entry-lost              a segment whose meta entry was written (rotation / meta WAL) is not in metricmeta.json
//	walrecover/meta-entry-older-than-rotation  a segment that was ROTATED before the crash ends with another entry than the one its
//	                                        rotation wrote (an older meta-WAL snapshot was replayed behind it: older time range,
//	                                        fewer blocks and datapoints — queries into the newer part of the segment miss it)
//	walrecover/wal-left-behind              .wal files remain after recovery

import (
	"bufio"
	"bytes"
	"encoding/binary"
	"encoding/json"
	"fmt"
	"hash/fnv"
	"io"
	"math"
	"math/rand"
	"os"
	"os/exec"
	"path/filepath"
	"regexp"
	"sort"
	"strconv"
	"strings"
	"sync"

	jp "github.com/buger/jsonparser"
	"github.com/cespare/xxhash"
	"github.com/siglens/siglens/pkg/config"
	"github.com/siglens/siglens/pkg/segment/memory/limit"
	"github.com/siglens/siglens/pkg/segment/reader/metrics/series"
	"github.com/siglens/siglens/pkg/segment/structs"
	sutils "github.com/siglens/siglens/pkg/segment/utils"
	"github.com/siglens/siglens/pkg/segment/writer/metrics"
	"github.com/siglens/siglens/pkg/segment/writer/metrics/meta"
	"github.com/siglens/siglens/pkg/segment/writer/metrics/wal"
	"github.com/siglens/siglens/pkg/utils"
	log "github.com/sirupsen/logrus"
)

func init() {
	if len(os.Args) >= 4 && os.Args[1] == "c10rworker" {
		log.SetOutput(io.Discard)
		log.SetLevel(log.PanicLevel)
		c10rWorkerMain(os.Args[2], os.Args[3])
		os.Exit(0)
	}
	if len(os.Args) >= 3 && os.Args[1] == "c10ringestfirst" {
		c10rIngestFirstWitness(os.Args[2])
		os.Exit(0)
	}
	register(&Suite{Name: "walrecover", Gen: genWalRecover, Exec: execWalRecover, Parallel: 5,
		Rule: "writer histories (1-3 series over 1-3 shards, WAL flushes, roll-overs incl. > 10 files per block, block and segment rotations, name/meta WAL flushes, single appends > 1 MB, a segment rotation after the last meta-WAL write) ended by a crash between two operations, inside a block rotation / a segment rotation (metric names of different lengths, some in the name WAL, some only buffered) / a meta-WAL write, or followed by a first restart that dies inside RecoverWALData / between the system calls of its flushBlock / inside RecoverMNameWALData; recovery by the real startup functions in a fresh process; distinct = sha1(op line); non-trivial = at least one completed datapoint"})
}

// ---------------------------------------------------------------- op line

type c10rOp struct {
	kind byte
	s    int // series / shard
	ts   uint32
	val  uint64
	roll bool
	seed uint64
	n, k int
	sub  byte // x ops: 'b', 'r', 'e', 'n', 'f', 's'
	m    int  // x ops: number of completed steps before the process dies
}

type c10rCase struct {
	nsh, cap int
	ser      []int
	bsh      int
	ops      []c10rOp
}

var c10rNum = regexp.MustCompile(`^[0-9]{1,10}$`)
var c10rHex16 = regexp.MustCompile(`^[0-9a-f]{16}$`)
var c10rNum20 = regexp.MustCompile(`^[0-9]{1,20}$`)

func c10rAtoi(s string) (int, bool) {
	if !c10rNum.MatchString(s) {
		return 0, false
	}
	n, err := strconv.Atoi(s)
	return n, err == nil
}

func c10rParse(line string) (*c10rCase, bool) {
	f := strings.Split(line, " ")
	if len(f) != 6 || f[0] != "walrecover" || !strings.HasPrefix(f[1], "sh=") || !strings.HasPrefix(f[2], "cap=") ||
		!strings.HasPrefix(f[3], "ser=") || !strings.HasPrefix(f[4], "bsh=") || !strings.HasPrefix(f[5], "ops=") {
		return nil, false
	}
	c := &c10rCase{}
	var ok bool
	if c.nsh, ok = c10rAtoi(f[1][3:]); !ok || c.nsh < 1 || c.nsh > 3 {
		return nil, false
	}
	if c.cap, ok = c10rAtoi(f[2][4:]); !ok || c.cap < 1 || c.cap > 1000000 {
		return nil, false
	}
	if f[3] != "ser=" {
		for _, t := range strings.Split(f[3][4:], ",") {
			v, ok := c10rAtoi(t)
			if !ok || v >= c.nsh {
				return nil, false
			}
			c.ser = append(c.ser, v)
		}
	}
	if len(c.ser) > 16 {
		return nil, false
	}
	if c.bsh, ok = c10rAtoi(f[4][4:]); !ok || c.bsh >= c.nsh {
		return nil, false
	}
	if f[5] == "ops=" {
		return c, true
	}
	for _, t := range strings.Split(f[5][4:], ";") {
		if t == "" {
			return nil, false
		}
		p := strings.Split(t[1:], ":")
		op := c10rOp{kind: t[0]}
		roll := func(s string) bool {
			if s != "0" && s != "1" {
				ok = false
			}
			return s == "1"
		}
		ok = true
		switch t[0] {
		case 'd':
			if len(p) != 4 || !c10rHex16.MatchString(p[2]) {
				return nil, false
			}
			var ts int
			var ok1, ok2 bool
			op.s, ok1 = c10rAtoi(p[0])
			ts, ok2 = c10rAtoi(p[1])
			if !ok1 || !ok2 || op.s >= len(c.ser) || ts > math.MaxUint32 {
				return nil, false
			}
			op.ts = uint32(ts)
			op.val, _ = strconv.ParseUint(p[2], 16, 64)
			op.roll = roll(p[3])
		case 'g':
			if len(p) != 5 || !c10rNum20.MatchString(p[0]) {
				return nil, false
			}
			sd, err := strconv.ParseUint(p[0], 10, 64)
			var ts int
			var ok1, ok2, ok3 bool
			op.n, ok1 = c10rAtoi(p[1])
			op.k, ok2 = c10rAtoi(p[2])
			ts, ok3 = c10rAtoi(p[3])
			if err != nil || !ok1 || !ok2 || !ok3 || op.n < 1 || op.n > 400000 || op.k < 1 || op.k > 5000 || ts+op.n > math.MaxUint32 {
				return nil, false
			}
			op.seed, op.ts = sd, uint32(ts)
			op.roll = roll(p[4])
		case 'f':
			if len(p) != 1 {
				return nil, false
			}
			op.roll = roll(p[0])
		case 'b', 'n', 'e':
			if t[1:] != "" {
				return nil, false
			}
		case 's':
			if len(p) != 1 {
				return nil, false
			}
			if op.s, ok = c10rAtoi(p[0]); !ok || op.s >= c.nsh {
				return nil, false
			}
		case 'x':
			if len(p) != 2 || len(p[0]) != 1 || !strings.Contains("brenfs", p[0]) || c.nsh != 1 {
				return nil, false
			}
			op.sub = p[0][0]
			if op.m, ok = c10rAtoi(p[1]); !ok || op.m < 1 || op.m > 1000 {
				return nil, false
			}
		default:
			return nil, false
		}
		if !ok {
			return nil, false
		}
		if len(c.ops) > 0 && c.ops[len(c.ops)-1].kind == 'x' {
			return nil, false // a crash op must be the last one
		}
		c.ops = append(c.ops, op)
	}
	return c, true
}

type c10rPt struct {
	sid int
	ts  uint32
	val uint64
}

const c10rLcgA, c10rLcgC = 6364136223846793005, 1442695040888963407

// the generated datapoints of a g op (the Lean model expands it with the same recurrence)
func c10rBulk(op c10rOp) []c10rPt {
	out := make([]c10rPt, op.n)
	x := op.seed
	for i := 0; i < op.n; i++ {
		x = x*c10rLcgA + c10rLcgC
		j := int((x >> 33) % uint64(op.k))
		x = x*c10rLcgA + c10rLcgC
		out[i] = c10rPt{sid: 1000 + j, ts: op.ts + uint32(i), val: 0x3FF0000000000000 | (x >> 12)}
	}
	return out
}

func c10rSeriesName(sid int) (mname string, tagK string, tagV string) {
	if sid >= 1000 {
		return "bulk", "i", strconv.Itoa(sid - 1000)
	}
	return "m" + strconv.Itoa(sid), "k", "v" + strconv.Itoa(sid)
}

func c10rNameID(mname string) int {
	if mname == "bulk" {
		return 999
	}
	if strings.HasPrefix(mname, "m") {
		if v, ok := c10rAtoi(mname[1:]); ok {
			return v
		}
	}
	return -1
}

// ---------------------------------------------------------------- digests

type c10rDigest struct {
	N   int        `json:"n"`
	Fnv uint64     `json:"fnv"`
	Sum uint64     `json:"sum"` // order-independent
	Pts [][]uint64 `json:"pts,omitempty"`
}

func c10rDigestOf(pts [][2]uint64) c10rDigest {
	h := fnv.New64a()
	var buf [12]byte
	d := c10rDigest{N: len(pts)}
	for _, p := range pts {
		binary.LittleEndian.PutUint32(buf[0:4], uint32(p[0]))
		binary.LittleEndian.PutUint64(buf[4:12], p[1])
		h.Write(buf[:])
		d.Sum += xxhash.Sum64(buf[:])
		if len(pts) <= 64 {
			d.Pts = append(d.Pts, []uint64{p[0], p[1]})
		}
	}
	d.Fnv = h.Sum64()
	return d
}

func (d c10rDigest) same(e c10rDigest) bool { return d.N == e.N && d.Fnv == e.Fnv }

// ---------------------------------------------------------------- worker

type c10rState struct {
	Op     int                      `json:"op"`
	Mid    string                   `json:"mid,omitempty"`  // shard that took the datapoint(s)
	Apps   []int                    `json:"apps,omitempty"` // indices (within the op) of datapoints before whose buffering the buffer was appended
	Pre    []metrics.VerifC10RShard `json:"pre"`
	Post   []metrics.VerifC10RShard `json:"post"`
	Err    string                   `json:"err,omitempty"`
	Tsids  map[string]uint64        `json:"tsids,omitempty"`
	Shards int                      `json:"shards,omitempty"`
}

func c10rInitConfig(dir string) error {
	cfg := config.GetTestConfig(dir + "/")
	cfg.SSInstanceName = "test"
	config.SetConfig(cfg)
	if err := config.InitDerivedConfig("test"); err != nil {
		return err
	}
	limit.InitMemoryLimiter()
	return meta.InitMetricsMeta()
}

func c10rWorkerMain(mode, dir string) {
	out := bufio.NewWriterSize(os.Stdout, 1<<20)
	emit := func(v interface{}) {
		b, _ := json.Marshal(v)
		out.Write(b)
		out.WriteByte('\n')
		out.Flush()
	}
	if err := c10rInitConfig(dir); err != nil {
		emit(map[string]string{"fatal": err.Error()})
		os.Exit(3)
	}
	in := bufio.NewReaderSize(os.Stdin, 1<<20)
	inb, _ := io.ReadAll(in)
	switch mode {
	case "write":
		c, ok := c10rParse(strings.TrimSpace(string(inb)))
		if !ok {
			emit(map[string]string{"fatal": "bad-op"})
			os.Exit(3)
		}
		c10rWrite(c, emit)
		// CRASH: no shutdown code, no deferred functions, open files are not closed
		os.Exit(0)
	case "recover":
		var tsids map[string]uint64
		if err := json.Unmarshal(inb, &tsids); err != nil {
			emit(map[string]string{"fatal": "tsids: " + err.Error()})
			os.Exit(3)
		}
		c10rRecover(tsids, emit)
	}
}

func c10rWrite(c *c10rCase, emit func(interface{})) {
	sutils.WAL_BLOCK_FLUSH_SIZE = c.cap
	n, err := metrics.VerifC10RInit(c.nsh)
	st0 := c10rState{Op: -1, Shards: n, Post: metrics.VerifC10RShards(), Tsids: map[string]uint64{}}
	if err != nil {
		st0.Err = err.Error()
	}
	tsidOf := map[int]uint64{}
	holder := func(sid int) ([]byte, *metrics.TagsHolder) {
		mn, k, v := c10rSeriesName(sid)
		th := metrics.GetTagsHolder()
		th.Insert(k, []byte(v), jp.String)
		return []byte(mn), th
	}
	for i := range c.ser {
		mn, th := holder(i)
		t, _ := th.GetTSID(mn)
		tsidOf[i] = t
		st0.Tsids[strconv.Itoa(i)] = t
	}
	for _, op := range c.ops {
		if op.kind == 'g' {
			for j := 0; j < op.k; j++ {
				if _, ok := tsidOf[1000+j]; !ok {
					mn, th := holder(1000 + j)
					t, _ := th.GetTSID(mn)
					tsidOf[1000+j] = t
					st0.Tsids[strconv.Itoa(1000+j)] = t
				}
			}
		}
	}
	emit(st0)
	if err != nil || n != c.nsh {
		return
	}
	shardOf := func(mname string) string { return fmt.Sprint(xxhash.Sum64([]byte(mname)) % uint64(n)) }
	dpIdx := func(mid string) uint64 {
		for _, s := range metrics.VerifC10RShards() {
			if s.Mid == mid {
				return s.DpIdx
			}
		}
		return 0
	}
	setRoll := func(r bool) {
		if r {
			sutils.MAX_WAL_FILE_SIZE_BYTES = 0
		} else {
			sutils.MAX_WAL_FILE_SIZE_BYTES = 1 << 62
		}
	}
	ingest := func(st *c10rState, idx int, p c10rPt) {
		mn, th := holder(p.sid)
		pre := dpIdx(st.Mid)
		if err := metrics.EncodeDatapoint(mn, th, math.Float64frombits(p.val), p.ts, 50, 0); err != nil && st.Err == "" {
			st.Err = err.Error()
		}
		if post := dpIdx(st.Mid); post != pre+1 {
			st.Apps = append(st.Apps, idx)
		}
	}
	for i, op := range c.ops {
		st := c10rState{Op: i, Pre: metrics.VerifC10RShards()}
		utils.VerifCrashNote(fmt.Sprintf("op %d", i))
		if op.kind == 'x' {
			switch op.sub {
			case 'b':
				metrics.VerifC10RMetricsFlushOnce() // may die inside (VERIF_CRASH_AT)
			case 'e':
				metrics.VerifC10RMetaEntryWalFlushOnce()
			case 's':
				if err := metrics.VerifC10RSegRotate("0"); err != nil { // may die inside (VERIF_CRASH_AT)
					st.Err = err.Error()
				}
			}
		}
		switch op.kind {
		case 'd':
			mn, _, _ := c10rSeriesName(op.s)
			st.Mid = shardOf(mn)
			setRoll(op.roll)
			ingest(&st, 0, c10rPt{sid: op.s, ts: op.ts, val: op.val})
		case 'g':
			st.Mid = shardOf("bulk")
			setRoll(op.roll)
			for j, p := range c10rBulk(op) {
				ingest(&st, j, p)
			}
		case 'f':
			setRoll(op.roll)
			metrics.VerifC10RWalDPSFlushOnce()
		case 'b':
			metrics.VerifC10RMetricsFlushOnce()
		case 's':
			if err := metrics.VerifC10RSegRotate(strconv.Itoa(op.s)); err != nil {
				st.Err = err.Error()
			}
		case 'n':
			metrics.VerifC10RMNameWalFlushOnce()
		case 'e':
			metrics.VerifC10RMetaEntryWalFlushOnce()
		}
		st.Post = metrics.VerifC10RShards()
		emit(st)
	}
}

type c10rWalFile struct {
	Name string `json:"name"`
	Size int64  `json:"size"`
	Dps  int    `json:"dps"`
	Err  string `json:"err,omitempty"`
}

type c10rBlock struct {
	Mid    string                `json:"mid"`
	Seg    uint64                `json:"seg"`
	Blk    int                   `json:"blk"`
	Series map[string]c10rDigest `json:"series"` // series id → digest
	Err    string                `json:"err,omitempty"`
}

type c10rRecovered struct {
	Fatal    string                    `json:"fatal,omitempty"`
	Dir      []c10rWalFile             `json:"dir"`
	Groups   []metrics.VerifC10RGroup  `json:"groups"`
	Before   []c10rBlock               `json:"before"`
	After    []c10rBlock               `json:"after"`
	Names    map[string][]string       `json:"names"` // "<mid>/<seg>" → metric names in .mnm
	Meta     map[string]map[string]int `json:"meta"`  // "<mid>/<seg>" → {blocks, dps}
	LeftWals []string                  `json:"leftwals"`
}

func c10rFinalTsDir() string { return config.GetDataPath() + config.GetHostID() + "/final/ts/" }

var c10rTsoRe = regexp.MustCompile(`^([0-9]+)_([0-9]+)\.tso$`)

func c10rReadBlocks(tsids map[string]uint64) []c10rBlock {
	var out []c10rBlock
	root := c10rFinalTsDir()
	mids, _ := os.ReadDir(root)
	type st struct {
		sid  string
		tsid uint64
	}
	var order []st
	for s, t := range tsids {
		order = append(order, st{s, t})
	}
	sort.Slice(order, func(i, j int) bool { return order[i].tsid < order[j].tsid })
	for _, m := range mids {
		if !m.IsDir() {
			continue
		}
		segs, _ := os.ReadDir(filepath.Join(root, m.Name()))
		for _, sg := range segs {
			if !sg.IsDir() {
				continue
			}
			files, _ := os.ReadDir(filepath.Join(root, m.Name(), sg.Name()))
			for _, f := range files {
				mm := c10rTsoRe.FindStringSubmatch(f.Name())
				if mm == nil || mm[1] != sg.Name() {
					continue
				}
				seg, _ := strconv.ParseUint(mm[1], 10, 64)
				blk, _ := strconv.Atoi(mm[2])
				b := c10rBlock{Mid: m.Name(), Seg: seg, Blk: blk, Series: map[string]c10rDigest{}}
				mKey := root + m.Name() + "/" + sg.Name() + "/" + sg.Name()
				func() {
					defer func() {
						if r := recover(); r != nil {
							b.Err = fmt.Sprintf("panic: %v", r)
						}
					}()
					rd, err := series.InitTimeSeriesReader(mKey)
					if err != nil {
						b.Err = err.Error()
						return
					}
					defer rd.Close()
					br, err := rd.InitReaderForBlock(uint16(blk), &structs.MetricsQueryProcessingMetrics{UpdateLock: &sync.Mutex{}})
					if err != nil {
						b.Err = err.Error()
						return
					}
					for _, s := range order {
						it, found, err := br.GetTimeSeriesIterator(s.tsid)
						if err != nil {
							b.Err = err.Error()
							return
						}
						if !found {
							continue
						}
						var pts [][2]uint64
						for it.Next() {
							t, v := it.At()
							pts = append(pts, [2]uint64{uint64(t), math.Float64bits(v)})
						}
						if e := it.Err(); e != nil && e != io.EOF {
							b.Err = "iterator: " + e.Error()
						}
						b.Series[s.sid] = c10rDigestOf(pts)
					}
				}()
				out = append(out, b)
			}
		}
	}
	sort.Slice(out, func(i, j int) bool {
		a, b := out[i], out[j]
		if a.Mid != b.Mid {
			return a.Mid < b.Mid
		}
		if a.Seg != b.Seg {
			return a.Seg < b.Seg
		}
		return a.Blk < b.Blk
	})
	return out
}

func c10rRecover(tsids map[string]uint64, emit func(interface{})) {
	var res c10rRecovered
	base := metrics.VerifC10RWalBaseDir()
	ents, _ := os.ReadDir(base)
	for _, e := range ents {
		if e.IsDir() {
			continue
		}
		wf := c10rWalFile{Name: e.Name()}
		if fi, err := e.Info(); err == nil {
			wf.Size = fi.Size()
		}
		it, err := wal.NewWALReader(filepath.Join(base, e.Name()))
		if err != nil {
			wf.Err = "open"
		} else {
			for {
				dp, err := it.Next()
				if err != nil {
					wf.Err = "read"
					break
				}
				if dp == nil {
					break
				}
				wf.Dps++
			}
			it.Close()
		}
		res.Dir = append(res.Dir, wf)
	}
	res.Groups, _ = metrics.VerifC10RExtractWALFileInfo(base)
	res.Before = c10rReadBlocks(tsids)
	emit(res) // line 1: the state found, before any recovery function ran
	res = c10rRecovered{}
	utils.VerifCrashNote("recover")

	if os.Getenv("VERIF_C10R_INGEST_FIRST") != "" {
		// WITNESS ONLY (`corr c10ringestfirst`): a datapoint is ingested before the recovery functions run — what cmd/startup
		// allowed while it started the ingest server before RecoverWALData (repair c10-7; the order is now tied by the
		// call-order fact C10R.startIngestServer.order).  The first datapoint of a process creates the shards: new WAL files in
		// the directory that is about to be replayed, and a new (truncated) metrics-meta WAL.
		th := metrics.GetTagsHolder()
		th.Insert("k", []byte("late"), jp.String)
		if err := metrics.EncodeDatapoint([]byte("mlate"), th, 1.0, 1700009999, 50, 0); err != nil {
			emit(map[string]string{"fatal": "ingest-first: " + err.Error()})
			os.Exit(3)
		}
	}

	// cmd/startup/startup.go startIngestServer
	metrics.RecoverWALData() // may die inside (VERIF_CRASH_AT)
	metrics.RecoverMNameWALData()
	metrics.RecoverMEntryWALData()

	res.After = c10rReadBlocks(tsids)
	res.Names = map[string][]string{}
	root := c10rFinalTsDir()
	mids, _ := os.ReadDir(root)
	for _, m := range mids {
		segs, _ := os.ReadDir(filepath.Join(root, m.Name()))
		for _, sg := range segs {
			mKey := root + m.Name() + "/" + sg.Name() + "/" + sg.Name()
			if _, err := os.Stat(mKey + ".mnm"); err != nil {
				continue
			}
			names, err := func() (m map[string]bool, err error) {
				defer func() { // the reader indexes past the end of a file with trailing bytes
					if r := recover(); r != nil {
						m, err = nil, fmt.Errorf("panic: %v", r)
					}
				}()
				return series.GetAllMetricNames(mKey)
			}()
			if err != nil {
				res.Names[m.Name()+"/"+sg.Name()] = []string{"error: " + err.Error()}
				continue
			}
			var l []string
			for n := range names {
				l = append(l, n)
			}
			sort.Strings(l)
			res.Names[m.Name()+"/"+sg.Name()] = l
		}
	}
	res.Meta = map[string]map[string]int{}
	if mm, err := meta.ReadMetricsMeta(meta.GetLocalMetricsMetaFName()); err == nil {
		for dir, e := range mm {
			p := strings.Split(strings.TrimSuffix(dir, "/"), "/")
			if len(p) < 3 {
				continue
			}
			res.Meta[p[len(p)-3]+"/"+p[len(p)-1]] = map[string]int{"blocks": int(e.NumBlocks), "dps": int(e.DatapointCount)}
		}
	}
	if left, err := os.ReadDir(base); err == nil {
		for _, e := range left {
			if !e.IsDir() {
				res.LeftWals = append(res.LeftWals, e.Name())
			}
		}
	}
	emit(res) // line 2
}

// ---------------------------------------------------------------- parent

// `corr c10ringestfirst '<op line>'`: the writer history of the op line, then a restart in which ONE datapoint is ingested
// before the recovery functions run, next to a restart without it.  Prints metricmeta.json and the WAL files left of both.
func c10rIngestFirstWitness(line string) {
	for _, first := range []string{"", "1"} {
		dir, _ := os.MkdirTemp("", "verifc10rw")
		o1, _, err := c10rRunChild("write", dir, []byte(line+"\n"))
		if err != nil {
			fmt.Println("writer failed:", err)
			return
		}
		states, _ := c10rParseStates(o1)
		tsb, _ := json.Marshal(states[0].Tsids)
		o2, _, err := c10rRunChild("recover", dir, tsb, "VERIF_C10R_INGEST_FIRST="+first)
		if err != nil {
			fmt.Println("restart failed:", err)
			return
		}
		_, s2, err := c10rParseRec(o2)
		if err != nil || s2 == nil {
			fmt.Println("restart output:", err)
			return
		}
		fmt.Printf("ingest before recovery=%q: metricmeta.json=%v  .wal files left=%v\n", first, s2.Meta, s2.LeftWals)
		os.RemoveAll(dir)
	}
}

type c10rKey struct {
	mid string
	seg uint64
	blk int
}

func (k c10rKey) String() string { return fmt.Sprintf("%s/%d/%d", k.mid, k.seg, k.blk) }

// runs one worker process; exit code 77 = the process died at the requested crash point (not an error)
func c10rRunChild(mode, dir string, stdin []byte, env ...string) (out []byte, died bool, err error) {
	exe, _ := os.Executable()
	cmd := exec.Command(exe, "c10rworker", mode, dir)
	cmd.Stdin = bytes.NewReader(stdin)
	cmd.Env = append(os.Environ(), env...)
	var stderr bytes.Buffer
	cmd.Stderr = &stderr
	out, err = cmd.Output()
	if ee, ok := err.(*exec.ExitError); ok && ee.ExitCode() == 77 {
		return out, true, nil
	}
	if err != nil {
		return out, false, fmt.Errorf("%v: %s", err, trunc(stderr.String(), 600))
	}
	return out, false, nil
}

// the global index of the crash point that is the m-th completed STEP after the note `after` in a crash log
// (0 = there are fewer than m steps).  A point "<n> <func>:<k>|<calls>" is a step when isStep(func, calls).
func c10rFindCrashPoint(logFile, after string, m int, isStep func(fn string, calls []string) bool) int {
	b, err := os.ReadFile(logFile)
	if err != nil {
		return 0
	}
	seen, cnt := false, 0
	for _, l := range strings.Split(string(b), "\n") {
		if l == after {
			seen = true
			continue
		}
		if !seen {
			continue
		}
		f := strings.SplitN(l, " ", 2)
		if len(f) != 2 {
			continue
		}
		n, err := strconv.Atoi(f[0])
		if err != nil {
			continue
		}
		lab := strings.SplitN(f[1], "|", 2)
		if len(lab) != 2 {
			continue
		}
		fn := lab[0][:strings.LastIndex(lab[0], ":")]
		if isStep(fn, strings.Split(lab[1], "+")) {
			cnt++
			if cnt == m {
				return n
			}
		}
	}
	return 0
}

func c10rHas(l []string, x string) bool {
	for _, y := range l {
		if y == x {
			return true
		}
	}
	return false
}

func c10rIsStep(sub byte) func(string, []string) bool {
	switch sub {
	case 'b':
		return func(fn string, calls []string) bool {
			return (fn == "rotateBlock" && c10rHas(calls, "flushBlock")) || (fn == "deleteDpWalFiles" && c10rHas(calls, "DeleteWAL")) ||
				(fn == "cleanAndInitNewDpWal" && c10rHas(calls, "initNewDpWal"))
		}
	case 'e':
		// Wal.Write: open <file>.tmp ; write version + block ; Sync ; Rename  (before the repair c10-4: truncate ; write —
		// "truncate" stays a step so that dying after an in-place truncation is exercised again should it come back)
		return func(fn string, calls []string) bool {
			return fn == "Write" && (c10rHas(calls, "truncate") || c10rHas(calls, "OpenFile") || c10rHas(calls, "writeBlockToFile") ||
				c10rHas(calls, "Sync") || c10rHas(calls, "Rename"))
		}
	case 'n':
		return func(fn string, calls []string) bool {
			return fn == "RecoverMNameWALData" && (c10rHas(calls, "deleteWalFile") || c10rHas(calls, "FlushMetricNames"))
		}
	case 's':
		// rotateSegment: FlushMetricNames ; (cleanAndInitNewDpWal:) one DeleteWAL per datapoint-WAL file, initNewDpWal ;
		// (cleanAndInitNewMNameWal:) DeleteWAL of the name WAL, initNewMNameWAL ; AddMetricsMetaEntry.  The block rotation that
		// CheckAndRotate runs first uses deleteDpWalFiles / cleanAndInitNewDpWal as well: counted only once rotateSegment has begun.
		begun := false
		return func(fn string, calls []string) bool {
			switch {
			case fn == "rotateSegment" && c10rHas(calls, "FlushMetricNames"):
				begun = true
				return true
			case !begun:
				return false
			case fn == "deleteDpWalFiles" && c10rHas(calls, "DeleteWAL"):
				return true
			case fn == "cleanAndInitNewDpWal" && c10rHas(calls, "initNewDpWal"):
				return true
			case fn == "deleteMNameWALFile" && c10rHas(calls, "DeleteWAL"):
				return true
			case fn == "cleanAndInitNewMNameWal" && c10rHas(calls, "initNewMNameWAL"):
				return true
			case fn == "rotateSegment" && c10rHas(calls, "AddMetricsMetaEntry"):
				return true
			}
			return false
		}
	case 'f':
		// the system calls of one flushBlock, in the order of the source: FlushSummary ; OpenFile ×2 ; the Writes that follow them
		// (the Writes before the OpenFiles go to memory buffers)
		opens := 0
		return func(fn string, calls []string) bool {
			switch {
			case fn == "flushBlock" && c10rHas(calls, "FlushSummary"):
				opens = 0
				return true
			case fn == "FlushTSOAndTSGFiles" && c10rHas(calls, "OpenFile"):
				opens++
				return true
			case fn == "FlushTSOAndTSGFiles" && opens >= 2 && c10rHas(calls, "Write"):
				return true
			}
			return false
		}
	default:
		return func(fn string, calls []string) bool {
			return fn == "RecoverWALData" && (c10rHas(calls, "deleteWalFile") || c10rHas(calls, "flushBlock"))
		}
	}
}

// crash ops that kill the FIRST RESTART (the writer dies between two ops as usual)
func c10rRestartCrash(sub byte) bool { return sub == 'r' || sub == 'n' || sub == 'f' }

func c10rParseStates(o []byte) ([]c10rState, error) {
	var states []c10rState
	sc := bufio.NewScanner(bytes.NewReader(o))
	sc.Buffer(make([]byte, 1<<20), 1<<28)
	for sc.Scan() {
		var st c10rState
		if err := json.Unmarshal(sc.Bytes(), &st); err != nil {
			return nil, err
		}
		states = append(states, st)
	}
	return states, nil
}

// the two lines a recovery process prints: before it runs the recovery functions, and after
func c10rParseRec(o []byte) (first, second *c10rRecovered, err error) {
	lines := bytes.Split(bytes.TrimSpace(o), []byte("\n"))
	for i, l := range lines {
		if len(bytes.TrimSpace(l)) == 0 {
			continue
		}
		var r c10rRecovered
		if err := json.Unmarshal(l, &r); err != nil {
			return nil, nil, err
		}
		if r.Fatal != "" {
			return nil, nil, fmt.Errorf("%s", r.Fatal)
		}
		if i == 0 {
			first = &r
		} else {
			second = &r
		}
	}
	return first, second, nil
}

func execWalRecover(line string) Result {
	c, ok := c10rParse(line)
	if !ok {
		return Result{Out: "bad-op"}
	}
	fail := func(what string, err interface{}) Result {
		return Result{Out: "worker-failed " + what, Nontrivial: true, Tags: []string{"worker-failed"},
			Fails: []PropFail{{Sig: "walrecover/worker-failed", Msg: trunc(fmt.Sprintf("%s: %v", what, err), 600)}}}
	}
	dir, err := os.MkdirTemp("", "verifc10r")
	if err != nil {
		return fail("mkdtemp", err)
	}
	defer os.RemoveAll(dir)
	var xop *c10rOp
	if n := len(c.ops); n > 0 && c.ops[n-1].kind == 'x' {
		xop = &c.ops[n-1]
	}
	crashed := false // the process really died inside the operation
	data := dir + "/d"
	_ = os.Mkdir(data, 0o755)
	var o1 []byte
	if xop != nil && !c10rRestartCrash(xop.sub) {
		// scratch run with the crash log: which crash point is the m-th completed step of the last op?
		scratch := dir + "/scratch"
		_ = os.Mkdir(scratch, 0o755)
		lg := dir + "/writer.log"
		oa, _, err := c10rRunChild("write", scratch, []byte(line+"\n"), "VERIF_CRASH_LOG="+lg)
		if err != nil {
			return fail("writer (scratch run)", err)
		}
		at := c10rFindCrashPoint(lg, fmt.Sprintf("op %d", len(c.ops)-1), xop.m, c10rIsStep(xop.sub))
		if at == 0 {
			o1, data = oa, scratch // fewer than m steps: the operation ran to its end
		} else {
			var died bool
			o1, died, err = c10rRunChild("write", data, []byte(line+"\n"), "VERIF_CRASH_AT="+strconv.Itoa(at))
			if err != nil || !died {
				return fail("writer", fmt.Sprintf("did not die at crash point %d: %v", at, err))
			}
			crashed = true
		}
	} else {
		o1, _, err = c10rRunChild("write", data, []byte(line+"\n"))
		if err != nil {
			return fail("writer", err)
		}
	}
	states, err := c10rParseStates(o1)
	if err != nil {
		return fail("writer output", err)
	}
	wantStates := len(c.ops) + 1
	if crashed {
		wantStates--
	}
	if len(states) != wantStates || states[0].Shards != c.nsh || states[0].Err != "" {
		return fail("writer", fmt.Sprintf("%d states for %d ops, shards=%d err=%q", len(states), len(c.ops), states[0].Shards, states[0].Err))
	}
	tsb, _ := json.Marshal(states[0].Tsids)
	var rec c10rRecovered
	if xop != nil && c10rRestartCrash(xop.sub) {
		scratch := dir + "/scratch"
		if out, err := exec.Command("cp", "-a", data, scratch).CombinedOutput(); err != nil {
			return fail("cp", fmt.Sprint(err, string(out)))
		}
		lg := dir + "/recover.log"
		if _, _, err := c10rRunChild("recover", scratch, tsb, "VERIF_CRASH_LOG="+lg); err != nil {
			return fail("recovery process (scratch run)", err)
		}
		at := c10rFindCrashPoint(lg, "recover", xop.m, c10rIsStep(xop.sub))
		var first *c10rRecovered
		if at != 0 {
			oc, died, err := c10rRunChild("recover", data, tsb, "VERIF_CRASH_AT="+strconv.Itoa(at))
			if err != nil || !died {
				return fail("recovery process", fmt.Sprintf("did not die at crash point %d: %v", at, err))
			}
			if first, _, err = c10rParseRec(oc); err != nil || first == nil {
				return fail("recovery output (first restart)", err)
			}
			crashed = true
		}
		o2, _, err := c10rRunChild("recover", data, tsb)
		if err != nil {
			return fail("recovery process", err)
		}
		f2, s2, err := c10rParseRec(o2)
		if err != nil || f2 == nil || s2 == nil {
			return fail("recovery output", err)
		}
		if first == nil {
			first = f2
		}
		rec = *s2
		rec.Dir, rec.Groups, rec.Before = first.Dir, first.Groups, first.Before
	} else {
		o2, _, err := c10rRunChild("recover", data, tsb)
		if err != nil {
			return fail("recovery process", err)
		}
		f2, s2, err := c10rParseRec(o2)
		if err != nil || f2 == nil || s2 == nil {
			return fail("recovery output", err)
		}
		rec = *s2
		rec.Dir, rec.Groups, rec.Before = f2.Dir, f2.Groups, f2.Before
	}
	crashClass := ""
	if crashed {
		crashClass = map[byte]string{'b': "crash-in-block-rotation/", 'r': "crash-in-recovery/", 'e': "crash-in-meta-write/",
			'n': "crash-in-name-recovery/", 'f': "crash-in-recovery-flush/", 's': "crash-in-segment-rotation/"}[xop.sub]
	}

	res := Result{}
	tag := func(t string) { res.Tags = append(res.Tags, t) }
	pf := func(sig, msg string) {
		sig = "walrecover/" + crashClass + sig
		for _, f := range res.Fails {
			if f.Sig == sig {
				return
			}
		}
		res.Fails = append(res.Fails, PropFail{Sig: sig, Msg: trunc(msg, 700)})
	}

	// ---- the expectation, from what the writer process observed
	type lab struct {
		key c10rKey
		p   c10rPt
	}
	pending := map[string][]lab{}
	completed := map[c10rKey]map[int][][2]uint64{}
	frozen := map[c10rKey]bool{}
	complete := func(mid string) {
		for _, l := range pending[mid] {
			if completed[l.key] == nil {
				completed[l.key] = map[int][][2]uint64{}
			}
			completed[l.key][l.p.sid] = append(completed[l.key][l.p.sid], [2]uint64{uint64(l.p.ts), l.p.val})
		}
		pending[mid] = nil
	}
	find := func(l []metrics.VerifC10RShard, mid string) metrics.VerifC10RShard {
		for _, s := range l {
			if s.Mid == mid {
				return s
			}
		}
		return metrics.VerifC10RShard{Mid: "?"}
	}
	// names: per (mid, seg): names seen (in the segment), names pending in the name WAL buffer, names completed
	type nkey struct {
		mid string
		seg uint64
	}
	seenNames := map[nkey]map[string]bool{}
	pendNames := map[string][]string{}
	doneNames := map[nkey]map[string]bool{}
	metaWant := map[nkey][2]int{} // entries that must be in metricmeta.json: blocks, dps
	var metaWal map[nkey][2]int
	nAppends, nRolls, nBlockRot, nSegRot := 0, 0, 0, 0
	maxWals := 0
	for i, op := range c.ops {
		if i+1 >= len(states) {
			break // the writer died inside this (last) op: nothing of it completed
		}
		st := states[i+1]
		if op.kind == 'x' { // the operation ran to its end (or xr: nothing happens in the writer)
			if c10rRestartCrash(op.sub) {
				continue
			}
			op.kind = map[byte]byte{'b': 'b', 'e': 'e', 's': 's'}[op.sub]
		}
		if st.Err != "" {
			return fail("writer op "+strconv.Itoa(i), st.Err)
		}
		for _, s := range st.Post {
			if s.NumWals > maxWals {
				maxWals = s.NumWals
			}
		}
		switch op.kind {
		case 'd', 'g':
			pts := []c10rPt{{sid: op.s, ts: op.ts, val: op.val}}
			if op.kind == 'g' {
				pts = c10rBulk(op)
			}
			pre := find(st.Pre, st.Mid)
			key := c10rKey{st.Mid, pre.Suffix, int(pre.CurrBlockNum)}
			nk := nkey{st.Mid, pre.Suffix}
			apps := map[int]bool{}
			for _, a := range st.Apps {
				apps[a] = true
			}
			nAppends += len(st.Apps)
			for j, p := range pts {
				if apps[j] {
					complete(st.Mid)
				}
				pending[st.Mid] = append(pending[st.Mid], lab{key, p})
				mn, _, _ := c10rSeriesName(p.sid)
				if seenNames[nk] == nil {
					seenNames[nk] = map[string]bool{}
				}
				if !seenNames[nk][mn] {
					seenNames[nk][mn] = true
					pendNames[st.Mid] = append(pendNames[st.Mid], mn)
				}
			}
		case 'f':
			for _, pre := range st.Pre {
				post := find(st.Post, pre.Mid)
				if pre.DpIdx > 0 && post.DpIdx == 0 {
					complete(pre.Mid)
					nAppends++
					if post.NumWals > pre.NumWals {
						nRolls++
					}
				}
			}
		case 'b', 's':
			for _, pre := range st.Pre {
				post := find(st.Post, pre.Mid)
				blockRotated := post.Suffix == pre.Suffix && post.CurrBlockNum > pre.CurrBlockNum
				segRotated := post.Suffix != pre.Suffix
				if segRotated && pre.BlkEncSize > 0 {
					blockRotated = true
				}
				if blockRotated {
					complete(pre.Mid)
					frozen[c10rKey{pre.Mid, pre.Suffix, int(pre.CurrBlockNum)}] = true
					nBlockRot++
				}
				if segRotated {
					nSegRot++
					nk := nkey{pre.Mid, pre.Suffix}
					doneNames[nk] = map[string]bool{}
					for n := range seenNames[nk] {
						doneNames[nk][n] = true
					}
					pendNames[pre.Mid] = nil
					blocks := int(pre.CurrBlockNum)
					if pre.BlkEncSize > 0 {
						blocks++
					}
					metaWant[nk] = [2]int{blocks, int(pre.DpCount)}
				}
			}
		case 'n':
			for _, pre := range st.Pre {
				post := find(st.Post, pre.Mid)
				if pre.PendNames > 0 && post.PendNames == 0 {
					nk := nkey{pre.Mid, pre.Suffix}
					if doneNames[nk] == nil {
						doneNames[nk] = map[string]bool{}
					}
					for _, n := range pendNames[pre.Mid] {
						doneNames[nk][n] = true
					}
					pendNames[pre.Mid] = nil
				}
			}
		case 'e':
			metaWal = map[nkey][2]int{}
			for _, s := range st.Post {
				metaWal[nkey{s.Mid, s.Suffix}] = [2]int{int(s.CurrBlockNum), int(s.DpCount)}
			}
		}
	}
	if crashed && xop.sub == 's' {
		// the writer died inside rotateSegment, after FlushMetricNames (its first step) had completed: every name of the
		// segment is in its .mnm file and must still be there after recovery
		for _, pre := range states[len(states)-1].Post {
			nk := nkey{pre.Mid, pre.Suffix}
			if doneNames[nk] == nil {
				doneNames[nk] = map[string]bool{}
			}
			for n := range seenNames[nk] {
				doneNames[nk][n] = true
			}
		}
	}
	last := states[len(states)-1].Post
	openSeg := map[string]uint64{}
	for _, s := range last {
		openSeg[s.Mid] = s.Suffix
	}

	// ---- Out: what is on disk
	var dirParts []string
	bigBlock := false
	for _, f := range rec.Dir {
		d := strconv.Itoa(f.Dps)
		if f.Err != "" {
			d += "!" + f.Err
		}
		dirParts = append(dirParts, f.Name+":"+d)
		if f.Size > 1<<20 {
			bigBlock = true
		}
	}
	var ordParts []string
	for _, g := range rec.Groups {
		var idx []string
		for _, fn := range g.Files {
			t := strings.TrimSuffix(fn, ".wal")
			idx = append(idx, t[strings.LastIndex(t, "_")+1:])
		}
		ordParts = append(ordParts, g.Key+":"+strings.Join(idx, ","))
	}
	midNum := func(s string) int { v, _ := strconv.Atoi(s); return v }
	sort.SliceStable(rec.After, func(i, j int) bool {
		a, b := rec.After[i], rec.After[j]
		if midNum(a.Mid) != midNum(b.Mid) {
			return midNum(a.Mid) < midNum(b.Mid)
		}
		if a.Seg != b.Seg {
			return a.Seg < b.Seg
		}
		return a.Blk < b.Blk
	})
	var diskParts []string
	for _, b := range rec.After {
		var sids []int
		for s := range b.Series {
			v, _ := strconv.Atoi(s)
			sids = append(sids, v)
		}
		sort.Ints(sids)
		var sp []string
		for _, s := range sids {
			d := b.Series[strconv.Itoa(s)]
			sp = append(sp, fmt.Sprintf("%d=%d:%016x", s, d.N, d.Fnv))
		}
		e := ""
		if b.Err != "" {
			e = "!" + b.Err
		}
		diskParts = append(diskParts, fmt.Sprintf("%s/%d/%d:%s%s", b.Mid, b.Seg, b.Blk, strings.Join(sp, ","), e))
	}
	type kv struct {
		mid, seg int
		s        string
	}
	sortKV := func(l []kv) []string {
		sort.Slice(l, func(i, j int) bool {
			if l[i].mid != l[j].mid {
				return l[i].mid < l[j].mid
			}
			return l[i].seg < l[j].seg
		})
		var o []string
		for _, x := range l {
			o = append(o, x.s)
		}
		return o
	}
	var nameKV, metaKV []kv
	for k, names := range rec.Names {
		p := strings.Split(k, "/")
		var ids []int
		for _, n := range names {
			ids = append(ids, c10rNameID(n))
		}
		sort.Ints(ids)
		var s []string
		for _, id := range ids {
			s = append(s, strconv.Itoa(id))
		}
		nameKV = append(nameKV, kv{midNum(p[0]), midNum(p[1]), k + ":" + strings.Join(s, ",")})
	}
	for k, m := range rec.Meta {
		p := strings.Split(k, "/")
		metaKV = append(metaKV, kv{midNum(p[0]), midNum(p[1]), fmt.Sprintf("%s:%d:%d", k, m["blocks"], m["dps"])})
	}
	res.Out = "dir=" + strings.Join(dirParts, ",") + " order=" + strings.Join(ordParts, ";") + " disk=" + strings.Join(diskParts, ";") +
		" names=" + strings.Join(sortKV(nameKV), ";") + " meta=" + strings.Join(sortKV(metaKV), ";")

	// ---- the property itself
	before := map[c10rKey]c10rBlock{}
	for _, b := range rec.Before {
		before[c10rKey{b.Mid, b.Seg, b.Blk}] = b
	}
	after := map[c10rKey]c10rBlock{}
	for _, b := range rec.After {
		after[c10rKey{b.Mid, b.Seg, b.Blk}] = b
	}
	digests := func(m map[int][][2]uint64) map[string]c10rDigest {
		o := map[string]c10rDigest{}
		for s, pts := range m {
			o[strconv.Itoa(s)] = c10rDigestOf(pts)
		}
		return o
	}
	describe := func(want, got c10rDigest) string {
		ts := func(d c10rDigest) string {
			if d.N > 64 {
				return "…"
			}
			var l []string
			for _, p := range d.Pts {
				l = append(l, strconv.FormatUint(p[0], 10))
			}
			return strings.Join(l, ",")
		}
		return fmt.Sprintf("timestamps in ingest order (n=%d): %s; after recovery (n=%d): %s", want.N, ts(want), got.N, ts(got))
	}
	anyCompleted := false
	var keys []c10rKey
	for k := range completed {
		keys = append(keys, k)
	}
	for k := range after {
		if _, ok := completed[k]; !ok {
			keys = append(keys, k)
		}
	}
	sort.Slice(keys, func(i, j int) bool { return keys[i].String() < keys[j].String() })
	for _, k := range keys {
		want := digests(completed[k])
		if len(want) > 0 {
			anyCompleted = true
		}
		got := after[k]
		if got.Err != "" {
			pf("block-unreadable", fmt.Sprintf("block %v after recovery: %s", k, got.Err))
			continue
		}
		wrongSeg := k.seg != openSeg[k.mid]
		if frozen[k] {
			// a block rotated before the crash: must hold exactly its datapoints before recovery (else the harness'
			// bookkeeping is off) and must not be changed by recovery
			bf := before[k]
			okBefore := len(bf.Series) == len(want)
			for s, w := range want {
				if !bf.Series[s].same(w) {
					okBefore = false
				}
			}
			if !okBefore {
				pf("rotated-block-wrong-before-recovery", fmt.Sprintf("block %v rotated before the crash does not hold the datapoints ingested into it (before recovery ran)", k))
				continue
			}
			same := len(got.Series) == len(bf.Series)
			for s, w := range bf.Series {
				if !got.Series[s].same(w) {
					same = false
				}
			}
			if !same {
				if wrongSeg {
					pf("replayed-into-wrong-segment", fmt.Sprintf("block %v of a segment that was closed before the crash (open segment of shard %s: %d) was rewritten by recovery", k, k.mid, openSeg[k.mid]))
				} else {
					pf("rotated-block-damaged", fmt.Sprintf("block %v was rotated before the crash and was changed by recovery", k))
				}
			}
			continue
		}
		hasPend := false
		if crashed && (xop.sub == 'b' || xop.sub == 's') {
			for _, l := range pending[k.mid] {
				if l.key == k {
					hasPend = true
				}
			}
		}
		if len(want) == 0 && len(got.Series) > 0 && !hasPend {
			if wrongSeg {
				pf("replayed-into-wrong-segment", fmt.Sprintf("recovery created block %v in a segment that was not open at the crash (open: %d)", k, openSeg[k.mid]))
			} else {
				pf("phantom-datapoints", fmt.Sprintf("recovery created block %v although no datapoint of it was completed", k))
			}
			continue
		}
		var sids []string
		for s := range want {
			sids = append(sids, s)
		}
		for s := range got.Series {
			if _, ok := want[s]; !ok {
				sids = append(sids, s)
			}
		}
		sort.Strings(sids)
		for _, s := range sids {
			w, g := want[s], got.Series[s]
			// datapoints that were only buffered when the writer died inside the block rotation: the block file written by
			// the interrupted rotation holds them, a block rebuilt from the WAL does not — both are accepted
			withPend := w
			if crashed && (xop.sub == 'b' || xop.sub == 's') {
				sid, _ := strconv.Atoi(s)
				pts := append([][2]uint64{}, completed[k][sid]...)
				for _, l := range pending[k.mid] {
					if l.key == k && l.p.sid == sid {
						pts = append(pts, [2]uint64{uint64(l.p.ts), l.p.val})
					}
				}
				withPend = c10rDigestOf(pts)
			}
			switch {
			case w.same(g) || withPend.same(g):
			case w.N == g.N && w.Sum == g.Sum:
				pf("replay-order", fmt.Sprintf("block %v series %s: the completed datapoints came back in a different order: %s", k, s, describe(w, g)))
			case g.N < w.N:
				pf("completed-append-lost", fmt.Sprintf("block %v series %s: %d of %d completed datapoints are missing after recovery: %s", k, s, w.N-g.N, w.N, describe(w, g)))
			default:
				pf("phantom-datapoints", fmt.Sprintf("block %v series %s: datapoints that were not completed (or never written) came back: %s", k, s, describe(w, g)))
			}
		}
	}
	for key, names := range rec.Names {
		// nothing but metric names that were ingested into the segment may be in its .mnm file, and the file must be readable
		var mid string
		var seg uint64
		if n, _ := fmt.Sscanf(strings.Replace(key, "/", " ", 1), "%s %d", &mid, &seg); n != 2 {
			continue
		}
		for _, n := range names {
			if strings.HasPrefix(n, "error: ") {
				pf("names-file-unreadable", fmt.Sprintf("the .mnm file of shard %s segment %d cannot be read after recovery: %s", mid, seg, n))
			} else if !seenNames[nkey{mid, seg}][n] {
				pf("phantom-metric-name", fmt.Sprintf("the .mnm file of shard %s segment %d holds %q after recovery, a name that was never ingested into that segment", mid, seg, trunc(n, 60)))
			}
		}
	}
	for nk, want := range doneNames {
		// (before the repair c10-5 the names of a segment none of whose datapoints is on disk were dropped: FlushMetricNames did
		// not create the segment directory, and the name WAL was deleted all the same)
		got := map[string]bool{}
		for _, n := range rec.Names[fmt.Sprintf("%s/%d", nk.mid, nk.seg)] {
			got[n] = true
		}
		for n := range want {
			if !got[n] {
				pf("metric-name-lost", fmt.Sprintf("metric name %q of shard %s segment %d (name-WAL append or segment rotation completed) is not in the .mnm file after recovery", n, nk.mid, nk.seg))
			}
		}
	}
	// segment metadata: every segment whose entry was written — at its rotation, or by the last completed write of
	// the meta WAL — must have an entry after recovery: the rotation entry if the segment was rotated (it is final; an
	// older meta-WAL snapshot replayed behind it must not win), else the meta-WAL one
	// the writer died inside a meta-WAL write: the snapshot that was being written (the shards as they were then) is
	// accepted as well — the process may have died right after the write became visible
	newSnap := func(nk nkey, got map[string]int) bool {
		if !(crashed && xop.sub == 'e') {
			return false
		}
		for _, sh := range last {
			if sh.Mid == nk.mid && sh.Suffix == nk.seg && got["blocks"] == int(sh.CurrBlockNum) && got["dps"] == int(sh.DpCount) {
				return true
			}
		}
		return false
	}
	// the writer died inside a segment rotation: when AddMetricsMetaEntry (its last step) had completed, the segment has
	// the entry of its rotation — accepted next to the meta-WAL one
	rotSnap := func(nk nkey, got map[string]int) bool {
		if !(crashed && xop.sub == 's') {
			return false
		}
		for _, sh := range last {
			blocks := int(sh.CurrBlockNum)
			if sh.BlkEncSize > 0 {
				blocks++
			}
			if sh.Mid == nk.mid && sh.Suffix == nk.seg && got["blocks"] == blocks && got["dps"] == int(sh.DpCount) {
				return true
			}
		}
		return false
	}
	metaKeys := map[nkey]bool{}
	for k := range metaWant {
		metaKeys[k] = true
	}
	for k := range metaWal {
		metaKeys[k] = true
	}
	for nk := range metaKeys {
		got, ok := rec.Meta[fmt.Sprintf("%s/%d", nk.mid, nk.seg)]
		rot, okR := metaWant[nk]
		wl, okW := metaWal[nk]
		if !ok {
			pf("meta-entry-lost", fmt.Sprintf("shard %s segment %d: its meta entry was written (rotation or meta WAL) but metricmeta.json has none after recovery", nk.mid, nk.seg))
		} else if okR && !(got["blocks"] == rot[0] && got["dps"] == rot[1]) && okW && got["blocks"] == wl[0] && got["dps"] == wl[1] {
			// the entry written by the rotation describes the whole segment; the meta WAL held an older state of it
			pf("meta-entry-older-than-rotation", fmt.Sprintf("shard %s segment %d was rotated with blocks=%d dps=%d, after recovery its meta entry is the older meta-WAL snapshot blocks=%d dps=%d (and its time range): queries into the newer part of the segment miss it", nk.mid, nk.seg, rot[0], rot[1], got["blocks"], got["dps"]))
		} else if !(okR && got["blocks"] == rot[0] && got["dps"] == rot[1]) && !(okW && got["blocks"] == wl[0] && got["dps"] == wl[1]) && !newSnap(nk, got) && !rotSnap(nk, got) {
			pf("meta-entry-lost", fmt.Sprintf("shard %s segment %d: meta entry after recovery blocks=%d dps=%d is none of the written ones (rotation %v %v, meta WAL %v %v)", nk.mid, nk.seg, got["blocks"], got["dps"], okR, rot, okW, wl))
		}
	}
	if len(rec.LeftWals) > 0 {
		pf("wal-left-behind", fmt.Sprintf("%d .wal files remain after recovery: %v", len(rec.LeftWals), rec.LeftWals))
	}

	res.Nontrivial = anyCompleted
	tag(fmt.Sprintf("shards=%d", c.nsh))
	switch {
	case maxWals >= 12:
		tag("walfiles>=12")
	case maxWals >= 2:
		tag("walfiles=2..11")
	default:
		tag("walfiles=1")
	}
	if len(rec.Dir) > 10 {
		tag("crash-with>10-walfiles")
	}
	if nBlockRot > 0 {
		tag("blockrot")
	}
	if nSegRot > 0 {
		tag(fmt.Sprintf("segrot=%d", nSegRot))
	}
	if nRolls > 0 {
		tag("rollover")
	}
	if bigBlock {
		tag("append>1MB")
	}
	if len(doneNames) > 0 {
		tag("names")
	}
	if metaWal != nil {
		tag("metawal")
	}
	_ = nAppends
	if xop != nil {
		t := "crash-op=x" + string(xop.sub)
		if crashed {
			t += "/died-inside"
		} else {
			t += "/ran-to-end"
		}
		tag(t)
	}
	return res
}

// ---------------------------------------------------------------- generator

func genWalRecover(r *rand.Rand, n int, tier string) []string {
	var out []string
	shardOf := func(name string, nsh int) int { return int(xxhash.Sum64([]byte(name)) % uint64(nsh)) }
	mk := func(nsh, cap, nser int, build func(ser []int, emit func(string), dp func(s int, roll bool) string)) string {
		ser := make([]string, nser)
		seri := make([]int, nser)
		for i := range ser {
			seri[i] = shardOf("m"+strconv.Itoa(i), nsh)
			ser[i] = strconv.Itoa(seri[i])
		}
		var ops []string
		clock := uint32(1700000000 + r.Intn(1000000))
		dp := func(s int, roll bool) string {
			clock += uint32(1 + r.Intn(40))
			v := math.Float64bits(float64(r.Intn(2000001)-1000000) / 16)
			rr := 0
			if roll {
				rr = 1
			}
			return fmt.Sprintf("d%d:%d:%016x:%d", s, clock, v, rr)
		}
		build(seri, func(o string) { ops = append(ops, o) }, dp)
		return fmt.Sprintf("walrecover sh=%d cap=%d ser=%s bsh=%d ops=%s", nsh, cap, strings.Join(ser, ","), shardOf("bulk", nsh), strings.Join(ops, ";"))
	}
	b2i := func(b bool) int {
		if b {
			return 1
		}
		return 0
	}
	for i := 0; i < n; i++ {
		switch {
		case i%25 == 3 || (tier == "thorough" && i%25 == 14):
			// ONE append whose compressed block is larger than 1 MB, alone or followed by more appends
			seed := r.Uint64()
			more := r.Intn(2) == 0
			out = append(out, mk(1, 400000, 1, func(_ []int, emit func(string), dp func(int, bool) string) {
				emit(fmt.Sprintf("g%d:%d:%d:%d:0", seed, 150000+r.Intn(20000), 1500+r.Intn(1000), 1700000000+r.Intn(1000)))
				emit("f0")
				if more {
					emit(dp(0, false))
					emit(dp(0, false))
					emit("f0")
				}
			}))
		case i%25 == 7 || i%25 == 19:
			// more than 10 WAL files for one block: `_10.wal` sorts before `_2.wal`
			nser := 1 + r.Intn(2)
			files := 11 + r.Intn(4)
			out = append(out, mk(1, 1000, nser, func(_ []int, emit func(string), dp func(int, bool) string) {
				for f := 0; f < files; f++ {
					for k := 0; k < 1+r.Intn(2); k++ {
						emit(dp(r.Intn(nser), false))
					}
					emit("f1")
				}
				if r.Intn(2) == 0 {
					emit(dp(0, false))
				}
			}))
		case i%25 == 23 || (tier == "thorough" && i%25 == 15):
			// a segment rotated AFTER the last meta-WAL write: the WAL still holds an older snapshot of that segment (fewer
			// blocks / datapoints, older time range) when the writer dies; the rotation entry must stay the segment's entry
			nsh := 1 + r.Intn(2)
			nser := 1 + r.Intn(2)
			out = append(out, mk(nsh, []int{1, 2, 1000}[r.Intn(3)], nser, func(ser []int, emit func(string), dp func(int, bool) string) {
				s0 := r.Intn(nser)
				emit(dp(s0, false))
				if r.Intn(2) == 0 {
					emit("b")
					emit(dp(s0, false))
				}
				emit("e")
				for k := 0; k < 1+r.Intn(3); k++ {
					emit(dp(s0, false))
					if r.Intn(3) == 0 {
						emit("b")
					}
				}
				emit(fmt.Sprintf("s%d", ser[s0]))
				if r.Intn(2) == 0 { // the new segment takes data before the crash (but no meta-WAL write)
					emit(dp(s0, false))
					emit("f0")
				}
			}))
		case i%25 == 9 || (tier == "thorough" && i%25 == 16):
			// the FIRST restart dies inside RecoverMNameWALData; names whose name-WAL append completed, with or without a
			// completed datapoint of their segment
			nser := 1 + r.Intn(3)
			out = append(out, mk(1, []int{1, 2, 1000}[r.Intn(3)], nser, func(_ []int, emit func(string), dp func(int, bool) string) {
				if r.Intn(3) == 0 { // an earlier segment
					emit(dp(r.Intn(nser), false))
					emit("s0")
				}
				for k := 0; k < 1+r.Intn(3); k++ {
					emit(dp(r.Intn(nser), false))
				}
				emit("n")
				if r.Intn(2) == 0 {
					emit("f0")
				}
				if r.Intn(3) == 0 {
					emit(dp(r.Intn(nser), false)) // possibly a new name that is only buffered
				}
				emit(fmt.Sprintf("xn:%d", 1+r.Intn(3)))
			}))
		case i%25 == 5 || i%25 == 13 || i%25 == 21 || i%25 == 17:
			// a crash INSIDE an operation (one shard): block rotation / first restart's RecoverWALData / meta-WAL write /
			// between the system calls of the first restart's flushBlock
			sub := map[int]string{5: "b", 13: "r", 21: "e", 17: "f"}[i%25]
			nser := 1 + r.Intn(2)
			out = append(out, mk(1, []int{2, 3, 1000}[r.Intn(3)], nser, func(_ []int, emit func(string), dp func(int, bool) string) {
				if r.Intn(2) == 0 { // an earlier rotated block / segment
					emit(dp(r.Intn(nser), false))
					emit([]string{"b", "s0"}[r.Intn(2)])
				}
				if sub == "e" {
					emit(dp(r.Intn(nser), false))
					emit("e")
				}
				files := 1 + r.Intn(3)
				for f := 0; f < files; f++ {
					for k := 0; k < 1+r.Intn(3); k++ {
						emit(dp(r.Intn(nser), false))
					}
					if f < files-1 {
						emit("f1")
					} else {
						emit(fmt.Sprintf("f%d", r.Intn(2)))
					}
				}
				if r.Intn(2) == 0 {
					emit(dp(r.Intn(nser), false)) // buffered only
				}
				m := 1 + r.Intn(files+3)
				if sub == "e" {
					m = 1 + r.Intn(5) // Wal.Write: OpenFile, writeBlockToFile, Sync, Rename
				}
				if sub == "f" {
					m = 1 + r.Intn(6) // FlushSummary, OpenFile ×2, Write ×2
				}
				emit(fmt.Sprintf("x%s:%d", sub, m))
			}))
		case i%25 == 1 || (tier == "thorough" && i%25 == 2):
			// the writer dies INSIDE a segment rotation (one shard), after m steps of rotateSegment: metric names of different
			// lengths (m<i>, bulk), some of them in the name WAL (n), some only buffered: after FlushMetricNames the .mnm file
			// holds them all, the name WAL fewer — recovery must end with exactly the names of the file
			nser := 1 + r.Intn(3)
			out = append(out, mk(1, []int{1, 2, 1000}[r.Intn(3)], nser, func(_ []int, emit func(string), dp func(int, bool) string) {
				bulk := func() {
					emit(fmt.Sprintf("g%d:%d:%d:%d:0", r.Uint64()>>1, 1+r.Intn(4), 1+r.Intn(2), 1700000000+r.Intn(1000000)))
				}
				if r.Intn(3) == 0 { // an earlier segment
					emit(dp(r.Intn(nser), false))
					emit("s0")
				}
				first := r.Intn(2) == 0
				if first {
					bulk()
				}
				for k := 0; k < 1+r.Intn(3); k++ {
					emit(dp(r.Intn(nser), false))
				}
				if r.Intn(4) != 0 {
					emit("n") // the names so far are in the name WAL
				}
				if r.Intn(2) == 0 {
					emit("f0")
				}
				if r.Intn(3) == 0 {
					emit("e")
				}
				if !first || r.Intn(2) == 0 { // names that are only buffered when the rotation starts
					if !first {
						bulk()
					}
					if r.Intn(2) == 0 {
						emit(dp(r.Intn(nser), false))
					}
				}
				emit(fmt.Sprintf("xs:%d", 1+r.Intn(7)))
			}))
		case i%25 == 11:
			// malformed
			bad := []string{"walrecover sh=0 cap=2 ser=0 bsh=0 ops=b", "walrecover sh=1 cap=0 ser=0 bsh=0 ops=b", "walrecover sh=4 cap=2 ser=0 bsh=0 ops=b",
				"walrecover sh=1 cap=2 ser=0 bsh=0 ops=q", "walrecover sh=1 cap=2 ser=0 bsh=0 ops=d1:1700000000:3ff0000000000000:0",
				"walrecover sh=1 cap=2 ser=0 bsh=1 ops=b", "walrecover sh=1 cap=2 ser=0 bsh=0", "walrecover sh=2 cap=2 ser=0,2 bsh=0 ops=b",
				"walrecover sh=1 cap=2 ser=0 bsh=0 ops=f2", "walrecover sh=1 cap=2 ser=0 bsh=0 ops=s1", "walrecover sh=1 cap=2 ser=0 bsh=0 ops=b;;b",
				"walrecover sh=1 cap=2 ser=0 bsh=0 ops=xb:1;b", "walrecover sh=2 cap=2 ser=0 bsh=0 ops=xb:1", "walrecover sh=2 cap=2 ser=0 bsh=0 ops=xn:1", "walrecover sh=1 cap=2 ser=0 bsh=0 ops=xf:0", "walrecover sh=1 cap=2 ser=0 bsh=0 ops=xq:1", "walrecover sh=1 cap=2 ser=0 bsh=0 ops=xb:0"}
			out = append(out, bad[r.Intn(len(bad))])
		default:
			nsh := 1 + r.Intn(3)
			nser := 1 + r.Intn(3)
			cap := []int{1, 2, 3, 5, 1000}[r.Intn(5)]
			length := 8 + r.Intn(50)
			rollBias := r.Intn(3) // 0: never, 1: sometimes, 2: often
			segRots := 1 + r.Intn(2)
			out = append(out, mk(nsh, cap, nser, func(ser []int, emit func(string), dp func(int, bool) string) {
				roll := func() bool { return rollBias > 0 && r.Intn(4) < rollBias*2-1 }
				for j := 0; j < length; j++ {
					x := r.Intn(100)
					switch {
					case x < 58:
						emit(dp(r.Intn(nser), roll()))
					case x < 76:
						emit(fmt.Sprintf("f%d", b2i(roll())))
					case x < 84:
						emit("b")
					case x < 88 && segRots > 0:
						segRots--
						emit(fmt.Sprintf("s%d", ser[r.Intn(nser)]))
					case x < 94:
						emit("n")
					default:
						emit("e")
					}
				}
				// make sure something is completed at the end in most cases
				if r.Intn(3) > 0 {
					emit(dp(r.Intn(nser), false))
					emit("f0")
				}
				if r.Intn(3) == 0 {
					emit(dp(r.Intn(nser), false)) // a buffered datapoint that is lost by the crash
				}
			}))
		}
	}
	return out
}
