package main

import (
	"bufio"
	"bytes"
	"encoding/json"
	"fmt"
	"io"
	"math"
	"math/rand"
	"os"
	"os/exec"
	"runtime/debug"
	"sort"
	"strconv"
	"strings"
	"time"

	"github.com/siglens/siglens/pkg/segment/tracing/handler"
	"github.com/siglens/siglens/pkg/segment/tracing/structs"
	tutils "github.com/siglens/siglens/pkg/segment/tracing/utils"
)

// suite "trace" (C12 kernels).  span = id:parent:service:start:end:err ; parent 0 = "", parent `-` = no
// entry in idToParentId; span list joined by `;`, `-` = empty.
//   trace tree <pick> <spans>   BuildSpanTree on the maps built from the list (last one wins)
//   trace pct <p> <v,v,..|->    FindPercentileData[uint64]
//   trace qsel <k> <v,v,..>     quickSelect[uint64] (via overlay)
//   trace dep <spans>           fold of MakeTracesDependancyGraph (statements copied by cmd/overlaygen)
//   trace red <spans>           fold of ProcessRedTracesIngest   (statements copied by cmd/overlaygen)

func init() {
	register(&Suite{Name: "trace", Gen: genTrace, Exec: execTrace,
		Rule: "span forests (1..300 spans, thorough: up to 3000; chains, stars, random trees, 1..5 services, equal/ skewed start times) " +
			"well-formed or with duplicates / missing parents / several roots / no root / 2-cycles / self-parents / long cycles / missing map entries, " +
			"fed to BuildSpanTree, the dependency fold and the RED fold; value arrays (1..400, thorough 3000; duplicates, sorted, reversed) fed to " +
			"FindPercentileData (p 0..100 and beyond) and quickSelect (every k class); non-trivial = ≥ 3 spans / ≥ 3 values"})
}

type tspan struct {
	id, parent uint64
	noEntry    bool
	svc        uint64
	start, end uint64
	err        bool
}

func (s tspan) String() string {
	p := strconv.FormatUint(s.parent, 10)
	if s.noEntry {
		p = "-"
	}
	e := 0
	if s.err {
		e = 1
	}
	return fmt.Sprintf("%d:%s:%d:%d:%d:%d", s.id, p, s.svc, s.start, s.end, e)
}

func idStr(id uint64) string {
	if id == 0 {
		return ""
	}
	return fmt.Sprintf("%016x", id)
}

func svcStr(s uint64) string { return "s" + strconv.FormatUint(s, 10) }

func svcNum(s string) uint64 {
	n, _ := strconv.ParseUint(strings.TrimPrefix(s, "s"), 10, 64)
	return n
}

func parseTSpans(s string) ([]tspan, bool) {
	if s == "-" {
		return nil, true
	}
	var out []tspan
	for _, t := range strings.Split(s, ";") {
		f := strings.Split(t, ":")
		if len(f) != 6 {
			return nil, false
		}
		var sp tspan
		var err error
		if sp.id, err = strconv.ParseUint(f[0], 10, 64); err != nil {
			return nil, false
		}
		if f[1] == "-" {
			sp.noEntry = true
		} else if sp.parent, err = strconv.ParseUint(f[1], 10, 64); err != nil {
			return nil, false
		}
		if sp.svc, err = strconv.ParseUint(f[2], 10, 64); err != nil {
			return nil, false
		}
		if sp.start, err = strconv.ParseUint(f[3], 10, 64); err != nil {
			return nil, false
		}
		if sp.end, err = strconv.ParseUint(f[4], 10, 64); err != nil {
			return nil, false
		}
		switch f[5] {
		case "0":
		case "1":
			sp.err = true
		default:
			return nil, false
		}
		out = append(out, sp)
	}
	return out, true
}

func parseVals(s string) ([]uint64, bool) {
	if s == "-" {
		return []uint64{}, true
	}
	var out []uint64
	for _, t := range strings.Split(s, ",") {
		v, err := strconv.ParseUint(t, 10, 64)
		if err != nil || v >= 1<<63 {
			return nil, false
		}
		out = append(out, v)
	}
	return out, true
}

func showVals(v []uint64) string {
	if len(v) == 0 {
		return "-"
	}
	s := make([]string, len(v))
	for i, x := range v {
		s[i] = strconv.FormatUint(x, 10)
	}
	return strings.Join(s, ",")
}

func sizeClass(n int) string {
	switch {
	case n <= 1:
		return "n<=1"
	case n < 5:
		return "n<5"
	case n < 25:
		return "n<25"
	case n < 200:
		return "n<200"
	default:
		return "n>=200"
	}
}

// The selection / percentile / RED kernels can recurse without bound when the pivot rule is wrong (Go's
// "fatal error: stack overflow" cannot be recovered and would take the whole suite down): their op lines run in a
// child process (`corr c12kworker x`, stack capped at 64 MB) that is restarted after a crash, so that a crash or a
// hang is a property violation with the op line as its witness.
func execTrace(line string) Result {
	f := strings.Fields(line)
	if len(f) >= 2 && f[0] == "trace" && (f[1] == "pct" || f[1] == "qsel" || f[1] == "red") && os.Getenv("VERIF_C12_INPROC") == "" {
		return c12kCall(line)
	}
	return execTraceLocal(line)
}

type c12kChild struct {
	cmd *exec.Cmd
	in  io.WriteCloser
	out *bufio.Reader
}

var c12kProc *c12kChild

func c12kStart() *c12kChild {
	exe, _ := os.Executable()
	cmd := exec.Command(exe, "c12kworker", "x")
	in, err1 := cmd.StdinPipe()
	out, err2 := cmd.StdoutPipe()
	if err1 != nil || err2 != nil || cmd.Start() != nil {
		return nil
	}
	return &c12kChild{cmd: cmd, in: in, out: bufio.NewReaderSize(out, 1<<20)}
}

func c12kCall(line string) Result {
	if c12kProc == nil {
		c12kProc = c12kStart()
		if c12kProc == nil {
			return execTraceLocal(line)
		}
	}
	p := c12kProc
	type ans struct {
		b   []byte
		err error
	}
	ch := make(chan ans, 1)
	go func() {
		if _, err := io.WriteString(p.in, line+"\n"); err != nil {
			ch <- ans{nil, err}
			return
		}
		b, err := p.out.ReadBytes('\n')
		ch <- ans{b, err}
	}()
	what := ""
	select {
	case a := <-ch:
		if a.err == nil {
			var r Result
			if json.Unmarshal(a.b, &r) == nil {
				return r
			}
			what = "garbled answer"
		} else {
			what = "the process died (stack overflow / fatal error)"
		}
	case <-time.After(60 * time.Second):
		what = "no answer within 60 s"
	}
	_ = p.cmd.Process.Kill()
	_ = p.cmd.Wait()
	c12kProc = nil
	f := strings.Fields(line)
	cls := "?"
	if len(f) >= 4 {
		if v, ok := parseVals(f[3]); ok {
			cls = valClass(v)
		}
	}
	return Result{Out: "crash", Nontrivial: true, Tags: []string{f[1] + "/crash"},
		Fails: []PropFail{{Sig: "trace-" + f[1] + "/crash-or-hang", Msg: fmt.Sprintf("%s on %s: %s", f[1], cls, what)}}}
}

func c12kWorkerMain() {
	debug.SetMaxStack(64 << 20)
	in := bufio.NewScanner(os.Stdin)
	in.Buffer(make([]byte, 1<<20), 1<<28)
	out := bufio.NewWriter(os.Stdout)
	for in.Scan() {
		r := func() (res Result) {
			defer func() {
				if e := recover(); e != nil {
					res = Result{Out: "panic", Fails: []PropFail{{Sig: "trace-panic", Msg: fmt.Sprint(e)}}, Nontrivial: true, Tags: []string{"panic"}}
				}
			}()
			return execTraceLocal(in.Text())
		}()
		b, _ := json.Marshal(r)
		out.Write(b)
		out.WriteByte('\n')
		out.Flush()
	}
}

func execTraceLocal(line string) Result {
	f := strings.Fields(line)
	if len(f) < 2 || f[0] != "trace" {
		return Result{Out: "bad-op"}
	}
	switch {
	case f[1] == "tree" && len(f) == 4:
		pick, err := strconv.ParseUint(f[2], 10, 64)
		sp, ok := parseTSpans(f[3])
		if err != nil || !ok {
			return Result{Out: "bad-op"}
		}
		return execTree(pick, sp)
	case f[1] == "pct" && len(f) == 4:
		p, err := strconv.ParseUint(f[2], 10, 31)
		v, ok := parseVals(f[3])
		if err != nil || !ok {
			return Result{Out: "bad-op"}
		}
		return execPct(int(p), v)
	case f[1] == "qsel" && len(f) == 4:
		k, err := strconv.ParseUint(f[2], 10, 31)
		v, ok := parseVals(f[3])
		if err != nil || !ok || int(k) >= len(v) {
			return Result{Out: "bad-op"}
		}
		return execQsel(int(k), v)
	case (f[1] == "dep" || f[1] == "red") && len(f) == 3:
		sp, ok := parseTSpans(f[2])
		if !ok {
			return Result{Out: "bad-op"}
		}
		for _, s := range sp {
			if s.noEntry {
				return Result{Out: "bad-op"}
			}
		}
		if f[1] == "dep" {
			return execDep(sp)
		}
		return execRed(sp)
	}
	return Result{Out: "bad-op"}
}

// ---------------------------------------------------------------- tree

// the final content of the two maps (last one wins), as plain data
func lastWins(sp []tspan) []tspan {
	idx := map[uint64]int{}
	var out []tspan
	for _, s := range sp {
		if i, ok := idx[s.id]; ok {
			out[i] = s
		} else {
			idx[s.id] = len(out)
			out = append(out, s)
		}
	}
	return out
}

func mkMaps(m []tspan) (map[string]*structs.GanttChartSpan, map[string]string, map[*structs.GanttChartSpan]uint64) {
	spanMap := make(map[string]*structs.GanttChartSpan, 0)
	idToParent := make(map[string]string, 0)
	back := make(map[*structs.GanttChartSpan]uint64, len(m))
	for _, s := range m {
		g := &structs.GanttChartSpan{SpanID: idStr(s.id), StartTime: s.start, EndTime: s.end, Duration: s.end - s.start,
			ServiceName: svcStr(s.svc), OperationName: "op", Status: "STATUS_CODE_OK", Tags: map[string]interface{}{}}
		spanMap[g.SpanID] = g
		back[g] = s.id
		if !s.noEntry {
			idToParent[g.SpanID] = idStr(s.parent)
		}
	}
	return spanMap, idToParent, back
}

// shape of the input as the property statement sees it
func treeShape(orig, m []tspan) (shape string, wellFormed bool) {
	byID := map[uint64]tspan{}
	for _, s := range m {
		byID[s.id] = s
	}
	var flags []string
	if len(orig) != len(m) {
		flags = append(flags, "dup-id")
	}
	roots, noEntry, missing, zero := 0, 0, 0, 0
	for _, s := range m {
		if s.id == 0 {
			zero++
		}
		if s.noEntry {
			noEntry++
			continue
		}
		if s.parent == 0 {
			roots++
		} else if _, ok := byID[s.parent]; !ok {
			missing++
		}
	}
	if zero > 0 {
		flags = append(flags, "empty-id")
	}
	if noEntry > 0 {
		flags = append(flags, "no-map-entry")
	}
	if roots == 0 {
		flags = append(flags, "no-root")
	}
	if roots > 1 {
		flags = append(flags, "multi-root")
	}
	if missing > 0 {
		flags = append(flags, "missing-parent")
	}
	// cycles: follow parents at most len(m) steps
	cyc := false
	for _, s := range m {
		cur := s
		steps := 0
		for !cur.noEntry && cur.parent != 0 {
			nx, ok := byID[cur.parent]
			if !ok {
				break
			}
			cur = nx
			steps++
			if steps > len(m) {
				cyc = true
				break
			}
		}
		if cyc {
			break
		}
	}
	if cyc {
		flags = append(flags, "cycle")
	}
	if len(flags) == 0 {
		return "wellformed", true
	}
	return strings.Join(flags, "+"), false
}

func execTree(pick uint64, orig []tspan) Result {
	m := lastWins(orig)
	shape, wf := treeShape(orig, m)
	res := Result{Nontrivial: len(m) >= 3, Tags: []string{"tree", "tree/" + shape, "tree/" + sizeClass(len(m))}}
	// candidates in (start,id) order — which one the code takes depends on Go's map iteration order
	var cands []tspan
	for _, s := range m {
		if !s.noEntry && s.parent == 0 {
			cands = append(cands, s)
		}
	}
	sort.Slice(cands, func(i, j int) bool {
		if cands[i].start != cands[j].start {
			return cands[i].start < cands[j].start
		}
		return cands[i].id < cands[j].id
	})
	var root *structs.GanttChartSpan
	var err error
	var spanMap map[string]*structs.GanttChartSpan
	var back map[*structs.GanttChartSpan]uint64
	tries := 0
	for {
		tries++
		var idToParent map[string]string
		spanMap, idToParent, back = mkMaps(m)
		root, err = tutils.BuildSpanTree(spanMap, idToParent)
		if len(cands) <= 1 {
			break
		}
		want := cands[pick%uint64(len(cands))]
		if (err != nil && want.id == 0) || (err == nil && root != nil && back[root] == want.id && want.id != 0) {
			break
		}
		if tries >= 5000 {
			// cannot steer the map order to the requested candidate: not a statement about the code
			return Result{Out: "pick-unreachable", Tags: []string{"tree/pick-unreachable"}}
		}
	}
	if tries > 1 {
		res.Tags = append(res.Tags, "tree/retried-for-pick")
	}
	if err != nil || root == nil {
		res.Out = "root=none err=1"
		if wf {
			res.Fails = append(res.Fails, PropFail{Sig: "trace-tree/wellformed-error", Msg: fmt.Sprintf("well-formed trace of %d spans rejected: %v", len(m), err)})
		}
		return res
	}
	// cycle-safe walk over the real pointer graph
	type edge struct{ p, c uint64 }
	var view []edge
	seen := map[*structs.GanttChartSpan]int{}
	dupSeen := false
	type frame struct {
		n *structs.GanttChartSpan
		p uint64
		d int
	}
	stack := []frame{{root, 0, 0}}
	for len(stack) > 0 {
		fr := stack[len(stack)-1]
		stack = stack[:len(stack)-1]
		seen[fr.n]++
		if seen[fr.n] > 1 {
			dupSeen = true
			if seen[fr.n] > 2 || fr.d > len(m)+1 {
				continue
			}
		}
		id, known := back[fr.n]
		if !known {
			res.Fails = append(res.Fails, PropFail{Sig: "trace-tree/foreign-span", Msg: "the tree contains a span that is not in the span map: " + fr.n.SpanID})
		}
		view = append(view, edge{fr.p, id})
		if seen[fr.n] > 1 {
			continue // do not expand twice
		}
		for i := len(fr.n.Children) - 1; i >= 0; i-- {
			stack = append(stack, frame{fr.n.Children[i], id, fr.d + 1})
		}
	}
	// marshal as the handler does, under a timeout
	type mres struct {
		b   []byte
		err error
	}
	ch := make(chan mres, 1)
	go func() {
		defer func() {
			if r := recover(); r != nil {
				ch <- mres{nil, fmt.Errorf("panic: %v", r)}
			}
		}()
		b, e := json.Marshal(root)
		ch <- mres{b, e}
	}()
	marshal := "ok"
	select {
	case mr := <-ch:
		if mr.err != nil {
			marshal = "err"
		} else if c := bytes.Count(mr.b, []byte(`"span_id":`)); c != len(view) {
			res.Fails = append(res.Fails, PropFail{Sig: "trace-tree/marshal-count", Msg: fmt.Sprintf("JSON body has %d spans, a walk over Children visits %d", c, len(view))})
		}
	case <-time.After(20 * time.Second):
		marshal = "hang"
		res.Fails = append(res.Fails, PropFail{Sig: "trace-tree/" + shape + "/marshal-hang", Msg: "json.Marshal of the returned tree did not return within 20 s"})
	}
	res.Tags = append(res.Tags, "tree/marshal="+marshal)
	// canonical answer
	var vs []string
	for _, e := range view {
		vs = append(vs, fmt.Sprintf("%d>%d", e.p, e.c))
	}
	srt := append([]tspan(nil), m...)
	sort.Slice(srt, func(i, j int) bool {
		if srt[i].start != srt[j].start {
			return srt[i].start < srt[j].start
		}
		return srt[i].id < srt[j].id
	})
	var ns []string
	for _, s := range srt {
		g := spanMap[idStr(s.id)]
		a := 0
		if g.IsAnomalous {
			a = 1
		}
		ns = append(ns, fmt.Sprintf("%d:%d:%d:%d:%d", s.id, g.ActualStartTime, g.StartTime, g.EndTime, a))
	}
	res.Out = fmt.Sprintf("root=%d err=0 view=%s nodes=%s", back[root], strings.Join(vs, ","), strings.Join(ns, ";"))
	// the property itself
	byID := map[uint64]tspan{}
	for _, s := range m {
		byID[s.id] = s
	}
	if dupSeen {
		res.Fails = append(res.Fails, PropFail{Sig: "trace-tree/" + shape + "/span-rendered-twice", Msg: "a span is reachable twice from the root"})
	}
	for _, e := range view[1:] {
		if c, ok := byID[e.c]; ok && (c.noEntry || c.parent != e.p) {
			res.Fails = append(res.Fails, PropFail{Sig: "trace-tree/" + shape + "/child-under-wrong-parent", Msg: fmt.Sprintf("span %d is listed beneath %d, its parent is %d", e.c, e.p, c.parent)})
			break
		}
	}
	if wf {
		if len(view) != len(m) {
			res.Fails = append(res.Fails, PropFail{Sig: "trace-tree/wellformed-span-count", Msg: fmt.Sprintf("well-formed trace of %d spans rendered with %d spans", len(m), len(view))})
		}
		if marshal == "err" {
			res.Fails = append(res.Fails, PropFail{Sig: "trace-tree/wellformed-marshal-error", Msg: "json.Marshal failed on the tree of a well-formed trace"})
		}
	}
	return res
}

// ---------------------------------------------------------------- percentiles

func f64bits(x float64) string { return fmt.Sprintf("%016x", math.Float64bits(x)) }

// the documented formula on the sorted array
func refPercentile(vals []uint64, p int) float64 {
	if len(vals) == 0 || p > 100 || p < 0 {
		return 0
	}
	s := append([]uint64(nil), vals...)
	sort.Slice(s, func(i, j int) bool { return s[i] < s[j] })
	k := float64(p*(len(s)-1)) / 100
	fk, ck := int(math.Floor(k)), int(math.Ceil(k))
	if fk == ck {
		return float64(s[fk])
	}
	lower, upper := float64(s[fk]), float64(s[ck])
	return lower + (upper-lower)*(k-float64(fk))
}

func valClass(v []uint64) string {
	d := map[uint64]bool{}
	for _, x := range v {
		d[x] = true
	}
	c := "distinct"
	if len(d) == 1 && len(v) > 1 {
		c = "all-equal"
	} else if len(d) < len(v) {
		c = "with-duplicates"
	}
	return sizeClass(len(v)) + "/" + c
}

func execPct(p int, vals []uint64) Result {
	res := Result{Nontrivial: len(vals) >= 3, Tags: []string{"pct", "pct/" + valClass(vals)}}
	if p > 100 {
		res.Tags = append(res.Tags, "pct/p>100")
	}
	arr := append([]uint64{}, vals...)
	got := tutils.FindPercentileData(arr, p)
	res.Out = "v=" + f64bits(got) + " arr=" + showVals(arr)
	if want := refPercentile(vals, p); math.Float64bits(want) != math.Float64bits(got) {
		res.Fails = append(res.Fails, PropFail{Sig: "trace-pct/" + valClass(vals), Msg: fmt.Sprintf("p%d of %d values: got %v, the sorted array gives %v", p, len(vals), got, want)})
	}
	return res
}

func execQsel(k int, vals []uint64) Result {
	res := Result{Nontrivial: len(vals) >= 3, Tags: []string{"qsel", "qsel/" + valClass(vals)}}
	arr := append([]uint64{}, vals...)
	got := tutils.VerifQuickSelect(arr, k)
	res.Out = fmt.Sprintf("v=%d arr=%s", got, showVals(arr))
	s := append([]uint64(nil), vals...)
	sort.Slice(s, func(i, j int) bool { return s[i] < s[j] })
	if s[k] != got {
		res.Fails = append(res.Fails, PropFail{Sig: "trace-pct/qsel/" + valClass(vals), Msg: fmt.Sprintf("quickSelect(k=%d) of %d values = %d, sorted[k] = %d", k, len(vals), got, s[k])})
	}
	return res
}

// ---------------------------------------------------------------- dependency graph / RED folds

func mkSpans(sp []tspan) []*structs.Span {
	out := make([]*structs.Span, 0, len(sp))
	for _, s := range sp {
		st := "STATUS_CODE_OK"
		if s.err {
			st = string(structs.Status_STATUS_CODE_ERROR)
		}
		out = append(out, &structs.Span{TraceID: "t", SpanID: idStr(s.id), ParentSpanID: idStr(s.parent), StartTime: s.start, EndTime: s.end,
			Duration: s.end - s.start, Status: st, Service: svcStr(s.svc)})
	}
	return out
}

func foldShape(sp []tspan) (string, bool, bool) {
	ids := map[uint64]bool{}
	uniq := true
	for _, s := range sp {
		if ids[s.id] {
			uniq = false
		}
		ids[s.id] = true
	}
	allParents := true
	for _, s := range sp {
		if s.parent != 0 && !ids[s.parent] {
			allParents = false
		}
	}
	shape := "unique-ids"
	if !uniq {
		shape = "dup-ids"
	}
	if !allParents {
		shape += "+missing-parent"
	}
	return shape, uniq, allParents
}

func execDep(sp []tspan) Result {
	shape, uniq, _ := foldShape(sp)
	res := Result{Nontrivial: len(sp) >= 3, Tags: []string{"dep", "dep/" + shape, "dep/" + sizeClass(len(sp))}}
	got := handler.VerifDepFold(mkSpans(sp))
	type key struct{ a, b uint64 }
	flat := map[key]int{}
	for a, mm := range got {
		for b, n := range mm {
			flat[key{svcNum(a), svcNum(b)}] = n
		}
	}
	var keys []key
	for k := range flat {
		keys = append(keys, k)
	}
	sort.Slice(keys, func(i, j int) bool {
		if keys[i].a != keys[j].a {
			return keys[i].a < keys[j].a
		}
		return keys[i].b < keys[j].b
	})
	var toks []string
	for _, k := range keys {
		toks = append(toks, fmt.Sprintf("%d>%d=%d", k.a, k.b, flat[k]))
	}
	res.Out = strings.Join(toks, " ")
	if len(toks) == 0 {
		res.Out = "-"
	} else {
		res.Tags = append(res.Tags, "dep/non-empty")
	}
	if uniq { // the statement: number of parent-child span pairs that cross services
		want := map[key]int{}
		for _, c := range sp {
			if c.parent == 0 {
				continue
			}
			for _, p := range sp {
				if p.id == c.parent && p.svc != c.svc {
					want[key{p.svc, c.svc}]++
				}
			}
		}
		bad := len(want) != len(flat)
		for k, n := range want {
			if flat[k] != n {
				bad = true
			}
		}
		if bad {
			res.Fails = append(res.Fails, PropFail{Sig: "trace-dep/" + shape, Msg: fmt.Sprintf("dependency counts %v, cross-service parent-child pairs %v", flat, want)})
		}
	}
	return res
}

func execRed(sp []tspan) Result {
	shape, uniq, allParents := foldShape(sp)
	res := Result{Nontrivial: len(sp) >= 3, Tags: []string{"red", "red/" + shape, "red/" + sizeClass(len(sp))}}
	got := handler.VerifRedFold(mkSpans(sp))
	var svcs []uint64
	for s := range got {
		svcs = append(svcs, svcNum(s))
	}
	sort.Slice(svcs, func(i, j int) bool { return svcs[i] < svcs[j] })
	// entry spans by the statement's rule (only used when ids are unique and no parent is missing)
	// Records with a span id seen before are re-deliveries: the FIRST record of an id is the span (what
	// dropRedeliveredSpans keeps since fix c03479f), the later ones count for nothing — neither as entry spans nor
	// for the service of their id.  (Judging ids by their LAST record made the rate detector below take 5 entry
	// spans for 1 and report 5/300 as "1/60": corpus/trace.ops, `trace red 3:30:4:…;30:30:5:…;…;30:4611686018427388412:4:…`.)
	bySvc := map[uint64][]tspan{}
	svcOf := map[uint64]uint64{}
	var first []tspan
	for _, s := range sp {
		if _, dup := svcOf[s.id]; dup {
			continue
		}
		svcOf[s.id] = s.svc
		first = append(first, s)
	}
	for _, s := range first {
		if ps, ok := svcOf[s.parent]; s.parent == 0 || !ok || ps != s.svc {
			bySvc[s.svc] = append(bySvc[s.svc], s)
		}
	}
	var toks []string
	rateReported := false
	for _, sv := range svcs {
		m := got[svcStr(sv)]
		es := bySvc[sv]
		cnt, errs := 0, 0
		var durs []uint64
		for _, e := range es {
			cnt++
			if e.err {
				errs++
			}
			durs = append(durs, (e.end-e.start)/1000000)
		}
		// the rate is the number of entry spans PER SECOND over the 5-minute window the spans are collected from
		// (when ids repeat `es` are the entry spans among the FIRST records of the ids, see above); before the repair
		// c12-8 the count of the 5-minute window was divided by 60
		if cnt > 0 && f64bits(m.Rate) != f64bits(float64(cnt)/300) && f64bits(m.Rate) == f64bits(float64(cnt)/60) && !rateReported {
			rateReported = true
			res.Fails = append(res.Fails, PropFail{Sig: "trace-red/rate-not-per-second", Msg: fmt.Sprintf("service %d: %d entry spans in the 5-minute window, rate %v = %d/60; per second it is %d/300 = %v", sv, cnt, m.Rate, cnt, cnt, float64(cnt)/300)})
		}
		if uniq && allParents {
			want := structs.RedMetrics{Rate: float64(cnt) / 300, ErrorRate: float64(errs) / float64(cnt) * 100,
				P50: refPercentile(durs, 50), P90: refPercentile(durs, 90), P95: refPercentile(durs, 95), P99: refPercentile(durs, 99)}
			rateOld := f64bits(m.Rate) == f64bits(float64(cnt)/60) // reported above
			if (f64bits(want.Rate) != f64bits(m.Rate) && !rateOld) || f64bits(want.ErrorRate) != f64bits(m.ErrorRate) || f64bits(want.P50) != f64bits(m.P50) ||
				f64bits(want.P90) != f64bits(m.P90) || f64bits(want.P95) != f64bits(m.P95) || f64bits(want.P99) != f64bits(m.P99) {
				res.Fails = append(res.Fails, PropFail{Sig: "trace-red/" + shape, Msg: fmt.Sprintf("service %d: got %+v, entry spans give %+v", sv, m, want)})
			}
		}
		// cnt/err are not part of RedMetrics; the model prints them, so recompute them from the metrics' inputs
		toks = append(toks, fmt.Sprintf("%d=%s/%s/%s/%s/%s/%s", sv, f64bits(m.Rate), f64bits(m.ErrorRate), f64bits(m.P50), f64bits(m.P90), f64bits(m.P95), f64bits(m.P99)))
	}
	if uniq && allParents && len(bySvc) != len(got) {
		res.Fails = append(res.Fails, PropFail{Sig: "trace-red/" + shape, Msg: fmt.Sprintf("%d services have entry spans, %d services got metrics", len(bySvc), len(got))})
	}
	res.Out = strings.Join(toks, " ")
	if len(toks) == 0 {
		res.Out = "-"
	}
	return res
}

// ---------------------------------------------------------------- generator

func genForest(r *rand.Rand, tier string) []tspan {
	n := 1 + r.Intn(12)
	switch r.Intn(20) {
	case 0, 1, 2:
		n = 10 + r.Intn(50)
	case 3:
		n = 100 + r.Intn(200)
	case 4:
		if tier == "thorough" && r.Intn(8) == 0 {
			n = 1000 + r.Intn(2000)
		} else if r.Intn(12) == 0 {
			n = 1000 + r.Intn(200)
		}
	}
	nsvc := 1 + r.Intn(5)
	// ids: small sequential or random 63-bit
	ids := make([]uint64, n)
	used := map[uint64]bool{0: true}
	wide := r.Intn(3) == 0
	for i := range ids {
		for {
			var v uint64
			if wide {
				v = r.Uint64()
			} else {
				v = uint64(1 + r.Intn(4*n+4))
			}
			if !used[v] {
				used[v] = true
				ids[i] = v
				break
			}
		}
	}
	base := uint64(0)
	switch r.Intn(5) {
	case 0:
	case 1:
		base = uint64(r.Intn(10))
	case 2:
		base = 1700000000000000000 + uint64(r.Intn(1000000))
	default:
		base = uint64(1000 + r.Intn(100000))
	}
	style := r.Intn(4) // 0 chain, 1 star, 2 random, 3 wide-random with ties
	sp := make([]tspan, n)
	for i := 0; i < n; i++ {
		s := tspan{id: ids[i], svc: uint64(1 + r.Intn(nsvc)), err: r.Intn(5) == 0}
		pi := -1
		if i > 0 {
			switch style {
			case 0:
				pi = i - 1
			case 1:
				pi = 0
			default:
				pi = r.Intn(i)
			}
		}
		if pi < 0 {
			s.start = base
		} else {
			s.parent = sp[pi].id
			ps := sp[pi].start
			switch {
			case style == 3 && r.Intn(2) == 0:
				s.start = ps // ties
			case r.Intn(8) == 0 && ps > 0: // clock skew: before the parent, maybe before the root
				s.start = ps - uint64(1+r.Intn(int(minU(ps, 50))))
			default:
				s.start = ps + uint64(r.Intn(20))
			}
			if r.Intn(3) == 0 { // mostly one service per subtree
				s.svc = sp[pi].svc
			}
		}
		switch r.Intn(6) {
		case 0:
			s.end = s.start + uint64(r.Intn(3))
		case 1:
			s.end = s.start + uint64(r.Intn(2000))*1000000 + uint64(r.Intn(1000000))
		default:
			s.end = s.start + uint64(1+r.Intn(500))*1000000
		}
		if r.Intn(40) == 0 && s.start > 0 { // ends before it starts
			s.end = s.start - 1
		}
		sp[i] = s
	}
	return sp
}

func minU(a, b uint64) uint64 {
	if a < b {
		return a
	}
	return b
}

func malform(r *rand.Rand, sp []tspan, allowNoEntry bool) []tspan {
	n := len(sp)
	fresh := func() uint64 { return 1<<62 + uint64(r.Intn(1000)) }
	k := 1 + r.Intn(2)
	for ; k > 0; k-- {
		i := r.Intn(n)
		switch r.Intn(10) {
		case 0: // duplicate id with other fields
			d := sp[r.Intn(n)]
			d.id = sp[i].id
			d.start += uint64(r.Intn(3))
			sp = append(sp, d)
		case 1: // missing parent
			sp[i].parent = fresh()
		case 2: // second root
			sp[i].parent = 0
		case 3: // no root at all
			sp[0].parent = fresh()
		case 4: // 2-cycle
			j := r.Intn(n)
			sp[i].parent = sp[j].id
			sp[j].parent = sp[i].id
		case 5: // self parent
			sp[i].parent = sp[i].id
		case 6: // long cycle through a chain of existing spans
			l := 2 + r.Intn(minInt(n, 40))
			for t := 0; t < l; t++ {
				a, b := (i+t)%n, (i+t+1)%n
				if t == l-1 {
					b = i
				}
				sp[a].parent = sp[b].id
			}
		case 7: // root inside a cycle (root's parent = a descendant)
			sp[0].parent = sp[n-1].id
		case 8:
			if allowNoEntry {
				sp[i].noEntry = true
				sp[i].parent = 0
			} else {
				sp[i].parent = fresh()
			}
		case 9: // the empty span id
			if r.Intn(2) == 0 {
				sp[i].id = 0
			} else {
				sp = append(sp, tspan{id: 0, parent: 0, svc: 1, start: sp[0].start + uint64(r.Intn(5)), end: sp[0].start + 9})
			}
		}
	}
	return sp
}

func minInt(a, b int) int {
	if a < b {
		return a
	}
	return b
}

func joinSpans(sp []tspan) string {
	if len(sp) == 0 {
		return "-"
	}
	s := make([]string, len(sp))
	for i, x := range sp {
		s[i] = x.String()
	}
	return strings.Join(s, ";")
}

func genVals(r *rand.Rand, tier string) []uint64 {
	var n int
	switch r.Intn(12) {
	case 0:
		n = 1
	case 1, 2:
		n = 2 + r.Intn(3)
	case 3, 4:
		n = 5 + r.Intn(6)
	case 5, 6:
		n = 5 * (1 + r.Intn(12)) // multiples of 5: even/odd number of medians
	case 7:
		n = 100 + r.Intn(300)
	case 8:
		if tier == "thorough" && r.Intn(4) == 0 {
			n = 1000 + r.Intn(2000)
		} else {
			n = 24 + r.Intn(8)
		}
	default:
		n = 1 + r.Intn(60)
	}
	v := make([]uint64, n)
	mode := r.Intn(7)
	for i := range v {
		switch mode {
		case 0:
			v[i] = uint64(r.Intn(4)) // many duplicates
		case 1:
			v[i] = 7 // all equal
		case 2:
			v[i] = uint64(i) * 3 // sorted
		case 3:
			v[i] = uint64(n-i) * 3 // reversed
		case 4:
			v[i] = r.Uint64() >> 1 // up to 2^63-1: float64 rounding of the elements
		case 5:
			v[i] = uint64(r.Intn(n + 1))
		default:
			v[i] = uint64(r.Intn(1000000))
		}
	}
	return v
}

func genTrace(r *rand.Rand, n int, tier string) []string {
	out := []string{ // deliberate boundary cases
		"trace tree 0 -",
		"trace pct 50 -",
		"trace dep -",
		"trace red -",
		"trace tree 0 1:0:1:10:20:0",
		"trace tree 0 1:2:1:10:20:0;2:1:1:10:20:0",
		"trace tree 0 1:1:1:10:20:0",
		"trace tree 1 1:0:1:10:20:0;2:0:1:5:20:0;3:1:1:11:12:0;4:2:1:6:7:0",
		"trace tree 0 0:0:1:10:20:0;3:0:1:11:12:0",
		"trace tree 1 0:0:1:10:20:0;3:0:1:11:12:0",
		"trace tree 0 5:-:1:10:20:0;3:0:1:11:12:0;4:5:1:12:13:0",
		"trace tree 0 1:0:1:0:20:0;2:1:1:0:5:0;3:2:1:0:5:0",
		"trace pct 100 1,2",
		"trace pct 0 9,8,7",
		"trace pct 101 9,8,7",
		"trace qsel 0 4,4",
		"trace qsel 1 1,4",
	}
	for len(out) < n {
		switch x := r.Intn(20); {
		case x < 8:
			sp := genForest(r, tier)
			if r.Intn(100) < 45 {
				sp = malform(r, sp, true)
			}
			r.Shuffle(len(sp), func(i, j int) { sp[i], sp[j] = sp[j], sp[i] })
			out = append(out, fmt.Sprintf("trace tree %d %s", r.Intn(6), joinSpans(sp)))
		case x < 12:
			p := []int{0, 50, 90, 95, 99, 100}[r.Intn(6)]
			if r.Intn(3) == 0 {
				p = r.Intn(101)
			}
			if r.Intn(25) == 0 {
				p = 101 + r.Intn(50)
			}
			out = append(out, fmt.Sprintf("trace pct %d %s", p, showVals(genVals(r, tier))))
		case x < 14:
			v := genVals(r, tier)
			k := r.Intn(len(v))
			switch r.Intn(4) {
			case 0:
				k = 0
			case 1:
				k = len(v) - 1
			}
			out = append(out, fmt.Sprintf("trace qsel %d %s", k, showVals(v)))
		case x < 17:
			sp := genForest(r, tier)
			if r.Intn(100) < 35 {
				sp = malform(r, sp, false)
			}
			r.Shuffle(len(sp), func(i, j int) { sp[i], sp[j] = sp[j], sp[i] })
			out = append(out, "trace dep "+joinSpans(sp))
		default:
			sp := genForest(r, tier)
			if r.Intn(100) < 35 {
				sp = malform(r, sp, false)
			}
			r.Shuffle(len(sp), func(i, j int) { sp[i], sp[j] = sp[j], sp[i] })
			out = append(out, "trace red "+joinSpans(sp))
		}
	}
	return out[:n]
}

func init() { registerWorker("c12kworker", c12kWorkerMain) }
