package main

// suite "tracee2e" (C12 end to end), parent side: canonical answer line, the property statement checked on the
// real answers (PropFails, independent of the Lean model), generator.  Worker / op-line grammar: c12_e2e.go.

import (
	"encoding/json"
	"fmt"
	"math"
	"math/big"
	"math/rand"
	"sort"
	"strconv"
	"strings"
	"time"
)

func init() {
	register(&Suite{Name: "tracee2e", Gen: genTraceE2E, Exec: execTraceE2E, Parallel: 8,
		Rule: "OTLP export requests of 1-5 ResourceSpans x 1-3 ScopeSpans (resources with / without service.name, nil Resource, int-valued / repeated / value-less service.name; " +
			"status nil/UNSET/OK/ERROR/unknown; attributes of every AnyValue kind incl. bytes and the empty value and keys that collide with span fields; ids of 1..16 bytes, empty ids; end<start) " +
			"split over 1-4 requests in any order, re-sent requests and spans (duplicate span ids, identical and conflicting), documents posted to index traces through the ES bulk API " +
			"without required fields or with a duration that is not a uint64 (2^64 as float, negative, fractional, a string) next to OTLP spans; " +
			"span forests (chains, stars, random trees, several roots, missing parents, cycles) of 1..60 spans with page sizes 1..12 so that every trace spans several result pages " +
			"(page-size hook in both paging loops), a few traces of 1001..1300 spans with the real page size (thorough: more, up to 2600), 45..130 traces per dataset for the trace listing, " +
			">100 spans for the dependency graph; every case on a fresh engine process; all four views + the stored events compared with the Lean model and judged by the statement"})
}

// ---------------------------------------------------------------- canonical answer

var teSkipCols = map[string]bool{"timestamp": true, "_index": true, "kind": true, "trace_state": true, "dropped_attributes_count": true,
	"dropped_events_count": true, "dropped_links_count": true, "events": true, "links": true}

var teFixedCols = map[string]bool{"trace_id": true, "span_id": true, "parent_span_id": true, "service": true, "name": true, "start_time": true,
	"end_time": true, "duration": true, "status": true}

// exact decimal text of a JSON number (floats that are integers are expanded)
func teNumText(v interface{}) string {
	var s string
	switch t := v.(type) {
	case json.Number:
		s = t.String()
	case string:
		return t
	case bool:
		if t {
			return "true"
		}
		return "false"
	case nil:
		return "!"
	case float64:
		s = strconv.FormatFloat(t, 'g', -1, 64)
	default:
		return fmt.Sprint(t)
	}
	if _, err := strconv.ParseUint(s, 10, 64); err == nil {
		return s
	}
	if _, err := strconv.ParseInt(s, 10, 64); err == nil {
		return s
	}
	f, err := strconv.ParseFloat(s, 64)
	if err != nil || math.IsInf(f, 0) || math.IsNaN(f) {
		return s
	}
	if f == math.Trunc(f) && math.Abs(f) >= 1e15 {
		bi, _ := new(big.Float).SetFloat64(f).Int(nil)
		return bi.String()
	}
	return strconv.FormatFloat(f, 'f', -1, 64)
}

type teStored struct { // a stored record as read back
	trace, sid             string
	pid, svc, name, status *string
	start, end, dur        string
	tags                   string
	durStr                 bool // the duration came back as a JSON string
}

func teStrp(m map[string]interface{}, k string) *string {
	v, ok := m[k]
	if !ok || v == nil {
		return nil
	}
	s, ok := v.(string)
	if !ok {
		s = teNumText(v)
	}
	return &s
}

func teOpt(p *string) string {
	if p == nil {
		return "!"
	}
	return *p
}

func teStoredOf(m map[string]interface{}) teStored {
	e := teStored{start: teNumText(m["start_time"]), end: teNumText(m["end_time"]), dur: teNumText(m["duration"]),
		pid: teStrp(m, "parent_span_id"), svc: teStrp(m, "service"), name: teStrp(m, "name"), status: teStrp(m, "status")}
	_, e.durStr = m["duration"].(string)
	if p := teStrp(m, "trace_id"); p != nil {
		e.trace = *p
	}
	if p := teStrp(m, "span_id"); p != nil {
		e.sid = *p
	}
	var tags []string
	for k, v := range m {
		if teSkipCols[k] || teFixedCols[k] || v == nil {
			continue
		}
		tags = append(tags, k+"="+teNumText(v))
	}
	sort.Slice(tags, func(i, j int) bool { // (key, value) order; keys are unique
		return tags[i][:strings.IndexByte(tags[i], '=')] < tags[j][:strings.IndexByte(tags[j], '=')]
	})
	e.tags = "-"
	if len(tags) > 0 {
		e.tags = strings.Join(tags, ",")
	}
	return e
}

func (e teStored) String() string {
	return strings.Join([]string{e.trace, e.sid, teOpt(e.pid), teOpt(e.svc), teOpt(e.name), e.start, e.end, e.dur, teOpt(e.status), e.tags}, ":")
}

type teGNode struct {
	SpanID          string      `json:"span_id"`
	ActualStartTime json.Number `json:"actual_start_time"`
	StartTime       json.Number `json:"start_time"`
	EndTime         json.Number `json:"end_time"`
	Duration        json.Number `json:"duration"`
	ServiceName     string      `json:"service_name"`
	OperationName   string      `json:"operation_name"`
	IsAnomalous     bool        `json:"is_anomalous"`
	Children        []*teGNode  `json:"children"`
	Status          string      `json:"status"`
}

type teEdge struct {
	parent string
	n      *teGNode
}

func teWalk(root *teGNode, limit int) []teEdge {
	var out []teEdge
	type fr struct {
		p string
		n *teGNode
	}
	st := []fr{{"", root}}
	for len(st) > 0 && len(out) < limit {
		f := st[len(st)-1]
		st = st[:len(st)-1]
		out = append(out, teEdge{f.p, f.n})
		for i := len(f.n.Children) - 1; i >= 0; i-- {
			if f.n.Children[i] != nil {
				st = append(st, fr{f.n.SpanID, f.n.Children[i]})
			}
		}
	}
	return out
}

type teTraceRow struct {
	TraceId         string      `json:"trace_id"`
	StartTime       json.Number `json:"start_time"`
	EndTime         json.Number `json:"end_time"`
	SpanCount       int         `json:"span_count"`
	SpanErrorsCount int         `json:"span_errors_count"`
	ServiceName     string      `json:"service_name"`
	OperationName   string      `json:"operation_name"`
}

func teSearchRows(h teHTTP) ([]teTraceRow, bool) {
	if h.Status != 200 || h.Body == nil {
		return nil, false
	}
	var r struct {
		Traces []teTraceRow `json:"traces"`
	}
	dec := json.NewDecoder(strings.NewReader(string(h.Body)))
	dec.UseNumber()
	if err := dec.Decode(&r); err != nil {
		return nil, false
	}
	return r.Traces, true
}

func teF64Bits(v interface{}) string {
	f, err := strconv.ParseFloat(teNumText(v), 64)
	if err != nil {
		return "nan:" + teNumText(v)
	}
	return f64bits(f)
}

type teView struct { // everything parsed once, used by the canonical line and by the judge
	stored  []teStored
	traces  []string // distinct stored trace ids, sorted
	gantt   map[string][]teEdge
	gstatus map[string]int
	pages   [][]teTraceRow
	pageOK  []bool
}

func teParseView(w *teWorkerOut) *teView {
	v := &teView{gantt: map[string][]teEdge{}, gstatus: map[string]int{}}
	seen := map[string]bool{}
	for _, m := range w.Events {
		e := teStoredOf(m)
		v.stored = append(v.stored, e)
		if !seen[e.trace] {
			seen[e.trace] = true
			v.traces = append(v.traces, e.trace)
		}
	}
	sort.Strings(v.traces)
	for t, h := range w.Gantt {
		v.gstatus[t] = h.Status
		if h.Status == 200 && h.Body != nil {
			var root teGNode
			dec := json.NewDecoder(strings.NewReader(string(h.Body)))
			dec.UseNumber()
			if err := dec.Decode(&root); err == nil {
				v.gantt[t] = teWalk(&root, 4*len(v.stored)+16)
			} else {
				v.gstatus[t] = -1
			}
		}
	}
	for _, h := range w.Search {
		rows, ok := teSearchRows(h)
		v.pages = append(v.pages, rows)
		v.pageOK = append(v.pageOK, ok)
	}
	return v
}

func teCanon(op *teOp, w *teWorkerOut, v *teView) string {
	var b strings.Builder
	acks := make([]string, len(w.Acks))
	for i, a := range w.Acks {
		if a.Panic != "" {
			acks[i] = "panic"
		} else {
			acks[i] = fmt.Sprintf("%d/%d", a.Status, a.Rejected)
		}
	}
	b.WriteString("acks=" + strings.Join(acks, ","))
	evs := make([]string, len(v.stored))
	for i, e := range v.stored {
		evs[i] = e.String()
	}
	sort.Strings(evs)
	if len(evs) == 0 {
		b.WriteString(" ev=-")
	} else {
		b.WriteString(" ev=" + strings.Join(evs, ";"))
	}
	ng := 0
	for _, t := range v.traces {
		if t == "" {
			continue
		}
		ng++
		b.WriteString(" g:" + t + "=")
		st, ok := v.gstatus[t]
		switch {
		case !ok:
			b.WriteString("missing")
		case st != 200:
			fmt.Fprintf(&b, "err%d", st)
		default:
			edges := v.gantt[t]
			toks := make([]string, len(edges))
			for i, e := range edges {
				p := e.parent
				if i == 0 {
					p = "^"
				}
				a := "0"
				if e.n.IsAnomalous {
					a = "1"
				}
				toks[i] = p + ">" + strings.Join([]string{e.n.SpanID, e.n.ServiceName, e.n.OperationName, e.n.Status, teNumText(e.n.ActualStartTime),
					teNumText(e.n.StartTime), teNumText(e.n.EndTime), teNumText(e.n.Duration), a}, ":")
			}
			b.WriteString(strings.Join(toks, ","))
		}
	}
	if ng == 0 {
		b.WriteString(" g:-")
	}
	// trace listing: pages 1 … ⌈n/50⌉ + 1 (the last one lies beyond the end)
	b.WriteString(" S=")
	npages := (len(v.traces)+49)/50 + 1
	ptoks := make([]string, npages)
	for pi := 0; pi < npages; pi++ {
		switch {
		case pi >= len(w.Search):
			ptoks[pi] = "missing"
		case w.Search[pi].Status != 200:
			ptoks[pi] = fmt.Sprintf("err%d", w.Search[pi].Status)
		default:
			rows := append([]teTraceRow(nil), v.pages[pi]...)
			sort.Slice(rows, func(i, j int) bool { return rows[i].TraceId < rows[j].TraceId })
			toks := make([]string, len(rows))
			for i, r := range rows {
				toks[i] = strings.Join([]string{r.TraceId, r.ServiceName, r.OperationName, strconv.Itoa(r.SpanCount), strconv.Itoa(r.SpanErrorsCount), teNumText(r.StartTime), teNumText(r.EndTime)}, ":")
			}
			ptoks[pi] = "-"
			if len(toks) > 0 {
				ptoks[pi] = strings.Join(toks, ",")
			}
		}
	}
	b.WriteString(strings.Join(ptoks, "|"))
	// dependency graph
	b.WriteString(" D=")
	if w.Dep == nil {
		b.WriteString("nil")
	} else {
		b.WriteString(teDepText(w.Dep))
	}
	// RED rows
	b.WriteString(" R=")
	if len(w.Red) == 0 {
		b.WriteString("-")
	} else {
		rows := make([]string, len(w.Red))
		for i, m := range w.Red {
			svc, _ := m["service"].(string)
			rows[i] = fmt.Sprintf("%s=%s/%s/%s/%s/%s/%s", svc, teF64Bits(m["rate"]), teF64Bits(m["error_rate"]), teF64Bits(m["p50"]), teF64Bits(m["p90"]), teF64Bits(m["p95"]), teF64Bits(m["p99"]))
		}
		sort.Slice(rows, func(i, j int) bool {
			return rows[i][:strings.IndexByte(rows[i], '=')] < rows[j][:strings.IndexByte(rows[j], '=')]
		})
		b.WriteString(strings.Join(rows, ","))
	}
	return b.String()
}

func teDepText(dep map[string]map[string]int) string {
	type k struct{ a, b string }
	var ks []k
	for a, m := range dep {
		for bb := range m {
			ks = append(ks, k{a, bb})
		}
	}
	if len(ks) == 0 {
		return "-"
	}
	sort.Slice(ks, func(i, j int) bool {
		if ks[i].a != ks[j].a {
			return ks[i].a < ks[j].a
		}
		return ks[i].b < ks[j].b
	})
	toks := make([]string, len(ks))
	for i, x := range ks {
		toks[i] = fmt.Sprintf("%s>%s=%d", x.a, x.b, dep[x.a][x.b])
	}
	return strings.Join(toks, ",")
}

// ---------------------------------------------------------------- the statement, judged on the real answers

var teCollide = map[string]bool{"span_id": true, "parent_span_id": true, "service": true, "name": true, "start_time": true, "end_time": true, "duration": true, "status": true}

// the span carries a bytes-valued attribute or an AnyValue with no value set (both legal OTLP; refused with the
// whole span before the repair c12-10)
func teSpanBytesOrEmpty(s teSpan) bool {
	for _, a := range s.attrs {
		if a.kind == 'y' || a.kind == 'z' {
			return true
		}
	}
	return false
}

const teSigBytesOrEmpty = "trace-ingest/bytes-or-empty-attribute-rejects-the-span"

// the stored `duration` is not a uint64: the record does not unmarshal into the span structs of the views
func teUnreadable(e teStored) bool {
	if e.dur == "!" {
		return false
	}
	// the decimal text of a uint64 is read like the number since the repair c12-12 (a duration column that was
	// consolidated to strings); before, every duration that came back as a JSON string was unreadable
	_, err := strconv.ParseUint(e.dur, 10, 64)
	return err != nil
}

// the first attribute that cannot be converted is a KeyValue without AnyValue
func teSpanNoValueFirst(s teSpan) bool {
	for _, a := range s.attrs {
		switch a.kind {
		case 'y', 'z':
			return false
		case 'n':
			return true
		}
	}
	return false
}

func teReqHasNoValue(rq teReq) bool {
	for _, rs := range rq.res {
		for _, sc := range rs.scopes {
			for _, s := range sc {
				if teSpanNoValueFirst(s) {
					return true
				}
			}
		}
	}
	return false
}

func teSpanCollides(s teSpan) bool {
	for _, a := range s.attrs {
		if teCollide[a.key] {
			return true
		}
	}
	return false
}

const teErrStatus = "STATUS_CODE_ERROR"
const teSigRedRate = "trace-red/rate-not-per-second"
const teSigRedelivered = "trace-search/span-count-includes-redelivered-duplicates"

type teFull struct { // a stored record that has every field the views need, as the statement sees a span
	trace, sid, pid, svc, name, status string
	start, end, dur                    uint64
}

func teFullOf(e teStored) (teFull, bool) {
	if e.pid == nil || e.svc == nil || e.name == nil || e.status == nil {
		return teFull{}, false
	}
	st, e1 := strconv.ParseUint(e.start, 10, 64)
	en, e2 := strconv.ParseUint(e.end, 10, 64)
	du, e3 := strconv.ParseUint(e.dur, 10, 64)
	if e1 != nil || e2 != nil || e3 != nil || (en >= st && du != en-st) || (en < st && du != 0) {
		return teFull{}, false // (a span that ends before it starts is stored with duration 0)
	}
	return teFull{e.trace, e.sid, *e.pid, *e.svc, *e.name, *e.status, st, en, du}, true
}

func teJudge(op *teOp, w *teWorkerOut, v *teView) (fails []PropFail, tags []string) {
	// traces with a span whose numeric duration is returned as a JSON string (another document of the block carries a
	// string in that column): the views must read them all the same (repair c12-12).  What a view gets wrong about such a
	// dataset is reported under the name the defect had.
	textDur := map[string]teStored{}
	for _, e := range v.stored {
		if _, err := strconv.ParseUint(e.dur, 10, 64); err == nil && e.durStr {
			textDur[e.trace] = e
		}
	}
	if len(textDur) > 0 {
		tags = append(tags, "duration-column-consolidated-to-strings")
	}
	fail := func(sig, format string, a ...interface{}) {
		msg := fmt.Sprintf(format, a...)
		if len(textDur) > 0 && (strings.HasPrefix(sig, "trace-dep/") || strings.HasPrefix(sig, "trace-red/") || strings.HasPrefix(sig, "trace-gantt/")) {
			for _, e := range textDur {
				msg = fmt.Sprintf("span %s of trace %s was stored with the numeric duration %s and is returned with the duration as a JSON string, because another document of the block carries a string in that column; [%s] %s", e.sid, e.trace, e.dur, sig, msg)
				break
			}
			sig = "trace-views/string-in-duration-column-hides-every-span-of-the-block"
		}
		for _, f := range fails {
			if f.Sig == sig {
				return
			}
		}
		fails = append(fails, PropFail{Sig: sig, Msg: trunc(msg, 500)})
	}
	// ---- ingest: every accepted span is stored once per delivery, with ITS resource's service
	named := map[string]bool{}
	for _, rq := range op.reqs {
		for _, rs := range rq.res {
			if s, ok := teResService(rs.spec); ok {
				named[s] = true
			}
		}
	}
	type key struct{ trace, sid, pid, name, start, end, status string }
	storedBy := map[key][]teStored{}
	for _, e := range v.stored {
		k := key{e.trace, e.sid, teOpt(e.pid), teOpt(e.name), e.start, e.end, teOpt(e.status)}
		storedBy[k] = append(storedBy[k], e)
	}
	wantStored, yzLost := 0, 0
	wrapSent := false // some accepted OTLP span that ends before it starts was stored with a wrapped duration
	for ri, rq := range op.reqs {
		if ri < len(w.Acks) && w.Acks[ri].Panic != "" {
			if teReqHasNoValue(rq) {
				fail("trace-ingest/attribute-without-value-panics", "request %d carries a span attribute (KeyValue) without a value: ProcessTraceIngest panics: %s", ri, w.Acks[ri].Panic)
			} else {
				fail("trace-ingest/panic", "request %d: %s", ri, w.Acks[ri].Panic)
			}
			continue
		}
		if rq.raw {
			wantStored += len(rq.ev)
			continue
		}
		sent, yz := 0, 0
		for _, rs := range rq.res {
			own, ownNamed := teResService(rs.spec)
			for _, sc := range rs.scopes {
				for _, s := range sc {
					sent++
					wantStored++
					k := key{s.trace, s.sid, s.pid, s.name, strconv.FormatUint(s.start, 10), strconv.FormatUint(s.end, 10), teStatusString(s.status)}
					cands := storedBy[k]
					if teSpanBytesOrEmpty(s) {
						yz++
						if len(cands) == 0 {
							yzLost++
							fail(teSigBytesOrEmpty, "span %s of trace %s (request %d) carries a bytes-valued attribute or an AnyValue with no value set (%s) — both are legal OTLP values — and is not stored: the whole span was refused", s.sid, s.trace, ri, teAttrKinds(s))
							continue
						}
					}
					if teSpanCollides(s) {
						ok := false
						for _, c := range cands {
							if c.svc != nil && (*c.svc == own || !ownNamed) {
								ok = true
							}
						}
						if !ok {
							fail("trace-ingest/attribute-overrides-span-field", "span %s of trace %s carries an attribute named like a span field (%s); its stored event no longer has the span's own id / parent / service / name / times / status", s.sid, s.trace, teAttrKeys(s))
						}
						continue
					}
					if s.end < s.start {
						for _, c := range cands {
							if _, err := strconv.ParseInt(c.dur, 10, 64); err != nil {
								wrapSent = true
								fail("trace-ingest/end-before-start-duration-wraps", "span %s of trace %s ends %d ns before it starts; stored duration %s (the unsigned difference wrapped around)", s.sid, s.trace, s.start-s.end, c.dur)
							}
						}
					}
					if len(cands) == 0 {
						fail("trace-ingest/span-lost-or-altered", "span %s of trace %s (request %d, resource %d) was accepted but no stored event has its ids, name, times and status", s.sid, s.trace, ri, s.res)
						continue
					}
					good := false
					var got string
					for _, c := range cands {
						got = teOpt(c.svc)
						if c.svc == nil {
							continue
						}
						if ownNamed && (*c.svc == own || (rs.spec[0] == 't' && *c.svc == "s"+strings.Split(rs.spec[1:], "_")[0])) {
							good = true // two service.name attributes in one resource: either of the two names is granted
						}
						if !ownNamed && (*c.svc == "" || !named[*c.svc]) {
							good = true
						}
					}
					if !good {
						if ownNamed {
							fail("trace-ingest/service-not-of-own-resource", "span %s of trace %s: its resource (request %d, resource %d, %s) names service %q, stored service %q", s.sid, s.trace, ri, s.res, rs.spec, own, got)
						} else {
							fail("trace-ingest/service-of-another-resource", "span %s of trace %s: its resource (request %d, resource %d, %s) names no service, stored service %q is the service of another resource", s.sid, s.trace, ri, s.res, rs.spec, got)
						}
					}
				}
			}
		}
		if ri < len(w.Acks) {
			a := w.Acks[ri]
			switch {
			case a.Status == 200 && a.Rejected == 0:
			case yz > 0 && ((a.Status == 200 && a.Rejected == int64(yz)) || (a.Status != 200 && yz == sent)):
				fail(teSigBytesOrEmpty, "request %d: %d of its %d spans carry a bytes-valued attribute or an AnyValue with no value set — both are legal OTLP values — answered %d rejected=%d", ri, yz, sent, a.Status, a.Rejected)
			default:
				fail("trace-ingest/ack", "request %d: %d well-formed spans, answered %d rejected=%d", ri, sent, a.Status, a.Rejected)
			}
		}
	}
	if wrapSent && len(v.stored) > 0 && w.Dep == nil {
		// (no RED rows is not a sign: a window whose spans all have a parent in their own service has none)
		fail("trace-dep/span-ending-before-its-start-blanks-the-window", "a span that ends before it starts is among the %d stored spans: no dependency graph at all (and %d RED rows) for the WHOLE window", len(v.stored), len(w.Red))
	}
	if w.EventErr != "" {
		fail("trace-ingest/readback-error", "%s", w.EventErr)
	} else if len(v.stored) != wantStored && !(yzLost > 0 && len(v.stored) == wantStored-yzLost) {
		fail("trace-ingest/event-count", "%d spans/documents accepted, %d events stored", wantStored, len(v.stored))
	}

	// ---- per trace: the statement's view of the stored spans
	byTrace := map[string][]teStored{}
	for _, e := range v.stored {
		byTrace[e.trace] = append(byTrace[e.trace], e)
	}
	type tinfo struct {
		wf       bool // unique ids (identical re-deliveries collapsed), one root, all parents present, no cycle, all fields
		spans    map[string]teFull
		root     string
		records  int
		errRecs  int
		distinct int
		errDist  int
		rootsOK  bool // ≤ 1 distinct (start,end,service,name) over the records with an empty parent id, all with every field
		nroots   int
		rootRec  teFull
		allFull  bool
		// the statement's span count of the trace: a span delivered twice is ONE span.  Records that share a span id
		// but not the status (conflicting duplicates) may count once or once per status.
		idsAll, pairsAll int
		errAny, errEvery int // span ids with SOME / with ONLY records of status ERROR
	}
	info := map[string]*tinfo{}
	for t, recs := range byTrace {
		ti := &tinfo{spans: map[string]teFull{}, records: len(recs), allFull: true, rootsOK: true}
		info[t] = ti
		conflict := false
		rootKeys := map[string]bool{}
		idSeen, pairSeen, idErr, idNonErr := map[string]bool{}, map[string]bool{}, map[string]bool{}, map[string]bool{}
		for _, e := range recs {
			idSeen[e.sid] = true
			pairSeen[teOpt(e.status)+"/"+e.sid] = true
			if e.status != nil && *e.status == teErrStatus {
				idErr[e.sid] = true
			} else {
				idNonErr[e.sid] = true
			}
			if e.status != nil && *e.status == teErrStatus {
				ti.errRecs++
			}
			f, ok := teFullOf(e)
			if e.pid != nil && *e.pid == "" {
				ti.nroots++
				if !ok {
					ti.rootsOK = false
				} else {
					rootKeys[fmt.Sprint(f.start, "/", f.end, "/", f.svc, "/", f.name)] = true
					ti.rootRec = f
				}
			}
			if !ok {
				ti.allFull = false
				continue
			}
			if old, dup := ti.spans[f.sid]; dup && old != f {
				conflict = true
			}
			ti.spans[f.sid] = f
		}
		if len(rootKeys) > 1 {
			ti.rootsOK = false
		}
		ti.idsAll, ti.pairsAll, ti.errAny = len(idSeen), len(pairSeen), len(idErr)
		for id := range idErr {
			if !idNonErr[id] {
				ti.errEvery++
			}
		}
		ti.distinct = len(ti.spans)
		for _, f := range ti.spans {
			if f.status == teErrStatus {
				ti.errDist++
			}
		}
		roots := 0
		ok := ti.allFull && !conflict
		for id, f := range ti.spans {
			if id == "" {
				ok = false
			}
			if f.pid == "" {
				roots++
				ti.root = id
			} else if _, has := ti.spans[f.pid]; !has {
				ok = false
			}
		}
		if roots != 1 {
			ok = false
		}
		if ok { // every span reaches the root
			for id := range ti.spans {
				cur, steps := id, 0
				for cur != ti.root && steps <= len(ti.spans) {
					cur = ti.spans[cur].pid
					steps++
				}
				if cur != ti.root {
					ok = false
					break
				}
			}
		}
		ti.wf = ok
	}

	// ---- span tree
	for _, t := range v.traces {
		if t == "" {
			continue
		}
		ti := info[t]
		st, have := v.gstatus[t]
		if !have {
			continue
		}
		shape := "malformed"
		if ti.wf {
			shape = "wellformed"
		}
		if st != 200 {
			if ti.wf {
				fail("trace-gantt/wellformed-error", "trace %s: %d stored records = %d distinct spans forming one tree; the span tree request answered %d %s", t, ti.records, ti.distinct, st, trunc(w.Gantt[t].Text, 120))
			}
			continue
		}
		edges := v.gantt[t]
		seen := map[string]int{}
		for i, e := range edges {
			seen[e.n.SpanID]++
			f, isSpan := ti.spans[e.n.SpanID]
			if !isSpan {
				known := false
				for _, r := range byTrace[t] {
					if r.sid == e.n.SpanID {
						known = true
					}
				}
				if !known {
					fail("trace-gantt/"+shape+"-foreign-span", "trace %s: the tree contains span %q which no stored record of this trace has", t, e.n.SpanID)
				}
				continue
			}
			if i > 0 && ti.wf && f.pid != e.parent {
				fail("trace-gantt/wellformed-child-under-wrong-parent", "trace %s: span %s is listed beneath %s, its parent is %s", t, f.sid, e.parent, f.pid)
			}
			if i > 0 && !ti.wf {
				real := false
				for _, r := range byTrace[t] {
					if r.sid == e.n.SpanID && r.pid != nil && *r.pid == e.parent {
						real = true
					}
				}
				if !real {
					fail("trace-gantt/malformed-child-under-wrong-parent", "trace %s: span %s is listed beneath %s; no stored record of that span names this parent", t, e.n.SpanID, e.parent)
				}
			}
			if ti.wf && (e.n.ServiceName != f.svc || e.n.OperationName != f.name || e.n.Status != f.status || teNumText(e.n.ActualStartTime) != strconv.FormatUint(f.start, 10) || teNumText(e.n.Duration) != strconv.FormatUint(f.dur, 10)) {
				fail("trace-gantt/wellformed-node-fields", "trace %s span %s: tree shows service %q operation %q status %q start %s duration %s, stored span has %q %q %q %d %d", t, f.sid, e.n.ServiceName, e.n.OperationName, e.n.Status,
					teNumText(e.n.ActualStartTime), teNumText(e.n.Duration), f.svc, f.name, f.status, f.start, f.dur)
			}
		}
		for id, n := range seen {
			if n > 1 {
				fail("trace-gantt/"+shape+"-span-rendered-twice", "trace %s: span %s appears %d times in the tree", t, id, n)
			}
		}
		if ti.wf {
			if len(edges) > 0 && edges[0].n.SpanID != ti.root {
				fail("trace-gantt/wellformed-wrong-root", "trace %s: root of the tree is %s, the span without parent is %s", t, edges[0].n.SpanID, ti.root)
			}
			missing, first := 0, ""
			for id := range ti.spans {
				if seen[id] == 0 {
					missing++
					if first == "" || id < first {
						first = id
					}
				}
			}
			if missing > 0 {
				fail("trace-gantt/wellformed-span-missing", "trace %s: %d stored records = %d distinct spans forming one tree (page size %d); the span tree has %d of them, %d are missing (e.g. %s)", t, ti.records, ti.distinct, op.page, len(seen), missing, first)
			}
		}
	}

	// ---- trace listing
	inWindow := func(f teFull) (in, sure bool) {
		lo, hi := float64(teWinStart)*1e6, float64(teWinEndMs)*1e6
		s, e := float64(f.start), float64(f.end)
		margin := 1e10 // 10 s: away from the float rounding of the ns times
		in = s >= lo && e <= hi
		sure = math.Abs(s-lo) > margin && math.Abs(e-hi) > margin && math.Abs(s-hi) > margin && math.Abs(e-lo) > margin
		return
	}
	anyDirty := false
	for _, ti := range info {
		if !ti.rootsOK {
			anyDirty = true
		}
	}
	listed := map[string][]teTraceRow{}
	allPagesOK := true
	for pi, rows := range v.pages {
		if !v.pageOK[pi] {
			allPagesOK = false
			if !anyDirty {
				fail("trace-search/error-on-clean-dataset", "page %d of the trace listing answered %d %s although every trace has at most one root", pi+1, w.Search[pi].Status, trunc(w.Search[pi].Text, 120))
			} else {
				fail("trace-search/one-ambiguous-trace-fails-the-whole-page", "page %d of the trace listing (%d traces in the window) answered %d %s: a trace whose root spans disagree hides every other trace of its page", pi+1, len(v.traces), w.Search[pi].Status, trunc(w.Search[pi].Text, 120))
			}
			continue
		}
		for _, r := range rows {
			listed[r.TraceId] = append(listed[r.TraceId], r)
		}
	}
	multi := len(v.traces) > 50
	for t, rows := range listed {
		ti := info[t]
		if ti == nil {
			fail("trace-search/unknown-trace-listed", "trace %q is listed, no stored record has this trace id", t)
			continue
		}
		if len(rows) > 1 {
			if multi {
				fail("trace-search/paged-listing-not-a-partition", "%d traces: trace %s is listed %d times over the pages of the listing", len(v.traces), t, len(rows))
			} else {
				fail("trace-search/trace-listed-twice", "trace %s is listed %d times", t, len(rows))
			}
		}
		if !ti.rootsOK || ti.nroots == 0 {
			if ti.nroots == 0 {
				fail("trace-search/rootless-trace-listed", "trace %s has no span without parent and is listed", t)
			}
			continue
		}
		r := rows[0]
		f := ti.rootRec
		if r.ServiceName != f.svc || r.OperationName != f.name {
			fail("trace-search/root-service-or-operation", "trace %s is listed with service %q operation %q, its root span %s has %q %q", t, r.ServiceName, r.OperationName, f.sid, f.svc, f.name)
		}
		switch {
		case r.SpanCount >= ti.idsAll && r.SpanCount <= ti.pairsAll:
		case r.SpanCount > ti.pairsAll && r.SpanCount <= ti.records:
			fail(teSigRedelivered, "trace %s is listed with %d spans; its %d stored records are %d distinct spans (some were delivered more than once), and its span tree shows each of them once", t, r.SpanCount, ti.records, ti.idsAll)
		default:
			fail("trace-search/span-count", "trace %s is listed with %d spans; %d records = %d distinct spans are stored", t, r.SpanCount, ti.records, ti.idsAll)
		}
		switch {
		case r.SpanErrorsCount >= ti.errEvery && r.SpanErrorsCount <= ti.errAny:
		case r.SpanErrorsCount > ti.errAny && r.SpanErrorsCount <= ti.errRecs:
			fail(teSigRedelivered, "trace %s is listed with %d error spans; its %d stored records with status ERROR are %d distinct spans (some were delivered more than once)", t, r.SpanErrorsCount, ti.errRecs, ti.errAny)
		default:
			fail("trace-search/error-span-count", "trace %s is listed with %d error spans; %d records = %d distinct spans with status ERROR are stored", t, r.SpanErrorsCount, ti.errRecs, ti.errAny)
		}
		if in, sure := inWindow(f); sure && !in {
			fail("trace-search/trace-outside-window-listed", "trace %s: root span runs %d..%d ns, outside the requested window, and is listed", t, f.start, f.end)
		}
	}
	if allPagesOK {
		for _, t := range v.traces {
			ti := info[t]
			if t == "" || !ti.rootsOK || ti.nroots == 0 || len(listed[t]) > 0 {
				continue
			}
			if in, sure := inWindow(ti.rootRec); in && sure {
				if multi {
					fail("trace-search/paged-listing-not-a-partition", "%d traces: trace %s (root %s inside the window) is on none of the %d pages of the listing", len(v.traces), t, ti.rootRec.sid, len(v.pages))
				} else {
					fail("trace-search/trace-not-listed", "trace %s has one root span (%s) inside the window and is not listed", t, ti.rootRec.sid)
				}
			}
		}
	}

	// ---- dependency graph and RED: only datasets without duplicate span ids (the statement counts SPANS).
	// A stored document whose duration is not a uint64 is not a span (no view can read it): it is left out, a
	// partial view for ITS trace — every other span of the window must still be counted.
	ids := map[string]int{}
	allFull := true
	unreadable := 0
	var full []teFull
	type spanLike struct{ sid, pid, svc string }
	var asRead []spanLike // every readable record the way the collectors unmarshal it (absent field = "")
	for _, e := range v.stored {
		if teUnreadable(e) {
			unreadable++
			continue
		}
		sl := spanLike{sid: e.sid}
		if e.pid != nil {
			sl.pid = *e.pid
		}
		if e.svc != nil {
			sl.svc = *e.svc
		}
		asRead = append(asRead, sl)
		f, ok := teFullOf(e)
		if !ok {
			allFull = false
			continue
		}
		ids[f.sid]++
		full = append(full, f)
	}
	uniq := allFull
	for _, n := range ids {
		if n > 1 {
			uniq = false
		}
	}
	blanked := false
	if unreadable > 0 && w.Dep == nil {
		blanked = true
		fail("trace-dep/unreadable-record-blanks-the-window", "%d of the %d stored records carry a duration that is not a uint64 (documents of another protocol in index traces): no dependency graph at all and %d RED rows for the WHOLE window, although %d records are proper spans", unreadable, len(v.stored), len(w.Red), len(asRead))
	}
	// the rate of every RED row: entry spans of the service per second over the 5-minute window.  Which spans are entry
	// spans when span ids repeat is the code's choice (the LAST record of an id in result order names its service).
	if !blanked && len(w.Red) > 0 {
		svcOfID := map[string]string{}
		for _, sl := range asRead {
			svcOfID[sl.sid] = sl.svc
		}
		entries := map[string]int{}
		for _, sl := range asRead {
			if sl.pid != "" {
				if ps, ok := svcOfID[sl.pid]; ok && ps == sl.svc {
					continue
				}
			}
			entries[sl.svc]++
		}
		for _, m := range w.Red {
			svc, _ := m["service"].(string)
			cnt := entries[svc]
			if cnt == 0 {
				continue
			}
			got := teF64Bits(m["rate"])
			if got != f64bits(float64(cnt)/300) && got == f64bits(float64(cnt)/60) {
				fail(teSigRedRate, "service %q: %d entry spans in the 5-minute window, rate %s = %d/60; the rate per second (the unit the service health page shows) is %d/300 = %s (float64 bits)", svc, cnt, got, cnt, cnt, f64bits(float64(cnt)/300))
			}
		}
	}
	if uniq && len(full) > 0 && !blanked {
		svcOf := map[string]string{}
		for _, f := range full {
			svcOf[f.sid] = f.svc
		}
		want := map[string]map[string]int{}
		allParents := true
		for _, f := range full {
			if f.pid == "" {
				continue
			}
			ps, ok := svcOf[f.pid]
			if !ok {
				allParents = false
				continue
			}
			if ps != f.svc {
				if want[ps] == nil {
					want[ps] = map[string]int{}
				}
				want[ps][f.svc]++
			}
		}
		if got, exp := teDepText(w.Dep), teDepText(want); w.Dep == nil || got != exp {
			g := got
			if w.Dep == nil {
				g = "no result"
			}
			if len(full) > 100 {
				fail("trace-dep/spans-beyond-the-first-100-ignored", "%d spans in the window: dependency graph %s, the cross-service parent-child pairs are %s", len(full), trunc(g, 150), trunc(exp, 150))
			} else {
				fail("trace-dep/counts", "%d spans: dependency graph %s, the cross-service parent-child pairs are %s", len(full), trunc(g, 150), trunc(exp, 150))
			}
		}
		if allParents {
			type agg struct {
				cnt, errs int
				durs      []uint64
			}
			by := map[string]*agg{}
			for _, f := range full {
				if f.pid != "" && svcOf[f.pid] == f.svc {
					continue
				}
				a := by[f.svc]
				if a == nil {
					a = &agg{}
					by[f.svc] = a
				}
				a.cnt++
				if f.status == teErrStatus {
					a.errs++
				}
				a.durs = append(a.durs, f.dur/1000000)
			}
			got := map[string]string{}
			for _, m := range w.Red {
				svc, _ := m["service"].(string)
				got[svc] = fmt.Sprintf("%s/%s/%s/%s/%s/%s", teF64Bits(m["rate"]), teF64Bits(m["error_rate"]), teF64Bits(m["p50"]), teF64Bits(m["p90"]), teF64Bits(m["p95"]), teF64Bits(m["p99"]))
			}
			if len(got) != len(by) || len(w.Red) != len(by) {
				fail("trace-red/rows", "%d services have entry spans, %d RED rows were written (page size %d)", len(by), len(w.Red), op.page)
			}
			for svc, a := range by {
				rest := fmt.Sprintf("/%s/%s/%s/%s/%s", f64bits(float64(a.errs)/float64(a.cnt)*100), f64bits(refPercentile(a.durs, 50)),
					f64bits(refPercentile(a.durs, 90)), f64bits(refPercentile(a.durs, 95)), f64bits(refPercentile(a.durs, 99)))
				exp := f64bits(float64(a.cnt)/300) + rest
				g, ok := got[svc]
				switch {
				case !ok || g == exp:
				case g == f64bits(float64(a.cnt)/60)+rest:
					fail(teSigRedRate, "service %q: %d entry spans in the 5-minute window, RED row %s: the rate is %d/60; the rate per second is %d/300 = %s (float64 bits)", svc, a.cnt, g, a.cnt, a.cnt, f64bits(float64(a.cnt)/300))
				default:
					fail("trace-red/rows", "service %q: RED row %s, its %d entry spans give %s (rate/error%%/p50/p90/p95/p99 as float64 bits; page size %d)", svc, g, a.cnt, exp, op.page)
				}
			}
		}
	}
	// ---- spans delivered more than once in the dependency graph and in RED (known finding): when every span id that
	// occurs more than once occurs with IDENTICAL records only, the statement's spans are the distinct records
	if !uniq && allFull && len(full) > 0 && !blanked && w.Dep != nil {
		first := map[string]teFull{}
		identical := true
		var distinct []teFull
		for _, f := range full {
			if old, ok := first[f.sid]; ok {
				if old != f {
					identical = false
				}
				continue
			}
			first[f.sid] = f
			distinct = append(distinct, f)
		}
		if identical {
			gotDep := teDepText(w.Dep)
			gotRed := map[string]string{}
			for _, m := range w.Red {
				svc, _ := m["service"].(string)
				gotRed[svc] = fmt.Sprintf("%s/%s/%s/%s/%s/%s", teF64Bits(m["rate"]), teF64Bits(m["error_rate"]), teF64Bits(m["p50"]), teF64Bits(m["p90"]), teF64Bits(m["p95"]), teF64Bits(m["p99"]))
			}
			sameRows := func(a, b map[string]string) bool {
				if len(a) != len(b) {
					return false
				}
				for k, v := range a {
					if b[k] != v {
						return false
					}
				}
				return true
			}
			for _, div := range []float64{300, 60} {
				depD, redD, parentsOK := teExpectDepRed(distinct, div)
				depR, redR, _ := teExpectDepRed(full, div)
				if gotDep != depD && gotDep == depR {
					fail("trace-dep/redelivered-span-counted-again", "%d stored records are %d distinct spans (the others are identical re-deliveries): dependency graph %s counts the records, the cross-service parent-child span pairs are %s", len(full), len(distinct), trunc(gotDep, 150), trunc(depD, 150))
				}
				if parentsOK && len(w.Red) == len(gotRed) && !sameRows(gotRed, redD) && sameRows(gotRed, redR) {
					fail("trace-red/redelivered-span-counted-again", "%d stored records are %d distinct spans (the others are identical re-deliveries): the RED rows are those of the records (a re-delivered entry span counts twice in rate, error rate and percentiles), not those of the spans", len(full), len(distinct))
				}
			}
		}
	}
	return fails, tags
}

// the dependency graph and the RED rows (rate = count / div) the statement gives for spans with unique ids
func teExpectDepRed(spans []teFull, div float64) (dep string, red map[string]string, allParents bool) {
	svcOf := map[string]string{}
	for _, f := range spans {
		svcOf[f.sid] = f.svc
	}
	want := map[string]map[string]int{}
	allParents = true
	for _, f := range spans {
		if f.pid == "" {
			continue
		}
		ps, ok := svcOf[f.pid]
		if !ok {
			allParents = false
			continue
		}
		if ps != f.svc {
			if want[ps] == nil {
				want[ps] = map[string]int{}
			}
			want[ps][f.svc]++
		}
	}
	type agg struct {
		cnt, errs int
		durs      []uint64
	}
	by := map[string]*agg{}
	for _, f := range spans {
		if ps, ok := svcOf[f.pid]; f.pid != "" && ok && ps == f.svc {
			continue
		}
		a := by[f.svc]
		if a == nil {
			a = &agg{}
			by[f.svc] = a
		}
		a.cnt++
		if f.status == teErrStatus {
			a.errs++
		}
		a.durs = append(a.durs, f.dur/1000000)
	}
	red = map[string]string{}
	for svc, a := range by {
		red[svc] = fmt.Sprintf("%s/%s/%s/%s/%s/%s", f64bits(float64(a.cnt)/div), f64bits(float64(a.errs)/float64(a.cnt)*100), f64bits(refPercentile(a.durs, 50)),
			f64bits(refPercentile(a.durs, 90)), f64bits(refPercentile(a.durs, 95)), f64bits(refPercentile(a.durs, 99)))
	}
	return teDepText(want), red, allParents
}

func teAttrKinds(s teSpan) string {
	var ks []string
	for _, a := range s.attrs {
		switch a.kind {
		case 'y':
			ks = append(ks, a.key+"=bytes")
		case 'z':
			ks = append(ks, a.key+"=empty")
		}
	}
	return strings.Join(ks, ",")
}

func teAttrKeys(s teSpan) string {
	var ks []string
	for _, a := range s.attrs {
		if teCollide[a.key] {
			ks = append(ks, a.key)
		}
	}
	return strings.Join(ks, ",")
}

// ---------------------------------------------------------------- exec

func teValid(op *teOp) bool {
	for _, s := range teRecords(op) {
		if s.start > 1<<62 || s.end > 1<<62 {
			return false
		}
		for _, a := range s.attrs {
			switch {
			case teSkipCols[a.key] || a.key == "trace_id":
				return false
			case a.key == "start_time" || a.key == "end_time" || a.key == "duration":
				if !(a.kind == 'y' || a.kind == 'z' || a.kind == 'n' || (a.kind == 'i' && a.i >= 0)) {
					return false
				}
			case teCollide[a.key]:
				if !(a.kind == 'y' || a.kind == 'z' || a.kind == 'n' || a.kind == 's') {
					return false
				}
			}
		}
	}
	return true
}

func execTraceE2E(line string) Result {
	op, ok := teParse(line)
	if !ok || !teValid(op) {
		return Result{Out: "bad-op"}
	}
	recs := teRecords(op)
	timeout := 90*time.Second + time.Duration(len(recs))*50*time.Millisecond
	w, e := teRunWorker(line, timeout)
	res := Result{Nontrivial: len(recs) >= 3, Tags: teTags(op)}
	if w == nil {
		res.Out = "worker-failed"
		sig := "trace-e2e/crash"
		if e == "hang" {
			sig = "trace-e2e/hang"
		}
		res.Fails = append(res.Fails, PropFail{Sig: sig, Msg: fmt.Sprintf("%d spans/documents in %d requests: %s", len(recs), len(op.reqs), e)})
		return res
	}
	if !w.Hooked {
		res.Tags = append(res.Tags, "page-hook=off")
	}
	v := teParseView(w)
	res.Out = teCanon(op, w, v)
	fails, tags := teJudge(op, w, v)
	res.Fails = fails
	res.Tags = append(res.Tags, tags...)
	maxTries := 0
	for _, h := range w.Gantt {
		if h.Tries > maxTries {
			maxTries = h.Tries
		}
	}
	if maxTries > 1 {
		res.Tags = append(res.Tags, "gantt/retried-for-pick")
	}
	if len(v.stored) > op.page {
		res.Tags = append(res.Tags, "records>page")
	}
	return res
}

func teTags(op *teOp) []string {
	tags := []string{"e2e"}
	recs := teRecords(op)
	perTrace := map[string]int{}
	ids := map[string]int{}
	for _, s := range recs {
		perTrace[s.trace]++
		ids[s.trace+"/"+s.sid]++
	}
	maxT := 0
	for _, n := range perTrace {
		if n > maxT {
			maxT = n
		}
	}
	dup := false
	for _, n := range ids {
		if n > 1 {
			dup = true
		}
	}
	switch {
	case op.page == 1000 && maxT > 1000:
		tags = append(tags, "page=1000/trace>1000")
	case op.page == 1000:
		tags = append(tags, "page=1000/single-page")
	case maxT > 3*op.page:
		tags = append(tags, "page<1000/trace>3pages")
	case maxT > op.page:
		tags = append(tags, "page<1000/trace>1page")
	default:
		tags = append(tags, "page<1000/single-page")
	}
	if dup {
		tags = append(tags, "dup-span-ids")
		if maxT > op.page {
			tags = append(tags, "dup-span-ids+multi-page")
		}
	}
	nres, unnamedAfterNamed, raw := 0, false, false
	for _, rq := range op.reqs {
		if rq.raw {
			raw = true
			continue
		}
		if len(rq.res) > nres {
			nres = len(rq.res)
		}
		seenNamed := false
		for _, rs := range rq.res {
			_, n := teResService(rs.spec)
			if n {
				seenNamed = true
			} else if seenNamed {
				unnamedAfterNamed = true
			}
		}
	}
	switch {
	case nres <= 1:
		tags = append(tags, "resources/request=1")
	case nres <= 3:
		tags = append(tags, "resources/request 2..3")
	case nres <= 6:
		tags = append(tags, "resources/request 4..6")
	default:
		tags = append(tags, "resources/request>=7")
	}
	if unnamedAfterNamed {
		tags = append(tags, "resource-without-service-after-named-one")
	}
	if raw {
		tags = append(tags, "documents-of-another-protocol")
	}
	for _, s := range recs {
		if s.raw && s.durSpec != "" {
			tags = append(tags, "document-with-unreadable-duration", "unreadable-duration/"+s.durSpec[:1])
			break
		}
	}
	if dup {
		identical := map[string]int{}
		for _, s := range recs {
			if !s.raw {
				identical[teSpanText(s)]++
			}
		}
		for _, n := range identical {
			if n > 1 {
				tags = append(tags, "span-redelivered-identically")
				break
			}
		}
	}
	switch n := len(perTrace); {
	case n > 50:
		tags = append(tags, "traces>50")
	case n > 1:
		tags = append(tags, "traces 2..50")
	default:
		tags = append(tags, "traces=1")
	}
	if len(recs) > 100 {
		tags = append(tags, "spans>100")
	}
	rej, col, wrap := false, false, false
	for _, rq := range op.reqs {
		if !rq.raw && teReqHasNoValue(rq) {
			tags = append(tags, "attribute-without-value")
			break
		}
	}
	for _, s := range recs {
		rej = rej || teSpanBytesOrEmpty(s)
		col = col || teSpanCollides(s)
		wrap = wrap || s.end < s.start
	}
	if rej {
		tags = append(tags, "bytes-or-empty-attribute")
	}
	if col {
		tags = append(tags, "attribute-key-collides-with-span-field")
	}
	if wrap {
		tags = append(tags, "end<start")
	}
	tags = append(tags, "requests="+strconv.Itoa(minInt(len(op.reqs), 4)))
	return tags
}

// ---------------------------------------------------------------- generator

type teGen struct {
	r    *rand.Rand
	tier string
}

func (g *teGen) hexID(width int, v uint64) string {
	if width <= 0 {
		return ""
	}
	s := fmt.Sprintf("%0*x", 2*width, v)
	return s[len(s)-2*width:]
}

// one trace as a forest of teSpans (svc kept in .svc as the resource spec to send it under)
func (g *teGen) forest(trace string, n int, idBase uint64, idWidth int, nsvc int) []teSpan {
	r := g.r
	sp := make([]teSpan, n)
	base := uint64(1700000000000000000) + uint64(r.Intn(3600))*1000000000 + uint64(r.Intn(1000))
	if r.Intn(8) == 0 {
		base = uint64(1700000000000000000) + uint64(r.Intn(1000))*1048576 // exactly representable neighbourhood
	}
	style := r.Intn(4)
	specs := g.specs(nsvc)
	for i := 0; i < n; i++ {
		s := teSpan{trace: trace, sid: g.hexID(idWidth, idBase+uint64(i)), name: fmt.Sprintf("op%d", r.Intn(6)), svc: specs[r.Intn(len(specs))]}
		pi := -1
		if i > 0 {
			switch style {
			case 0:
				pi = i - 1
			case 1:
				pi = 0
			default:
				pi = r.Intn(i)
			}
		}
		if pi < 0 {
			s.start = base
		} else {
			s.pid = sp[pi].sid
			ps := sp[pi].start
			switch {
			case style == 3 && r.Intn(2) == 0:
				s.start = ps
			case r.Intn(8) == 0:
				s.start = ps - uint64(1+r.Intn(50))
			default:
				s.start = ps + uint64(r.Intn(20))*1000
			}
			if r.Intn(3) != 0 {
				s.svc = sp[pi].svc
			}
		}
		switch r.Intn(6) {
		case 0:
			s.end = s.start + uint64(r.Intn(3))
		case 1:
			s.end = s.start + uint64(r.Intn(2000))*1000000 + uint64(r.Intn(1000000))
		default:
			s.end = s.start + uint64(1+r.Intn(500))*1000000
		}
		switch x := r.Intn(20); {
		case x < 9:
			s.status = "1"
		case x < 13:
			s.status = "2"
		case x < 16:
			s.status = "0"
		case x < 18:
			s.status = "n"
		default:
			s.status = strconv.Itoa(3 + r.Intn(6))
		}
		if r.Intn(4) == 0 {
			s.attrs = g.attrs()
		}
		if r.Intn(12) == 0 {
			s.name = ""
		}
		sp[i] = s
	}
	return sp
}

// resource specs for a dataset: mostly named services, some resources that name none
func (g *teGen) specs(nsvc int) []string {
	r := g.r
	var out []string
	for i := 0; i < nsvc; i++ {
		k := 1 + r.Intn(6)
		switch x := r.Intn(20); {
		case x < 11:
			out = append(out, fmt.Sprintf("s%d", k))
		case x < 13:
			out = append(out, fmt.Sprintf("x%d", k))
		case x < 14:
			out = append(out, fmt.Sprintf("t%d_%d", 1+r.Intn(6), k))
		case x < 15:
			out = append(out, "n")
		case x < 16:
			out = append(out, "e")
		case x < 17:
			out = append(out, "h")
		case x < 18:
			out = append(out, "v")
		default:
			out = append(out, fmt.Sprintf("i%d", k))
		}
	}
	return out
}

func (g *teGen) attrs() []teAttr {
	r := g.r
	keys := []string{"http.method", "k", "peer.service", "n", "user_id", "service.name", "f"}
	var out []teAttr
	used := map[string]bool{}
	for c := 1 + r.Intn(3); c > 0; c-- {
		k := keys[r.Intn(len(keys))]
		if used[k] {
			continue
		}
		used[k] = true
		a := teAttr{key: k}
		switch x := r.Intn(40); {
		case x < 12:
			a.kind, a.s = 's', []string{"get", "post", "x1", ""}[r.Intn(4)]
		case x < 20:
			a.kind, a.i = 'i', int64(r.Intn(2000))-300
			if a.i == 0 {
				a.i = 7
			}
			a.s = strconv.FormatInt(a.i, 10)
		case x < 25:
			a.kind, a.s = 'b', strconv.Itoa(r.Intn(2))
		case x < 29:
			a.kind, a.i = 'd', int64(r.Intn(100))
			a.s = strconv.FormatInt(a.i, 10)
		case x < 31:
			a.kind = 'a'
		case x < 33:
			a.kind = 'm'
		case x < 36:
			a.kind = 'y'
		case x < 38:
			a.kind = 'z'
		case x < 39:
			if g.r.Intn(4) != 0 {
				continue
			}
			a.kind = 'n' // a KeyValue without AnyValue (rare)
		default: // a key that is also a span field
			switch r.Intn(4) {
			case 0:
				a.key, a.kind, a.s = "status", 's', "paid"
			case 1:
				a.key, a.kind, a.s = "service", 's', "s9"
			case 2:
				a.key, a.kind, a.s = "name", 's', "custom"
			default:
				a.key, a.kind, a.i, a.s = "duration", 'i', 5, "5"
			}
			if used[a.key] {
				continue
			}
			used[a.key] = true
		}
		out = append(out, a)
	}
	return out
}

func (g *teGen) malform(sp []teSpan, allowRoots bool) []teSpan {
	r := g.r
	n := len(sp)
	fresh := func() string { return fmt.Sprintf("ee%06x", r.Intn(1<<20)) }
	for k := 1 + r.Intn(2); k > 0; k-- {
		i := r.Intn(n)
		switch r.Intn(9) {
		case 0: // same span id, other content, LATER delivery (see split: conflicting duplicates go to their own request)
			d := sp[r.Intn(n)]
			d.sid = sp[i].sid
			d.start += uint64(r.Intn(3))
			d.raw = false
			d.res = -7 // marker: deliver in a later request
			sp = append(sp, d)
		case 1:
			sp[i].pid = fresh()
		case 2:
			if allowRoots {
				sp[i].pid = ""
			} else {
				sp[i].pid = fresh()
			}
		case 3:
			sp[0].pid = fresh()
		case 4:
			j := r.Intn(n)
			sp[i].pid = sp[j].sid
			sp[j].pid = sp[i].sid
		case 5:
			sp[i].pid = sp[i].sid
		case 6:
			l := 2 + r.Intn(minInt(n, 12))
			for t := 0; t < l; t++ {
				a, b := (i+t)%n, (i+t+1)%n
				if t == l-1 {
					b = i
				}
				sp[a].pid = sp[b].sid
			}
		case 7: // the empty span id (at most one span per trace: two of them in one request would be conflicting
			// records of one ingest millisecond, whose result order is not fixed)
			hasEmpty := false
			for _, s := range sp {
				hasEmpty = hasEmpty || s.sid == ""
			}
			if hasEmpty {
				break
			}
			if allowRoots && r.Intn(2) == 0 {
				sp = append(sp, teSpan{trace: sp[0].trace, sid: "", pid: "", name: "noid", svc: sp[0].svc, start: sp[0].start + uint64(r.Intn(5)), end: sp[0].start + 9000000, status: "1"})
			} else {
				sp[i].sid = ""
			}
		case 8: // ends before it starts: by a few ns or by milliseconds
			if r.Intn(2) == 0 {
				sp[i].end = sp[i].start - uint64(1+r.Intn(1024))
			} else {
				sp[i].end = sp[i].start - uint64(1025+r.Intn(5000000))
			}
		}
	}
	return sp
}

// deliver the spans: shuffled, cut into requests, grouped into resources by spec (several resources of one spec
// possible), resources cut into scopes
func (g *teGen) split(spans []teSpan, nreq int) []teReq {
	r := g.r
	var now, later []teSpan
	for _, s := range spans {
		if s.res == -7 {
			later = append(later, s)
		} else {
			now = append(now, s)
		}
	}
	r.Shuffle(len(now), func(i, j int) { now[i], now[j] = now[j], now[i] })
	var reqs []teReq
	mk := func(part []teSpan) teReq {
		var order []string
		by := map[string][]teSpan{}
		for _, s := range part {
			key := s.svc
			if r.Intn(6) == 0 {
				key = s.svc + "#2" // a second resource of the same service
			}
			if _, ok := by[key]; !ok {
				order = append(order, key)
			}
			by[key] = append(by[key], s)
		}
		r.Shuffle(len(order), func(i, j int) { order[i], order[j] = order[j], order[i] })
		rq := teReq{}
		for _, key := range order {
			ss := by[key]
			res := teRes{spec: strings.TrimSuffix(key, "#2")}
			nsc := 1
			if len(ss) > 1 && r.Intn(3) == 0 {
				nsc = 2 + r.Intn(2)
			}
			for c := 0; c < nsc; c++ {
				lo, hi := c*len(ss)/nsc, (c+1)*len(ss)/nsc
				res.scopes = append(res.scopes, ss[lo:hi])
			}
			if r.Intn(10) == 0 {
				res.scopes = append(res.scopes, nil) // a scope without spans
			}
			rq.res = append(rq.res, res)
		}
		return rq
	}
	if nreq < 1 {
		nreq = 1
	}
	if nreq > len(now) {
		nreq = maxInt(1, len(now))
	}
	for c := 0; c < nreq; c++ {
		lo, hi := c*len(now)/nreq, (c+1)*len(now)/nreq
		if hi > lo {
			reqs = append(reqs, mk(now[lo:hi]))
		}
	}
	if len(later) > 0 {
		for _, s := range later { // one conflicting duplicate per request: record order is then fixed by the ingest time
			s.res = 0
			reqs = append(reqs, mk([]teSpan{s}))
		}
	}
	return reqs
}

func maxInt(a, b int) int {
	if a > b {
		return a
	}
	return b
}

func teSpanText(s teSpan) string {
	d := func(x string) string {
		if x == "" {
			return "-"
		}
		return x
	}
	at := "-"
	if len(s.attrs) > 0 {
		var toks []string
		for _, a := range s.attrs {
			toks = append(toks, strings.ReplaceAll(a.key, ".", "~")+"="+string(a.kind)+a.s)
		}
		at = strings.Join(toks, "+")
	}
	return strings.Join([]string{d(s.trace), d(s.sid), d(s.pid), d(s.name), strconv.FormatUint(s.start, 10), strconv.FormatUint(s.end, 10), s.status, at}, ".")
}

func teRawText(s teSpan) string {
	d := func(x string, absent bool) string {
		if absent {
			return "!"
		}
		if x == "" {
			return "-"
		}
		return x
	}
	st := s.status
	if s.noStatus {
		st = "!"
	}
	f := []string{d(s.trace, false), d(s.sid, false), d(s.pid, s.noPid), d(s.svc, s.noSvc), d(s.name, s.noName), strconv.FormatUint(s.start, 10), strconv.FormatUint(s.end, 10), st}
	if s.durSpec != "" {
		f = append(f, s.durSpec)
	}
	return strings.Join(f, ".")
}

func teReqText(rq teReq) string {
	if rq.raw {
		toks := make([]string, len(rq.ev))
		for i, e := range rq.ev {
			toks[i] = teRawText(e)
		}
		return "r:" + strings.Join(toks, ";")
	}
	var rs []string
	for _, res := range rq.res {
		parts := []string{res.spec}
		for _, sc := range res.scopes {
			if len(sc) == 0 {
				parts = append(parts, "-")
				continue
			}
			toks := make([]string, len(sc))
			for i, s := range sc {
				toks[i] = teSpanText(s)
			}
			parts = append(parts, strings.Join(toks, ","))
		}
		rs = append(rs, strings.Join(parts, "/"))
	}
	return "o:" + strings.Join(rs, ";")
}

func teLine(page int, pick int, reqs []teReq) string {
	toks := make([]string, len(reqs))
	for i, rq := range reqs {
		toks[i] = teReqText(rq)
	}
	return fmt.Sprintf("te %d %d %s", page, pick, strings.Join(toks, "|"))
}

// a `duration` that no uint64 field can take: 2^64 as a float, negative, fractional, a string
func (g *teGen) badDur() string {
	r := g.r
	switch r.Intn(4) {
	case 0:
		return "f"
	case 1:
		return "m" + strconv.Itoa(1+r.Intn(5000))
	case 2:
		return "h" + strconv.Itoa(r.Intn(5000))
	}
	return "t" + []string{"soon", "12ms", "x", "1s"}[r.Intn(4)]
}

// documents without required fields for trace `trace`, children of existing spans
func (g *teGen) rawDocs(spans []teSpan, k int) teReq {
	r := g.r
	rq := teReq{raw: true}
	for i := 0; i < k; i++ {
		p := spans[r.Intn(len(spans))]
		e := teSpan{raw: true, trace: p.trace, sid: fmt.Sprintf("dd%04x", r.Intn(1<<16)), pid: p.sid, svc: fmt.Sprintf("s%d", 1+r.Intn(4)), name: "doc", start: p.start + 1000, end: p.start + 2001000, status: "1"}
		switch r.Intn(10) {
		case 0:
			e.noSvc = true
		case 1:
			e.noName = true
		case 2:
			e.noPid = true
		case 3:
			e.noStatus = true
		case 4: // status-less record with the id of an existing span and another parent
			e.noStatus = true
			e.sid = p.sid
			e.pid = spans[r.Intn(len(spans))].sid
		case 5: // complete document (a span delivered through another protocol)
		case 6, 7, 8: // complete document whose duration is not a uint64
			e.durSpec = g.badDur()
		default:
			e.noSvc, e.noStatus = true, r.Intn(2) == 0
		}
		rq.ev = append(rq.ev, e)
	}
	return rq
}

func genTraceE2E(r *rand.Rand, n int, tier string) []string {
	g := &teGen{r: r, tier: tier}
	T := func(k int) string { return fmt.Sprintf("ab%030x", k) }
	R := uint64(1700000000000000000)
	out := []string{
		// the deliberate boundary cases
		// two resources, the second names no service
		fmt.Sprintf("te 1000 0 o:s1/%s.01.-.root.%d.%d.1.-;h/%s.02.01.child.%d.%d.2.-", T(1), R, R+500000000, T(1), R+1000, R+2000000),
		// nil Resource after a named one, value-less and int-valued service.name
		fmt.Sprintf("te 1000 0 o:s2/%s.01.-.root.%d.%d.1.-;n/%s.02.01.a.%d.%d.1.-;v/%s.03.01.b.%d.%d.1.-;i5/%s.04.01.c.%d.%d.1.-;s3/%s.05.04.d.%d.%d.2.-", T(2), R, R+500000000, T(2), R+1, R+9000000, T(2), R+2, R+9000000, T(2), R+3, R+9000000, T(2), R+4, R+9000000),
		// a page of 2 records, one span delivered twice inside the first page
		fmt.Sprintf("te 2 0 o:s1/%[1]s.01.-.root.%[2]d.%[3]d.1.-|o:s1/%[1]s.02.01.a.%[2]d.%[3]d.1.-,%[1]s.03.01.b.%[2]d.%[3]d.1.-|o:s1/%[1]s.04.03.c.%[2]d.%[3]d.1.-,%[1]s.04.03.c.%[2]d.%[3]d.1.-", T(3), R, R+7000000),
		// page of 1
		fmt.Sprintf("te 1 0 o:s1/%[1]s.01.-.root.%[2]d.%[3]d.1.-,%[1]s.02.01.a.%[2]d.%[3]d.2.-,%[1]s.02.01.a.%[2]d.%[3]d.2.-,%[1]s.03.02.b.%[2]d.%[3]d.1.-", T(4), R, R+7000000),
		// documents without required fields in the middle of a page
		fmt.Sprintf("te 2 0 o:s1/%[1]s.01.-.root.%[2]d.%[3]d.1.-,%[1]s.02.01.a.%[2]d.%[3]d.1.-|r:%[1]s.dd01.01.!.x.%[2]d.%[3]d.1;%[1]s.dd02.01.s2.!.%[2]d.%[3]d.1;%[1]s.dd03.!.s2.y.%[2]d.%[3]d.1;%[1]s.dd04.01.s2.z.%[2]d.%[3]d.!|o:s2/%[1]s.03.02.b.%[2]d.%[3]d.2.-", T(5), R, R+7000000),
		// two RED entry spans of 7 ms and of 1 ms (percentiles of few equal odd durations)
		fmt.Sprintf("te 1000 0 o:s1/%[1]s.01.-.a.%[2]d.%[3]d.1.-,%[4]s.02.-.b.%[2]d.%[3]d.1.-;s2/%[5]s.03.-.a.%[2]d.%[6]d.1.-,%[7]s.04.-.b.%[2]d.%[6]d.1.-", T(6), R, R+7300000, T(7), T(8), R+1900000, T(9)),
		"te 1000 0 o:s1",
		"te 1000 0 o:n/-",
		// one document of another protocol with a duration that is not a uint64 next to two OTLP spans of two services:
		// the dependency graph and the RED rows of the two spans must still be there (every kind of such a duration)
		fmt.Sprintf("te 1000 0 o:s1/%[1]s.01.-.root.%[2]d.%[3]d.1.-;s2/%[1]s.02.01.child.%[4]d.%[5]d.2.-|r:%[1]s.dd01.01.s2.doc.%[4]d.%[5]d.1.m5", T(12), R, R+500000000, R+1000, R+2001000),
		fmt.Sprintf("te 2 0 r:%[1]s.dd01.01.s2.doc.%[4]d.%[5]d.1.f|o:s1/%[1]s.01.-.root.%[2]d.%[3]d.1.-;s2/%[1]s.02.01.child.%[4]d.%[5]d.2.-|r:%[1]s.dd02.02.s3.doc.%[4]d.%[5]d.2.tsoon;%[1]s.dd03.02.s3.doc.%[4]d.%[5]d.1.h7", T(13), R, R+500000000, R+1000, R+2001000),
		// … and a page that holds nothing but such documents must not end the paging loops (page of 1)
		fmt.Sprintf("te 1 0 o:s1/%[1]s.01.-.root.%[2]d.%[3]d.1.-|r:%[1]s.dd01.01.s2.doc.%[4]d.%[5]d.1.m1|o:s2/%[1]s.02.01.child.%[4]d.%[5]d.2.-", T(14), R, R+500000000, R+1000, R+2001000),
		// a two-span trace delivered twice (a retried export): still two spans, one of them an error
		fmt.Sprintf("te 1000 0 o:s1/%[1]s.01.-.root.%[2]d.%[3]d.1.-,%[1]s.02.01.a.%[2]d.%[3]d.2.-|o:s1/%[1]s.01.-.root.%[2]d.%[3]d.1.-,%[1]s.02.01.a.%[2]d.%[3]d.2.-", T(15), R, R+7000000),
		// the same span id once with status OK and once with status ERROR (conflicting deliveries)
		fmt.Sprintf("te 1000 0 o:s1/%[1]s.01.-.root.%[2]d.%[3]d.1.-,%[1]s.02.01.a.%[2]d.%[3]d.2.-|o:s1/%[1]s.02.01.a.%[2]d.%[3]d.1.-", T(16), R, R+7000000),
		// root with an empty-valued attribute, child with a bytes-valued one: both are legal OTLP, the trace is complete
		fmt.Sprintf("te 1000 0 o:s1/%[1]s.01.-.root.%[2]d.%[3]d.1.k=z,%[1]s.02.01.a.%[2]d.%[3]d.2.k=y+status=y,%[1]s.03.02.b.%[2]d.%[3]d.1.-", T(17), R, R+7000000),
		// malformed op lines: both sides answer bad-op
		"te 0 0 o:s1",
		"te 1000 0 x:s1",
		"te 1000 0 o:q1/-",
		fmt.Sprintf("te 1000 0 o:s1/%s.0g.-.root.%d.%d.1.-", T(10), R, R+5),
		fmt.Sprintf("te 1000 0 o:s1/%s.01.-.root.%d.%d.1.timestamp=i5", T(10), R, R+5),
		fmt.Sprintf("te 1000 0 o:s1/%s.01.-.root.%d.%d.1.name=i5", T(10), R, R+5),
		fmt.Sprintf("te 1000 0 o:s1/%s.01.-.root.0%d.%d.1.-", T(10), R, R+5),
		fmt.Sprintf("te 1000 0 r:%s.01.-.s1.root.%d.%d", T(10), R, R+5),
		fmt.Sprintf("te 1000 0 r:%s.01.-.s1.root.%d.%d.1.t12", T(10), R, R+5),
		fmt.Sprintf("te 1000 0 r:%s.01.-.s1.root.%d.%d.1.m0", T(10), R, R+5),
		fmt.Sprintf("te 1000 0 r:%s.01.-.s1.root.%d.%d.1.q", T(10), R, R+5),
	}
	{ // one trace larger than the real page in EVERY run: 1001..1100 spans, three of its 6..9 batches delivered twice
		nsp := 1001 + r.Intn(100)
		spans := g.forest(T(11), nsp, 1, 8, 2)
		for i := range spans {
			spans[i].attrs = nil
		}
		reqs := g.split(spans, 6+r.Intn(4))
		reqs = append(reqs, reqs[0], reqs[len(reqs)/2], reqs[len(reqs)-1])
		out = append(out, teLine(1000, 0, reqs))
	}
	tid := 100
	newTrace := func() string { tid++; return T(tid) }
	for len(out) < n {
		x := r.Intn(100)
		switch {
		case x < 40: // one or two traces, small pages, duplicates / documents: the paging region
			nsp := 2 + r.Intn(14)
			if r.Intn(4) == 0 {
				nsp = 15 + r.Intn(45)
			}
			page := 1 + r.Intn(minInt(12, maxInt(1, nsp/2)))
			spans := g.forest(newTrace(), nsp, uint64(1+r.Intn(1000)), []int{8, 8, 8, 1, 2, 3, 16}[r.Intn(7)], 1+r.Intn(3))
			if len(spans) > 200 && len(spans[0].sid) == 2 {
				continue
			}
			mal := r.Intn(100) < 30
			if mal {
				spans = g.malform(spans, nsp <= 40)
			}
			if r.Intn(3) == 0 {
				spans = append(spans, g.forest(newTrace(), 1+r.Intn(6), uint64(2000+r.Intn(1000)), 8, 2)...)
			}
			reqs := g.split(spans, 1+r.Intn(4))
			switch r.Intn(5) { // re-deliveries
			case 0, 1:
				k := r.Intn(len(reqs))
				reqs = append(reqs, reqs[k])
				if r.Intn(2) == 0 {
					j := r.Intn(len(reqs))
					reqs[j], reqs[len(reqs)-1] = reqs[len(reqs)-1], reqs[j]
				}
			case 2: // single spans delivered twice inside one request
				k := r.Intn(len(reqs))
				rq := reqs[k]
				if len(rq.res) > 0 && len(rq.res[0].scopes) > 0 && len(rq.res[0].scopes[0]) > 0 {
					sc := append([]teSpan(nil), rq.res[0].scopes[0]...)
					sc = append(sc, sc[r.Intn(len(sc))])
					nr := teReq{res: append([]teRes(nil), rq.res...)}
					nr.res[0] = teRes{spec: rq.res[0].spec, scopes: append([][]teSpan{sc}, rq.res[0].scopes[1:]...)}
					reqs[k] = nr
				}
			}
			if r.Intn(4) == 0 {
				raw := g.rawDocs(spans, 1+r.Intn(4))
				at := r.Intn(len(reqs) + 1)
				reqs = append(reqs[:at], append([]teReq{raw}, reqs[at:]...)...)
			}
			out = append(out, teLine(page, r.Intn(4), reqs))
		case x < 62: // several resources per request: the ingest region
			ntr := 1 + r.Intn(4)
			var spans []teSpan
			for t := 0; t < ntr; t++ {
				spans = append(spans, g.forest(newTrace(), 1+r.Intn(8), uint64(1+r.Intn(100000)), 8, 2+r.Intn(4))...)
			}
			if r.Intn(4) == 0 {
				spans = g.malform(spans, true)
			}
			out = append(out, teLine([]int{1000, 1000, 3, 7}[r.Intn(4)], r.Intn(4), g.split(spans, 1+r.Intn(2))))
		case x < 72: // many small traces: the listing
			ntr := 5 + r.Intn(40)
			if r.Intn(3) == 0 {
				ntr = 45 + r.Intn(90)
			}
			var spans []teSpan
			for t := 0; t < ntr; t++ {
				f := g.forest(newTrace(), 1+r.Intn(3), uint64(1+t*8), 8, 1+r.Intn(2))
				switch r.Intn(14) {
				case 0: // root before the window
					d := f[0].start - 1500000000000000000
					for i := range f {
						f[i].start -= d
						f[i].end -= d
					}
				case 1: // root ends after the window
					f[0].end = 4000000000000000000 + uint64(r.Intn(1000))
				case 2: // second root
					if ntr <= 50 {
						f = append(f, teSpan{trace: f[0].trace, sid: g.hexID(8, uint64(900000+t)), name: "other", svc: f[0].svc, start: f[0].start + uint64(r.Intn(2)), end: f[0].end, status: "1"})
					}
				case 3: // no root
					f[0].pid = "ee0001"
				}
				spans = append(spans, f...)
			}
			out = append(out, teLine(1000, r.Intn(4), g.split(spans, 1+r.Intn(3))))
		case x < 80: // more than 100 spans: dependency graph beyond its page, RED over several pages
			ntr := 2 + r.Intn(5)
			var spans []teSpan
			for t := 0; t < ntr; t++ {
				spans = append(spans, g.forest(newTrace(), 20+r.Intn(40), uint64(1+t*1000), 8, 2+r.Intn(3))...)
			}
			out = append(out, teLine([]int{1000, 50, 64, 100}[r.Intn(4)], 0, g.split(spans, 1+r.Intn(3))))
		case x < 83: // a trace larger than the real page
			big := tier == "thorough" || r.Intn(3) == 0
			if !big {
				continue
			}
			nsp := 1001 + r.Intn(300)
			if tier == "thorough" && r.Intn(4) == 0 {
				nsp = 2001 + r.Intn(600)
			}
			spans := g.forest(newTrace(), nsp, 1, 8, 2)
			for i := range spans {
				spans[i].attrs = nil
			}
			reqs := g.split(spans, 2+r.Intn(10))
			k := r.Intn(len(reqs))
			reqs = append(reqs, reqs[k]) // a re-sent batch
			if r.Intn(2) == 0 {
				reqs = append(reqs, reqs[0])
			}
			out = append(out, teLine(1000, 0, reqs))
		case x < 92: // documents of another protocol whose duration is not a uint64, next to OTLP spans of several services
			ntr := 1 + r.Intn(3)
			var spans []teSpan
			for t := 0; t < ntr; t++ {
				f := g.forest(newTrace(), 2+r.Intn(9), uint64(1+t*1000), 8, 2+r.Intn(3))
				for i := range f {
					f[i].attrs = nil
				}
				spans = append(spans, f...)
			}
			var docs []teSpan
			docBase := r.Intn(1 << 15)
			for k := 1 + r.Intn(3); k > 0; k-- {
				p := spans[r.Intn(len(spans))]
				e := teSpan{raw: true, trace: p.trace, sid: fmt.Sprintf("dd%04x", docBase+k), pid: p.sid, svc: fmt.Sprintf("s%d", 1+r.Intn(4)), name: "doc", start: p.start + 1000, end: p.start + 2001000,
					status: []string{"1", "2"}[r.Intn(2)], durSpec: g.badDur()}
				if r.Intn(4) == 0 {
					e.pid = "" // a root that no view can read
				}
				docs = append(docs, e)
			}
			if r.Intn(3) == 0 { // a proper span whose parent is such a document
				i := r.Intn(len(spans))
				if spans[i].pid != "" {
					spans[i].pid = docs[0].sid
				}
			}
			reqs := g.split(spans, 1+r.Intn(3))
			for len(docs) > 0 { // the documents in one or several bulk requests, anywhere between the OTLP requests
				k := 1 + r.Intn(len(docs))
				at := r.Intn(len(reqs) + 1)
				reqs = append(reqs[:at], append([]teReq{{raw: true, ev: docs[:k]}}, reqs[at:]...)...)
				docs = docs[k:]
			}
			if r.Intn(3) == 0 {
				reqs = append(reqs, reqs[r.Intn(len(reqs))]) // a re-sent request
			}
			out = append(out, teLine([]int{1000, 1, 2, 3, 5}[r.Intn(5)], r.Intn(3), reqs))
		default: // anything: mixed
			spans := g.forest(newTrace(), 1+r.Intn(25), uint64(1+r.Intn(1000)), []int{8, 8, 4, 1}[r.Intn(4)], 1+r.Intn(4))
			if len(spans) > 200 {
				continue
			}
			if r.Intn(2) == 0 {
				spans = g.malform(spans, true)
			}
			reqs := g.split(spans, 1+r.Intn(3))
			if r.Intn(10) == 0 { // span ids reused by another trace, delivered in later requests (the global id -> service
				// maps of the dependency graph and of RED depend on the record order, which is fixed across requests only)
				o := g.forest(newTrace(), 1+r.Intn(5), 1, 8, 2)
				for i := range o {
					if i < len(spans) && spans[i].sid != "" {
						o[i].sid = spans[i].sid
					}
				}
				reqs = append(reqs, g.split(o, 1+r.Intn(2))...)
			}
			if r.Intn(5) == 0 {
				reqs = append(reqs, g.rawDocs(spans, 1+r.Intn(3)))
			}
			page := 1000
			if r.Intn(2) == 0 {
				page = 1 + r.Intn(9)
			}
			out = append(out, teLine(page, r.Intn(5), reqs))
		}
	}
	return out[:n]
}
